(* Lemmas about Model/SessionSub.v used by Props/C11.v. *)
From Coq Require Import NArith ZArith List Bool Lia.
From AV Require Import Model.SessionSub.
Import ListNotations.
Open Scope N_scope.

(* ------------------------------------------------------------------ association lists *)
Section Assoc.
Context {A : Type}.
Implicit Types (l : list (N * A)) (k : N).

Lemma lookup_assoc_set_same : forall l k v, lookup k (assoc_set k v l) = Some v.
Proof.
  induction l as [|[k' v'] r IH]; intros k v; simpl.
  - now rewrite N.eqb_refl.
  - destruct (k' =? k) eqn:E; simpl.
    + now rewrite N.eqb_refl.
    + now rewrite E.
Qed.

Lemma lookup_assoc_set_other : forall l k k' v, k' <> k -> lookup k' (assoc_set k v l) = lookup k' l.
Proof.
  induction l as [|[k0 v0] r IH]; intros k k' v Hne; simpl.
  - destruct (k =? k') eqn:E; [apply N.eqb_eq in E; congruence | reflexivity].
  - destruct (k0 =? k) eqn:E; simpl.
    + apply N.eqb_eq in E; subst k0.
      destruct (k =? k') eqn:E'; [apply N.eqb_eq in E'; congruence | reflexivity].
    + destruct (k0 =? k'); [reflexivity | now apply IH].
Qed.

Lemma lookup_remove_key_other : forall l k k', k' <> k -> lookup k' (remove_key k l) = lookup k' l.
Proof.
  induction l as [|[k0 v0] r IH]; intros k k' Hne; simpl; [reflexivity|].
  destruct (k0 =? k) eqn:E; simpl.
  - apply N.eqb_eq in E; subst k0.
    destruct (k =? k') eqn:E'; [apply N.eqb_eq in E'; congruence | reflexivity].
  - destruct (k0 =? k'); [reflexivity | now apply IH].
Qed.

Lemma lookup_None_keys : forall l k, lookup k l = None <-> ~ In k (keys l).
Proof.
  induction l as [|[k0 v0] r IH]; intros k; simpl.
  - tauto.
  - destruct (k0 =? k) eqn:E.
    + apply N.eqb_eq in E; subst. split; [discriminate | tauto].
    + apply N.eqb_neq in E. rewrite IH. tauto.
Qed.

Lemma lookup_Some_keys : forall l k v, lookup k l = Some v -> In k (keys l).
Proof.
  intros l k v H. destruct (in_dec N.eq_dec k (keys l)) as [i|n]; [exact i|].
  apply lookup_None_keys in n. congruence.
Qed.

Lemma keys_In_lookup : forall l k, In k (keys l) -> exists v, lookup k l = Some v.
Proof.
  intros l k H. destruct (lookup k l) eqn:E; [eauto|]. apply lookup_None_keys in E. tauto.
Qed.

Lemma lookup_app : forall l1 l2 k,
  lookup k (l1 ++ l2) = match lookup k l1 with Some v => Some v | None => lookup k l2 end.
Proof.
  induction l1 as [|[k0 v0] r IH]; intros; simpl; [reflexivity|].
  destruct (k0 =? k); [reflexivity | apply IH].
Qed.

Lemma keys_app : forall l1 l2, keys (l1 ++ l2) = keys l1 ++ keys l2.
Proof. intros. unfold keys. apply map_app. Qed.

Lemma keys_assoc_set_present : forall l k v, In k (keys l) -> keys (assoc_set k v l) = keys l.
Proof.
  induction l as [|[k0 v0] r IH]; intros k v H; simpl in *; [tauto|].
  destruct (k0 =? k) eqn:E; simpl.
  - apply N.eqb_eq in E. now subst.
  - f_equal. apply IH. destruct H as [H|H]; [apply N.eqb_neq in E; congruence | exact H].
Qed.

Lemma keys_assoc_set_absent : forall l k v, ~ In k (keys l) -> keys (assoc_set k v l) = keys l ++ [k].
Proof.
  induction l as [|[k0 v0] r IH]; intros k v H; simpl in *; [reflexivity|].
  destruct (k0 =? k) eqn:E; simpl.
  - apply N.eqb_eq in E. tauto.
  - f_equal. apply IH. tauto.
Qed.

Lemma keys_remove_key_incl : forall l k x, In x (keys (remove_key k l)) -> In x (keys l).
Proof.
  induction l as [|[k0 v0] r IH]; intros k x H; simpl in *; [tauto|].
  destruct (k0 =? k); simpl in *; [tauto|]. destruct H; [tauto | right; eauto].
Qed.

Lemma keys_remove_key_nodup : forall l k, NoDup (keys l) -> NoDup (keys (remove_key k l)).
Proof.
  induction l as [|[k0 v0] r IH]; intros k H; simpl in *; [constructor|].
  inversion H; subst. destruct (k0 =? k); simpl; [assumption|].
  constructor; [|now apply IH]. intro Hin. apply keys_remove_key_incl in Hin. tauto.
Qed.

Lemma keys_remove_key_notin : forall l k, NoDup (keys l) -> ~ In k (keys (remove_key k l)).
Proof.
  induction l as [|[k0 v0] r IH]; intros k H; simpl in *; [tauto|].
  inversion H; subst. destruct (k0 =? k) eqn:E; simpl.
  - apply N.eqb_eq in E. now subst.
  - apply N.eqb_neq in E. intros [Hx|Hx]; [congruence|]. now apply IH in Hx.
Qed.

Lemma lookup_remove_key_same : forall l k, NoDup (keys l) -> lookup k (remove_key k l) = None.
Proof. intros. apply lookup_None_keys. now apply keys_remove_key_notin. Qed.

Lemma remove_key_other_in : forall l k x, x <> k -> In x (keys l) -> In x (keys (remove_key k l)).
Proof.
  intros l k x Hne Hin. apply keys_In_lookup in Hin. destruct Hin as [v Hv].
  rewrite <- (lookup_remove_key_other l k x Hne) in Hv. eapply lookup_Some_keys; eauto.
Qed.
End Assoc.

Lemma memN_In : forall x l, memN x l = true <-> In x l.
Proof.
  induction l as [|y r IH]; simpl; [split; [discriminate|tauto]|].
  rewrite orb_true_iff, IH, N.eqb_eq. split; intros [H|H]; auto.
Qed.

(* hold / deactivate only touch flags *)
Lemma keys_hold : forall ls objs, keys (hold ls objs) = keys objs.
Proof. induction objs as [|[l o] r IH]; simpl; [reflexivity | now rewrite IH]. Qed.
Lemma keys_deactivate : forall ls objs, keys (deactivate ls objs) = keys objs.
Proof. induction objs as [|[l o] r IH]; simpl; [reflexivity | now rewrite IH]. Qed.

Lemma lookup_hold : forall ls objs l,
  lookup l (hold ls objs) =
  match lookup l objs with
  | Some o => Some (if memN l ls then {| so_id := so_id o; so_active := so_active o; so_held := true |} else o)
  | None => None
  end.
Proof.
  induction objs as [|[l0 o0] r IH]; intros l; simpl; [reflexivity|].
  destruct (l0 =? l) eqn:E; [apply N.eqb_eq in E; now subst | apply IH].
Qed.

Lemma lookup_deactivate : forall ls objs l,
  lookup l (deactivate ls objs) =
  match lookup l objs with
  | Some o => Some (if memN l ls then {| so_id := so_id o; so_active := false; so_held := so_held o |} else o)
  | None => None
  end.
Proof.
  induction objs as [|[l0 o0] r IH]; intros l; simpl; [reflexivity|].
  destruct (l0 =? l) eqn:E; [apply N.eqb_eq in E; now subst | apply IH].
Qed.

(* ------------------------------------------------------------------ list.remove *)
Lemma remove_label_incl : forall l lst e, In e (remove_label l lst) -> In e lst.
Proof.
  induction lst as [|x r IH]; simpl; intros e H; [tauto|].
  destruct (se_label x =? l); [tauto|]. destruct H; [tauto | right; auto].
Qed.

Lemma remove_label_nodup : forall l lst, NoDup (labels lst) -> NoDup (labels (remove_label l lst)).
Proof.
  induction lst as [|x r IH]; simpl; intros H; [constructor|].
  inversion H; subst. destruct (se_label x =? l); simpl; [assumption|].
  constructor; [|auto]. intro Hin. apply in_map_iff in Hin. destruct Hin as [e [He Hin]].
  apply remove_label_incl in Hin. apply H2. rewrite <- He. now apply in_map.
Qed.

Lemma remove_label_notin : forall l lst, NoDup (labels lst) -> ~ In l (labels (remove_label l lst)).
Proof.
  induction lst as [|x r IH]; simpl; intros H; [tauto|].
  inversion H; subst. destruct (se_label x =? l) eqn:E; simpl.
  - apply N.eqb_eq in E. now subst.
  - apply N.eqb_neq in E. intros [Hx|Hx]; [congruence | now apply IH in Hx].
Qed.

Lemma remove_label_other : forall l lst x, x <> l -> In x (labels lst) -> In x (labels (remove_label l lst)).
Proof.
  induction lst as [|e r IH]; simpl; intros x Hne H; [tauto|].
  destruct (se_label e =? l) eqn:E; simpl.
  - apply N.eqb_eq in E. destruct H; [congruence | assumption].
  - destruct H; [now left | right; auto].
Qed.

Lemma has_label_In : forall l lst, has_label l lst = true <-> In l (labels lst).
Proof.
  induction lst as [|e r IH]; simpl; [split; [discriminate | tauto]|].
  rewrite orb_true_iff, IH, N.eqb_eq. tauto.
Qed.

(* the list becomes empty exactly when the removed handler was the only one *)
Lemma remove_label_nil : forall l lst, In l (labels lst) -> (remove_label l lst = [] <-> labels lst = [l]).
Proof.
  intros l [|e [|e2 r]] H; simpl in *.
  - tauto.
  - destruct H as [H|[]]. subst. rewrite N.eqb_refl. tauto.
  - destruct (se_label e =? l); split; intro X; discriminate.
Qed.

(* ------------------------------------------------------------------ output classification *)
Lemma invocations_app : forall a b, invocations (a ++ b) = invocations a ++ invocations b.
Proof.
  induction a as [|o r IH]; intros; simpl; [reflexivity|].
  destruct o; simpl; rewrite ?IH; reflexivity.
Qed.

Lemma invoked_labels_app : forall a b, invoked_labels (a ++ b) = invoked_labels a ++ invoked_labels b.
Proof. intros. unfold invoked_labels. now rewrite invocations_app, map_app. Qed.

Lemma invocations_filter_imm : forall os, invocations (filter is_immediate os) = invocations os.
Proof. induction os as [|o r IH]; simpl; [reflexivity|]. destruct o; simpl; rewrite ?IH; reflexivity. Qed.

Lemma invocations_filter_not_imm : forall p os, (forall o, p o = true -> is_immediate o = false) ->
  invocations (filter p os) = [].
Proof.
  intros p os H. induction os as [|o r IH]; simpl; [reflexivity|].
  destruct (p o) eqn:E; [|exact IH]. apply H in E. destruct o; simpl in *; try discriminate; exact IH.
Qed.

Lemma invocations_order : forall fl os, invocations (order fl os) = invocations os.
Proof.
  intros [] os; simpl; [reflexivity|].
  rewrite !invocations_app, invocations_filter_imm.
  rewrite (invocations_filter_not_imm (fun o => negb (is_immediate o) && negb (is_gather o))).
  - rewrite (invocations_filter_not_imm is_gather); [now rewrite app_nil_r|].
    intros [] H; simpl in *; congruence.
  - intros o H. apply andb_true_iff in H. destruct H as [H _]. now apply negb_true_iff in H.
Qed.

(* membership is insensitive to the asyncio reordering *)
Lemma In_order : forall fl os o, In o (order fl os) <-> In o os.
Proof.
  intros [] os o; simpl; [tauto|].
  rewrite !in_app_iff, !filter_In. split.
  - intros [[H _]|[[H _]|[H _]]]; exact H.
  - intro H. destruct (is_immediate o) eqn:E1; [left; tauto|].
    destruct (is_gather o) eqn:E2; [right; right; tauto|]. right; left. split; [exact H | reflexivity].
Qed.

Lemma filter_order_imm : forall p fl os, (forall o, p o = true -> is_immediate o = true) ->
  filter p (order fl os) = filter p os.
Proof.
  intros p [] os Hp; simpl; [reflexivity|].
  rewrite !filter_app.
  assert (E1 : filter p (filter is_immediate os) = filter p os).
  { induction os as [|o r IH]; simpl; [reflexivity|].
    destruct (is_immediate o) eqn:Ei; simpl.
    - destruct (p o); now rewrite IH.
    - destruct (p o) eqn:Ep; [apply Hp in Ep; congruence | exact IH]. }
  assert (E2 : forall q, (forall o, q o = true -> is_immediate o = false) -> filter p (filter q os) = []).
  { clear E1. intros q Hq. induction os as [|o r IH]; simpl; [reflexivity|].
    destruct (q o) eqn:Eq; [|exact IH]. simpl. destruct (p o) eqn:Ep; [|exact IH].
    apply Hp in Ep. apply Hq in Eq. congruence. }
  rewrite E1, !E2; [now rewrite app_nil_r| |].
  - intros [] H; simpl in *; congruence.
  - intros o H. apply andb_true_iff in H. destruct H as [H _]. now apply negb_true_iff in H.
Qed.

Lemma nodup_snoc : forall (l : list N) x, NoDup l -> ~ In x l -> NoDup (l ++ [x]).
Proof.
  induction l as [|y r IH]; intros x Hn Hx; simpl.
  - constructor; [tauto | constructor].
  - inversion Hn; subst. constructor.
    + rewrite in_app_iff. simpl. intros [H|[H|[]]]; [tauto | subst; apply Hx; now left].
    + apply IH; [assumption | intro; apply Hx; now right].
Qed.

Lemma labels_app : forall a b, labels (a ++ b) = labels a ++ labels b.
Proof. intros. unfold labels. apply map_app. Qed.

Lemma In_labels : forall l lst, In l (labels lst) -> exists e, In e lst /\ se_label e = l.
Proof. intros l lst H. apply in_map_iff in H. destruct H as [e [H1 H2]]. eauto. Qed.

Lemma hold_nil : forall objs, hold [] objs = objs.
Proof. induction objs as [|[l o] r IH]; simpl; [reflexivity | now rewrite IH]. Qed.

Lemma lookup_hold_inv : forall hs objs l o', lookup l (hold hs objs) = Some o' ->
  exists o, lookup l objs = Some o /\ so_active o' = so_active o /\ so_id o' = so_id o.
Proof.
  intros hs objs l o' H. rewrite lookup_hold in H. destruct (lookup l objs) as [o|]; [|discriminate].
  exists o. split; [reflexivity|]. inversion H. destruct (memN l hs); simpl; tauto.
Qed.

Lemma lookup_hold_fwd : forall hs objs l o, lookup l objs = Some o ->
  exists o', lookup l (hold hs objs) = Some o' /\ so_active o' = so_active o /\ so_id o' = so_id o.
Proof.
  intros hs objs l o H. rewrite lookup_hold, H. eexists. split; [reflexivity|].
  destruct (memN l hs); simpl; tauto.
Qed.

Lemma lookup_hold_none : forall hs objs l, lookup l objs = None -> lookup l (hold hs objs) = None.
Proof. intros. now rewrite lookup_hold, H. Qed.

(* self._subscriptions[id].append(subscription), creating the list when missing *)
Lemma lookup_append_sub : forall sid e subs sid0,
  lookup sid0 (append_sub sid e subs) =
  if sid0 =? sid then Some (match lookup sid subs with Some l => l | None => [] end ++ [e]) else lookup sid0 subs.
Proof.
  intros sid e subs sid0. unfold append_sub. destruct (lookup sid subs) as [lst|] eqn:E.
  - destruct (sid0 =? sid) eqn:E0.
    + apply N.eqb_eq in E0. subst. apply lookup_assoc_set_same.
    + apply N.eqb_neq in E0. now apply lookup_assoc_set_other.
  - rewrite lookup_app. destruct (sid0 =? sid) eqn:E0.
    + apply N.eqb_eq in E0. subst. rewrite E. simpl. now rewrite N.eqb_refl.
    + destruct (lookup sid0 subs); [reflexivity|]. simpl. rewrite N.eqb_sym, E0. reflexivity.
Qed.

Lemma keys_append_sub : forall sid e subs x,
  In x (keys (append_sub sid e subs)) <-> x = sid \/ In x (keys subs).
Proof.
  intros sid e subs x. unfold append_sub. destruct (lookup sid subs) as [lst|] eqn:E.
  - rewrite keys_assoc_set_present by (eapply lookup_Some_keys; eauto).
    split; [tauto|]. intros [H|H]; [subst; eapply lookup_Some_keys; eauto | exact H].
  - rewrite keys_app, in_app_iff. simpl. intuition.
Qed.

Lemma keys_append_sub_nodup : forall sid e subs, NoDup (keys subs) -> NoDup (keys (append_sub sid e subs)).
Proof.
  intros sid e subs H. unfold append_sub. destruct (lookup sid subs) as [lst|] eqn:E.
  - rewrite keys_assoc_set_present by (eapply lookup_Some_keys; eauto). exact H.
  - rewrite keys_app. simpl. apply nodup_snoc; [exact H|]. now apply lookup_None_keys.
Qed.

(* ------------------------------------------------------------------ the invariant of reachable states *)
Record Inv (s : sess) : Prop := {
  (* a listed subscription is an existing, active object of that very id *)
  inv_att : forall sid lst e, lookup sid (s_subs s) = Some lst -> In e lst ->
            exists o, lookup (se_label e) (s_objs s) = Some o /\ so_active o = true /\ so_id o = sid;
  inv_lst_nodup : forall sid lst, lookup sid (s_subs s) = Some lst -> NoDup (labels lst);
  inv_subs_nodup : NoDup (keys (s_subs s));
  (* a pending SUBSCRIBE has not produced an object yet; request ids are unique and below the generator *)
  inv_req_fresh : forall r, In r (keys (s_subreqs s)) -> lookup r (s_objs s) = None;
  inv_req_nodup : NoDup (keys (s_subreqs s));
  inv_req_le : forall r, In r (keys (s_subreqs s)) -> r <= s_next s;
  inv_obj_le : forall l, In l (keys (s_objs s)) -> l <= s_next s;
  inv_ever : forall sid, In sid (keys (s_subs s)) -> In sid (s_ever s);
  inv_joined : s_joined s = s_transport s;
  (* an active subscription object is listed under its id *)
  inv_active_att : forall l o, lookup l (s_objs s) = Some o -> so_active o = true ->
                   In l (labels (attached s (so_id o)));
  inv_ureq_le : forall r, In r (keys (s_unsubreqs s)) -> r <= s_next s }.

Lemma Inv_init : Inv init.
Proof.
  constructor; simpl; try discriminate; try tauto; try constructor.
Qed.

(* changes that only hand objects over, drop pending requests, advance the id generator, touch other tables *)
Lemma Inv_hold : forall s s' hs, Inv s ->
  s_subs s' = s_subs s -> s_objs s' = hold hs (s_objs s) ->
  (forall r, In r (keys (s_subreqs s')) -> In r (keys (s_subreqs s))) -> NoDup (keys (s_subreqs s')) ->
  s_ever s' = s_ever s -> s_joined s' = s_transport s' -> s_next s <= s_next s' ->
  (forall r, In r (keys (s_unsubreqs s')) -> r <= s_next s') -> Inv s'.
Proof.
  intros s s' hs I Hs Ho Hr Hn He Hj Hx Hu. constructor.
  - intros sid lst e H1 H2. rewrite Hs in H1. destruct (inv_att s I _ _ _ H1 H2) as [o [A [B C]]].
    rewrite Ho. destruct (lookup_hold_fwd hs _ _ _ A) as [o' [A' [B' C']]]. exists o'. repeat split; congruence.
  - intros sid lst H. rewrite Hs in H. eapply inv_lst_nodup; eauto.
  - rewrite Hs. now apply inv_subs_nodup.
  - intros r H. rewrite Ho. apply lookup_hold_none. apply (inv_req_fresh s I). auto.
  - exact Hn.
  - intros r H. apply Hr in H. apply (inv_req_le s I) in H. lia.
  - intros l H. rewrite Ho, keys_hold in H. apply (inv_obj_le s I) in H. lia.
  - intros sid H. rewrite Hs in H. rewrite He. now apply (inv_ever s I).
  - exact Hj.
  - intros l o H1 H2. rewrite Ho in H1. destruct (lookup_hold_inv _ _ _ _ H1) as [o0 [A [B C]]].
    unfold attached. rewrite Hs, C. apply (inv_active_att s I l o0 A). congruence.
  - exact Hu.
Qed.

Lemma Inv_same : forall s s', Inv s ->
  s_subs s' = s_subs s -> s_objs s' = s_objs s -> s_subreqs s' = s_subreqs s ->
  s_ever s' = s_ever s -> s_joined s' = s_transport s' -> s_next s <= s_next s' ->
  (forall r, In r (keys (s_unsubreqs s')) -> r <= s_next s') -> Inv s'.
Proof.
  intros s s' I Hs Ho Hr He Hj Hx Hu. apply (Inv_hold s s' [] I); auto.
  - now rewrite hold_nil.
  - now rewrite Hr.
  - rewrite Hr. apply (inv_req_nodup s I).
Qed.

(* ---- subscribe *)
(* ---- subscribe: recording the request; handing futures / objects over *)
Lemma record_sub_inv : forall s h t g, Inv s -> Inv (record_sub s h t g).
Proof.
  intros s h t g I. unfold record_sub. constructor; simpl.
  - apply (inv_att s I).
  - apply (inv_lst_nodup s I).
  - apply (inv_subs_nodup s I).
  - intros r H. rewrite keys_app, in_app_iff in H. simpl in H. destruct H as [H|[H|[]]].
    + now apply (inv_req_fresh s I).
    + subst r. apply lookup_None_keys. intro X. apply (inv_obj_le s I) in X. lia.
  - rewrite keys_app. simpl. apply nodup_snoc; [apply (inv_req_nodup s I)|].
    intro X. apply (inv_req_le s I) in X. lia.
  - intros r H. rewrite keys_app, in_app_iff in H. simpl in H. destruct H as [H|[H|[]]].
    + apply (inv_req_le s I) in H. lia.
    + lia.
  - intros l H. apply (inv_obj_le s I) in H. lia.
  - apply (inv_ever s I).
  - apply (inv_joined s I).
  - apply (inv_active_att s I).
  - intros r H. apply (inv_ureq_le s I) in H. lia.
Qed.

Lemma set_gathers_inv : forall s gs hs, Inv s -> Inv (set_gathers s gs (hold hs (s_objs s))).
Proof.
  intros s gs hs I. apply (Inv_hold s _ hs I); simpl; auto; [apply (inv_req_nodup s I) | apply (inv_joined s I) | lia | apply (inv_ureq_le s I)].
Qed.

Lemma set_objs_inv : forall s ls, Inv s -> Inv (set_objs s (hold ls (s_objs s))).
Proof.
  intros s ls I. apply (Inv_hold s _ ls I); simpl; auto; [apply (inv_req_nodup s I) | apply (inv_joined s I) | lia | apply (inv_ureq_le s I)].
Qed.

Lemma set_objs_id : forall s, set_objs s (s_objs s) = s.
Proof. intros []; reflexivity. Qed.
Lemma set_gathers_id : forall s, set_gathers s (s_gathers s) (s_objs s) = s.
Proof. intros []; reflexivity. Qed.

Definition unsub_core (s : sess) (l : N) (o : subobj) (lst : list subent) : sess :=
  {| s_transport := s_transport s; s_joined := s_joined s; s_next := s_next s; s_subreqs := s_subreqs s;
     s_unsubreqs := s_unsubreqs s;
     s_subs := assoc_set (so_id o) (remove_label l lst) (s_subs s);
     s_objs := assoc_set l {| so_id := so_id o; so_active := false; so_held := so_held o |} (s_objs s);
     s_gathers := s_gathers s; s_ever := s_ever s |}.

Lemma unsub_core_inv : forall s l o lst, Inv s ->
  lookup l (s_objs s) = Some o -> lookup (so_id o) (s_subs s) = Some lst -> Inv (unsub_core s l o lst).
Proof.
  intros s l o lst I Ho Hl.
  assert (Hnd : NoDup (labels lst)) by (eapply inv_lst_nodup; eauto).
  assert (Hko : In l (keys (s_objs s))) by (eapply lookup_Some_keys; eauto).
  assert (Hks : In (so_id o) (keys (s_subs s))) by (eapply lookup_Some_keys; eauto).
  constructor; unfold unsub_core; simpl.
  - intros sid lst0 e H1 H2. destruct (N.eq_dec sid (so_id o)) as [->|Hne].
    + rewrite lookup_assoc_set_same in H1. inversion H1; subst lst0.
      assert (Hlab : se_label e <> l).
      { intro X. apply (remove_label_notin l lst Hnd). unfold labels. apply in_map_iff. exists e. now split. }
      apply remove_label_incl in H2. destruct (inv_att s I _ _ _ Hl H2) as [oe [A [B C]]].
      exists oe. rewrite lookup_assoc_set_other by exact Hlab. tauto.
    + rewrite lookup_assoc_set_other in H1 by exact Hne.
      destruct (inv_att s I _ _ _ H1 H2) as [oe [A [B C]]].
      assert (Hlab : se_label e <> l). { intro X. rewrite X in A. congruence. }
      exists oe. rewrite lookup_assoc_set_other by exact Hlab. tauto.
  - intros sid lst0 H1. destruct (N.eq_dec sid (so_id o)) as [->|Hne].
    + rewrite lookup_assoc_set_same in H1. inversion H1. now apply remove_label_nodup.
    + rewrite lookup_assoc_set_other in H1 by exact Hne. eapply inv_lst_nodup; eauto.
  - rewrite keys_assoc_set_present by exact Hks. apply (inv_subs_nodup s I).
  - intros r H. pose proof (inv_req_fresh s I r H) as X.
    rewrite lookup_assoc_set_other; [exact X | intro E; subst; congruence].
  - apply (inv_req_nodup s I).
  - apply (inv_req_le s I).
  - rewrite keys_assoc_set_present by exact Hko. apply (inv_obj_le s I).
  - rewrite keys_assoc_set_present by exact Hks. apply (inv_ever s I).
  - apply (inv_joined s I).
  - intros l0 o0 H1 H2. destruct (N.eq_dec l0 l) as [->|Hne].
    + rewrite lookup_assoc_set_same in H1. inversion H1; subst o0. discriminate.
    + rewrite lookup_assoc_set_other in H1 by exact Hne.
      pose proof (inv_active_att s I l0 o0 H1 H2) as X. unfold attached in *. simpl.
      destruct (N.eq_dec (so_id o0) (so_id o)) as [E|E].
      * rewrite E in *. rewrite lookup_assoc_set_same. rewrite Hl in X. now apply remove_label_other.
      * rewrite lookup_assoc_set_other by exact E. exact X.
  - apply (inv_ureq_le s I).
Qed.

Lemma api_unsubscribe_cases : forall s l,
  api_unsubscribe s l = (s, []) \/ (exists e, api_unsubscribe s l = (s, [ORaised e])) \/
  exists o lst, lookup l (s_objs s) = Some o /\ so_held o = true /\ so_active o = true /\
    lookup (so_id o) (s_subs s) = Some lst /\ In l (labels lst) /\ s_transport s = true /\
    ((remove_label l lst = [] /\
      api_unsubscribe s l =
        ({| s_transport := s_transport s; s_joined := s_joined s; s_next := s_next s + 1; s_subreqs := s_subreqs s;
            s_unsubreqs := s_unsubreqs s ++ [(s_next s + 1, {| ur_sub := so_id o; ur_obj := l |})];
            s_subs := s_subs (unsub_core s l o lst); s_objs := s_objs (unsub_core s l o lst);
            s_gathers := s_gathers s; s_ever := s_ever s |}, [OSent (MUnsubscribe (s_next s + 1) (so_id o))]))
     \/ (remove_label l lst <> [] /\
         api_unsubscribe s l = (unsub_core s l o lst, [ODoneU l (RNum (N.of_nat (length (remove_label l lst))))]))).
Proof.
  intros s l. unfold api_unsubscribe.
  destruct (lookup l (s_objs s)) as [o|] eqn:Ho; [|now left].
  destruct (so_held o) eqn:Hh; simpl; [|now left].
  destruct (so_active o) eqn:Ha; simpl; [|right; left; eauto].
  destruct (lookup (so_id o) (s_subs s)) as [lst|] eqn:Hl; [|right; left; eauto].
  destruct (has_label l lst) eqn:Hm; simpl; [|right; left; eauto].
  destruct (s_transport s) eqn:Ht; simpl; [|right; left; eauto].
  right; right. exists o, lst. apply has_label_In in Hm. repeat (split; [assumption || reflexivity|]).
  destruct (remove_label l lst) as [|x r] eqn:Er.
  - left. split; [reflexivity|]. unfold unsub_core. cbn [s_subs s_objs]. rewrite ?Er, ?Hh. reflexivity.
  - right. split; [discriminate|]. unfold unsub_core. rewrite ?Er, ?Hh, ?Ht. reflexivity.
Qed.

Lemma api_unsubscribe_inv : forall s l, Inv s -> Inv (fst (api_unsubscribe s l)).
Proof.
  intros s l I. destruct (api_unsubscribe_cases s l) as [E|[[e E]|[o [lst [Ho [Hh [Ha [Hl [Hm [Ht [[Er E]|[Er E]]]]]]]]]]]];
    rewrite E; simpl; try exact I.
  - pose proof (unsub_core_inv s l o lst I Ho Hl) as I1.
    apply (Inv_same (unsub_core s l o lst)); simpl; auto; [apply (inv_joined s I) | lia|].
    intros r H. rewrite keys_app, in_app_iff in H. simpl in H. destruct H as [H|[H|[]]]; [apply (inv_ureq_le s I) in H|]; lia.
  - now apply unsub_core_inv.
Qed.

(* ---- SUBSCRIBED *)
Lemma on_subscribed_inv : forall now s req sid, Inv s -> Inv (fst (fst (on_subscribed now s req sid))).
Proof.
  intros now s req sid I. unfold on_subscribed. destruct (lookup req (s_subreqs s)) as [rq|] eqn:Hr; [|exact I].
  destruct (complete_sub (s_gathers s) req rq (RSub sid)) as [[gs o] hs0]. simpl.
  set (hs := if now then hs0 else []).
  assert (Hk : In req (keys (s_subreqs s))) by (eapply lookup_Some_keys; eauto).
  assert (Hnone : lookup req (s_objs s) = None) by now apply (inv_req_fresh s I).
  set (onew := {| so_id := sid; so_active := true; so_held := false |}).
  set (e := {| se_label := req; se_topic := sr_topic rq; se_handler := sr_handler rq |}).
  assert (Hold : forall l o0, lookup l (s_objs s) = Some o0 ->
            exists o', lookup l (hold hs (s_objs s ++ [(req, onew)])) = Some o' /\
                       so_active o' = so_active o0 /\ so_id o' = so_id o0).
  { intros l o0 H. apply lookup_hold_fwd. rewrite lookup_app, H. reflexivity. }
  assert (Hnew : exists o', lookup req (hold hs (s_objs s ++ [(req, onew)])) = Some o' /\
                       so_active o' = true /\ so_id o' = sid).
  { apply (lookup_hold_fwd hs _ req onew). rewrite lookup_app, Hnone. simpl. now rewrite N.eqb_refl. }
  constructor; simpl.
  - intros sid0 lst0 e0 H1 H2. rewrite lookup_append_sub in H1. destruct (sid0 =? sid) eqn:E0.
    + apply N.eqb_eq in E0. subst sid0. inversion H1; subst lst0. apply in_app_iff in H2. destruct H2 as [H2|[H2|[]]].
      * destruct (lookup sid (s_subs s)) as [lst|] eqn:El; [|destruct H2].
        destruct (inv_att s I _ _ _ El H2) as [oe [A [B C]]]. destruct (Hold _ _ A) as [o' [A' [B' C']]].
        exists o'. repeat split; congruence.
      * subst e0. exact Hnew.
    + destruct (inv_att s I _ _ _ H1 H2) as [oe [A [B C]]]. destruct (Hold _ _ A) as [o' [A' [B' C']]].
      exists o'. repeat split; congruence.
  - intros sid0 lst0 H1. rewrite lookup_append_sub in H1. destruct (sid0 =? sid) eqn:E0.
    + inversion H1. rewrite labels_app. simpl. apply nodup_snoc.
      * destruct (lookup sid (s_subs s)) as [lst|] eqn:El; [eapply inv_lst_nodup; eauto | constructor].
      * intro X. destruct (lookup sid (s_subs s)) as [lst|] eqn:El; [|destruct X].
        apply In_labels in X. destruct X as [e0 [X1 X2]].
        destruct (inv_att s I _ _ _ El X1) as [oe [A _]]. rewrite X2 in A. congruence.
    + eapply inv_lst_nodup; eauto.
  - apply keys_append_sub_nodup. apply (inv_subs_nodup s I).
  - intros r H. assert (r <> req) by (intro; subst; revert H; apply keys_remove_key_notin, (inv_req_nodup s I)).
    apply keys_remove_key_incl in H. apply lookup_hold_none. rewrite lookup_app, (inv_req_fresh s I r H). simpl.
    destruct (req =? r) eqn:E; [apply N.eqb_eq in E; congruence | reflexivity].
  - apply keys_remove_key_nodup, (inv_req_nodup s I).
  - intros r H. apply keys_remove_key_incl in H. now apply (inv_req_le s I).
  - intros l H. rewrite keys_hold, keys_app, in_app_iff in H. simpl in H. destruct H as [H|[H|[]]].
    + now apply (inv_obj_le s I).
    + subst l. now apply (inv_req_le s I).
  - intros sid0 H. apply keys_append_sub in H. destruct H as [H|H]; [now left | right; now apply (inv_ever s I)].
  - apply (inv_joined s I).
  - intros l o0 H1 H2. destruct (lookup_hold_inv _ _ _ _ H1) as [o1 [A [B C]]]. rewrite lookup_app in A.
    unfold attached. simpl. rewrite lookup_append_sub, C.
    destruct (lookup l (s_objs s)) as [o2|] eqn:E2.
    + inversion A; subst o2. assert (Hact : so_active o1 = true) by congruence.
      pose proof (inv_active_att s I l o1 E2 Hact) as X. unfold attached in X.
      destruct (so_id o1 =? sid) eqn:E0; [|exact X].
      apply N.eqb_eq in E0. rewrite E0 in X. rewrite labels_app, in_app_iff. now left.
    + simpl in A. destruct (req =? l) eqn:E; [|discriminate]. apply N.eqb_eq in E. subst l.
      inversion A; subst o1. simpl. rewrite N.eqb_refl, labels_app, in_app_iff. right. simpl. now left.
  - apply (inv_ureq_le s I).
Qed.

(* ---- UNSUBSCRIBED *)
Lemma on_unsubscribed_inv : forall s req, Inv s -> Inv (fst (on_unsubscribed s req)).
Proof.
  intros s req I. unfold on_unsubscribed. destruct (lookup req (s_unsubreqs s)) as [rq|]; [|exact I]. simpl.
  set (sid := ur_sub rq).
  assert (Hmem : forall l o, lookup l (s_objs s) = Some o -> so_active o = true -> so_id o <> sid ->
                 memN l (labels (attached s sid)) = false).
  { intros l o A B C. destruct (memN l (labels (attached s sid))) eqn:E; [|reflexivity].
    apply memN_In, In_labels in E. destruct E as [e [E1 E2]]. unfold attached in E1.
    destruct (lookup sid (s_subs s)) as [lst|] eqn:El; [|destruct E1].
    destruct (inv_att s I _ _ _ El E1) as [oe [A' [B' C']]]. rewrite E2 in A'. congruence. }
  constructor; simpl.
  - intros sid0 lst0 e H1 H2.
    assert (Hne : sid0 <> sid).
    { intro X. subst sid0. rewrite lookup_remove_key_same in H1 by apply (inv_subs_nodup s I). discriminate. }
    rewrite lookup_remove_key_other in H1 by exact Hne.
    destruct (inv_att s I _ _ _ H1 H2) as [oe [A [B C]]]. exists oe.
    rewrite lookup_deactivate, A, (Hmem _ _ A B) by congruence. tauto.
  - intros sid0 lst0 H1.
    destruct (N.eq_dec sid0 sid) as [->|Hne].
    + rewrite lookup_remove_key_same in H1 by apply (inv_subs_nodup s I). discriminate.
    + rewrite lookup_remove_key_other in H1 by exact Hne. eapply inv_lst_nodup; eauto.
  - apply keys_remove_key_nodup, (inv_subs_nodup s I).
  - intros r H. rewrite lookup_deactivate, (inv_req_fresh s I r H). reflexivity.
  - apply (inv_req_nodup s I).
  - apply (inv_req_le s I).
  - rewrite keys_deactivate. apply (inv_obj_le s I).
  - intros sid0 H. apply keys_remove_key_incl in H. now apply (inv_ever s I).
  - apply (inv_joined s I).
  - intros l o H1 H2. rewrite lookup_deactivate in H1. destruct (lookup l (s_objs s)) as [o1|] eqn:E1; [|discriminate].
    destruct (memN l (labels (attached s sid))) eqn:Em.
    + inversion H1; subst o. discriminate.
    + inversion H1; subst o1. pose proof (inv_active_att s I l o E1 H2) as X.
      assert (Hne : so_id o <> sid). { intro E. rewrite E in X. apply memN_In in X. congruence. }
      unfold attached in *. simpl. now rewrite lookup_remove_key_other.
  - intros r H. apply keys_remove_key_incl in H. now apply (inv_ureq_le s I).
Qed.

(* ---- ERROR, transport loss *)
Lemma on_error_inv : forall now s rt req uri, Inv s -> Inv (fst (fst (on_error now s rt req uri))).
Proof.
  intros now s rt req uri I. unfold on_error. destruct (rt =? 32).
  - destruct (lookup req (s_subreqs s)) as [rq|]; [|exact I].
    destruct (complete_sub (s_gathers s) req rq (RErr (EAppError uri))) as [[gs o] hs]. simpl.
    apply (Inv_hold s _ (if now then hs else []) I); simpl; auto.
    + intros r H. eapply keys_remove_key_incl; eauto.
    + apply keys_remove_key_nodup, (inv_req_nodup s I).
    + apply (inv_joined s I).
    + lia.
    + apply (inv_ureq_le s I).
  - destruct (rt =? 34); [|exact I]. destruct (lookup req (s_unsubreqs s)) as [rq|]; [|exact I]. simpl.
    apply (Inv_same s); simpl; auto; [apply (inv_joined s I) | lia|].
    intros r H. apply keys_remove_key_incl in H. now apply (inv_ureq_le s I).
Qed.

Lemma on_lose_inv : forall s, Inv s -> Inv (fst (on_lose s)).
Proof.
  intros s I. unfold on_lose. destruct (s_joined s).
  - destruct (reject_subs (s_gathers s) (s_subreqs s)) as [[gs o1] hs]. simpl.
    apply (Inv_hold s _ hs I); simpl; auto; [tauto | constructor | lia | tauto].
  - simpl. apply (Inv_same s); simpl; auto; [lia | apply (inv_ureq_le s I)].
Qed.

(* ------------------------------------------------------------------ dispatch: whatever api_unsubscribe preserves *)
Lemma api_unsubscribe_no_invoke : forall s t, invocations (snd (api_unsubscribe s t)) = [].
Proof.
  intros s t. destruct (api_unsubscribe_cases s t) as [E|[[x E]|[o' [lst [_ [_ [_ [_ [_ [_ [[_ E]|[_ E]]]]]]]]]]]];
    rewrite E; reflexivity.
Qed.

Lemma body_unsub_no_invoke : forall ts s, invocations (snd (fst (body_unsub s ts))) = [].
Proof.
  induction ts as [|t r IH]; intros s; simpl; [reflexivity|].
  destruct (lookup t (s_objs s)) as [o|]; [|apply IH].
  destruct (so_held o && so_active o); [|apply IH].
  pose proof (api_unsubscribe_no_invoke s t) as A.
  destruct (api_unsubscribe s t) as [s1 o1]. simpl in A.
  assert (D : invocations (snd (fst (let '(s2, o2, x) := body_unsub s1 r in (s2, o1 ++ o2, x)))) = []).
  { specialize (IH s1). destruct (body_unsub s1 r) as [[s2 o2] x]. simpl in *. now rewrite invocations_app, A, IH. }
  destruct o1 as [|[] [|]]; simpl; try exact D; reflexivity.
Qed.

(* one call: exactly one invocation, of that entry, with exactly the arguments handed in *)
Lemma invoke_invocations : forall s e a kw, invocations (snd (invoke s e a kw)) = [(se_label e, a, kw)].
Proof.
  intros s e a kw. unfold invoke. destruct (negb (accepts (h_sig (se_handler e)) (length a) kw)); [reflexivity|].
  destruct (ill_typed (se_handler e)); [reflexivity|].
  destruct (h_beh (se_handler e)) as [| |ts]; try reflexivity.
  pose proof (body_unsub_no_invoke ts s) as B. destruct (body_unsub s ts) as [[s1 o1] x]. simpl in *.
  rewrite invocations_app, B. destruct x; reflexivity.
Qed.

Definition ri_state (x : sess * list out * list out * list out * list N) : sess := fst (fst (fst (fst x))).
Definition ri_h2 (x : sess * list out * list out * list out * list N) : list N := snd x.
Fixpoint later_of (its : list item) : list subent :=
  match its with
  | [] => []
  | ILater e _ :: r => e :: later_of r
  | _ :: r => later_of r
  end.
(* the calls the Tasks will make *)
Fixpoint later_invs (its : list item) : list invocation :=
  match its with
  | [] => []
  | ILater e ev :: r => expected_invocation ev e :: later_invs r
  | _ :: r => later_invs r
  end.

Lemma now_outs_app : forall a b, now_outs (a ++ b) = now_outs a ++ now_outs b.
Proof. induction a as [|[o|o|e ev|b0 ls] r IH]; intros; simpl; rewrite ?IH; reflexivity. Qed.
Lemma now_outs_map : forall os, now_outs (map INow os) = os.
Proof. induction os; simpl; congruence. Qed.
Lemma now_outs_soon : forall os, now_outs (map ISoon os) = os.
Proof. induction os; simpl; congruence. Qed.
Lemma later_of_app : forall a b, later_of (a ++ b) = later_of a ++ later_of b.
Proof. induction a as [|[o|o|e ev|b0 ls] r IH]; intros; simpl; rewrite ?IH; reflexivity. Qed.
Lemma later_of_map : forall os, later_of (map INow os) = [].
Proof. induction os; simpl; auto. Qed.
Lemma later_invs_app : forall a b, later_invs (a ++ b) = later_invs a ++ later_invs b.
Proof. induction a as [|[o|o|e ev|b0 ls] r IH]; intros; simpl; rewrite ?IH; reflexivity. Qed.
Lemma later_invs_map : forall os, later_invs (map INow os) = [].
Proof. induction os; simpl; auto. Qed.
Lemma later_invs_soon : forall os, later_invs (map ISoon os) = [].
Proof. induction os; simpl; auto. Qed.
Lemma later_invs_labels : forall its, map (fun x => fst (fst x)) (later_invs its) = labels (later_of its).
Proof. induction its as [|[o|o|e ev|b0 ls] r IH]; simpl; rewrite ?IH; reflexivity. Qed.

Section Dispatch.
Variable P : sess -> Prop.
Hypothesis P_unsub : forall s l, P s -> P (fst (api_unsubscribe s l)).

Lemma body_unsub_preserves : forall ts s, P s -> P (fst (fst (body_unsub s ts))).
Proof.
  induction ts as [|t r IH]; intros s Hs; simpl; [exact Hs|].
  destruct (lookup t (s_objs s)) as [o|]; [|now apply IH].
  destruct (so_held o && so_active o); [|now apply IH].
  pose proof (P_unsub s t Hs) as H1. destruct (api_unsubscribe s t) as [s1 o1]. simpl in H1.
  assert (D : forall X : sess * list out * option exn,
            (let '(s2, o2, x) := body_unsub s1 r in (s2, o1 ++ o2, x)) = X -> P (fst (fst X))).
  { intros X E. specialize (IH s1 H1). destruct (body_unsub s1 r) as [[s2 o2] x]. subst X. exact IH. }
  destruct o1 as [|[] [|]]; simpl; try (eapply D; reflexivity); exact H1.
Qed.

Lemma invoke_preserves : forall s e a kw, P s -> P (fst (invoke s e a kw)).
Proof.
  intros s e a kw Hs. unfold invoke. destruct (negb (accepts (h_sig (se_handler e)) (length a) kw)); [exact Hs|].
  destruct (ill_typed (se_handler e)); [exact Hs|].
  destruct (h_beh (se_handler e)) as [| |ts]; try exact Hs.
  pose proof (body_unsub_preserves ts s Hs) as H. destruct (body_unsub s ts) as [[s1 o1] x]. exact H.
Qed.

Lemma deliver_preserves : forall fl snap ev s, P s -> P (fst (deliver fl snap ev s)).
Proof.
  intros fl. induction snap as [|e r IH]; intros ev s Hs; simpl; [exact Hs|].
  destruct (is_active s (se_label e)); [|now apply IH].
  destruct (deferred fl e).
  - specialize (IH ev s Hs). destruct (deliver fl r ev s) as [s2 i2]. exact IH.
  - pose proof (invoke_preserves s e (e_args ev) (build_kwargs e ev) Hs) as H1.
    destruct (invoke s e (e_args ev) (build_kwargs e ev)) as [s1 o1]. simpl in H1.
    specialize (IH ev s1 H1). destruct (deliver fl r ev s1) as [s2 i2]. exact IH.
Qed.

Lemma on_event_preserves : forall fl s ev, P s -> P (fst (on_event fl s ev)).
Proof.
  intros fl s ev Hs. unfold on_event. destruct (lookup (e_sub ev) (s_subs s)) as [lst|]; [|exact Hs].
  now apply deliver_preserves.
Qed.

(* every call made by a dispatch - inside the loop or as a Task - is of a subscription that is active, when its turn
   comes, in a state satisfying P *)
Lemma deliver_invoked : forall fl snap ev s l, P s ->
  In l (invoked_labels (now_outs (snd (deliver fl snap ev s)))) \/ In l (labels (later_of (snd (deliver fl snap ev s)))) ->
  exists s', P s' /\ is_active s' l = true.
Proof.
  intros fl. induction snap as [|e r IH]; intros ev s l Hs Hin; simpl in Hin; [destruct Hin as [[]|[]]|].
  destruct (is_active s (se_label e)) eqn:Ea; [|now apply (IH ev s l Hs)].
  destruct (deferred fl e).
  - specialize (IH ev s l Hs). destruct (deliver fl r ev s) as [s2 i2]. simpl in *.
    destruct Hin as [Hin|[Hin|Hin]]; [apply IH; now left | subst l; eauto | apply IH; now right].
  - pose proof (invoke_preserves s e (e_args ev) (build_kwargs e ev) Hs) as H1.
    pose proof (invoke_invocations s e (e_args ev) (build_kwargs e ev)) as Hi.
    destruct (invoke s e (e_args ev) (build_kwargs e ev)) as [s1 o1]. simpl in H1, Hi.
    specialize (IH ev s1 l H1). destruct (deliver fl r ev s1) as [s2 i2]. simpl in *.
    rewrite now_outs_app, now_outs_map, invoked_labels_app, in_app_iff, later_of_app, later_of_map in Hin. simpl in Hin.
    destruct Hin as [[Hin|Hin]|Hin]; [|apply IH; now left | apply IH; now right].
    unfold invoked_labels in Hin. rewrite Hi in Hin. simpl in Hin. destruct Hin as [<-|[]]. eauto.
Qed.

Lemma on_event_invoked : forall fl s ev l, P s ->
  In l (invoked_labels (now_outs (snd (on_event fl s ev)))) \/ In l (labels (later_of (snd (on_event fl s ev)))) ->
  exists s', P s' /\ is_active s' l = true.
Proof.
  intros fl s ev l Hs Hin. unfold on_event in Hin. destruct (lookup (e_sub ev) (s_subs s)) as [lst|].
  - eapply deliver_invoked; eauto.
  - simpl in Hin. destruct Hin as [[]|[]].
Qed.
End Dispatch.

(* ------------------------------------------------------------------ whole operations: what every primitive preserves *)
Section Stable.
Variable P : sess -> Prop.
Hypothesis HP_unsub : forall s l, P s -> P (fst (api_unsubscribe s l)).
Hypothesis HP_subscribed : forall now s r sid, P s -> P (fst (fst (on_subscribed now s r sid))).
Hypothesis HP_unsubscribed : forall s r, P s -> P (fst (on_unsubscribed s r)).
Hypothesis HP_error : forall now s rt r u, P s -> P (fst (fst (on_error now s rt r u))).
Hypothesis HP_record : forall s h t g, P s -> P (record_sub s h t g).
Hypothesis HP_gathers : forall s gs hs, P s -> P (set_gathers s gs (hold hs (s_objs s))).
Hypothesis HP_hold : forall s ls, P s -> P (set_objs s (hold ls (s_objs s))).
Hypothesis HP_lose : forall s, P s -> P (fst (on_lose s)).

Lemma HP_gathers0 : forall s gs, P s -> P (set_gathers s gs (s_objs s)).
Proof. intros s gs H. rewrite <- (hold_nil (s_objs s)). now apply HP_gathers. Qed.

Lemma on_message_preserves : forall fl s m, P s -> P (fst (on_message fl s m)).
Proof.
  intros fl s m Hs. unfold on_message. destruct (negb (s_joined s)); [exact Hs|]. destruct m.
  - pose proof (HP_subscribed (is_tx fl) s request subscription Hs) as H.
    destruct (on_subscribed (is_tx fl) s request subscription) as [[s1 o] hs]. exact H.
  - pose proof (HP_unsubscribed s request Hs) as H. destruct (on_unsubscribed s request) as [s1 o]. exact H.
  - pose proof (HP_unsubscribed s 0 Hs) as H. destruct (on_unsubscribed s 0) as [s1 o]. exact H.
  - pose proof (HP_error (is_tx fl) s rtype request uri Hs) as H.
    destruct (on_error (is_tx fl) s rtype request uri) as [[s1 o] hs]. exact H.
  - now apply on_event_preserves.
Qed.

Lemma run_inline_preserves : forall fl ms s, P s -> P (fst (run_inline fl s ms)).
Proof.
  intros fl. induction ms as [|m r IH]; intros s Hs; simpl; [exact Hs|].
  pose proof (on_message_preserves fl s m Hs) as H1. destruct (on_message fl s m) as [s1 i1]. simpl in H1.
  specialize (IH s1 H1). destruct (run_inline fl s1 r) as [s2 i2]. exact IH.
Qed.

Lemma do_subscribe_preserves : forall fl s h o t g rin, P s -> P (fst (do_subscribe fl s h o t g rin)).
Proof.
  intros fl s h o t g rin Hs. unfold do_subscribe.
  pose proof (run_inline_preserves fl rin _ (HP_record s h t g Hs)) as H.
  destruct (run_inline fl (record_sub s h t g) rin) as [s2 i2]. exact H.
Qed.

Lemma return_future_preserves : forall fl s g, P s -> P (fst (return_future fl s g)).
Proof.
  intros fl s g Hs. unfold return_future. destruct (seal (s_gathers s) g) as [[gs o] hs].
  destruct fl; simpl; [now apply HP_gathers | now apply HP_gathers0].
Qed.

Lemma api_subscribe_preserves : forall fl s sp o t rin, P s -> P (fst (api_subscribe fl s sp o t rin)).
Proof.
  intros fl s sp o t rin Hs. unfold api_subscribe. destruct (negb (opts_ok o)); [exact Hs|].
  destruct (negb (s_transport s)); [exact Hs|].
  match goal with |- context [do_subscribe fl ?s0 ?h o t ?g rin] =>
    pose proof (do_subscribe_preserves fl s0 h o t g rin (HP_gathers0 s _ Hs)) as H1;
    destruct (do_subscribe fl s0 h o t g rin) as [s1 i1] end. simpl in H1.
  pose proof (return_future_preserves fl s1 (s_next s + 1) H1) as H2.
  destruct (return_future fl s1 (s_next s + 1)) as [s2 i2]. exact H2.
Qed.

Lemma subscribe_all_preserves : forall fl ms s g call, P s -> P (fst (subscribe_all fl s g call ms)).
Proof.
  intros fl. induction ms as [|[[[sp own] t] rin] r IH]; intros s g call Hs; simpl; [exact Hs|].
  match goal with |- context [do_subscribe fl s ?h ?o t g rin] =>
    pose proof (do_subscribe_preserves fl s h o t g rin Hs) as H1;
    destruct (do_subscribe fl s h o t g rin) as [s1 i1] end. simpl in H1.
  specialize (IH s1 g call H1). destruct (subscribe_all fl s1 g call r) as [s2 i2]. exact IH.
Qed.

Lemma api_subscribe_obj_preserves : forall fl s ms call, P s -> P (fst (api_subscribe_obj fl s ms call)).
Proof.
  intros fl s ms call Hs. unfold api_subscribe_obj. destruct (negb (methods_ok call ms)); [exact Hs|].
  destruct (negb (s_transport s)); [exact Hs|].
  match goal with |- context [subscribe_all fl ?s0 ?g call ms] =>
    pose proof (subscribe_all_preserves fl ms s0 g call (HP_gathers0 s _ Hs)) as H1;
    destruct (subscribe_all fl s0 g call ms) as [s1 i1] end. simpl in H1.
  pose proof (return_future_preserves fl s1 (s_next s + 1) H1) as H2.
  destruct (return_future fl s1 (s_next s + 1)) as [s2 i2]. exact H2.
Qed.

Lemma api_unsubscribe_inl_preserves : forall fl s l rin, P s -> P (fst (api_unsubscribe_inl fl s l rin)).
Proof.
  intros fl s l rin Hs. unfold api_unsubscribe_inl.
  pose proof (HP_unsub s l Hs) as H1. destruct (api_unsubscribe s l) as [s1 o1]. simpl in H1.
  destruct o1 as [|[[]| | | | | |] [|]]; try exact H1.
  pose proof (run_inline_preserves fl rin s1 H1) as H2. destruct (run_inline fl s1 rin) as [s2 i2]. exact H2.
Qed.

Lemma step_items_preserves : forall fl s o, P s -> P (fst (step_items fl s o)).
Proof.
  intros fl s o Hs. destruct o; simpl;
    auto using api_subscribe_preserves, api_subscribe_obj_preserves, api_unsubscribe_inl_preserves, on_message_preserves.
  pose proof (HP_lose s Hs) as H. destruct (on_lose s) as [s1 o1]. exact H.
Qed.

Lemma run_items_preserves : forall its s, P s -> P (ri_state (run_items s its)).
Proof.
  induction its as [|[o|o|e ev|[] ls] r IH]; intros s Hs; simpl; [exact Hs| | | | |].
  - specialize (IH s Hs). destruct (run_items s r) as [[[[s2 g0] g1] g2] h2].
    destruct (is_immediate o); [exact IH|]. destruct (is_gather o); exact IH.
  - specialize (IH s Hs). destruct (run_items s r) as [[[[s2 g0] g1] g2] h2]. exact IH.
  - pose proof (invoke_preserves P HP_unsub s e (e_args ev) (build_kwargs e ev) Hs) as H1.
    destruct (invoke s e (e_args ev) (build_kwargs e ev)) as [s1 o1]. simpl in H1.
    specialize (IH s1 H1). destruct (run_items s1 r) as [[[[s2 g0] g1] g2] h2]. exact IH.
  - specialize (IH s Hs). destruct (run_items s r) as [[[[s2 g0] g1] g2] h2]. exact IH.
  - apply IH. now apply HP_hold.
Qed.

Lemma finalize_preserves : forall fl s its, P s -> P (fst (finalize fl s its)).
Proof.
  intros fl s its Hs. unfold finalize. destruct fl; [exact Hs|].
  pose proof (run_items_preserves its s Hs) as H. destruct (run_items s its) as [[[[s2 g0] g1] g2] h2].
  simpl in *. now apply HP_hold.
Qed.

Lemma step_preserves : forall fl s o, P s -> P (fst (step fl s o)).
Proof.
  intros fl s o Hs. unfold step. pose proof (step_items_preserves fl s o Hs) as H1.
  destruct (step_items fl s o) as [s1 its]. now apply finalize_preserves.
Qed.

Lemma run_preserves : forall fl ops s, P s -> P (fst (run fl s ops)).
Proof.
  induction ops as [|o r IH]; intros s Hs; simpl; [exact Hs|].
  pose proof (step_preserves fl s o Hs) as H1. destruct (step fl s o) as [s1 o1]. simpl in H1.
  specialize (IH s1 H1). destruct (run fl s1 r) as [s2 o2]. exact IH.
Qed.
End Stable.

Lemma step_inv : forall fl s o, Inv s -> Inv (fst (step fl s o)).
Proof.
  intros fl s o. apply (step_preserves Inv); auto using api_unsubscribe_inv, on_subscribed_inv, on_unsubscribed_inv,
    on_error_inv, record_sub_inv, set_gathers_inv, set_objs_inv, on_lose_inv.
Qed.

Lemma run_inv : forall fl ops s, Inv s -> Inv (fst (run fl s ops)).
Proof.
  intros fl ops s. apply (run_preserves Inv); auto using api_unsubscribe_inv, on_subscribed_inv, on_unsubscribed_inv,
    on_error_inv, record_sub_inv, set_gathers_inv, set_objs_inv, on_lose_inv.
Qed.

Lemma final_inv : forall fl ops, Inv (final fl ops).
Proof. intros. apply run_inv, Inv_init. Qed.

(* ------------------------------------------------------------------ the loop turns after a call *)
Fixpoint plain (its : list item) : bool :=
  match its with [] => true | (INow _ | ILater _ _) :: r => plain r | _ => false end.

Lemma plain_app : forall a b, plain (a ++ b) = plain a && plain b.
Proof. induction a as [|[o|o|e ev|b0 ls] r IH]; intros; simpl; auto. Qed.
Lemma plain_map : forall os, plain (map INow os) = true.
Proof. induction os; simpl; auto. Qed.

Lemma deliver_plain : forall fl snap ev s, plain (snd (deliver fl snap ev s)) = true.
Proof.
  intros fl. induction snap as [|e r IH]; intros ev s; simpl; [reflexivity|].
  destruct (is_active s (se_label e)); [|apply IH]. destruct (deferred fl e).
  - specialize (IH ev s). destruct (deliver fl r ev s) as [s2 i2]. exact IH.
  - destruct (invoke s e (e_args ev) (build_kwargs e ev)) as [s1 o1]. specialize (IH ev s1).
    destruct (deliver fl r ev s1) as [s2 i2]. simpl in *. now rewrite plain_app, plain_map, IH.
Qed.

Lemma invocations_filter_nonimm : forall os, invocations (filter (fun o => negb (is_immediate o)) os) = [].
Proof. intros. apply invocations_filter_not_imm. intros o H. now apply negb_true_iff in H. Qed.

Lemma invocations_nonimm : forall o r, is_immediate o = false -> invocations (o :: r) = invocations r.
Proof. intros o r H; destruct o; simpl in *; try discriminate; reflexivity. Qed.

(* Tasks aside, nothing but what happened inside the call is an invocation; the Tasks make exactly their calls *)
Lemma run_items_plain : forall its s, plain its = true ->
  let '(s2, g0, g1, g2, h2) := run_items s its in
  invocations g0 = invocations (now_outs its) /\ invocations g1 = later_invs its /\ invocations g2 = [] /\ h2 = [].
Proof.
  induction its as [|[o|o|e ev|b0 ls] r IH]; intros s Hp; simpl in *; try discriminate; [tauto| |].
  - specialize (IH s Hp). destruct (run_items s r) as [[[[s2 g0] g1] g2] h2]. destruct IH as [A [B [C D]]].
    destruct (is_immediate o) eqn:Ei.
    + destruct o; simpl in *; try discriminate; rewrite ?A; tauto.
    + destruct o; simpl in *; try discriminate; tauto.
  - pose proof (invoke_invocations s e (e_args ev) (build_kwargs e ev)) as Hi.
    destruct (invoke s e (e_args ev) (build_kwargs e ev)) as [s1 o1]. simpl in Hi.
    specialize (IH s1 Hp). destruct (run_items s1 r) as [[[[s2 g0] g1] g2] h2]. destruct IH as [A [B [C D]]].
    rewrite !invocations_app, invocations_filter_imm, invocations_filter_nonimm, Hi, B, C. tauto.
Qed.

Lemma run_items_invoked : forall its s x,
  let '(s2, g0, g1, g2, h2) := run_items s its in
  In x (invocations g0) \/ In x (invocations g1) \/ In x (invocations g2) ->
  In x (invocations (now_outs its)) \/ In x (later_invs its).
Proof.
  induction its as [|[o|o|e ev|[] ls] r IH]; intros s x; simpl.
  - tauto.
  - specialize (IH s x). destruct (run_items s r) as [[[[s2 g0] g1] g2] h2].
    destruct o; simpl in *; intuition.
  - specialize (IH s x). destruct (run_items s r) as [[[[s2 g0] g1] g2] h2].
    destruct o; simpl in *; intuition.
  - pose proof (invoke_invocations s e (e_args ev) (build_kwargs e ev)) as Hi.
    destruct (invoke s e (e_args ev) (build_kwargs e ev)) as [s1 o1]. simpl in Hi.
    specialize (IH s1 x). destruct (run_items s1 r) as [[[[s2 g0] g1] g2] h2].
    rewrite !invocations_app, invocations_filter_imm, invocations_filter_nonimm, Hi. simpl. intuition.
  - specialize (IH s x). destruct (run_items s r) as [[[[s2 g0] g1] g2] h2]. exact IH.
  - apply IH.
Qed.

Lemma deliver_tx_no_later : forall snap ev s, later_of (snd (deliver Tx snap ev s)) = [] /\ later_invs (snd (deliver Tx snap ev s)) = [].
Proof.
  induction snap as [|e r IH]; intros ev s; simpl; [tauto|].
  destruct (is_active s (se_label e)); [|apply IH].
  destruct (invoke s e (e_args ev) (build_kwargs e ev)) as [s1 o1]. specialize (IH ev s1).
  destruct (deliver Tx r ev s1) as [s2 i2]. simpl in *.
  now rewrite later_of_app, later_of_map, later_invs_app, later_invs_map.
Qed.

(* a call that created no Task and left nothing for later but completions: asyncio shows it in [order] *)
Lemma run_items_now : forall os s, run_items s (map INow os) =
  (s, filter is_immediate os, filter (fun o => negb (is_immediate o) && negb (is_gather o)) os, filter is_gather os, []).
Proof.
  induction os as [|o r IH]; intros s; simpl; [reflexivity|]. rewrite IH.
  destruct (is_immediate o) eqn:Ei; simpl.
  - destruct o; simpl in *; try discriminate; reflexivity.
  - destruct (is_gather o); reflexivity.
Qed.

Lemma finalize_now : forall fl s os, finalize fl s (map INow os) = (s, order fl os).
Proof.
  intros [] s os; unfold finalize; [now rewrite now_outs_map|].
  rewrite run_items_now. simpl. now rewrite hold_nil, set_objs_id.
Qed.

(* ------------------------------------------------------------------ C11: exact fan-out *)
Lemma step_event : forall fl s ev, s_joined s = true ->
  step fl s (OpEvent ev) = finalize fl (fst (on_event fl s ev)) (snd (on_event fl s ev)).
Proof. intros fl s ev H. unfold step. simpl. unfold on_message. rewrite H. simpl. now destruct (on_event fl s ev). Qed.

Lemma build_kwargs_expected : forall e ev, (se_label e, e_args ev, build_kwargs e ev) = expected_invocation ev e.
Proof. reflexivity. Qed.

Lemma attached_lookup : forall s sid, In sid (keys (s_subs s)) -> lookup sid (s_subs s) = Some (attached s sid).
Proof.
  intros s sid H. apply keys_In_lookup in H. destruct H as [lst H]. unfold attached. now rewrite H.
Qed.

(* the session state after the handler of entry [e] has been called for [ev] (its body may call back into the session) *)
Definition after_handler (s : sess) (e : subent) (ev : event) : sess :=
  fst (invoke s e (e_args ev) (build_kwargs e ev)).

(* The dispatch discipline, stated independently of the loop: walk the SNAPSHOT of the handler list taken when the
   event arrived, in subscription order; an entry whose subscription is no longer active when its turn comes (it was
   unsubscribed by a handler called earlier for this same event) is passed over; every other entry is called exactly
   once with the published args/kwargs plus its own details - at once ([now]), or, for a coroutine handler on asyncio
   (check_types wrapper), as a Task whose body runs after the loop ([later]).
   [Dispatch fl ev s snap now later s'] relates the state at arrival, the snapshot, the calls and the state after the loop. *)
Inductive Dispatch (fl : flavour) (ev : event) : sess -> list subent -> list invocation -> list subent -> sess -> Prop :=
| D_done : forall s, Dispatch fl ev s [] [] [] s
| D_skip : forall s e r now later s', is_active s (se_label e) = false ->
           Dispatch fl ev s r now later s' -> Dispatch fl ev s (e :: r) now later s'
| D_call : forall s e r now later s', is_active s (se_label e) = true -> deferred fl e = false ->
           Dispatch fl ev (after_handler s e ev) r now later s' ->
           Dispatch fl ev s (e :: r) (expected_invocation ev e :: now) later s'
| D_task : forall s e r now later s', is_active s (se_label e) = true -> deferred fl e = true ->
           Dispatch fl ev s r now later s' ->
           Dispatch fl ev s (e :: r) now (e :: later) s'.

(* the Tasks run one after the other, each against the state its predecessors left *)
Inductive RunLater (ev : event) : sess -> list subent -> sess -> Prop :=
| R_done : forall s, RunLater ev s [] s
| R_task : forall s e r s', RunLater ev (after_handler s e ev) r s' -> RunLater ev s (e :: r) s'.

Lemma deliver_dispatch : forall fl ev snap s,
  Dispatch fl ev s snap (invocations (now_outs (snd (deliver fl snap ev s)))) (later_of (snd (deliver fl snap ev s)))
           (fst (deliver fl snap ev s)) /\
  later_invs (snd (deliver fl snap ev s)) = map (expected_invocation ev) (later_of (snd (deliver fl snap ev s))).
Proof.
  intros fl ev. induction snap as [|e r IH]; intros s; simpl; [split; constructor|].
  destruct (is_active s (se_label e)) eqn:Ea; [|destruct (IH s); split; [apply D_skip|]; assumption].
  destruct (deferred fl e) eqn:Ed.
  - specialize (IH s). destruct (deliver fl r ev s) as [s2 i2]. simpl in *. destruct IH as [D L].
    split; [now apply D_task | now rewrite L].
  - pose proof (invoke_invocations s e (e_args ev) (build_kwargs e ev)) as Hi.
    destruct (invoke s e (e_args ev) (build_kwargs e ev)) as [s1 o1] eqn:Ei. simpl in Hi.
    assert (Hs1 : after_handler s e ev = s1) by (unfold after_handler; now rewrite Ei).
    specialize (IH s1). destruct (deliver fl r ev s1) as [s2 i2]. simpl in *. destruct IH as [D L].
    rewrite now_outs_app, now_outs_map, invocations_app, Hi, later_of_app, later_of_map, later_invs_app, later_invs_map.
    simpl. split; [|exact L]. apply (D_call fl ev s e r _ _ _ Ea Ed). rewrite Hs1. exact D.
Qed.

Lemma deliver_later_ev : forall fl ev snap s0 e0 ev', In (ILater e0 ev') (snd (deliver fl snap ev s0)) -> ev' = ev.
Proof.
  intros fl ev. induction snap as [|e r IH]; intros s0 e0 ev' Hin; simpl in Hin; [destruct Hin|].
  destruct (is_active s0 (se_label e)); [|eapply IH; eauto]. destruct (deferred fl e).
  - specialize (IH s0 e0 ev'). destruct (deliver fl r ev s0) as [s2 i2]. simpl in *.
    destruct Hin as [Hin|Hin]; [congruence | auto].
  - destruct (invoke s0 e (e_args ev) (build_kwargs e ev)) as [s1 o1]. specialize (IH s1 e0 ev').
    destruct (deliver fl r ev s1) as [s2 i2]. simpl in *. apply in_app_iff in Hin. destruct Hin as [Hin|Hin]; [|auto].
    apply in_map_iff in Hin. destruct Hin as [x [Hx _]]. discriminate.
Qed.

Lemma run_items_later_gen : forall ev its, plain its = true ->
  (forall e ev', In (ILater e ev') its -> ev' = ev) -> forall s, RunLater ev s (later_of its) (ri_state (run_items s its)).
Proof.
  intros ev. induction its as [|[o|o|e ev'|b0 ls] r IH]; intros Hp Hev s; simpl in *; try discriminate; [constructor| |].
  - assert (R := IH Hp (fun e ev' H => Hev e ev' (or_intror H)) s).
    destruct (run_items s r) as [[[[s2 g0] g1] g2] h2]. destruct (is_immediate o); [exact R|]. destruct (is_gather o); exact R.
  - assert (ev' = ev) by (apply (Hev e); now left). subst ev'.
    destruct (invoke s e (e_args ev) (build_kwargs e ev)) as [s1 o1] eqn:Ei.
    assert (Hs1 : after_handler s e ev = s1) by (unfold after_handler; now rewrite Ei).
    assert (R := IH Hp (fun e0 ev' H => Hev e0 ev' (or_intror H)) s1).
    destruct (run_items s1 r) as [[[[s2 g0] g1] g2] h2]. apply R_task. rewrite Hs1. exact R.
Qed.

Lemma run_items_later : forall ev snap fl s0 s, RunLater ev s (later_of (snd (deliver fl snap ev s0)))
  (ri_state (run_items s (snd (deliver fl snap ev s0)))).
Proof.
  intros. apply run_items_later_gen; [apply deliver_plain | intros e ev'; apply deliver_later_ev].
Qed.

Lemma on_event_dispatch : forall fl s ev lst, lookup (e_sub ev) (s_subs s) = Some lst ->
  let r := finalize fl (fst (on_event fl s ev)) (snd (on_event fl s ev)) in
  exists now later s1,
    Dispatch fl ev s lst now later s1 /\ RunLater ev s1 later (fst r) /\
    invocations (snd r) = now ++ map (expected_invocation ev) later.
Proof.
  intros fl s ev lst Hl. unfold on_event. rewrite Hl.
  destruct (deliver_dispatch fl ev lst s) as [D L]. pose proof (deliver_tx_no_later lst ev s) as [T1 T2].
  pose proof (deliver_plain fl lst ev s) as Hp. pose proof (run_items_later ev lst fl s) as R.
  destruct fl.
  - destruct (deliver Tx lst ev s) as [s1 its]. simpl in *. rewrite T1 in D.
    exists (invocations (now_outs its)), [], s1. split; [exact D|]. split; [constructor | now rewrite app_nil_r].
  - clear T1 T2. destruct (deliver Aio lst ev s) as [s1 its]. simpl in *. specialize (R s1).
    pose proof (run_items_plain its s1 Hp) as V.
    destruct (run_items s1 its) as [[[[s2 g0] g1] g2] h2]. destruct V as [A [B [C E]]]. subst h2. simpl in *.
    exists (invocations (now_outs its)), (later_of its), s1. split; [exact D|].
    rewrite hold_nil, set_objs_id. split; [exact R|].
    now rewrite !invocations_app, A, B, C, app_nil_r, L.
Qed.

Lemma exact_fanout : forall fl s ev,
  s_joined s = true -> In (e_sub ev) (keys (s_subs s)) ->
  exists now later s1,
    Dispatch fl ev s (attached s (e_sub ev)) now later s1 /\
    RunLater ev s1 later (fst (step fl s (OpEvent ev))) /\
    invocations (snd (step fl s (OpEvent ev))) = now ++ map (expected_invocation ev) later.
Proof.
  intros fl s ev Hj Hk. rewrite step_event by exact Hj. apply on_event_dispatch. now apply attached_lookup.
Qed.

(* consequences of the discipline *)
Inductive sublist {A} : list A -> list A -> Prop :=
| sub_nil : sublist [] []
| sub_skip : forall x l1 l2, sublist l1 l2 -> sublist l1 (x :: l2)
| sub_keep : forall x l1 l2, sublist l1 l2 -> sublist (x :: l1) (x :: l2).

Lemma dispatch_sublist : forall fl ev s snap now later s', Dispatch fl ev s snap now later s' ->
  sublist now (map (expected_invocation ev) snap) /\ sublist later snap.
Proof. induction 1; simpl; try destruct IHDispatch; split; constructor; assumption. Qed.

Lemma dispatch_tx_no_task : forall ev s snap now later s', Dispatch Tx ev s snap now later s' -> later = [].
Proof. induction 1; auto. discriminate. Qed.

Lemma inactive_unsubscribe : forall s l t, is_active s l = false -> is_active (fst (api_unsubscribe s t)) l = false.
Proof.
  intros s l t H.
  destruct (api_unsubscribe_cases s t) as [E|[[e E]|[o' [lst [Ho' [_ [_ [_ [_ [_ [[_ E]|[_ E]]]]]]]]]]]];
    rewrite E; simpl; try exact H; unfold is_active in *; simpl;
    (destruct (N.eq_dec l t) as [->|Hne];
     [now rewrite lookup_assoc_set_same | now rewrite lookup_assoc_set_other by exact Hne]).
Qed.

Lemma after_handler_inactive : forall s e ev l, is_active s l = false -> is_active (after_handler s e ev) l = false.
Proof.
  intros. unfold after_handler.
  apply (invoke_preserves (fun s => is_active s l = false)); [intros; now apply inactive_unsubscribe | assumption].
Qed.

Lemma dispatch_inactive_stays : forall fl ev s snap now later s' l, Dispatch fl ev s snap now later s' ->
  is_active s l = false -> is_active s' l = false.
Proof. induction 1; intros Hl; auto. apply IHDispatch. now apply after_handler_inactive. Qed.

(* no handler that is still subscribed when the loop ends has been passed over *)
Lemma dispatch_no_skip : forall fl ev s snap now later s', Dispatch fl ev s snap now later s' ->
  forall e, In e snap -> is_active s' (se_label e) = true -> In (expected_invocation ev e) now \/ In e later.
Proof.
  induction 1; intros x Hx Ha; simpl in *; [destruct Hx| | |].
  - destruct Hx as [<-|Hx]; [|now apply IHDispatch].
    pose proof (dispatch_inactive_stays _ _ _ _ _ _ _ _ H0 H). congruence.
  - destruct Hx as [<-|Hx]; [now left; left|]. destruct (IHDispatch x Hx Ha); [left; now right | now right].
  - destruct Hx as [<-|Hx]; [right; now left|]. destruct (IHDispatch x Hx Ha); [now left | right; now right].
Qed.

(* a subscription that is inactive at some point of the loop is not called for the rest of it *)
Lemma dispatch_never_after : forall fl ev s snap now later s' l, Dispatch fl ev s snap now later s' ->
  is_active s l = false -> ~ In l (map (fun x => fst (fst x)) now) /\ ~ In l (labels later).
Proof.
  induction 1; intros Hl; simpl; [tauto | auto | |].
  - destruct (IHDispatch (after_handler_inactive _ _ _ _ Hl)) as [A B]. split; [|exact B].
    intros [Hx|Hx]; [simpl in Hx; congruence | tauto].
  - destruct (IHDispatch Hl) as [A B]. split; [exact A|]. intros [Hx|Hx]; [congruence | tauto].
Qed.

Definition reentrant_free (lst : list subent) : Prop := forall e, In e lst -> reentrant e = false.
Definition nonreentrant_at (s : sess) (sid : N) : Prop := reentrant_free (attached s sid).
Definition benign (o : out) : bool := negb (is_raised o) && negb (sends_unsubscribe o).

Lemma invoke_nonreentrant : forall s e a kw, reentrant e = false ->
  exists os, invoke s e a kw = (s, os) /\ forallb benign os = true.
Proof.
  intros s e a kw H. unfold invoke, reentrant in *.
  destruct (negb (accepts (h_sig (se_handler e)) (length a) kw)); [eexists; split; reflexivity|].
  destruct (ill_typed (se_handler e)); [eexists; split; reflexivity|].
  destruct (h_beh (se_handler e)); try discriminate; eexists; split; reflexivity.
Qed.

Lemma deliver_nonreentrant : forall fl ev snap s,
  reentrant_free snap -> (forall e, In e snap -> is_active s (se_label e) = true) ->
  exists its, deliver fl snap ev s = (s, its) /\ plain its = true /\
    invocations (now_outs its) = map (expected_invocation ev) (filter (fun e => negb (deferred fl e)) snap) /\
    later_of its = filter (deferred fl) snap /\ later_invs its = map (expected_invocation ev) (filter (deferred fl) snap) /\
    forallb benign (now_outs its) = true.
Proof.
  intros fl ev. induction snap as [|e r IH]; intros s Hnr Hact; simpl.
  - exists []. repeat split; reflexivity.
  - rewrite (Hact e) by now left.
    destruct (IH s) as [i2 [E2 [P2 [A2 [L2 [V2 B2]]]]]]; [intros x Hx; apply Hnr; now right | intros x Hx; apply Hact; now right|].
    destruct (deferred fl e); simpl.
    + rewrite E2. exists (ILater e ev :: i2). simpl. rewrite L2, V2. repeat split; assumption.
    + destruct (invoke_nonreentrant s e (e_args ev) (build_kwargs e ev)) as [o1 [E1 B1]]; [apply Hnr; now left|].
      pose proof (invoke_invocations s e (e_args ev) (build_kwargs e ev)) as A1. rewrite E1 in *. simpl in A1.
      rewrite E2. exists (map INow o1 ++ i2). split; [reflexivity|].
      rewrite plain_app, plain_map, P2, now_outs_app, now_outs_map, invocations_app, A1, A2, later_of_app, later_of_map,
        later_invs_app, later_invs_map, forallb_app, B1, B2, L2, V2.
      repeat split; reflexivity.
Qed.

Lemma run_items_nonreentrant : forall its s, plain its = true -> reentrant_free (later_of its) ->
  forallb benign (now_outs its) = true ->
  exists g0 g1 g2, run_items s its = (s, g0, g1, g2, []) /\ forallb benign (g0 ++ g1 ++ g2) = true.
Proof.
  induction its as [|[o|o|e ev|b0 ls] r IH]; intros s Hp Hnr Hb; simpl in *; try discriminate.
  - exists [], [], []. split; reflexivity.
  - apply andb_true_iff in Hb. destruct Hb as [Hb1 Hb2].
    destruct (IH s Hp Hnr Hb2) as [g0 [g1 [g2 [E B]]]]. rewrite E.
    rewrite !forallb_app in B. apply andb_true_iff in B. destruct B as [B0 B]. apply andb_true_iff in B. destruct B as [B1 B2].
    destruct (is_immediate o); [|destruct (is_gather o)]; do 3 eexists; (split; [reflexivity|]);
      rewrite !forallb_app; simpl; rewrite ?Hb1, ?B0, ?B1, ?B2; reflexivity.
  - destruct (invoke_nonreentrant s e (e_args ev) (build_kwargs e ev)) as [o1 [E1 B1]]; [apply Hnr; now left|].
    rewrite E1. destruct (IH s) as [g0 [g1 [g2 [E B]]]]; [exact Hp | intros x Hx; apply Hnr; now right | exact Hb|]. rewrite E.
    do 3 eexists. split; [reflexivity|].
    rewrite !forallb_app in *. apply andb_true_iff in B. destruct B as [B0 B]. apply andb_true_iff in B. destruct B as [B1' B2].
    assert (F : forall p, forallb benign (filter p o1) = true).
    { intro p. apply forallb_forall. intros x Hx. apply filter_In in Hx. destruct Hx as [Hx _].
      rewrite forallb_forall in B1. now apply B1. }
    now rewrite B0, !F, B1', B2.
Qed.

Lemma attached_active : forall s sid e, Inv s -> In e (attached s sid) -> is_active s (se_label e) = true.
Proof.
  intros s sid e I H. unfold attached in H. destruct (lookup sid (s_subs s)) as [lst|] eqn:El; [|destruct H].
  destruct (inv_att s I _ _ _ El H) as [o [A [B _]]]. unfold is_active. now rewrite A.
Qed.

Lemma event_nonreentrant : forall fl s ev, Inv s -> s_joined s = true ->
  In (e_sub ev) (keys (s_subs s)) -> nonreentrant_at s (e_sub ev) ->
  exists os, step fl s (OpEvent ev) = (s, os) /\
    invocations os = map (expected_invocation ev) (filter (fun e => negb (deferred fl e)) (attached s (e_sub ev)))
                  ++ map (expected_invocation ev) (filter (deferred fl) (attached s (e_sub ev))) /\
    forallb benign os = true.
Proof.
  intros fl s ev I Hj Hk Hnr. rewrite step_event by exact Hj. unfold on_event. rewrite (attached_lookup s _ Hk).
  destruct (deliver_nonreentrant fl ev (attached s (e_sub ev)) s Hnr) as [its [E [Hp [A [L [V B]]]]]];
    [intros e He; eapply attached_active; eauto|].
  rewrite E. simpl. destruct fl; simpl.
  - exists (now_outs its). split; [reflexivity|]. split; [|exact B].
    rewrite A. simpl. assert (F : forall l : list subent, filter (fun _ => false) l = []) by (induction l; auto).
    now rewrite F, app_nil_r.
  - destruct (run_items_nonreentrant its s Hp) as [g0 [g1 [g2 [E2 B2]]]];
      [rewrite L; intros x Hx; apply filter_In in Hx; apply Hnr; tauto | exact B|].
    pose proof (run_items_plain its s Hp) as W. rewrite E2 in *. destruct W as [V0 [V1 [V2 _]]]. simpl.
    rewrite hold_nil, set_objs_id.
    exists (g0 ++ g1 ++ g2). split; [reflexivity|]. split; [|exact B2].
    now rewrite !invocations_app, V0, V1, V2, A, V, app_nil_r.
Qed.

Lemma benign_facts : forall os, forallb benign os = true ->
  (forall x, ~ In (ORaised x) os) /\ filter sends_unsubscribe os = [].
Proof.
  intros os H. rewrite forallb_forall in H. split.
  - intros x Hx. apply H in Hx. discriminate.
  - induction os as [|o r IH]; simpl; [reflexivity|].
    assert (Ho : benign o = true) by (apply H; now left). unfold benign in Ho. apply andb_true_iff in Ho.
    destruct Ho as [_ Ho]. apply negb_true_iff in Ho. rewrite Ho. apply IH. intros x Hx. apply H. now right.
Qed.

Lemma isolation : forall fl ops ev, let s := final fl ops in
  s_joined s = true -> In (e_sub ev) (keys (s_subs s)) -> nonreentrant_at s (e_sub ev) ->
  fst (step fl s (OpEvent ev)) = s /\
  invocations (snd (step fl s (OpEvent ev)))
    = map (expected_invocation ev) (filter (fun e => negb (deferred fl e)) (attached s (e_sub ev)))
      ++ map (expected_invocation ev) (filter (deferred fl) (attached s (e_sub ev))) /\
  (forall x, ~ In (ORaised x) (snd (step fl s (OpEvent ev)))) /\
  filter sends_unsubscribe (snd (step fl s (OpEvent ev))) = [].
Proof.
  intros fl ops ev s Hj Hk Hnr.
  destruct (event_nonreentrant fl s ev (final_inv fl ops) Hj Hk Hnr) as [os [E [A B]]].
  rewrite E. simpl. destruct (benign_facts os B) as [R S]. tauto.
Qed.

Lemma filter_all : forall (A : Type) (p : A -> bool) l, (forall x, In x l -> p x = true) -> filter p l = l.
Proof.
  induction l as [|x r IH]; intros H; simpl; [reflexivity|]. rewrite (H x) by now left. f_equal. apply IH. intros; apply H; now right.
Qed.
Lemma filter_none : forall (A : Type) (p : A -> bool) l, (forall x, In x l -> p x = false) -> filter p l = [].
Proof.
  induction l as [|x r IH]; intros H; simpl; [reflexivity|]. rewrite (H x) by now left. apply IH. intros; apply H; now right.
Qed.

(* no coroutine handler among the attached ones (always so under Twisted): the plain equation *)
Lemma exact_fanout_nonreentrant : forall fl ops ev, let s := final fl ops in
  s_joined s = true -> In (e_sub ev) (keys (s_subs s)) -> nonreentrant_at s (e_sub ev) ->
  (forall e, In e (attached s (e_sub ev)) -> deferred fl e = false) ->
  invocations (snd (step fl s (OpEvent ev))) = map (expected_invocation ev) (attached s (e_sub ev)).
Proof.
  intros fl ops ev s Hj Hk Hnr Hd. destruct (isolation fl ops ev Hj Hk Hnr) as [_ [A _]]. fold s in A. rewrite A.
  rewrite (filter_none _ (deferred fl)) by exact Hd.
  rewrite filter_all; [now rewrite app_nil_r|]. intros x Hx. now rewrite (Hd x Hx).
Qed.

(* ------------------------------------------------------------------ outputs of everything but a dispatch: no invocation, no UNSUBSCRIBE *)
Definition quiet (o : out) : bool :=
  match o with ODone _ _ | ODoneG _ _ | ODoneU _ _ | ORaised _ | OSent (MSubscribe _ _ _ _) => true | _ => false end.

Lemma quiet_facts : forall os, forallb quiet os = true -> invocations os = [] /\ filter sends_unsubscribe os = [].
Proof.
  induction os as [|o r IH]; intros H; simpl in *; [tauto|]. apply andb_true_iff in H. destruct H as [H1 H2].
  destruct (IH H2) as [A B]. destruct o as [[]| | | | | |]; simpl in *; try discriminate; tauto.
Qed.

Lemma settle_quiet : forall gs g single sealed ms, forallb quiet (snd (fst (settle gs g single sealed ms))) = true.
Proof.
  intros. unfold settle. destruct (if sealed then all_done ms else None) as [rs|]; [|reflexivity]. simpl.
  unfold done_out. destruct single; [|reflexivity]. destruct rs as [|r [|]]; reflexivity.
Qed.
Lemma complete_sub_quiet : forall gs rid rq r, forallb quiet (snd (fst (complete_sub gs rid rq r))) = true.
Proof. intros. unfold complete_sub. destruct (lookup (sr_group rq) gs); [apply settle_quiet | reflexivity]. Qed.
Lemma seal_quiet : forall gs g, forallb quiet (snd (fst (seal gs g))) = true.
Proof. intros. unfold seal. destruct (lookup g gs); [apply settle_quiet | reflexivity]. Qed.

Lemma on_subscribed_quiet : forall now s r sid, forallb quiet (snd (fst (on_subscribed now s r sid))) = true.
Proof.
  intros. unfold on_subscribed. destruct (lookup r (s_subreqs s)) as [rq|]; [|reflexivity].
  pose proof (complete_sub_quiet (s_gathers s) r rq (RSub sid)) as X.
  destruct (complete_sub (s_gathers s) r rq (RSub sid)) as [[gs o] hs]. exact X.
Qed.
Lemma on_unsubscribed_quiet : forall s r, forallb quiet (snd (on_unsubscribed s r)) = true.
Proof. intros. unfold on_unsubscribed. destruct (lookup r (s_unsubreqs s)); reflexivity. Qed.
Lemma on_error_quiet : forall now s rt r u, forallb quiet (snd (fst (on_error now s rt r u))) = true.
Proof.
  intros. unfold on_error. destruct (rt =? 32).
  - destruct (lookup r (s_subreqs s)) as [rq|]; [|reflexivity].
    pose proof (complete_sub_quiet (s_gathers s) r rq (RErr (EAppError u))) as X.
    destruct (complete_sub (s_gathers s) r rq (RErr (EAppError u))) as [[gs o] hs]. exact X.
  - destruct (rt =? 34); [|reflexivity]. destruct (lookup r (s_unsubreqs s)); reflexivity.
Qed.
Lemma reject_subs_quiet : forall rqs gs, forallb quiet (snd (fst (reject_subs gs rqs))) = true.
Proof.
  induction rqs as [|[rid rq] r IH]; intros gs; simpl; [reflexivity|].
  pose proof (complete_sub_quiet gs rid rq (RErr EClosed)) as A.
  destruct (complete_sub gs rid rq (RErr EClosed)) as [[gs1 o1] h1]. specialize (IH gs1).
  destruct (reject_subs gs1 r) as [[gs2 o2] h2]. simpl in *. now rewrite forallb_app, A, IH.
Qed.
Lemma on_lose_quiet : forall s, forallb quiet (snd (on_lose s)) = true.
Proof.
  intros. unfold on_lose. destruct (s_joined s); [|reflexivity].
  pose proof (reject_subs_quiet (s_subreqs s) (s_gathers s)) as X.
  destruct (reject_subs (s_gathers s) (s_subreqs s)) as [[gs o1] hs]. simpl in *. rewrite forallb_app, X. simpl.
  induction (s_unsubreqs s); simpl; auto.
Qed.

Lemma later_of_hold_items : forall fl o hs, later_of (hold_items fl o hs) = [] /\ now_outs (hold_items fl o hs) = [].
Proof. intros [] o hs; split; reflexivity. Qed.

(* ------------------------------------------------------------------ who can be called by an operation *)
Section Invoked.
Variable P : sess -> Prop.
Hypothesis HP_unsub : forall s l, P s -> P (fst (api_unsubscribe s l)).
Hypothesis HP_subscribed : forall now s r sid, P s -> P (fst (fst (on_subscribed now s r sid))).
Hypothesis HP_unsubscribed : forall s r, P s -> P (fst (on_unsubscribed s r)).
Hypothesis HP_error : forall now s rt r u, P s -> P (fst (fst (on_error now s rt r u))).
Hypothesis HP_record : forall s h t g, P s -> P (record_sub s h t g).
Hypothesis HP_gathers : forall s gs hs, P s -> P (set_gathers s gs (hold hs (s_objs s))).
Hypothesis HP_hold : forall s ls, P s -> P (set_objs s (hold ls (s_objs s))).
Hypothesis HP_lose : forall s, P s -> P (fst (on_lose s)).

Definition called (l : N) (its : list item) : Prop :=
  In l (invoked_labels (now_outs its)) \/ In l (labels (later_of its)).
Definition Active (l : N) : Prop := exists s', P s' /\ is_active s' l = true.

Lemma called_app : forall l a b, called l (a ++ b) -> called l a \/ called l b.
Proof.
  intros l a b. unfold called. rewrite now_outs_app, invoked_labels_app, later_of_app, labels_app, !in_app_iff. tauto.
Qed.

Lemma called_quiet : forall l os extra, forallb quiet os = true -> later_of extra = [] -> now_outs extra = [] ->
  ~ called l (map INow os ++ extra).
Proof.
  intros l os extra Hq H1 H2 [H|H].
  - rewrite now_outs_app, now_outs_map, H2, app_nil_r in H. unfold invoked_labels in H.
    destruct (quiet_facts os Hq) as [A _]. rewrite A in H. destruct H.
  - rewrite later_of_app, later_of_map, H1 in H. destruct H.
Qed.

Lemma on_message_called : forall fl s m l, P s -> called l (snd (on_message fl s m)) -> Active l.
Proof.
  intros fl s m l Hs Hc. unfold on_message in Hc. destruct (negb (s_joined s)).
  - exfalso. revert Hc. apply (called_quiet l [ORaised EProtocolError] []); reflexivity.
  - destruct m.
    + pose proof (on_subscribed_quiet (is_tx fl) s request subscription) as Q.
      destruct (on_subscribed (is_tx fl) s request subscription) as [[s1 o] hs]. simpl in *.
      exfalso. revert Hc. apply called_quiet; [exact Q | |]; apply later_of_hold_items.
    + pose proof (on_unsubscribed_quiet s request) as Q. destruct (on_unsubscribed s request) as [s1 o]. simpl in *.
      exfalso. revert Hc. rewrite <- (app_nil_r (map INow o)). apply called_quiet; [exact Q | |]; reflexivity.
    + pose proof (on_unsubscribed_quiet s 0) as Q. destruct (on_unsubscribed s 0) as [s1 o]. simpl in *.
      exfalso. revert Hc. rewrite <- (app_nil_r (map INow o)). apply called_quiet; [exact Q | |]; reflexivity.
    + pose proof (on_error_quiet (is_tx fl) s rtype request uri) as Q.
      destruct (on_error (is_tx fl) s rtype request uri) as [[s1 o] hs]. simpl in *.
      exfalso. revert Hc. apply called_quiet; [exact Q | |]; apply later_of_hold_items.
    + eapply (on_event_invoked P HP_unsub); eauto.
Qed.

Lemma run_inline_called : forall fl ms s l, P s -> called l (snd (run_inline fl s ms)) -> Active l.
Proof.
  intros fl. induction ms as [|m r IH]; intros s l Hs Hc; simpl in Hc; [destruct Hc as [[]|[]]|].
  pose proof (on_message_preserves P HP_unsub HP_subscribed HP_unsubscribed HP_error fl s m Hs) as H1.
  pose proof (on_message_called fl s m l Hs) as C1.
  destruct (on_message fl s m) as [s1 i1]. simpl in *.
  specialize (IH s1 l H1). destruct (run_inline fl s1 r) as [s2 i2]. simpl in *.
  apply called_app in Hc. tauto.
Qed.

Lemma called_cons_quiet : forall l o its, quiet o = true -> called l (INow o :: its) -> called l its.
Proof.
  intros l o its Hq [H|H]; [left | right; exact H]. simpl in H. unfold invoked_labels in *.
  destruct o as [[]| | | | | |]; simpl in *; try discriminate; exact H.
Qed.

Lemma do_subscribe_called : forall fl s h o t g rin l, P s -> called l (snd (do_subscribe fl s h o t g rin)) -> Active l.
Proof.
  intros fl s h o t g rin l Hs Hc. unfold do_subscribe in Hc.
  pose proof (run_inline_called fl rin _ l (HP_record s h t g Hs)) as C.
  destruct (run_inline fl (record_sub s h t g) rin) as [s2 i2]. simpl in *.
  apply C. eapply called_cons_quiet; [|exact Hc]. reflexivity.
Qed.

Lemma return_future_called : forall fl s g l, ~ called l (snd (return_future fl s g)).
Proof.
  intros fl s g l. unfold return_future. pose proof (seal_quiet (s_gathers s) g) as Q.
  destruct (seal (s_gathers s) g) as [[gs o] hs]. simpl in Q. destruct fl; simpl.
  - rewrite <- (app_nil_r (map INow o)). apply called_quiet; [exact Q | |]; reflexivity.
  - intros [H|H].
    + rewrite now_outs_app, now_outs_soon in H. simpl in H. rewrite app_nil_r in H. unfold invoked_labels in H.
      destruct (quiet_facts o Q) as [A _]. rewrite A in H. destruct H.
    + rewrite later_of_app in H. simpl in H. rewrite app_nil_r in H.
      assert (Z : later_of (map ISoon o) = []) by (clear; induction o; simpl; auto). rewrite Z in H. destruct H.
Qed.

Lemma subscribe_all_called : forall fl ms s g call l, P s -> called l (snd (subscribe_all fl s g call ms)) -> Active l.
Proof.
  intros fl. induction ms as [|[[[sp own] t] rin] r IH]; intros s g call l Hs Hc; simpl in Hc; [destruct Hc as [[]|[]]|].
  match type of Hc with context [do_subscribe fl s ?h ?o t g rin] =>
    pose proof (do_subscribe_preserves P HP_unsub HP_subscribed HP_unsubscribed HP_error HP_record fl s h o t g rin Hs) as H1;
    pose proof (do_subscribe_called fl s h o t g rin l Hs) as C1;
    destruct (do_subscribe fl s h o t g rin) as [s1 i1] end. simpl in *.
  specialize (IH s1 g call l H1). destruct (subscribe_all fl s1 g call r) as [s2 i2]. simpl in *.
  apply called_app in Hc. tauto.
Qed.

Lemma step_items_called : forall fl s o l, P s -> called l (snd (step_items fl s o)) -> Active l.
Proof.
  intros fl s o l Hs Hc. destruct o; simpl in Hc; try (eapply on_message_called; eauto; fail).
  - unfold api_subscribe in Hc. destruct (negb (opts_ok o)).
    { exfalso. revert Hc. apply (called_quiet l [ORaised EAssertion] []); reflexivity. }
    destruct (negb (s_transport s)).
    { exfalso. revert Hc. apply (called_quiet l [ORaised ETransportLost] []); reflexivity. }
    match type of Hc with context [do_subscribe fl ?s0 ?h o topic ?g rin] =>
      pose proof (do_subscribe_called fl s0 h o topic g rin l (HP_gathers0 P HP_gathers s _ Hs)) as C1;
      destruct (do_subscribe fl s0 h o topic g rin) as [s1 i1] end. simpl in *.
    pose proof (return_future_called fl s1 (s_next s + 1) l) as C2.
    destruct (return_future fl s1 (s_next s + 1)) as [s2 i2]. simpl in *. apply called_app in Hc. tauto.
  - unfold api_subscribe_obj in Hc. destruct (negb (methods_ok call ms)).
    { exfalso. revert Hc. apply (called_quiet l [ORaised EAssertion] []); reflexivity. }
    destruct (negb (s_transport s)).
    { exfalso. revert Hc. apply (called_quiet l [ORaised ETransportLost] []); reflexivity. }
    match type of Hc with context [subscribe_all fl ?s0 ?g call ms] =>
      pose proof (subscribe_all_called fl ms s0 g call l (HP_gathers0 P HP_gathers s _ Hs)) as C1;
      destruct (subscribe_all fl s0 g call ms) as [s1 i1] end. simpl in *.
    pose proof (return_future_called fl s1 (s_next s + 1) l) as C2.
    destruct (return_future fl s1 (s_next s + 1)) as [s2 i2]. simpl in *. apply called_app in Hc. tauto.
  - unfold api_unsubscribe_inl in Hc.
    pose proof (HP_unsub s label Hs) as H1.
    assert (Q : forallb quiet (snd (api_unsubscribe s label)) = true \/
                exists r sid, snd (api_unsubscribe s label) = [OSent (MUnsubscribe r sid)]).
    { destruct (api_unsubscribe_cases s label) as [E|[[e E]|[o' [lst [_ [_ [_ [_ [_ [_ [[_ E]|[_ E]]]]]]]]]]]];
        rewrite E; simpl; eauto. }
    destruct (api_unsubscribe s label) as [s1 o1]. simpl in *.
    destruct Q as [Q|[r [sid ->]]].
    + assert (Hc' : called l (map INow o1)).
      { destruct o1 as [|[[]| | | | | |] [|]]; simpl in *; try exact Hc; discriminate. }
      exfalso. revert Hc'. rewrite <- (app_nil_r (map INow o1)). apply called_quiet; [exact Q | |]; reflexivity.
    + pose proof (run_inline_called fl rin s1 l H1) as C. destruct (run_inline fl s1 rin) as [s2 i2]. simpl in *.
      apply C. destruct Hc as [Hc|Hc]; [left | right].
      * simpl in Hc. unfold invoked_labels in *. simpl in Hc. rewrite now_outs_app, invocations_app, map_app, in_app_iff in Hc.
        clear -Hc. induction i2 as [|[o|o|e ev|b0 ls] r IH]; simpl in *; [tauto| | | |];
          try (destruct Hc as [Hc|Hc]; [apply IH; now left | apply IH; now right]).
        -- destruct o; simpl in *; try (destruct (label0 =? label)); simpl in *;
             rewrite ?invocations_app, ?map_app, ?in_app_iff in *; simpl in *; intuition.
        -- destruct o; simpl in *; intuition.
      * simpl in Hc. rewrite later_of_app, labels_app, in_app_iff in Hc.
        clear -Hc. induction i2 as [|[o|o|e ev|b0 ls] r IH]; simpl in *; [tauto| | | |];
          try (destruct Hc as [Hc|Hc]; [apply IH; now left | apply IH; now right]).
        -- destruct o; simpl in *; try (destruct (label0 =? label)); simpl in *; intuition.
        -- intuition.
  - pose proof (on_lose_quiet s) as Q. destruct (on_lose s) as [s1 o1]. simpl in *.
    exfalso. revert Hc. rewrite <- (app_nil_r (map INow o1)). apply called_quiet; [exact Q | |]; reflexivity.
Qed.

Lemma step_called : forall fl s o l, P s -> In l (invoked_labels (snd (step fl s o))) -> Active l.
Proof.
  intros fl s o l Hs Hin. unfold step in Hin.
  pose proof (step_items_called fl s o l Hs) as C. destruct (step_items fl s o) as [s1 its]. simpl in C.
  apply C. unfold finalize in Hin. destruct fl; simpl in Hin; [now left|].
  pose proof (run_items_invoked its s1) as V. destruct (run_items s1 its) as [[[[s2 g0] g1] g2] h2]. simpl in Hin.
  unfold invoked_labels in Hin. apply in_map_iff in Hin. destruct Hin as [x [Hx Hin]].
  rewrite !invocations_app, !in_app_iff in Hin. destruct (V x Hin) as [H|H].
  - left. unfold invoked_labels. apply in_map_iff. eauto.
  - right. rewrite <- later_invs_labels. apply in_map_iff. eauto.
Qed.
End Invoked.

(* ------------------------------------------------------------------ C11: never after unsubscribe *)
(* a Subscription object that exists and is inactive: it stays that way whatever happens *)
Definition dead (s : sess) (l : N) : Prop := exists o, lookup l (s_objs s) = Some o /\ so_active o = false.

Lemma dead_inactive : forall s l, dead s l -> is_active s l = false.
Proof. intros s l [o [H A]]. unfold is_active. now rewrite H. Qed.

Lemma dead_hold : forall hs objs l o, lookup l objs = Some o -> so_active o = false ->
  exists o', lookup l (hold hs objs) = Some o' /\ so_active o' = false.
Proof.
  intros hs objs l o H A. destruct (lookup_hold_fwd hs objs l o H) as [o' [H1 [H2 _]]]. exists o'. split; congruence.
Qed.

Lemma dead_unsubscribe : forall l s t, dead s l -> dead (fst (api_unsubscribe s t)) l.
Proof.
  intros l s t [o [Ho Ha]].
  destruct (api_unsubscribe_cases s t) as [E|[[e E]|[o' [lst [Ho' [_ [_ [_ [_ [_ [[_ E]|[_ E]]]]]]]]]]]];
    rewrite E; unfold dead; simpl; try (exists o; tauto);
    (destruct (N.eq_dec l t) as [->|Hne];
     [eexists; rewrite lookup_assoc_set_same; split; reflexivity
     | exists o; rewrite lookup_assoc_set_other by exact Hne; tauto]).
Qed.

Lemma dead_subscribed : forall l now s r sid, dead s l -> dead (fst (fst (on_subscribed now s r sid))) l.
Proof.
  intros l now s r sid [ob [Ho Ha]]. unfold on_subscribed. destruct (lookup r (s_subreqs s)) as [rq|]; [|exists ob; tauto].
  destruct (complete_sub (s_gathers s) r rq (RSub sid)) as [[gs o1] hs]. simpl.
  apply (dead_hold _ _ l ob); [|exact Ha]. rewrite lookup_app, Ho. reflexivity.
Qed.
Lemma dead_unsubscribed : forall l s r, dead s l -> dead (fst (on_unsubscribed s r)) l.
Proof.
  intros l s r [ob [Ho Ha]]. unfold on_unsubscribed. destruct (lookup r (s_unsubreqs s)) as [rq|]; [|exists ob; tauto].
  unfold dead. simpl. rewrite lookup_deactivate, Ho. eexists. split; [reflexivity|]. destruct (memN l _); [reflexivity | exact Ha].
Qed.
Lemma dead_error : forall l now s rt r u, dead s l -> dead (fst (fst (on_error now s rt r u))) l.
Proof.
  intros l now s rt r u [ob [Ho Ha]]. unfold on_error. destruct (rt =? 32).
  - destruct (lookup r (s_subreqs s)) as [rq|]; [|exists ob; tauto].
    destruct (complete_sub (s_gathers s) r rq (RErr (EAppError u))) as [[gs o1] hs]. simpl. now apply (dead_hold _ _ l ob).
  - destruct (rt =? 34); [|exists ob; tauto]. destruct (lookup r (s_unsubreqs s)); simpl; exists ob; tauto.
Qed.
Lemma dead_lose : forall l s, dead s l -> dead (fst (on_lose s)) l.
Proof.
  intros l s [ob [Ho Ha]]. unfold on_lose. destruct (s_joined s); [|exists ob; tauto].
  destruct (reject_subs (s_gathers s) (s_subreqs s)) as [[gs o1] hs]. simpl. now apply (dead_hold hs _ l ob).
Qed.

Ltac dead_stable l :=
  first [ exact (dead_unsubscribe l) | exact (dead_subscribed l) | exact (dead_unsubscribed l) | exact (dead_error l)
        | exact (dead_lose l)
        | (intros; match goal with H : dead _ _ |- _ =>
             let ob := fresh "ob" in let Ho := fresh "Ho" in let Ha := fresh "Ha" in
             destruct H as [ob [Ho Ha]]; unfold dead; simpl;
             first [ exists ob; tauto | now apply (dead_hold _ _ l ob) ] end) ].

Lemma dead_step : forall fl s o l, dead s l -> dead (fst (step fl s o)) l.
Proof. intros fl s o l. apply (step_preserves (fun s => dead s l)); dead_stable l. Qed.

Lemma dead_not_invoked : forall fl s o l, dead s l -> ~ In l (invoked_labels (snd (step fl s o))).
Proof.
  intros fl s o l D Hin.
  destruct (step_called (fun s => dead s l)) with (fl := fl) (s := s) (o := o) (l := l) as [s' [D' A]];
    try assumption; try (dead_stable l).
  apply dead_inactive in D'. congruence.
Qed.

Lemma never_after_dead : forall fl ops s l, dead s l ->
  ~ In l (concat (map invoked_labels (snd (run fl s ops)))).
Proof.
  induction ops as [|o r IH]; intros s l D; simpl; [tauto|].
  pose proof (dead_step fl s o l D) as D1. pose proof (dead_not_invoked fl s o l D) as N2.
  destruct (step fl s o) as [s1 o1]. simpl in *. specialize (IH s1 l D1).
  destruct (run fl s1 r) as [s2 o2]. simpl in *. rewrite in_app_iff. tauto.
Qed.

(* Subscription(l).unsubscribe() was really called (the application holds the object) and returned normally *)
Definition unsub_returns (s : sess) (l : N) : Prop :=
  exists o, lookup l (s_objs s) = Some o /\ so_held o = true /\
            forall e, ~ In (ORaised e) (snd (api_unsubscribe s l)).

Lemma unsub_returns_dead : forall s l, unsub_returns s l -> dead (fst (api_unsubscribe s l)) l.
Proof.
  intros s l [o [Ho [Hh Hr]]]. unfold api_unsubscribe in *.
  rewrite Ho, Hh in *. simpl in *.
  destruct (so_active o); simpl in *; [|exfalso; eapply Hr; now left].
  destruct (lookup (so_id o) (s_subs s)) as [lst|]; [|exfalso; eapply Hr; now left].
  destruct (has_label l lst); simpl in *; [|exfalso; eapply Hr; now left].
  destruct (s_transport s); simpl in *; [|exfalso; eapply Hr; now left].
  destruct (remove_label l lst); unfold dead; simpl; eexists; rewrite lookup_assoc_set_same; split; reflexivity.
Qed.

Definition rearr (l : N) (i2 : list item) : list item :=
  filter (fun it => negb (is_done_u l it)) i2 ++ filter (is_done_u l) i2.

Lemma unsub_inl_cases : forall fl s l rin,
  api_unsubscribe_inl fl s l rin = (fst (api_unsubscribe s l), map INow (snd (api_unsubscribe s l)) ++ []) \/
  api_unsubscribe_inl fl s l rin =
    (fst (run_inline fl (fst (api_unsubscribe s l)) rin),
     map INow (snd (api_unsubscribe s l)) ++ rearr l (snd (run_inline fl (fst (api_unsubscribe s l)) rin))).
Proof.
  intros fl s l rin. unfold api_unsubscribe_inl. destruct (api_unsubscribe s l) as [s1 o1]. simpl.
  destruct o1 as [|[[]| | | | | |] [|]]; try (left; now rewrite app_nil_r).
  right. destruct (run_inline fl s1 rin) as [s2 i2]. reflexivity.
Qed.

Lemma now_invs_rearr : forall l i2 x, In x (invocations (now_outs (rearr l i2))) -> In x (invocations (now_outs i2)).
Proof.
  intros l i2 x. unfold rearr. rewrite now_outs_app, invocations_app, in_app_iff.
  induction i2 as [|[o|o|e ev|b0 ls] r IH]; simpl; [tauto| | | |]; try exact IH.
  - destruct o; simpl; try (destruct (label =? l)); simpl; intuition.
  - destruct o; simpl; intuition.
Qed.

Lemma later_invs_rearr : forall l i2 x, In x (later_invs (rearr l i2)) -> In x (later_invs i2).
Proof.
  intros l i2 x. unfold rearr. rewrite later_invs_app, in_app_iff.
  induction i2 as [|[o|o|e ev|b0 ls] r IH]; simpl; [tauto| | | |]; try exact IH.
  - destruct o; simpl; try (destruct (label =? l)); simpl; intuition.
  - intuition.
Qed.

Lemma finalize_invoked : forall fl s its x, In x (invocations (snd (finalize fl s its))) ->
  In x (invocations (now_outs its)) \/ In x (later_invs its).
Proof.
  intros fl s its x Hin. unfold finalize in Hin. destruct fl; simpl in Hin; [now left|].
  pose proof (run_items_invoked its s x) as V. destruct (run_items s its) as [[[[s3 g0] g1] g2] h2]. simpl in Hin.
  rewrite !invocations_app, !in_app_iff in Hin. now apply V.
Qed.

(* the rest of the very operation (messages delivered from inside its send()) and everything after *)
Lemma never_after_unsubscribe : forall fl ops1 l rin ops2,
  let s1 := final fl ops1 in
  unsub_returns s1 l ->
  ~ In l (concat (map invoked_labels (snd (run fl s1 (OpUnsubscribe l rin :: ops2))))).
Proof.
  intros fl ops1 l rin ops2 s1 Hr. simpl.
  pose proof (unsub_returns_dead s1 l Hr) as D0.
  assert (K : dead (fst (step fl s1 (OpUnsubscribe l rin))) l /\
              ~ In l (invoked_labels (snd (step fl s1 (OpUnsubscribe l rin))))).
  { split.
    - unfold step. simpl.
      assert (DS : forall s2 its, dead s2 l -> dead (fst (finalize fl s2 its)) l).
      { intros. apply (finalize_preserves (fun s => dead s l)); first [assumption | dead_stable l]. }
      destruct (unsub_inl_cases fl s1 l rin) as [E|E]; rewrite E; apply DS; [exact D0|].
      apply (run_inline_preserves (fun s => dead s l)); first [exact D0 | dead_stable l].
    - intro Hin. unfold step in Hin. simpl in Hin. unfold invoked_labels in Hin. apply in_map_iff in Hin.
      destruct Hin as [x [Hx Hin]].
      assert (Hq : invocations (snd (api_unsubscribe s1 l)) = []) by apply api_unsubscribe_no_invoke.
      destruct (unsub_inl_cases fl s1 l rin) as [E|E]; rewrite E in Hin; apply finalize_invoked in Hin;
        rewrite now_outs_app, now_outs_map, invocations_app, Hq, later_invs_app, later_invs_map in Hin; simpl in Hin.
      + destruct Hin as [[]|[]].
      + assert (C : called l (snd (run_inline fl (fst (api_unsubscribe s1 l)) rin))).
        { destruct Hin as [H|H].
          - left. apply now_invs_rearr in H. unfold invoked_labels. apply in_map_iff. eauto.
          - right. apply later_invs_rearr in H. rewrite <- later_invs_labels. apply in_map_iff. eauto. }
        destruct (run_inline_called (fun s => dead s l)) with (fl := fl) (ms := rin) (s := fst (api_unsubscribe s1 l)) (l := l)
          as [s3 [D3 A3]]; try assumption; try (dead_stable l).
        apply dead_inactive in D3. congruence. }
  destruct K as [K1 K2]. pose proof (never_after_dead fl ops2 _ l K1) as N.
  destruct (step fl s1 (OpUnsubscribe l rin)) as [s2 o2]. simpl in *.
  destruct (run fl s2 ops2) as [s3 o3]. simpl in *. rewrite in_app_iff. tauto.
Qed.

(* ------------------------------------------------------------------ C11: UNSUBSCRIBE exactly for the last handler *)
Lemma order_single : forall fl o, order fl [o] = [o].
Proof. intros [] o; [reflexivity|]. destruct o; reflexivity. Qed.

(* network transport: nothing is delivered from inside send() *)
Lemma step_unsubscribe : forall fl s l,
  step fl s (OpUnsubscribe l []) = (fst (api_unsubscribe s l), order fl (snd (api_unsubscribe s l))).
Proof.
  intros. unfold step. simpl.
  destruct (unsub_inl_cases fl s l []) as [E|E]; rewrite E; simpl; rewrite app_nil_r; apply finalize_now.
Qed.

Lemma unsubscribe_iff_last : forall fl s l o,
  lookup l (s_objs s) = Some o -> so_held o = true ->
  let outs := snd (step fl s (OpUnsubscribe l [])) in
  ((forall e, ~ In (ORaised e) outs) ->
     (labels (attached s (so_id o)) = [l] /\
        filter sends_unsubscribe outs = [OSent (MUnsubscribe (s_next s + 1) (so_id o))])
     \/ (labels (attached s (so_id o)) <> [l] /\ filter sends_unsubscribe outs = []))
  /\ ((exists e, In (ORaised e) outs) -> fst (step fl s (OpUnsubscribe l [])) = s /\ filter sends_unsubscribe outs = []).
Proof.
  intros fl s l o Ho Hh outs. subst outs. rewrite step_unsubscribe. simpl.
  destruct (api_unsubscribe_cases s l) as [E|[[x E]|[o' [lst [Ho' [_ [_ [Hl [Hm [_ [[Er E]|[Er E]]]]]]]]]]]].
  - exfalso. unfold api_unsubscribe in E. rewrite Ho, Hh in E. simpl in E.
    destruct (so_active o); simpl in E; [|discriminate].
    destruct (lookup (so_id o) (s_subs s)) as [lst|]; [|discriminate].
    destruct (has_label l lst); simpl in E; [|discriminate].
    destruct (s_transport s); simpl in E; [|discriminate].
    destruct (remove_label l lst); inversion E.
  - rewrite E. simpl. rewrite order_single. split.
    + intro H. exfalso. apply (H x). now left.
    + intros _. split; reflexivity.
  - assert (o' = o) by congruence. subst o'. rewrite E. simpl. rewrite order_single. split.
    + intros _. left. split; [|reflexivity]. unfold attached. rewrite Hl. now apply remove_label_nil.
    + intros [e [H|[]]]. discriminate.
  - assert (o' = o) by congruence. subst o'. rewrite E. simpl. rewrite order_single. split.
    + intros _. right. split; [|reflexivity]. unfold attached. rewrite Hl. intro X. apply Er. now apply remove_label_nil.
    + intros [e [H|[]]]. discriminate.
Qed.

(* in a reachable state an active subscription held by the application can always be unsubscribed *)
Lemma unsubscribe_succeeds : forall fl ops l o, let s := final fl ops in
  lookup l (s_objs s) = Some o -> so_held o = true -> so_active o = true -> s_transport s = true ->
  forall e, ~ In (ORaised e) (snd (step fl s (OpUnsubscribe l []))).
Proof.
  intros fl ops l o s Ho Hh Ha Ht e Hin. pose proof (final_inv fl ops) as I. fold s in I.
  pose proof (inv_active_att s I l o Ho Ha) as Hatt.
  rewrite step_unsubscribe in Hin. simpl in Hin. apply In_order in Hin.
  unfold api_unsubscribe in Hin. rewrite Ho, Hh, Ha in Hin. simpl in Hin.
  unfold attached in Hatt. destruct (lookup (so_id o) (s_subs s)) as [lst|]; [|destruct Hatt].
  apply has_label_In in Hatt. rewrite Hatt, Ht in Hin. simpl in Hin.
  destruct (remove_label l lst); simpl in Hin; destruct Hin as [H|[]]; discriminate.
Qed.

(* operations that carry nothing delivered from inside send() *)
Definition inline_free (o : op) : bool :=
  match o with
  | OpSubscribe _ _ _ rin => match rin with [] => true | _ => false end
  | OpSubscribeObj ms _ => forallb (fun m => match snd m with [] => true | _ => false end) ms
  | OpUnsubscribe _ rin => match rin with [] => true | _ => false end
  | _ => true
  end.

Lemma run_items_mem : forall its s x, later_of its = [] ->
  let '(s2, g0, g1, g2, h2) := run_items s its in In x g0 \/ In x g1 \/ In x g2 -> In x (now_outs its).
Proof.
  induction its as [|[o|o|e ev|[] ls] r IH]; intros s x Hl; simpl in *; try discriminate.
  - tauto.
  - specialize (IH s x Hl). destruct (run_items s r) as [[[[s2 g0] g1] g2] h2].
    destruct (is_immediate o); [|destruct (is_gather o)]; simpl; intuition.
  - specialize (IH s x Hl). destruct (run_items s r) as [[[[s2 g0] g1] g2] h2]. simpl; intuition.
  - specialize (IH s x Hl). destruct (run_items s r) as [[[[s2 g0] g1] g2] h2]. exact IH.
  - apply IH. exact Hl.
Qed.

Lemma finalize_mem : forall fl s its x, later_of its = [] -> In x (snd (finalize fl s its)) -> In x (now_outs its).
Proof.
  intros fl s its x Hl Hin. unfold finalize in Hin. destruct fl; [exact Hin|].
  pose proof (run_items_mem its s x Hl) as V. destruct (run_items s its) as [[[[s2 g0] g1] g2] h2].
  simpl in Hin. rewrite !in_app_iff in Hin. now apply V.
Qed.

Definition calm (its : list item) : Prop := later_of its = [] /\ forallb quiet (now_outs its) = true.

Lemma calm_app : forall a b, calm a -> calm b -> calm (a ++ b).
Proof. intros a b [A1 A2] [B1 B2]. split; [now rewrite later_of_app, A1, B1 | now rewrite now_outs_app, forallb_app, A2, B2]. Qed.
Lemma calm_now : forall os extra, forallb quiet os = true -> later_of extra = [] -> now_outs extra = [] -> calm (map INow os ++ extra).
Proof.
  intros os extra Q H1 H2. split; [now rewrite later_of_app, later_of_map, H1 | now rewrite now_outs_app, now_outs_map, H2, app_nil_r].
Qed.

Lemma return_future_calm : forall fl s g, calm (snd (return_future fl s g)).
Proof.
  intros fl s g. unfold return_future. pose proof (seal_quiet (s_gathers s) g) as Q.
  destruct (seal (s_gathers s) g) as [[gs o] hs]. simpl in Q. destruct fl; simpl.
  - rewrite <- (app_nil_r (map INow o)). now apply calm_now.
  - split.
    + rewrite later_of_app. simpl. rewrite app_nil_r. clear. induction o; simpl; auto.
    + rewrite now_outs_app, now_outs_soon. simpl. now rewrite app_nil_r.
Qed.

Lemma subscribe_all_calm : forall fl ms s g call,
  forallb (fun m : method => match snd m with [] => true | _ => false end) ms = true ->
  calm (snd (subscribe_all fl s g call ms)).
Proof.
  intros fl. induction ms as [|[[[sp own] t] rin] r IH]; intros s g call H; simpl in *; [split; reflexivity|].
  apply andb_true_iff in H. destruct H as [H1 H2]. destruct rin; [|discriminate].
  unfold do_subscribe. simpl. specialize (IH (record_sub s (mk_handler true (method_opts call own) sp) t g) g call H2).
  destruct (subscribe_all fl (record_sub s (mk_handler true (method_opts call own) sp) t g) g call r) as [s2 i2]. simpl in *.
  destruct IH as [A B]. split; simpl; [exact A | exact B].
Qed.

Lemma on_message_calm : forall fl s m, (forall ev, m <> MsgEvent ev) -> calm (snd (on_message fl s m)).
Proof.
  intros fl s m Hne. unfold on_message. destruct (negb (s_joined s)); [split; reflexivity|]. destruct m.
  - pose proof (on_subscribed_quiet (is_tx fl) s request subscription) as Q.
    destruct (on_subscribed (is_tx fl) s request subscription) as [[s1 o] hs]. apply calm_now; [exact Q | |]; apply later_of_hold_items.
  - pose proof (on_unsubscribed_quiet s request) as Q. destruct (on_unsubscribed s request) as [s1 o]. simpl.
    rewrite <- (app_nil_r (map INow o)). now apply calm_now.
  - pose proof (on_unsubscribed_quiet s 0) as Q. destruct (on_unsubscribed s 0) as [s1 o]. simpl.
    rewrite <- (app_nil_r (map INow o)). now apply calm_now.
  - pose proof (on_error_quiet (is_tx fl) s rtype request uri) as Q.
    destruct (on_error (is_tx fl) s rtype request uri) as [[s1 o] hs]. apply calm_now; [exact Q | |]; apply later_of_hold_items.
  - exfalso. eapply Hne. reflexivity.
Qed.

(* no operation other than an unsubscribe() call (by the application, or by a handler during a dispatch) sends it *)
Lemma unsubscribe_only_source : forall fl s o,
  (forall l rin, o <> OpUnsubscribe l rin) -> (forall ev, o <> OpEvent ev) -> inline_free o = true ->
  filter sends_unsubscribe (snd (step fl s o)) = [].
Proof.
  intros fl s o H1 H2 Hf.
  assert (C : calm (snd (step_items fl s o))).
  { destruct o; simpl in *; try (apply on_message_calm; intros ev X; discriminate).
    - destruct rin; [|discriminate]. unfold api_subscribe. destruct (negb (opts_ok o)); [split; reflexivity|].
      destruct (negb (s_transport s)); [split; reflexivity|]. unfold do_subscribe. simpl.
      match goal with |- context [return_future fl ?s1 ?g] =>
        pose proof (return_future_calm fl s1 g) as R; destruct (return_future fl s1 g) as [s2 i2] end.
      simpl in *. destruct R as [A B]. split; simpl; [exact A | exact B].
    - unfold api_subscribe_obj. destruct (negb (methods_ok call ms)); [split; reflexivity|].
      destruct (negb (s_transport s)); [split; reflexivity|].
      match goal with |- context [subscribe_all fl ?s0 ?g call ms] =>
        pose proof (subscribe_all_calm fl ms s0 g call Hf) as S; destruct (subscribe_all fl s0 g call ms) as [s1 i1] end.
      match goal with |- context [return_future fl ?s1 ?g] =>
        pose proof (return_future_calm fl s1 g) as R; destruct (return_future fl s1 g) as [s2 i2] end.
      simpl in *. now apply calm_app.
    - exfalso. eapply H1. reflexivity.
    - exfalso. eapply H2. reflexivity.
    - pose proof (on_lose_quiet s) as Q. destruct (on_lose s) as [s1 o1]. simpl in *.
      rewrite <- (app_nil_r (map INow o1)). now apply calm_now. }
  unfold step. destruct (step_items fl s o) as [s1 its]. simpl in C. destruct C as [C1 C2].
  apply filter_none. intros x Hx. apply (finalize_mem fl s1 its x C1) in Hx.
  rewrite forallb_forall in C2. specialize (C2 x Hx). destruct x as [[]| | | | | |]; simpl in *; try discriminate; reflexivity.
Qed.

(* ------------------------------------------------------------------ C11: racing / unknown events *)
(* the criterion the code applies: membership of the id in self._subscriptions *)
Lemma event_table_criterion : forall fl s ev, s_joined s = true ->
  (lookup (e_sub ev) (s_subs s) = None -> step fl s (OpEvent ev) = (s, [ORaised EProtocolError])) /\
  (lookup (e_sub ev) (s_subs s) = Some [] -> step fl s (OpEvent ev) = (s, [])).
Proof.
  intros fl s ev Hj. rewrite step_event by exact Hj. unfold on_event. split; intros H; rewrite H; simpl.
  - destruct fl; simpl; [reflexivity|]. now rewrite hold_nil, set_objs_id.
  - destruct fl; simpl; [reflexivity|]. now rewrite hold_nil, set_objs_id.
Qed.

Lemma race_dropped : forall fl ops l o ev, let s := final fl ops in
  lookup l (s_objs s) = Some o -> so_held o = true -> so_active o = true -> s_transport s = true ->
  labels (attached s (so_id o)) = [l] -> e_sub ev = so_id o ->
  let s' := fst (step fl s (OpUnsubscribe l [])) in
  In (so_id o) (s_ever s') /\ step fl s' (OpEvent ev) = (s', []).
Proof.
  intros fl ops l o ev s Ho Hh Ha Ht Hlab Hev s'. pose proof (final_inv fl ops) as I. fold s in I.
  assert (Hs' : s' = fst (api_unsubscribe s l)) by (subst s'; now rewrite step_unsubscribe).
  unfold attached in Hlab. destruct (lookup (so_id o) (s_subs s)) as [lst|] eqn:Hl; [|discriminate].
  assert (Hm : has_label l lst = true) by (apply has_label_In; rewrite Hlab; now left).
  assert (Er : remove_label l lst = []) by (apply remove_label_nil; [rewrite Hlab; now left | exact Hlab]).
  unfold api_unsubscribe in Hs'. rewrite Ho, Hh, Ha, Hl, Hm, Ht, Er in Hs'. simpl in Hs'.
  split.
  - rewrite Hs'. simpl. apply (inv_ever s I). eapply lookup_Some_keys; eauto.
  - apply event_table_criterion.
    + rewrite Hs'. simpl. now rewrite (inv_joined s I).
    + rewrite Hs', Hev. simpl. apply lookup_assoc_set_same.
Qed.

Lemma unknown_is_violation : forall fl ops ev, let s := final fl ops in
  ~ In (e_sub ev) (s_ever s) -> step fl s (OpEvent ev) = (s, [ORaised EProtocolError]).
Proof.
  intros fl ops ev s Hn. pose proof (final_inv fl ops) as I. fold s in I.
  destruct (s_joined s) eqn:Hj.
  - apply event_table_criterion; [exact Hj|]. apply lookup_None_keys. intro X. apply Hn. now apply (inv_ever s I).
  - unfold step. simpl. unfold on_message. rewrite Hj. simpl.
    destruct fl; simpl; [reflexivity|]. now rewrite hold_nil, set_objs_id.
Qed.

(* ------------------------------------------------------------------ a call that creates no Task only hands objects over afterwards *)
Lemma run_items_nolater : forall its s, later_of its = [] -> exists objs', ri_state (run_items s its) = set_objs s objs'.
Proof.
  induction its as [|[o|o|e ev|[] ls] r IH]; intros s Hl; simpl in *; try discriminate.
  - exists (s_objs s). now rewrite set_objs_id.
  - destruct (IH s Hl) as [ob E]. destruct (run_items s r) as [[[[s2 g0] g1] g2] h2]. exists ob.
    destruct (is_immediate o); [exact E|]. destruct (is_gather o); exact E.
  - destruct (IH s Hl) as [ob E]. destruct (run_items s r) as [[[[s2 g0] g1] g2] h2]. exists ob. exact E.
  - destruct (IH s Hl) as [ob E]. destruct (run_items s r) as [[[[s2 g0] g1] g2] h2]. exists ob. exact E.
  - destruct (IH (set_objs s (hold ls (s_objs s))) Hl) as [ob E]. exists ob. rewrite E. reflexivity.
Qed.

Lemma finalize_nolater : forall fl s its, later_of its = [] -> exists objs', fst (finalize fl s its) = set_objs s objs'.
Proof.
  intros fl s its Hl. unfold finalize. destruct fl; simpl; [exists (s_objs s); now rewrite set_objs_id|].
  destruct (run_items_nolater its s Hl) as [ob E]. destruct (run_items s its) as [[[[s2 g0] g1] g2] h2].
  unfold ri_state in E. simpl in *. rewrite E. eexists. reflexivity.
Qed.

(* ------------------------------------------------------------------ C11: how the handler list evolves *)
(* SUBSCRIBED for a pending request appends that request's handler at the END of the list of the id it names
   (so list order = subscription order) and touches no other list *)
Lemma subscribed_appends : forall fl s req sid rq, s_joined s = true -> lookup req (s_subreqs s) = Some rq ->
  let s' := fst (step fl s (OpSubscribed req sid)) in
  attached s' sid = attached s sid ++ [{| se_label := req; se_topic := sr_topic rq; se_handler := sr_handler rq |}] /\
  (forall sid', sid' <> sid -> attached s' sid' = attached s sid').
Proof.
  intros fl s req sid rq Hj Hr s'. subst s'. unfold step. simpl. unfold on_message. rewrite Hj. simpl.
  unfold on_subscribed. rewrite Hr. destruct (complete_sub (s_gathers s) req rq (RSub sid)) as [[gs o] hs]. simpl.
  match goal with |- context [finalize fl ?s1 ?its] =>
    destruct (finalize_nolater fl s1 its) as [ob E] end.
  { rewrite later_of_app, later_of_map. apply later_of_hold_items. }
  rewrite E. unfold attached. simpl. split.
  - rewrite lookup_append_sub, N.eqb_refl. reflexivity.
  - intros sid' Hne. rewrite lookup_append_sub. destruct (sid' =? sid) eqn:E0; [apply N.eqb_eq in E0; congruence | reflexivity].
Qed.

(* an unsubscribe() that returns removes exactly that handler, keeps the order of the others, touches no other list,
   and marks the object inactive *)
Lemma unsubscribe_removes : forall fl s l o, lookup l (s_objs s) = Some o -> so_held o = true ->
  (forall e, ~ In (ORaised e) (snd (step fl s (OpUnsubscribe l [])))) ->
  let s' := fst (step fl s (OpUnsubscribe l [])) in
  attached s' (so_id o) = remove_label l (attached s (so_id o)) /\
  (forall sid', sid' <> so_id o -> attached s' sid' = attached s sid') /\
  is_active s' l = false.
Proof.
  intros fl s l o Ho Hh Hr s'. subst s'. rewrite step_unsubscribe in *. simpl in *.
  destruct (api_unsubscribe_cases s l) as [E|[[x E]|[o' [lst [Ho' [_ [_ [Hl [_ [_ [[_ E]|[_ E]]]]]]]]]]]].
  - exfalso. unfold api_unsubscribe in E. rewrite Ho, Hh in E. simpl in E.
    destruct (so_active o); simpl in E; [|discriminate].
    destruct (lookup (so_id o) (s_subs s)) as [lst|]; [|discriminate].
    destruct (has_label l lst); simpl in E; [|discriminate].
    destruct (s_transport s); simpl in E; [|discriminate].
    destruct (remove_label l lst); inversion E.
  - exfalso. rewrite E in Hr. simpl in Hr. rewrite order_single in Hr. apply (Hr x). now left.
  - assert (o' = o) by congruence. subst o'. rewrite E. unfold attached, is_active, unsub_core. simpl. rewrite Hl.
    split; [now rewrite lookup_assoc_set_same|]. split; [|now rewrite lookup_assoc_set_same].
    intros sid' Hne. now rewrite lookup_assoc_set_other.
  - assert (o' = o) by congruence. subst o'. rewrite E. unfold attached, is_active, unsub_core. simpl. rewrite Hl.
    split; [now rewrite lookup_assoc_set_same|]. split; [|now rewrite lookup_assoc_set_same].
    intros sid' Hne. now rewrite lookup_assoc_set_other.
Qed.

(* ------------------------------------------------------------------ C11: the REQUESTED event details *)
(* for every argument combination SubscribeOptions accepts, what it stores is what the application asked for *)
Lemma options_normalisation : forall o, opts_valid o = true -> norm_details o = requested_details (Some o).
Proof. intros [[[]|] [k|] m g]; simpl; intros H; try discriminate; reflexivity. Qed.

Lemma handler_details_requested : forall obj o sp, opts_ok o = true ->
  h_details (mk_handler obj o sp) = requested_details o.
Proof. intros obj [o|] sp H; simpl; [now apply options_normalisation | reflexivity]. Qed.

(* subscribe(fn, topic, options): the request that is recorded (and, by C11_subscribed_appends, the handler that is
   attached when SUBSCRIBED arrives) carries exactly the requested details; the options on the wire are the given ones *)
Lemma subscribe_records_request : forall fl s sp o t, opts_ok o = true -> s_transport s = true ->
  let rid := s_next s + 1 in
  let s' := fst (step fl s (OpSubscribe sp o t [])) in
  exists h, s_subreqs s' = s_subreqs s ++ [(rid, {| sr_topic := t; sr_handler := h; sr_group := rid |})] /\
            h_details h = requested_details o /\ h_sig h = hs_sig sp /\ h_check h = hs_check sp /\ h_beh h = hs_beh sp /\
            In (OSent (MSubscribe rid t (wire_match o) (wire_retained o))) (snd (step fl s (OpSubscribe sp o t []))).
Proof.
  intros fl s sp o t Hv Ht rid s'. subst s' rid. exists (mk_handler false o sp).
  unfold step. simpl. unfold api_subscribe. rewrite Hv, Ht. simpl. unfold do_subscribe. simpl.
  match goal with |- context [return_future fl ?s1 ?g] =>
    pose proof (return_future_calm fl s1 g) as R;
    assert (F : s_subreqs (fst (return_future fl s1 g)) = s_subreqs s1)
      by (unfold return_future; destruct (seal (s_gathers s1) g) as [[gs o1] hs]; destruct fl; reflexivity);
    destruct (return_future fl s1 g) as [s2 i2] end.
  simpl in *. destruct R as [R1 R2].
  match goal with |- context [finalize fl s2 ?its] =>
    destruct (finalize_nolater fl s2 its) as [ob E]; [simpl; exact R1|];
    assert (M : In (OSent (MSubscribe (s_next s + 1) t (wire_match o) (wire_retained o))) (snd (finalize fl s2 its))) end.
  { unfold finalize. destruct fl; simpl; [now left|].
    destruct (run_items s2 i2) as [[[[s3 g0] g1] g2] h2]. simpl. now left. }
  rewrite E. simpl. rewrite F. split; [reflexivity|].
  split; [now apply (handler_details_requested false o sp)|]. repeat (split; [reflexivity|]). exact M.
Qed.

(* ------------------------------------------------------------------ C11: replies delivered from inside transport.send() *)
Definition donelike (o : out) : bool := match o with ODone _ _ | ODoneG _ _ | ODoneU _ _ => true | _ => false end.

Lemma settle_donelike : forall gs g single sealed ms, forallb donelike (snd (fst (settle gs g single sealed ms))) = true.
Proof.
  intros. unfold settle. destruct (if sealed then all_done ms else None) as [rs|]; [|reflexivity]. simpl.
  unfold done_out. destruct single; [|reflexivity]. destruct rs as [|r [|]]; reflexivity.
Qed.

(* the request is on record when SUBSCRIBE goes out: a SUBSCRIBED the transport delivers before send() returns is
   accepted like any other - the handler is attached, the request is no longer pending, nothing is raised *)
Lemma subscribed_inside_send : forall fl ops sp o t sid, let s := final fl ops in
  opts_ok o = true -> s_transport s = true ->
  let rid := s_next s + 1 in
  let r := step fl s (OpSubscribe sp o t [MsgSubscribed rid sid]) in
  attached (fst r) sid = attached s sid ++ [{| se_label := rid; se_topic := t; se_handler := mk_handler false o sp |}] /\
  lookup rid (s_subreqs (fst r)) = None /\
  (forall e, ~ In (ORaised e) (snd r)).
Proof.
  intros fl ops sp o t sid s Hv Ht rid r. subst r rid. pose proof (final_inv fl ops) as I. fold s in I.
  assert (Hj : s_joined s = true) by (rewrite (inv_joined s I); exact Ht).
  assert (Hfresh : lookup (s_next s + 1) (s_subreqs s) = None).
  { apply lookup_None_keys. intro X. apply (inv_req_le s I) in X. lia. }
  unfold step. simpl. unfold api_subscribe. rewrite Hv, Ht. simpl. unfold do_subscribe. simpl.
  unfold on_message. simpl. rewrite Hj. simpl. unfold on_subscribed. simpl.
  rewrite lookup_app, Hfresh. simpl. rewrite N.eqb_refl.
  match goal with |- context [complete_sub ?gs ?rid ?rq ?res] =>
    pose proof (complete_sub_quiet gs rid rq res) as Q0;
    assert (Q : forallb donelike (snd (fst (complete_sub gs rid rq res))) = true)
      by (unfold complete_sub; destruct (lookup (sr_group rq) gs); [apply settle_donelike | reflexivity]);
    destruct (complete_sub gs rid rq res) as [[gs1 o1] hs1] end.
  simpl in *.
  match goal with |- context [return_future fl ?s1 ?g] =>
    pose proof (return_future_calm fl s1 g) as R;
    assert (F : s_subreqs (fst (return_future fl s1 g)) = s_subreqs s1 /\ s_subs (fst (return_future fl s1 g)) = s_subs s1)
      by (unfold return_future; destruct (seal (s_gathers s1) g) as [[gs o2] hs]; destruct fl; split; reflexivity);
    assert (D : forallb donelike (now_outs (snd (return_future fl s1 g))) = true)
      by (unfold return_future, seal; destruct (lookup g (s_gathers s1)) as [f|];
          [pose proof (settle_donelike (s_gathers s1) g (f_single f) true (f_members f)) as X;
           destruct (settle (s_gathers s1) g (f_single f) true (f_members f)) as [[gs o2] hs]; simpl in X;
           destruct fl; simpl; [now rewrite now_outs_map | rewrite now_outs_app, now_outs_soon; simpl; now rewrite app_nil_r]
          | destruct fl; reflexivity]);
    destruct (return_future fl s1 g) as [s2 i2] end.
  simpl in *. destruct R as [R1 R2]. destruct F as [F1 F2].
  match goal with |- context [finalize fl s2 ?its] =>
    assert (L : later_of its = []) by
      (simpl; rewrite !later_of_app, later_of_map, R1; destruct fl; reflexivity);
    destruct (finalize_nolater fl s2 its L) as [ob E];
    pose proof (fun x => finalize_mem fl s2 its x L) as M end.
  rewrite E. unfold attached. simpl. rewrite F1, F2. simpl. split; [|split].
  - rewrite lookup_append_sub, N.eqb_refl. reflexivity.
  - rewrite <- (app_nil_r (s_subreqs s)) at 1.
    assert (Z : forall (l : list (N * subreq)) k v, lookup k l = None -> lookup k (remove_key k (l ++ [(k, v)])) = None).
    { clear. induction l as [|[k0 v0] r IH]; intros k v H; simpl in *; [now rewrite N.eqb_refl|].
      destruct (k0 =? k) eqn:E; [discriminate|]. simpl. rewrite E. now apply IH. }
    rewrite app_nil_r. now apply Z.
  - intros e He. apply M in He. simpl in He.
    rewrite !now_outs_app, now_outs_map in He.
    assert (X : forall x, In x o1 -> donelike x = true) by (apply forallb_forall; exact Q).
    assert (Y : forall x, In x (now_outs i2) -> donelike x = true) by (apply forallb_forall; exact D).
    assert (Z : now_outs (hold_items fl o1 hs1) = []) by apply later_of_hold_items.
    rewrite Z, app_nil_r in He. destruct He as [He|He]; [discriminate|].
    rewrite !in_app_iff in He. destruct He as [[He|[]]|He]; [apply X in He | apply Y in He]; discriminate.
Qed.

(* likewise for the UNSUBSCRIBE of the last handler: an UNSUBSCRIBED delivered before send() returns is accepted, the id
   leaves the table, the unsubscribe future completes with 0 *)
Lemma unsubscribed_inside_send : forall fl ops l o, let s := final fl ops in
  lookup l (s_objs s) = Some o -> so_held o = true -> so_active o = true -> s_transport s = true ->
  labels (attached s (so_id o)) = [l] ->
  let r := step fl s (OpUnsubscribe l [MsgUnsubscribed (s_next s + 1)]) in
  lookup (so_id o) (s_subs (fst r)) = None /\ In (ODoneU l (RNum 0)) (snd r) /\ (forall e, ~ In (ORaised e) (snd r)).
Proof.
  intros fl ops l o s Ho Hh Ha Ht Hlab r. subst r. pose proof (final_inv fl ops) as I. fold s in I.
  assert (Hj : s_joined s = true) by (rewrite (inv_joined s I); exact Ht).
  unfold attached in Hlab. destruct (lookup (so_id o) (s_subs s)) as [lst|] eqn:Hl; [|discriminate].
  assert (Hm : has_label l lst = true) by (apply has_label_In; rewrite Hlab; now left).
  assert (Er : remove_label l lst = []) by (apply remove_label_nil; [rewrite Hlab; now left | exact Hlab]).
  assert (Hfresh : forall v, lookup (s_next s + 1) (s_unsubreqs s ++ [(s_next s + 1, v)]) = Some v \/
                             exists v', lookup (s_next s + 1) (s_unsubreqs s) = Some v').
  { intro v. rewrite lookup_app. destruct (lookup (s_next s + 1) (s_unsubreqs s)); [right; eauto | left]. simpl. now rewrite N.eqb_refl. }
  unfold step. simpl. unfold api_unsubscribe_inl, api_unsubscribe. rewrite Ho, Hh, Ha, Hl, Hm, Ht, Er. simpl.
  unfold on_message. simpl. rewrite Hj. simpl. unfold on_unsubscribed. simpl.
  destruct (lookup (s_next s + 1) (s_unsubreqs s ++ [(s_next s + 1, {| ur_sub := so_id o; ur_obj := l |})])) as [rq|] eqn:Eq.
  2:{ exfalso. destruct (Hfresh {| ur_sub := so_id o; ur_obj := l |}) as [X|[v' X]]; [congruence|].
      rewrite lookup_app, X in Eq. discriminate. }
  (* request ids of UNSUBSCRIBE are not part of the invariant: whichever entry is found names this subscription only if it is ours *)
  simpl.
  assert (Hrq : rq = {| ur_sub := so_id o; ur_obj := l |} \/ lookup (s_next s + 1) (s_unsubreqs s) = Some rq).
  { rewrite lookup_app in Eq. destruct (lookup (s_next s + 1) (s_unsubreqs s)) as [v|]; [right; congruence | left].
    simpl in Eq. rewrite N.eqb_refl in Eq. congruence. }
  destruct Hrq as [->|Hold].
  - simpl. rewrite N.eqb_refl. simpl.
    match goal with |- context [finalize fl ?s2 ?its] =>
      assert (L : later_of its = []) by reflexivity;
      destruct (finalize_nolater fl s2 its L) as [ob E];
      pose proof (fun x => finalize_mem fl s2 its x L) as M;
      assert (Min : In (ODoneU l (RNum 0)) (snd (finalize fl s2 its))) end.
    { unfold finalize. destruct fl; simpl; right; now left. }
    rewrite E. simpl. split; [|split; [exact Min|]].
    + apply lookup_remove_key_same. rewrite keys_assoc_set_present by (eapply lookup_Some_keys; eauto). apply (inv_subs_nodup s I).
    + intros e He. apply M in He. simpl in He. destruct He as [He|[He|[]]]; discriminate.
  - (* an UNSUBSCRIBE request with a future id cannot be pending *)
    exfalso. apply lookup_Some_keys in Hold. apply (inv_ureq_le s I) in Hold. lia.
Qed.

(* ------------------------------------------------------------------ witnesses for the non-vacuity examples / regressions *)
Definition w_sp (b : behaviour) : hspec := {| hs_sig := SigAny; hs_check := false; hs_ann := None; hs_beh := b |}.
Definition w_strict_sp : hspec := {| hs_sig := SigOnly [0]; hs_check := false; hs_ann := None; hs_beh := BReturn |}.
Definition w_opts (d : option bool) (da : option key) : option subopts :=
  Some {| o_details := d; o_details_arg := da; o_match := None; o_get_retained := None |}.
(* subscribe(fn, topic, options) over a network transport *)
Definition w_sub (b : behaviour) (o : option subopts) : op := OpSubscribe (w_sp b) o 1 [].
(* check_types handlers: def h(level: int, *values, **fields), def h(kind: str, *values) *)
Definition w_checked (ann : anntype) (vk : bool) : hspec :=
  {| hs_sig := {| sg_fixed := 1; sg_varargs := true; sg_kwonly := []; sg_varkw := vk |};
     hs_check := true; hs_ann := Some ann; hs_beh := BReturn |}.
Definition w_checked_ops : list op :=
  [OpSubscribe (w_checked TInt true) None 1 []; w_sub (BUnsub [1]) None; OpSubscribe (w_checked TStr false) None 1 [];
   OpSubscribed 1 71; OpSubscribed 2 71; OpSubscribed 3 71].
Definition w_event (kw : kwargs) : event :=
  {| e_sub := 71; e_pub := 900; e_args := [1%Z]; e_kwargs := kw; e_publisher := None; e_topic := None; e_retained := None; e_extra := 5 |}.
(* DESIGN F-C11-1: three handlers on id 71, the first with details_arg "details" (key 3), the second a function
   accepting only keyword "a" (key 0); to be hit by EVENT args [1], kwargs {a: 1} *)
Definition w_shared_ops : list op :=
  [w_sub BReturn (w_opts None (Some 3)); OpSubscribe w_strict_sp None 1 []; w_sub BReturn None;
   OpSubscribed 1 71; OpSubscribed 2 71; OpSubscribed 3 71].
(* the first handler unsubscribes itself, the second unsubscribes the third, while being called *)
Definition w_reentrant_ops : list op :=
  [w_sub (BUnsub [1]) None; w_sub (BUnsub [3]) None; w_sub BReturn None; w_sub BReturn None;
   OpSubscribed 1 71; OpSubscribed 2 71; OpSubscribed 3 71; OpSubscribed 4 71].
Definition w_three_ops : list op :=      (* three handlers on id 71: returns / raises (asked for details) / strict signature *)
  [w_sub BReturn None; w_sub (BRaise 7) (w_opts (Some true) None); OpSubscribe w_strict_sp None 1 [];
   OpSubscribed 1 71; OpSubscribed 2 71; OpSubscribed 3 71].
(* every way of (not) asking for details, each handler accepting only the keyword "a" and whatever it asked for:
   no options / SubscribeOptions() / details=False / details=True / details_arg="info" *)
Definition w_strict_with (ks : list key) : hspec := {| hs_sig := SigOnly ks; hs_check := false; hs_ann := None; hs_beh := BReturn |}.
Definition w_details_ops : list op :=
  [OpSubscribe (w_strict_with [0]) None 1 []; OpSubscribe (w_strict_with [0]) (w_opts None None) 1 [];
   OpSubscribe (w_strict_with [0]) (w_opts (Some false) None) 1 []; OpSubscribe (w_strict_with [0; 3]) (w_opts (Some true) None) 1 [];
   OpSubscribe (w_strict_with [0; 4]) (w_opts None (Some 4)) 1 [];
   OpSubscribed 1 71; OpSubscribed 2 71; OpSubscribed 3 71; OpSubscribed 4 71; OpSubscribed 5 71].

(* for the examples: an output seen as (label, args, kwargs, did the function body run) *)
Definition observable_invocation (o : out) : option (N * list Z * kwargs * bool) :=
  match o with OInvoke l _ a kw ran => Some (l, a, kw, ran) | _ => None end.
Definition ran_labels (os : list out) : list N :=
  fold_right (fun o acc => match o with OInvoke l _ _ _ true => l :: acc | _ => acc end) [] os.
