(* Segmentation independence of the receive path (C02_split_independent), for the default failure policy
   failByDrop = true, and its refutation for failByDrop = false. *)
From Coq Require Import NArith List Bool Lia PeanoNat.
From AV Require Import Model.Masker Proofs.MaskerProofs Gen.WsConsts Model.WsRecv Proofs.WsRecvProofs Proofs.WsRecvLocal.
Import ListNotations.
Open Scope N_scope.

(* ---------- lists ---------- *)
Lemma take_app_le n (d y : list N) : n <= lenN d -> take n (d ++ y) = take n d.
Proof.
  unfold take, lenN. intros H. rewrite firstn_app.
  replace (N.to_nat n - length d)%nat with 0%nat by lia. cbn. now rewrite app_nil_r.
Qed.
Lemma drop_app_le n (d y : list N) : n <= lenN d -> drop n (d ++ y) = drop n d ++ y.
Proof.
  unfold drop, lenN. intros H. rewrite skipn_app.
  replace (N.to_nat n - length d)%nat with 0%nat by lia. reflexivity.
Qed.
Lemma take_app_ge n (d y : list N) : lenN d <= n -> take n (d ++ y) = d ++ take (n - lenN d) y.
Proof.
  unfold take, lenN. intros H. rewrite firstn_app. rewrite firstn_all2 by lia.
  f_equal. f_equal. lia.
Qed.
Lemma drop_app_ge n (d y : list N) : lenN d <= n -> drop n (d ++ y) = drop (n - lenN d) y.
Proof.
  unfold drop, lenN. intros H. rewrite skipn_app. rewrite skipn_all2 by lia. cbn. f_equal. lia.
Qed.
Lemma lenN_take n (d : list N) : n <= lenN d -> lenN (take n d) = n.
Proof. unfold take, lenN. intros H. rewrite firstn_length. lia. Qed.
Lemma lenN_drop n (d : list N) : lenN (drop n d) = lenN d - n.
Proof. unfold drop, lenN. rewrite skipn_length. lia. Qed.
Lemma take_drop n (d : list N) : take n d ++ drop n d = d.
Proof. apply firstn_skipn. Qed.
Lemma nth_app_lt (d y : list N) i : (i < length d)%nat -> nth i (d ++ y) 0 = nth i d 0.
Proof. intros H. now apply app_nth1. Qed.
Lemma nonempty_app (a b : list N) : nonempty (a ++ b) = nonempty a || nonempty b.
Proof. destruct a; reflexivity. Qed.
Lemma nonempty_lenN (a : list N) : nonempty a = (0 <? lenN a).
Proof. destruct a; [reflexivity|]. unfold lenN. cbn [length nonempty]. symmetry. apply N.ltb_lt. lia. Qed.
Lemma lenN_xor k p d : lenN (xor_spec k p d) = lenN d.
Proof. unfold lenN. now rewrite xor_spec_length. Qed.

Lemma mask_process_app k p a b :
  mask_process k p (a ++ b) =
    let '(o1, p1) := mask_process k p a in let '(o2, p2) := mask_process k p1 b in (o1 ++ o2, p2).
Proof.
  unfold mask_process. destruct k as [key|].
  - rewrite xor_spec_app, lenN_app. f_equal. lia.
  - rewrite lenN_app. f_equal. lia.
Qed.
Lemma mask_process_nil k p : mask_process k p [] = ([], p).
Proof. unfold mask_process. destruct k; cbn; now rewrite N.add_0_r. Qed.
Lemma mask_process_ptr k p a : snd (mask_process k p a) = p + lenN a.
Proof. unfold mask_process. destruct k; reflexivity. Qed.
Lemma mask_process_len k p a : lenN (fst (mask_process k p a)) = lenN a.
Proof. unfold mask_process. destruct k; cbn [fst]; [apply lenN_xor|reflexivity]. Qed.

(* the "if length > 0" guard of processData is unobservable *)
Lemma chunk_guard k p chunk :
  (if pd_chunk_nonempty (lenN chunk) then mask_process k p chunk else ([], p)) = mask_process k p chunk.
Proof.
  unfold pd_chunk_nonempty. destruct chunk as [|x r].
  - cbn. now rewrite mask_process_nil.
  - replace (0 <? lenN (x :: r)) with true; [reflexivity|]. symmetry. apply N.ltb_lt. unfold lenN. cbn [length]. lia.
Qed.

Section WithCodec.
Variable D : Type.
Variable cd : codec D.
Notation rstate := (rstate D).
Notation mstate := (mstate D).

Definition push (s : rstate) (y : list N) : rstate := r_data D s (data D s ++ y).

Lemma push_nil (s : rstate) : push s [] = s.
Proof. destruct s. unfold push, r_data. cbn. now rewrite app_nil_r. Qed.
Lemma push_push (s : rstate) a b : push (push s a) b = push s (a ++ b).
Proof. destruct s. unfold push, r_data. cbn. now rewrite app_assoc. Qed.

(* ---------- the frame handlers never read self.data ---------- *)
Lemma on_frame_begin_data cf (s : rstate) f v :
  on_frame_begin D cd cf (r_data D s v) f =
    let '(s1, e) := on_frame_begin D cd cf s f in (r_data D s1 v, e).
Proof.
  unfold on_frame_begin. destruct (fb_is_ctl (f_op f)); [reflexivity|].
  cbn [ms cn r_data]. destruct (failed (cn D s)); [reflexivity|].
  destruct (on_message_frame_begin D cf _ _ _) as [[c1 m2] e]. reflexivity.
Qed.

Lemma on_frame_data_data cf (s : rstate) f p v :
  on_frame_data D cd cf (r_data D s v) f p =
    let '(s1, e, b) := on_frame_data D cd cf s f p in (r_data D s1 v, e, b).
Proof.
  unfold on_frame_data. destruct (fd_is_ctl (f_op f)); [reflexivity|].
  cbn [ms cn r_data]. destruct (if zon D (ms D s) then _ else _) as [d1 pl].
  destruct (uon D _); [|reflexivity].
  destruct (u_validate _ pl) as [[vv e] u1]. destruct vv; cbn [negb]; [reflexivity|].
  destruct (invalid_payload cf (cn D s)) as [[c1 ev] stop]. destruct stop; reflexivity.
Qed.

Lemma process_control_frame_data cf (s : rstate) f v :
  process_control_frame D cf (r_data D s v) f =
    let '(s1, e, b) := process_control_frame D cf s f in (r_data D s1 v, e, b).
Proof.
  unfold process_control_frame. cbn [cdata r_data cn r_cdata].
  destruct (pc_is_close (f_op f)).
  - destruct (on_close_frame cf _ _ _) as [c1 e1]. reflexivity.
  - destruct (pc_is_ping (f_op f)).
    + destruct (st (cn D s)); [destruct (_ && _)|..]; reflexivity.
    + destruct (pc_is_pong (f_op f)); reflexivity.
Qed.

Lemma on_frame_end_data cf (s : rstate) f v :
  on_frame_end D cd cf (r_data D s v) f =
    let '(s1, e, c) := on_frame_end D cd cf s f in (r_data D s1 v, e, c).
Proof.
  unfold on_frame_end. destruct (fe_is_ctl (f_op f)).
  - rewrite process_control_frame_data. destruct (process_control_frame D cf s f) as [[s1 e1] raised].
    destruct raised; reflexivity.
  - cbn [ms cn r_data]. destruct (f_fin f); [|reflexivity].
    match goal with |- context [if ?b then invalid_payload cf ?c else _] => destruct b end.
    + destruct (invalid_payload cf (cn D s)) as [[c1 e1] stop]. destruct stop; reflexivity.
    + reflexivity.
Qed.

(* ---------- processData, "inside a started frame": normal form ---------- *)
(* one chunk of the current frame's payload goes through the masker, onFrameData and (when it completes the frame)
   onFrameEnd; self.data is not involved *)
Definition pay_apply cf (s : rstate) f (chunk : list N) : rstate * list event * ctl :=
  let '(payload, p1) := mask_process (mkey D s) (mptr D s) chunk in
  let s1 := mkR D (cn D s) (ms D s) (data D s) (cur D s) (mkey D s) p1 (cdata D s) in
  let '(s2, e2, stop2) := on_frame_data D cd cf s1 f payload in
  if stop2 then (s2, e2, Stop) else
  if mptr D s2 =? f_len f then
    let '(s3, e3, c3) := on_frame_end D cd cf s2 f in (s3, e2 ++ e3, c3)
  else (s2, e2, Cont).

Definition cont_of (c : ctl) (d : list N) : ctl :=
  match c with Cont => if nonempty d then Cont else Stop | x => x end.

Lemma step_payload_nf cf (s : rstate) f :
  step_payload D cd cf s f =
    let d := data D s in
    let rest := f_len f - mptr D s in
    let '(chunk, rem) := if pd_have_rest (lenN d) rest then (take rest d, drop rest d) else (d, []) in
    let '(s', e, c) := pay_apply cf (r_data D s rem) f chunk in
    (s', e, cont_of c (data D s')).
Proof.
  unfold step_payload, pay_apply. cbv zeta.
  destruct (if pd_have_rest _ _ then _ else _) as [chunk rem].
  rewrite chunk_guard. cbn [mkey mptr r_data cn ms data cur cdata].
  destruct (mask_process (mkey D s) (mptr D s) chunk) as [payload p1].
  destruct (on_frame_data D cd cf _ f payload) as [[s2 e2] stop2].
  destruct stop2; [reflexivity|].
  destruct (mptr D s2 =? f_len f); [|reflexivity].
  destruct (on_frame_end D cd cf s2 f) as [[s3 e3] c3]. destruct c3; reflexivity.
Qed.

Lemma pay_apply_data cf (s : rstate) f chunk v :
  pay_apply cf (r_data D s v) f chunk =
    let '(s', e, c) := pay_apply cf s f chunk in (r_data D s' v, e, c).
Proof.
  unfold pay_apply. cbn [mkey mptr r_data cn ms data cur cdata].
  destruct (mask_process (mkey D s) (mptr D s) chunk) as [payload p1].
  change (mkR D (cn D s) (ms D s) v (cur D s) (mkey D s) p1 (cdata D s))
    with (r_data D (mkR D (cn D s) (ms D s) (data D s) (cur D s) (mkey D s) p1 (cdata D s)) v).
  rewrite on_frame_data_data.
  destruct (on_frame_data D cd cf _ f payload) as [[s2 e2] stop2].
  destruct stop2; [reflexivity|]. cbn [mptr r_data].
  destruct (mptr D s2 =? f_len f); [|reflexivity].
  rewrite on_frame_end_data. destruct (on_frame_end D cd cf s2 f) as [[s3 e3] c3]. reflexivity.
Qed.

(* ============================================================================================== *)
Section FailByDrop.
(* the codec stream law: decompress_message_data over a ++ b is over a then over b; nothing from nothing *)
Hypothesis d_nil : forall d, d_data cd d [] = (d, []).
Hypothesis d_app : forall d a b,
  d_data cd d (a ++ b) = let '(d1, o1) := d_data cd d a in let '(d2, o2) := d_data cd d1 b in (d2, o1 ++ o2).
Variable cf : cfg.
Hypothesis FBD : failByDrop cf = true.

(* under failByDrop every failure closes *)
Lemma fbd_fail_closed c code : st (fst (fail_connection cf c code)) = CLOSED.
Proof.
  unfold fail_connection, drop_connection. rewrite FBD. destruct c as [s f cl rc rr]; destruct s; reflexivity.
Qed.
Lemma fbd_invalid_payload c : let '(c1, e, stop) := invalid_payload cf c in stop = true /\ st c1 = CLOSED.
Proof.
  unfold invalid_payload. pose proof (fbd_fail_closed c code_invalid_payload) as H.
  destruct (fail_connection cf c code_invalid_payload). cbn in H. now rewrite FBD.
Qed.
Lemma fbd_protocol_violation c : let '(c1, e, stop) := protocol_violation cf c in stop = true /\ st c1 = CLOSED.
Proof.
  unfold protocol_violation. pose proof (fbd_fail_closed c code_protocol_error) as H.
  destruct (fail_connection cf c code_protocol_error). cbn in H. now rewrite FBD.
Qed.

Lemma u_validate_app st0 a b :
  u_validate st0 (a ++ b) =
    let '(va, ea, ua) := u_validate st0 a in if va then u_validate ua b else (false, false, 1).
Proof.
  unfold u_validate. rewrite u_loop_app. destruct (u_loop st0 a) as [va ua]. destruct va; reflexivity.
Qed.

(* the data-frame branch of onFrameData on the (connection, message) pair *)
Definition decode (m : mstate) (p : list N) : D * list N :=
  if zon D m then d_data cd (dec D m) p else (dec D m, p).
Definition ofd_data (c : conn) (m : mstate) (payload : list N) : conn * mstate * list event * bool :=
  let '(d1, pl) := decode m payload in
  let m1 := m_dec D m d1 in
  if uon D m1 then
    let '(v, e, u1) := u_validate (ust D m1) pl in
    let m2 := m_utf8 D m1 u1 v e in
    if negb v then
      let '(c1, ev, stop) := invalid_payload cf c in
      if stop then (c1, m2, ev, true) else (c1, on_message_frame_data D c1 m2 pl, ev, false)
    else (c, on_message_frame_data D c m2 pl, [], false)
  else (c, on_message_frame_data D c m1 pl, [], false).

Lemma on_frame_data_nf (s : rstate) f p :
  on_frame_data D cd cf s f p =
    if fd_is_ctl (f_op f) then (r_cdata D s (cdata D s ++ p), [], false)
    else let '(c1, m1, e, b) := ofd_data (cn D s) (ms D s) p in (r_ms D (r_cn D s c1) m1, e, b).
Proof.
  unfold on_frame_data, ofd_data, decode. destruct (fd_is_ctl (f_op f)); [reflexivity|].
  destruct (if zon D (ms D s) then _ else _) as [d1 pl].
  destruct (uon D _).
  - destruct (u_validate _ pl) as [[v e] u1]. destruct v; cbn [negb].
    + destruct s; reflexivity.
    + destruct (invalid_payload cf (cn D s)) as [[c1 ev] stop]. destruct stop; reflexivity.
  - destruct s; reflexivity.
Qed.

Lemma decode_app (m : mstate) a b :
  decode m (a ++ b) = let '(d1, o1) := decode m a in let '(d2, o2) := decode (m_dec D m d1) b in (d2, o1 ++ o2).
Proof.
  unfold decode. cbn [zon dec m_dec]. destruct (zon D m); [apply d_app|reflexivity].
Qed.

Lemma ofd_data_merge c (m : mstate) pa pb :
  let '(c1, m1, e1, b1) := ofd_data c m pa in
  if b1 then exists m', ofd_data c m (pa ++ pb) = (c1, m', e1, true) /\ st c1 = CLOSED
  else let '(c2, m2, e2, b2) := ofd_data c1 m1 pb in
       exists m', ofd_data c m (pa ++ pb) = (c2, m', e1 ++ e2, b2) /\ (if b2 then st c2 = CLOSED else m' = m2).
Proof.
  unfold ofd_data, on_message_frame_data. rewrite decode_app.
  destruct (decode m pa) as [d1 o1] eqn:Ea.
  destruct (decode (m_dec D m d1) pb) as [d2 o2] eqn:Eb.
  unfold decode in Eb. cbn [zon dec m_dec] in Eb.
  cbn [uon m_dec ust].
  pose proof (fbd_invalid_payload c) as I.
  destruct (uon D m) eqn:Hu.
  - rewrite u_validate_app. destruct (u_validate (ust D m) o1) as [[va ea] ua]. destruct va; cbn [negb].
    + (* first part valid *)
      destruct (failed c) eqn:Hf; unfold decode; cbn [zon dec m_utf8 m_dec m_fdata uon ust]; rewrite Eb, Hu;
      destruct (u_validate ua o2) as [[vb eb] ub]; destruct vb; cbn [negb];
      try (destruct (invalid_payload cf c) as [[c1 ev] stop]; destruct I as [-> I]; eexists; split; [reflexivity|exact I]).
      * eexists; split; [reflexivity|]. destruct m; reflexivity.
      * eexists; split; [reflexivity|]. destruct m; cbn. now rewrite app_assoc.
    + (* first part invalid *)
      destruct (invalid_payload cf c) as [[c1 ev] stop]. destruct I as [-> I].
      eexists; split; [reflexivity|exact I].
  - (* no validation *)
    destruct (failed c) eqn:Hf; unfold decode; cbn [zon dec m_dec m_fdata uon]; rewrite Eb, Hu.
    + eexists; split; [reflexivity|]. destruct m; reflexivity.
    + eexists; split; [reflexivity|]. destruct m; cbn. now rewrite app_assoc.
Qed.

Lemma pay_merge (s : rstate) f a b : mptr D s + lenN a <> f_len f ->
  let '(s1, e1, c1) := pay_apply cf s f a in
  match c1 with
  | Cont => let '(s2, e2, c2) := pay_apply cf s1 f b in
            exists s', pay_apply cf s f (a ++ b) = (s', e1 ++ e2, c2) /\ cn D s' = cn D s2 /\
                       (st (cn D s2) <> CLOSED -> s' = s2)
  | _ => exists s', pay_apply cf s f (a ++ b) = (s', e1, c1) /\ cn D s' = cn D s1 /\ st (cn D s1) = CLOSED
  end.
Proof.
  intros Hne. unfold pay_apply. rewrite mask_process_app.
  pose proof (mask_process_ptr (mkey D s) (mptr D s) a) as Hp.
  destruct (mask_process (mkey D s) (mptr D s) a) as [oa p1]. cbn [snd] in Hp.
  assert (Hf : (p1 =? f_len f) = false) by (apply N.eqb_neq; lia).
  destruct (mask_process (mkey D s) p1 b) as [ob p2] eqn:Mb.
  rewrite !on_frame_data_nf. cbn [cn ms cdata mkey mptr r_cdata r_ms r_cn].
  destruct (fd_is_ctl (f_op f)) eqn:Hc.
  - (* control frame: control_frame_data accumulates *)
    cbn [mptr r_cdata]. rewrite Hf.
    cbn [mkey mptr cn ms data cur cdata r_cdata]. rewrite Mb.
    rewrite !on_frame_data_nf, Hc. cbn [mptr r_cdata cdata cn ms data cur mkey].
    rewrite app_assoc.
    destruct (p2 =? f_len f).
    + destruct (on_frame_end D cd cf _ f) as [[s3 e3] c3]. eexists; split; [reflexivity|]. split; [reflexivity|]. intros _. reflexivity.
    + eexists; split; [reflexivity|]. split; [reflexivity|]. intros _; reflexivity.
  - (* data frame *)
    pose proof (ofd_data_merge (cn D s) (ms D s) oa ob) as M.
    destruct (ofd_data (cn D s) (ms D s) oa) as [[[c1 m1] e1] b1].
    destruct b1.
    + (* rejected in the first part *)
      destruct M as [m' [E Hcl]]. rewrite E.
      eexists; split; [reflexivity|]. split; [reflexivity|exact Hcl].
    + cbn [mptr r_ms r_cn]. rewrite Hf.
      cbn [mkey mptr cn ms data cur cdata r_ms r_cn]. rewrite Mb.
      rewrite !on_frame_data_nf, Hc. cbn [cn ms r_ms r_cn].
      destruct (ofd_data c1 m1 ob) as [[[c2 m2] e2] b2].
      destruct M as [m' [E Hm]]. rewrite E.
      destruct b2.
      * eexists; split; [reflexivity|]. split; [reflexivity|]. cbn [cn r_ms r_cn]. intros H; congruence.
      * subst m'. cbn [mptr r_ms r_cn].
        destruct (p2 =? f_len f).
        -- destruct (on_frame_end D cd cf _ f) as [[s3 e3] c3]. rewrite app_assoc.
           eexists; split; [reflexivity|]. split; [reflexivity|]. intros _; reflexivity.
        -- eexists; split; [reflexivity|]. split; [reflexivity|]. intros _; reflexivity.
Qed.

(* ---------- well-formed receive states ---------- *)
Definition W2 (m : mstate) : Prop :=
  uon D m = true -> uval D m = true /\ uend D m = (ust D m =? 0) /\ (ust D m =? 1) = false.
Definition W3 (s : rstate) : Prop :=
  match cur D s with
  | Some f => mptr D s <= f_len f /\
              (pd_is_ctl (f_op f) = true -> f_len f <= 125 /\ lenN (cdata D s) = mptr D s)
  | None => True
  end.
Definition Wf (s : rstate) : Prop := W2 (ms D s) /\ W3 s.

Lemma Wf_push s y : Wf s -> Wf (push s y).
Proof. intros H. exact H. Qed.

Lemma Wf_init p d0 : Wf (init_state D p d0).
Proof. split; [intros _; repeat split|exact I]. Qed.

(* onFrameBegin keeps W2 *)
Lemma on_frame_begin_W2 (s : rstate) f : W2 (ms D s) -> W2 (ms D (fst (on_frame_begin D cd cf s f))).
Proof.
  intros H. unfold on_frame_begin. destruct (fb_is_ctl (f_op f)); [exact H|].
  unfold on_message_frame_begin.
  destruct (inside D (ms D s)).
  - destruct (failed (cn D s)); [exact H|].
    destruct (mf_msg_limit _ _); [destruct (max_size_exceeded cf (cn D s)); exact H|].
    destruct (mf_frame_limit _ _); [destruct (max_size_exceeded cf (cn D s)); exact H|]. exact H.
  - assert (G : forall m0 : mstate, W2 (m_mtotal D (m_fdata D (m_mtotal D (m_mdata D (m_mbin D
                 (if fb_is_text (f_op f) && utf8validate cf then m_utf8 D (m_uon D m0 true) 0 true true else m_uon D m0 false)
                 (fb_is_binary (f_op f))) []) 0) []) (0 + f_len f))).
    { intros m0. destruct (fb_is_text (f_op f) && utf8validate cf); unfold W2; cbn; intros; [repeat split|discriminate]. }
    destruct (pmc cf && fb_rsv_is4 (f_rsv f));
    (destruct (failed (cn D s)); [apply G|];
     destruct (mf_msg_limit _ _); [destruct (max_size_exceeded cf (cn D s)); apply G|];
     destruct (mf_frame_limit _ _); [destruct (max_size_exceeded cf (cn D s)); apply G|]; apply G).
Qed.

(* ---------- processData, "outside a frame": what a header step does, for every continuation of the buffer ---------- *)
Lemma pv_all_nil c : pv_all cf c [] = (c, [], false).
Proof. reflexivity. Qed.
Lemma pv_all_fbd c v vs : exists c1 e1, pv_all cf c (v :: vs) = (c1, e1, true) /\ st c1 = CLOSED.
Proof.
  cbn [pv_all]. pose proof (fbd_protocol_violation c) as H. destruct (protocol_violation cf c) as [[c1 e1] stop].
  destruct H as [-> H]. eauto.
Qed.

Lemma hb_len1_lt b1 : hb_len1 b1 < 128.
Proof. unfold hb_len1. change 127 with (N.ones 7). rewrite N.land_ones. apply N.mod_lt. discriminate. Qed.

Lemma header_len_some len1 ml : len1 < 128 ->
  exists hl, header_len len1 ml = Some hl /\ hl = (if len1 <? 126 then 2 else if len1 =? 126 then 4 else 10) + ml.
Proof.
  intros H. unfold header_len, pd_len1_small, pd_len1_is16, pd_len1_is64.
  destruct (N.ltb_spec len1 126); [eexists; split; [reflexivity|lia]|].
  destruct (N.eqb_spec len1 126); [eexists; split; [reflexivity|lia]|].
  destruct (N.eqb_spec len1 127); [eexists; split; [reflexivity|lia]|]. lia.
Qed.

Lemma ext_len_push len1 (d y : list N) : len1 < 128 ->
  (if len1 <? 126 then 2 else if len1 =? 126 then 4 else 10) <= lenN d ->
  ext_len len1 (d ++ y) = ext_len len1 d /\
  snd (ext_len len1 d) = (if len1 <? 126 then 2 else if len1 =? 126 then 4 else 10).
Proof.
  intros Hlt H. unfold ext_len, pd_len1_is16_x, pd_len1_is64_x.
  destruct (N.ltb_spec len1 126).
  - destruct (N.eqb_spec len1 126); [lia|]. destruct (N.eqb_spec len1 127); [lia|]. split; reflexivity.
  - destruct (N.eqb_spec len1 126).
    + rewrite drop_app_le by lia. rewrite take_app_le by (rewrite lenN_drop; lia). split; reflexivity.
    + destruct (N.eqb_spec len1 127).
      * rewrite drop_app_le by lia. rewrite take_app_le by (rewrite lenN_drop; lia). split; reflexivity.
      * lia.
Qed.

Inductive hdr_outcome (s : rstate) : Prop :=
| HNeed : step_header D cd cf s = (s, [], Stop) ->
          (forall y, y = [] -> step_header D cd cf (push s y) = (push s y, [], Stop)) -> hdr_outcome s
| HFail c1 e1 : st c1 = CLOSED ->
          (forall y, step_header D cd cf (push s y) = (r_cn D (push s y) c1, e1, Stop)) -> hdr_outcome s
| HParsed s4 e f : cur D s4 = Some f -> mptr D s4 = 0 -> (W2 (ms D s) -> Wf s4) ->
          (length (data D s4) + 2 <= length (data D s))%nat ->
          (forall y, step_header D cd cf (push s y) =
                     (push s4 y, e, if pd_len_zero (f_len f) || nonempty (data D s4 ++ y) then Cont else Stop)) ->
          hdr_outcome s.

Lemma hdr_viols_nil_ctl ins b0 b1 :
  hdr_viols cf ins b0 b1 = [] -> pd_is_ctl (hb_opcode b0) = true -> hb_len1 b1 <= 125.
Proof.
  unfold hdr_viols. intros H Hc. rewrite Hc in H.
  repeat (apply app_eq_nil in H; destruct H as [? H]).
  match goal with X : vif (pd_ctl_len_bad _) _ = [] |- _ => unfold vif, pd_ctl_len_bad in X;
    destruct (N.ltb_spec 125 (hb_len1 b1)); [discriminate|assumption] end.
Qed.

Lemma step_header_outcome (s : rstate) : hdr_outcome s.
Proof.
  destruct (pd_have2 (lenN (data D s))) eqn:H2.
  2:{ apply HNeed.
      - unfold step_header. rewrite H2. reflexivity.
      - intros y ->. rewrite push_nil. unfold step_header. rewrite H2. reflexivity. }
  unfold pd_have2 in H2. apply N.leb_le in H2.
  assert (Hl : (2 <= length (data D s))%nat) by (unfold lenN in H2; lia).
  set (b0 := nth 0 (data D s) 0). set (b1 := nth 1 (data D s) 0).
  assert (Hh : forall y, step_header D cd cf (push s y) =
     (let d := data D s ++ y in
      let '(c1, e1, stop1) := pv_all cf (cn D s) (hdr_viols cf (inside D (ms D s)) b0 b1) in
      let s1 := r_cn D (push s y) c1 in
      if stop1 then (s1, e1, Stop) else
      let masked := hb_masked b1 in let len1 := hb_len1 b1 in
      let mask_len := if masked then 4 else 0 in
      match header_len len1 mask_len with
      | None => (s1, e1 ++ [ERaise], Raised)
      | Some hl =>
        if negb (pd_have_header (lenN d) hl) then (s1, e1, Stop) else
        let '(plen, lv, i) := ext_len len1 d in
        let '(c2, e2, stop2) := pv_all cf c1 lv in
        let s2 := r_cn D s1 c2 in
        if stop2 then (s2, e1 ++ e2, Stop) else
        let mask := if masked then take 4 (drop i d) else [] in
        let i' := i + mask_len in
        let mk := if masked && pd_len_pos plen && applyMask cf then Some mask else None in
        let f := mkF (hb_opcode b0) (hb_fin b0) (hb_rsv b0) plen masked mask in
        let s3 := mkR D (cn D s2) (ms D s2) (drop i' d) (Some f) mk 0 (cdata D s2) in
        let '(s4, e4) := on_frame_begin D cd cf s3 f in
        (s4, e1 ++ e2 ++ e4, if pd_len_zero plen || nonempty (data D s4) then Cont else Stop)
      end)).
  { intros y. unfold step_header. cbn [data push r_data ms cn].
    replace (pd_have2 (lenN (data D s ++ y))) with true
      by (symmetry; apply N.leb_le; rewrite lenN_app; lia).
    cbn [negb]. rewrite !nth_app_lt by lia. reflexivity. }
  destruct (hdr_viols cf (inside D (ms D s)) b0 b1) as [|v vs] eqn:Hv.
  2:{ destruct (pv_all_fbd (cn D s) v vs) as [c1 [e1 [E Hc]]].
      apply (HFail s c1 e1 Hc). intros y. rewrite Hh, E. reflexivity. }
  destruct (header_len_some (hb_len1 b1) (if hb_masked b1 then 4 else 0) (hb_len1_lt b1)) as [hl [Ehl Hhl]].
  destruct (N.leb_spec hl (lenN (data D s))) as [Hc|Hc].
  2:{ apply HNeed.
      - specialize (Hh []). rewrite push_nil in Hh. rewrite Hh. rewrite pv_all_nil. cbv zeta. rewrite Ehl, app_nil_r.
        unfold pd_have_header. replace (hl <=? lenN (data D s)) with false by (symmetry; apply N.leb_gt; lia).
        destruct s; reflexivity.
      - intros y ->. rewrite Hh, pv_all_nil. cbv zeta. rewrite Ehl, app_nil_r.
        unfold pd_have_header. replace (hl <=? lenN (data D s)) with false by (symmetry; apply N.leb_gt; lia).
        rewrite push_nil. destruct s; reflexivity. }
  (* header complete *)
  assert (Hx : (if hb_len1 b1 <? 126 then 2 else if hb_len1 b1 =? 126 then 4 else 10) <= lenN (data D s)) by lia.
  destruct (ext_len (hb_len1 b1) (data D s)) as [[plen lv] i] eqn:Ex.
  assert (Hi : i = (if hb_len1 b1 <? 126 then 2 else if hb_len1 b1 =? 126 then 4 else 10)).
  { pose proof (ext_len_push (hb_len1 b1) (data D s) [] (hb_len1_lt b1) Hx) as [_ Hs]. rewrite Ex in Hs. exact Hs. }
  assert (Hcommon : forall y, step_header D cd cf (push s y) =
     (let '(c2, e2, stop2) := pv_all cf (cn D s) lv in
      let s2 := r_cn D (push s y) c2 in
      if stop2 then (s2, e2, Stop) else
      let masked := hb_masked b1 in
      let mask := if masked then take 4 (drop i (data D s)) else [] in
      let mk := if masked && pd_len_pos plen && applyMask cf then Some mask else None in
      let f := mkF (hb_opcode b0) (hb_fin b0) (hb_rsv b0) plen masked mask in
      let s3 := mkR D c2 (ms D s) (drop hl (data D s) ++ y) (Some f) mk 0 (cdata D s) in
      let '(s4, e4) := on_frame_begin D cd cf s3 f in
      (s4, e2 ++ e4, if pd_len_zero plen || nonempty (data D s4) then Cont else Stop))).
  { intros y. rewrite Hh, pv_all_nil. cbv zeta. rewrite Ehl.
    unfold pd_have_header. replace (hl <=? lenN (data D s ++ y)) with true
      by (symmetry; apply N.leb_le; rewrite lenN_app; lia).
    cbn [negb]. destruct (ext_len_push (hb_len1 b1) (data D s) y (hb_len1_lt b1) Hx) as [-> _]. rewrite Ex.
    cbn [cn r_cn push r_data ms cdata].
    destruct (pv_all cf (cn D s) lv) as [[c2 e2] stop2]. destruct stop2; [reflexivity|].
    cbn [cn r_cn push r_data ms cdata app].
    replace (i + (if hb_masked b1 then 4 else 0)) with hl by lia.
    rewrite (drop_app_le hl) by lia.
    destruct (hb_masked b1).
    - rewrite (drop_app_le i) by lia. rewrite take_app_le by (rewrite lenN_drop; lia). reflexivity.
    - reflexivity. }
  destruct lv as [|v vs].
  2:{ destruct (pv_all_fbd (cn D s) v vs) as [c2 [e2 [E Hc2]]].
      apply (HFail s c2 e2 Hc2). intros y. rewrite Hcommon, E. reflexivity. }
  set (masked := hb_masked b1) in *.
  set (mask := if masked then take 4 (drop i (data D s)) else []) in *.
  set (mk := if masked && pd_len_pos plen && applyMask cf then Some mask else None) in *.
  set (f := mkF (hb_opcode b0) (hb_fin b0) (hb_rsv b0) plen masked mask) in *.
  set (s3 := mkR D (cn D s) (ms D s) (drop hl (data D s)) (Some f) mk 0 (cdata D s)).
  destruct (on_frame_begin D cd cf s3 f) as [s4 e4] eqn:Eb.
  assert (Hcur : cur D s4 = Some f /\ mptr D s4 = 0 /\ data D s4 = drop hl (data D s)).
  { revert Eb. unfold on_frame_begin. destruct (fb_is_ctl (f_op f)).
    - intros E; inversion E; subst; cbn; auto.
    - destruct (failed (cn D s3)); [intros E; inversion E; subst; cbn; auto|].
      destruct (on_message_frame_begin D cf _ _ _) as [[c1 m2] e]. intros E; inversion E; subst; cbn; auto. }
  destruct Hcur as [Hc1 [Hc2 Hc3]].
  assert (HW : W2 (ms D s) -> Wf s4).
  { intros Hw. split.
    - pose proof (on_frame_begin_W2 s3 f Hw) as G. rewrite Eb in G. exact G.
    - unfold W3. rewrite Hc1, Hc2. split; [lia|]. intros Hctl.
      change (pd_is_ctl (f_op f)) with (pd_is_ctl (hb_opcode b0)) in Hctl.
      pose proof (hdr_viols_nil_ctl _ _ _ Hv Hctl) as Hle.
      pose proof (ext_len_small (hb_len1 b1) (data D s) Hle) as Es. rewrite Ex in Es. inversion Es; subst plen.
      split; [exact Hle|].
      revert Eb. unfold on_frame_begin. change (fb_is_ctl (f_op f)) with (pd_is_ctl (hb_opcode b0)). rewrite Hctl.
      intros E; inversion E; subst. reflexivity. }
  assert (HL : (length (data D s4) + 2 <= length (data D s))%nat).
  { rewrite Hc3. unfold drop. rewrite skipn_length. unfold lenN in Hc.
    assert (2 <= hl) by (destruct (hb_len1 b1 <? 126); [lia|destruct (hb_len1 b1 =? 126); lia]). lia. }
  apply (HParsed s s4 e4 f Hc1 Hc2 HW HL). intros y. rewrite Hcommon, pv_all_nil. cbv zeta.
  fold masked. fold mask. fold mk. fold f.
  change (mkR D (cn D s) (ms D s) (drop hl (data D s) ++ y) (Some f) mk 0 (cdata D s)) with (r_data D s3 (data D s3 ++ y)).
  rewrite on_frame_begin_data, Eb. cbn [app]. unfold push. rewrite Hc3. cbn [data r_data].
  reflexivity.
Qed.

Lemma ofd_data_W2 c (m : mstate) p : W2 m ->
  let '(c1, m1, e, b) := ofd_data c m p in
  (b = true -> st c1 = CLOSED) /\ (b = false -> W2 m1 /\ c1 = c /\ e = []).
Proof.
  intros H. unfold ofd_data. destruct (decode m p) as [d1 pl]. cbn [uon m_dec ust].
  destruct (uon D m) eqn:Hu.
  - destruct (u_validate (ust D m) pl) as [[v e] u1] eqn:Ev. destruct v; cbn [negb].
    + split; [discriminate|]. intros _. split; [|split; reflexivity].
      unfold u_validate in Ev. destruct (u_loop (ust D m) pl) as [v' s'] eqn:EL. inversion Ev; subst.
      pose proof (u_loop_true_not_reject _ _ _ EL) as NR.
      unfold on_message_frame_data. destruct (failed c); unfold W2; cbn; intros _; repeat split; exact NR.
    + pose proof (fbd_invalid_payload c) as I. destruct (invalid_payload cf c) as [[c1 ev] stop]. destruct I as [-> I].
      split; [intros _; exact I|discriminate].
  - split; [discriminate|]. intros _. split; [|split; reflexivity].
    unfold on_message_frame_data. destruct (failed c); unfold W2; cbn; rewrite Hu; discriminate.
Qed.

Lemma on_frame_end_data_frame (s : rstate) f : fe_is_ctl (f_op f) = false -> W2 (ms D s) ->
  let '(s3, e3, c3) := on_frame_end D cd cf s f in
  c3 <> Raised /\ (c3 = Stop -> st (cn D s3) = CLOSED) /\
  (c3 = Cont -> cur D s3 = None /\ W2 (ms D s3) /\ data D s3 = data D s).
Proof.
  intros Hc H. unfold on_frame_end. rewrite Hc.
  assert (G : forall m0 : mstate, W2 m0 -> forall a b (x : bool),
              W2 (m_inside D (if x then (if zon D m0 then m_dec D m0 a else m0)
                              else m_mdata D (if zon D m0 then m_dec D m0 a else m0) []) b)).
  { intros m0 H0 a b x. unfold W2 in *. destruct x, (zon D m0); cbn; exact H0. }
  assert (G1 : W2 (if failed (cn D s) then ms D s else m_fdata D (m_mdata D (ms D s) (mdata D (ms D s) ++ fdata D (ms D s))) [])).
  { unfold W2 in *. destruct (failed (cn D s)); cbn; exact H. }
  destruct (f_fin f).
  - match goal with |- context [if ?b then invalid_payload cf ?c else _] => destruct b end.
    + pose proof (fbd_invalid_payload (cn D s)) as I. destruct (invalid_payload cf (cn D s)) as [[c1 e1] stop].
      destruct I as [-> I]. split; [discriminate|]. split; [intros _; exact I|discriminate].
    + split; [discriminate|]. split; [discriminate|]. intros _. cbn [cur r_cur r_ms r_cn ms data].
      split; [reflexivity|]. split; [|reflexivity].
      match goal with |- W2 (m_inside D (if ?x then (if zon D ?m0 then m_dec D ?m0 ?a else ?m0) else _) ?b) => apply (G m0 G1 a b x) end.
  - split; [discriminate|]. split; [discriminate|]. intros _. cbn. split; [reflexivity|]. split; [exact G1|reflexivity].
Qed.

Lemma on_frame_end_ctl_frame (s : rstate) f : fe_is_ctl (f_op f) = true -> lenN (cdata D s) <= 125 ->
  let '(s3, e3, c3) := on_frame_end D cd cf s f in
  c3 = Cont /\ cur D s3 = None /\ ms D s3 = ms D s /\ data D s3 = data D s.
Proof.
  intros Hc Hl. unfold on_frame_end, process_control_frame. rewrite Hc.
  destruct (pc_is_close (f_op f)).
  - destruct (on_close_frame cf _ _ _) as [c1 e1]. cbn. auto.
  - destruct (pc_is_ping (f_op f)).
    + cbn [cn r_cdata]. unfold sp_too_long. replace (125 <? lenN (cdata D s)) with false by (symmetry; apply N.ltb_ge; lia).
      rewrite andb_false_r. destruct (st (cn D s)); cbn; auto.
    + destruct (pc_is_pong (f_op f)); cbn; auto.
Qed.

(* one payload chunk on a well-formed state *)
Lemma pay_apply_facts (s : rstate) f chunk : Wf s -> cur D s = Some f -> mptr D s + lenN chunk <= f_len f ->
  let '(s', e, c) := pay_apply cf s f chunk in
  c <> Raised /\ (c = Stop -> st (cn D s') = CLOSED) /\
  (c = Cont -> data D s' = data D s /\ W2 (ms D s') /\
               (if mptr D s + lenN chunk =? f_len f then cur D s' = None
                else cur D s' = Some f /\ mptr D s' = mptr D s + lenN chunk /\ mkey D s' = mkey D s /\ W3 s' /\
                     cn D s' = cn D s)).
Proof.
  intros [H2 H3] Hcur Hle. unfold W3 in H3. rewrite Hcur in H3. destruct H3 as [Hm Hctl].
  unfold pay_apply.
  pose proof (mask_process_ptr (mkey D s) (mptr D s) chunk) as Hp.
  pose proof (mask_process_len (mkey D s) (mptr D s) chunk) as Hlen.
  destruct (mask_process (mkey D s) (mptr D s) chunk) as [payload p1]. cbn [fst snd] in *. subst p1.
  rewrite on_frame_data_nf. cbn [cn ms cdata r_cdata].
  change (fd_is_ctl (f_op f)) with (pd_is_ctl (f_op f)).
  destruct (pd_is_ctl (f_op f)) eqn:Hc.
  - (* control frame *)
    destruct (Hctl eq_refl) as [H125 Hcd]. cbn [mptr r_cdata].
    destruct (N.eqb_spec (mptr D s + lenN chunk) (f_len f)) as [He|He].
    + match goal with |- context [on_frame_end D cd cf ?s2 f] =>
        pose proof (on_frame_end_ctl_frame s2 f Hc) as E; destruct (on_frame_end D cd cf s2 f) as [[s3 e3] c3] end.
      cbn [cdata r_cdata] in E. destruct E as [-> [E1 [E2 E3]]]; [rewrite lenN_app; lia|].
      split; [discriminate|]. split; [discriminate|]. intros _. split; [exact E3|]. split; [|exact E1].
      rewrite E2. exact H2.
    + split; [discriminate|]. split; [discriminate|]. intros _. cbn. split; [reflexivity|]. split; [exact H2|].
      split; [exact Hcur|]. split; [reflexivity|]. split; [reflexivity|]. split; [|reflexivity]. unfold W3. cbn. rewrite Hcur.
      split; [lia|]. intros _. split; [exact H125|]. rewrite lenN_app. lia.
  - (* data frame *)
    pose proof (ofd_data_W2 (cn D s) (ms D s) payload H2) as O.
    destruct (ofd_data (cn D s) (ms D s) payload) as [[[c1 m1] e1] b1].
    destruct b1.
    + split; [discriminate|]. split; [intros _; cbn; now apply O|discriminate].
    + destruct O as [_ O]. destruct (O eq_refl) as [O1 [-> ->]]. cbn [mptr r_ms r_cn].
      destruct (N.eqb_spec (mptr D s + lenN chunk) (f_len f)) as [He|He].
      * match goal with |- context [on_frame_end D cd cf ?s2 f] =>
          pose proof (on_frame_end_data_frame s2 f Hc) as E; destruct (on_frame_end D cd cf s2 f) as [[s3 e3] c3] end.
        cbn [ms r_ms r_cn data] in E. destruct (E O1) as [E1 [E2 E3]].
        split; [exact E1|]. split; [exact E2|]. intros ->. destruct (E3 eq_refl) as [E4 [E5 E6]].
        split; [exact E6|]. split; [exact E5|exact E4].
      * split; [discriminate|]. split; [discriminate|]. intros _. cbn. split; [reflexivity|]. split; [exact O1|].
        split; [exact Hcur|]. split; [reflexivity|]. split; [reflexivity|]. split; [|reflexivity]. unfold W3. cbn. rewrite Hcur.
        split; [lia|]. intros Hx; congruence.
Qed.

(* ---------- an empty read inside a frame changes nothing ---------- *)
Lemma ofd_data_nil c (m : mstate) : W2 m -> ofd_data c m [] = (c, m, [], false).
Proof.
  intros H. unfold ofd_data, decode.
  assert (E : (if zon D m then d_data cd (dec D m) [] else (dec D m, [])) = (dec D m, [])).
  { destruct (zon D m); [apply d_nil|reflexivity]. }
  rewrite E. cbn [uon m_dec ust].
  destruct (uon D m) eqn:Hu.
  - destruct (H Hu) as [Hv [He Hr]]. cbn [u_validate u_loop]. rewrite Hr. cbn [negb andb].
    unfold on_message_frame_data. destruct m; cbn in *. subst. rewrite app_nil_r. destruct (failed c); reflexivity.
  - unfold on_message_frame_data. destruct m; cbn in *. rewrite app_nil_r. destruct (failed c); reflexivity.
Qed.

Lemma pay_apply_nil (s : rstate) f : Wf s -> mptr D s <> f_len f -> pay_apply cf s f [] = (s, [], Cont).
Proof.
  intros [H2 _] Hne. unfold pay_apply. rewrite mask_process_nil.
  rewrite on_frame_data_nf. cbn [cn ms cdata r_cdata].
  destruct (fd_is_ctl (f_op f)).
  - cbn [mptr r_cdata]. replace (mptr D s =? f_len f) with false by (symmetry; now apply N.eqb_neq).
    destruct s; cbn. now rewrite app_nil_r.
  - rewrite (ofd_data_nil _ _ H2). cbn [mptr r_ms r_cn].
    replace (mptr D s =? f_len f) with false by (symmetry; now apply N.eqb_neq).
    destruct s; reflexivity.
Qed.

Lemma step_empty_in_frame (s : rstate) f : Wf s -> cur D s = Some f -> data D s = [] -> mptr D s < f_len f ->
  step D cd cf s = (s, [], Stop).
Proof.
  intros HW Hc Hd Hlt. unfold step. rewrite Hc, step_payload_nf. cbv zeta. rewrite Hd.
  unfold pd_have_rest. change (lenN []) with 0.
  replace (f_len f - mptr D s <=? 0) with false by (symmetry; apply N.leb_gt; lia).
  assert (E : r_data D s [] = s) by (destruct s; cbn in *; now subst).
  rewrite E, pay_apply_nil by (auto; lia). rewrite Hd. reflexivity.
Qed.

Lemma step_empty_outside (s : rstate) : cur D s = None -> data D s = [] -> step D cd cf s = (s, [], Stop).
Proof. intros Hc Hd. unfold step, step_header. rewrite Hc, Hd. reflexivity. Qed.

(* ---------- runs ---------- *)
Definition Runs (s s' : rstate) (e : list event) : Prop := exists n, run D cd n cf s = Done D s' e.

Lemma run_mono n : forall (s s' : rstate) e, run D cd n cf s = Done D s' e -> forall m, (n <= m)%nat -> run D cd m cf s = Done D s' e.
Proof.
  induction n as [|n IH]; intros s s' e H m Hm; [discriminate|].
  destruct m as [|m]; [lia|]. cbn [run] in *.
  destruct (step D cd cf s) as [[s1 e1] c]. destruct c; try exact H.
  destruct (st (cn D s1)); try exact H;
    (destruct (run D cd n cf s1) as [s2 e2|] eqn:R; [|discriminate]; rewrite (IH _ _ _ R m) by lia; exact H).
Qed.

Lemma runs_det (s a a' : rstate) e e' : Runs s a e -> Runs s a' e' -> a = a' /\ e = e'.
Proof.
  intros [n H] [m H'].
  pose proof (run_mono _ _ _ _ H (max n m) ltac:(lia)) as A.
  pose proof (run_mono _ _ _ _ H' (max n m) ltac:(lia)) as B.
  rewrite A in B. inversion B; auto.
Qed.

Lemma runs_stop (s s1 : rstate) e1 c : step D cd cf s = (s1, e1, c) -> (c <> Cont \/ st (cn D s1) = CLOSED) -> Runs s s1 e1.
Proof.
  intros H Hc. exists 1%nat. cbn [run]. rewrite H. destruct c; try reflexivity.
  destruct Hc as [Hc|Hc]; [congruence|]. now rewrite Hc.
Qed.

Lemma runs_cont (s s1 s2 : rstate) e1 e2 : step D cd cf s = (s1, e1, Cont) -> st (cn D s1) <> CLOSED ->
  Runs s1 s2 e2 -> Runs s s2 (e1 ++ e2).
Proof.
  intros H Hc [n R]. exists (S n). cbn [run]. rewrite H, R. destruct (st (cn D s1)); try reflexivity. congruence.
Qed.

Lemma runs_inv (s s' : rstate) e : Runs s s' e ->
  let '(s1, e1, c) := step D cd cf s in
  (c = Cont /\ st (cn D s1) <> CLOSED /\ exists e2, Runs s1 s' e2 /\ e = e1 ++ e2) \/
  ((c <> Cont \/ st (cn D s1) = CLOSED) /\ s' = s1 /\ e = e1).
Proof.
  intros [n H]. destruct n as [|n]; [discriminate|]. cbn [run] in H.
  destruct (step D cd cf s) as [[s1 e1] c]. destruct c.
  - destruct (st (cn D s1)) eqn:Hs.
    + destruct (run D cd n cf s1) as [s2 e2|] eqn:R; [|discriminate]. inversion H; subst.
      left. split; [reflexivity|]. split; [congruence|]. exists e2. split; [exists n; exact R|reflexivity].
    + destruct (run D cd n cf s1) as [s2 e2|] eqn:R; [|discriminate]. inversion H; subst.
      left. split; [reflexivity|]. split; [congruence|]. exists e2. split; [exists n; exact R|reflexivity].
    + inversion H; subst. right. split; [right; reflexivity|]. split; reflexivity.
  - inversion H; subst. right. split; [left; discriminate|]. split; reflexivity.
  - inversion H; subst. right. split; [left; discriminate|]. split; reflexivity.
Qed.

(* ---------- the payload step, for every continuation of the buffer ---------- *)
Definition sp (s : rstate) f (chunk rem : list N) : rstate * list event * ctl :=
  let '(s', e, c) := pay_apply cf s f chunk in (r_data D s' rem, e, cont_of c rem).

Lemma r_data_r_data (s : rstate) a b : r_data D (r_data D s a) b = r_data D s b.
Proof. reflexivity. Qed.

Lemma step_payload_sp (s : rstate) f :
  step_payload D cd cf s f =
    let d := data D s in let rest := f_len f - mptr D s in
    if rest <=? lenN d then sp s f (take rest d) (drop rest d) else sp s f d [].
Proof.
  rewrite step_payload_nf. cbv zeta. unfold pd_have_rest, sp.
  destruct (f_len f - mptr D s <=? lenN (data D s));
    rewrite pay_apply_data; destruct (pay_apply cf s f _) as [[s' e] c]; reflexivity.
Qed.

Lemma sp_push_complete (s : rstate) f y : f_len f - mptr D s <= lenN (data D s) ->
  step_payload D cd cf (push s y) f =
    sp s f (take (f_len f - mptr D s) (data D s)) (drop (f_len f - mptr D s) (data D s) ++ y).
Proof.
  intros H. rewrite step_payload_sp. cbv zeta. cbn [push data r_data mptr].
  replace (f_len f - mptr D s <=? lenN (data D s ++ y)) with true
    by (symmetry; apply N.leb_le; rewrite lenN_app; lia).
  rewrite take_app_le, drop_app_le by exact H.
  unfold sp, push. rewrite pay_apply_data. destruct (pay_apply cf s f _) as [[s' e] c]. reflexivity.
Qed.

Lemma sp_push_partial (s : rstate) f y : lenN (data D s) < f_len f - mptr D s ->
  step_payload D cd cf (push s y) f =
    let r := f_len f - mptr D s - lenN (data D s) in
    if r <=? lenN y then sp s f (data D s ++ take r y) (drop r y) else sp s f (data D s ++ y) [].
Proof.
  intros H. rewrite step_payload_sp. cbv zeta. cbn [push data r_data mptr]. rewrite lenN_app.
  destruct (N.leb_spec (f_len f - mptr D s - lenN (data D s)) (lenN y)) as [Hy|Hy].
  - replace (f_len f - mptr D s <=? lenN (data D s) + lenN y) with true by (symmetry; apply N.leb_le; lia).
    rewrite take_app_ge, drop_app_ge by lia.
    unfold sp, push. rewrite pay_apply_data. destruct (pay_apply cf s f _) as [[s' e] c]. reflexivity.
  - replace (f_len f - mptr D s <=? lenN (data D s) + lenN y) with false by (symmetry; apply N.leb_gt; lia).
    unfold sp, push. rewrite pay_apply_data. destruct (pay_apply cf s f _) as [[s' e] c]. reflexivity.
Qed.

(* ---------- well-formedness is kept; every run ends ---------- *)
Lemma Wf_r_data (s : rstate) v : Wf s -> Wf (r_data D s v).
Proof. intros H; exact H. Qed.

Definition mu (s : rstate) : nat := (2 * length (data D s) + match cur D s with Some _ => 1 | None => 0 end)%nat.

Lemma step_progress (s : rstate) : Wf s ->
  let '(s1, e1, c) := step D cd cf s in
  c <> Raised /\ (c = Stop -> st (cn D s1) <> CLOSED -> Wf s1) /\
  (c = Cont -> st (cn D s1) <> CLOSED -> Wf s1 /\ (mu s1 < mu s)%nat).
Proof.
  intros HW. unfold step. destruct (cur D s) as [f|] eqn:Hcur.
  - (* payload *)
    rewrite step_payload_sp. cbv zeta.
    destruct HW as [H2 H3]. pose proof H3 as H3'. unfold W3 in H3'. rewrite Hcur in H3'. destruct H3' as [Hm _].
    destruct (N.leb_spec (f_len f - mptr D s) (lenN (data D s))) as [Hr|Hr]; unfold sp.
    + pose proof (pay_apply_facts s f (take (f_len f - mptr D s) (data D s)) (conj H2 H3) Hcur) as F.
      rewrite lenN_take in F by exact Hr. specialize (F ltac:(lia)).
      destruct (pay_apply cf s f _) as [[s' e] c]. destruct F as [F1 [F2 F3]].
      replace (mptr D s + (f_len f - mptr D s) =? f_len f) with true in F3 by (symmetry; apply N.eqb_eq; lia).
      destruct c; cbn [cont_of].
      * destruct (F3 eq_refl) as [G1 [G2 G3]].
        destruct (nonempty (drop (f_len f - mptr D s) (data D s))) eqn:Hn.
        -- split; [discriminate|]. split; [discriminate|]. intros _ _. split.
           ++ split; [exact G2|]. unfold W3. cbn [cur r_data]. now rewrite G3.
           ++ unfold mu. cbn [data cur r_data]. rewrite G3, Hcur. unfold drop. rewrite skipn_length. lia.
        -- split; [discriminate|]. split; [|discriminate]. intros _ _.
           split; [exact G2|]. unfold W3. cbn [cur r_data]. now rewrite G3.
      * split; [discriminate|]. split; [|discriminate]. intros _ Hc. cbn [cn r_data] in Hc. now rewrite (F2 eq_refl) in Hc.
      * congruence.
    + pose proof (pay_apply_facts s f (data D s) (conj H2 H3) Hcur ltac:(lia)) as F.
      destruct (pay_apply cf s f _) as [[s' e] c]. destruct F as [F1 [F2 F3]].
      replace (mptr D s + lenN (data D s) =? f_len f) with false in F3 by (symmetry; apply N.eqb_neq; lia).
      destruct c; cbn [cont_of nonempty].
      * split; [discriminate|]. split; [|discriminate]. intros _ _. destruct (F3 eq_refl) as [G1 [G2 [G3 [G4 [G5 [G6 G7]]]]]].
        split; [exact G2|]. exact G6.
      * split; [discriminate|]. split; [|discriminate]. intros _ Hc. cbn [cn r_data] in Hc. now rewrite (F2 eq_refl) in Hc.
      * congruence.
  - (* header *)
    destruct (step_header_outcome s) as [Hn _|c1 e1 Hc Hf|s4 e f Hc4 Hm4 HW4 HL Hp].
    + rewrite Hn. split; [discriminate|]. split; [intros _ _; exact HW|discriminate].
    + specialize (Hf []). rewrite push_nil in Hf. rewrite Hf.
      split; [discriminate|]. split; [|discriminate]. intros _ Hx. cbn [cn r_cn] in Hx. congruence.
    + specialize (Hp []). rewrite !push_nil in Hp. rewrite Hp.
      destruct HW as [H2 H3]. specialize (HW4 H2).
      destruct (pd_len_zero (f_len f) || nonempty (data D s4 ++ [])).
      * split; [discriminate|]. split; [discriminate|]. intros _ _. split; [exact HW4|].
        unfold mu. rewrite Hc4, Hcur. lia.
      * split; [discriminate|]. split; [intros _ _; exact HW4|discriminate].
Qed.

Lemma run_terminates n : forall (s : rstate), Wf s -> (mu s < n)%nat -> exists s1 e1, run D cd n cf s = Done D s1 e1.
Proof.
  induction n as [|n IH]; intros s HW Hmu; [lia|]. cbn [run].
  pose proof (step_progress s HW) as P. destruct (step D cd cf s) as [[s1 e1] c]. destruct P as [P1 [P2 P3]].
  destruct c; try (eexists; eexists; reflexivity).
  destruct (st (cn D s1)) eqn:Hs; try (eexists; eexists; reflexivity);
    (destruct (P3 eq_refl ltac:(congruence)) as [W1 M1];
     destruct (IH s1 W1 ltac:(lia)) as [s2 [e2 R]]; rewrite R; eexists; eexists; reflexivity).
Qed.

Lemma run_Wf n : forall (s s1 : rstate) e1, Wf s -> run D cd n cf s = Done D s1 e1 -> st (cn D s1) <> CLOSED -> Wf s1.
Proof.
  induction n as [|n IH]; intros s s1 e1 HW H Hc; [discriminate|]. cbn [run] in H.
  pose proof (step_progress s HW) as P. destruct (step D cd cf s) as [[sa ea] c]. destruct P as [P1 [P2 P3]].
  destruct c.
  - destruct (st (cn D sa)) eqn:Hs.
    + destruct (run D cd n cf sa) as [s2 e2|] eqn:R; [|discriminate]. inversion H; subst.
      destruct (P3 eq_refl ltac:(congruence)) as [W1 _]. eapply IH; eauto.
    + destruct (run D cd n cf sa) as [s2 e2|] eqn:R; [|discriminate]. inversion H; subst.
      destruct (P3 eq_refl ltac:(congruence)) as [W1 _]. eapply IH; eauto.
    + inversion H; subst. congruence.
  - inversion H; subst. apply P2; auto.
  - congruence.
Qed.

Lemma step_after_partial (s' : rstate) f y : cur D s' = Some f ->
  step D cd cf (push (r_data D s' []) y) =
    let r := f_len f - mptr D s' in
    if r <=? lenN y then sp s' f (take r y) (drop r y) else sp s' f y [].
Proof.
  intros Hc. change (push (r_data D s' []) y) with (r_data D s' y).
  unfold step. change (cur D (r_data D s' y)) with (cur D s'). rewrite Hc, step_payload_sp. cbv zeta.
  change (data D (r_data D s' y)) with y. change (mptr D (r_data D s' y)) with (mptr D s').
  unfold sp. destruct (f_len f - mptr D s' <=? lenN y); rewrite pay_apply_data;
    destruct (pay_apply cf s' f _) as [[sx ex] cx]; reflexivity.
Qed.

(* ---------- append-commutation ---------- *)
(* final states are compared as the continuation sees them: once CLOSED only the connection record matters
   (later reads are ignored and onClose reports from it) *)
Definition obs_eq (a b : rstate) : Prop := cn D a = cn D b /\ (st (cn D b) <> CLOSED -> a = b).
Lemma obs_eq_refl a : obs_eq a a.
Proof. split; auto. Qed.

(* the second read, as _dataReceived does it *)
Definition feeds (s1 : rstate) (y : list N) (s2 : rstate) (e2 : list event) : Prop :=
  (st (cn D s1) = CLOSED /\ s2 = push s1 y /\ e2 = []) \/ (st (cn D s1) <> CLOSED /\ Runs (push s1 y) s2 e2).

Lemma cont_of_app c (a b : list N) : cont_of c a = Cont -> cont_of c (a ++ b) = Cont.
Proof. destruct c; cbn; try discriminate. destruct a; [discriminate|reflexivity]. Qed.

Lemma append_commutes n : forall (s : rstate), Wf s -> st (cn D s) <> CLOSED ->
  forall s1 e1, run D cd n cf s = Done D s1 e1 ->
  forall y s2 e2, feeds s1 y s2 e2 -> exists s2', Runs (push s y) s2' (e1 ++ e2) /\ obs_eq s2' s2.
Proof.
  induction n as [|n IH]; intros s HW Hopen s1 e1 H y s2 e2 Hfeed; [discriminate|].
  cbn [run] in H. pose proof (step_progress s HW) as P.
  unfold step in H, P. destruct (cur D s) as [f|] eqn:Hcur.
  - (* ---- inside a frame ---- *)
    destruct HW as [H2 H3]. pose proof H3 as H3'. unfold W3 in H3'. rewrite Hcur in H3'. destruct H3' as [Hm _].
    rewrite step_payload_sp in H, P. cbv zeta in H, P.
    destruct (N.leb_spec (f_len f - mptr D s) (lenN (data D s))) as [Hr|Hr].
    + (* the buffer holds the rest of the frame *)
      pose proof (sp_push_complete s f y Hr) as Spy.
      set (chunk := take (f_len f - mptr D s) (data D s)) in *.
      set (rem := drop (f_len f - mptr D s) (data D s)) in *.
      unfold sp in H, P, Spy.
      pose proof (pay_apply_facts s f chunk (conj H2 H3) Hcur) as F.
      unfold chunk in F at 1. rewrite lenN_take in F by exact Hr. specialize (F ltac:(lia)). fold chunk in F.
      destruct (pay_apply cf s f chunk) as [[s' e] c]. destruct F as [F1 [F2 F3]].
      replace (mptr D s + lenN chunk =? f_len f) with true in F3
        by (symmetry; apply N.eqb_eq; unfold chunk; rewrite lenN_take by exact Hr; lia).
      destruct P as [_ [P2 P3]].
      assert (Hstep : step D cd cf (push s y) = (r_data D s' (rem ++ y), e, cont_of c (rem ++ y))).
      { unfold step. cbn [cur push r_data]. rewrite Hcur. exact Spy. }
      destruct (st (cn D s')) eqn:Hs'.
      3:{ (* closed by this step *)
          assert (E : s1 = r_data D s' rem /\ e1 = e).
          { destruct (cont_of c rem); cbn [cn r_data] in H; rewrite ?Hs' in H; inversion H; auto. }
          destruct E as [-> ->]. destruct Hfeed as [[_ [-> ->]]|[Hx _]]; [|cbn [cn r_data] in Hx; congruence].
          exists (r_data D s' (rem ++ y)). split; [|apply obs_eq_refl].
          rewrite app_nil_r. eapply runs_stop; [exact Hstep|right; exact Hs']. }
      * (* OPEN *)
        destruct c; [|exfalso; specialize (F2 eq_refl); congruence|congruence].
        cbn [cont_of] in *. destruct (nonempty rem) eqn:Hn.
        -- cbn [cn r_data] in H. rewrite Hs' in H.
           destruct (run D cd n cf (r_data D s' rem)) as [sb eb|] eqn:R; [|discriminate]. inversion H; subst s1 e1.
           destruct (P3 eq_refl ltac:(cbn [cn r_data]; congruence)) as [W1 _].
           destruct (IH _ W1 ltac:(cbn [cn r_data]; congruence) _ _ R y s2 e2 Hfeed) as [s2' [R2 O2]].
           exists s2'. split; [|exact O2]. rewrite <- app_assoc.
           assert (Hc' : (if nonempty (rem ++ y) then Cont else Stop) = Cont) by (rewrite nonempty_app, Hn; reflexivity).
           rewrite Hc' in Hstep. eapply runs_cont; [exact Hstep| |exact R2].
           cbn [cn r_data]. congruence.
        -- inversion H; subst s1 e1. destruct rem as [|x r]; [|discriminate].
           destruct Hfeed as [[Hx _]|[_ R2]]; [cbn [cn r_data] in Hx; congruence|].
           destruct (F3 eq_refl) as [G1 [G2 G3]].
           destruct y as [|y0 yr].
           ++ rewrite push_nil in R2.
              assert (Q : Runs (r_data D s' []) (r_data D s' []) []).
              { eapply runs_stop; [apply step_empty_outside; [exact G3|reflexivity]|left; discriminate]. }
              destruct (runs_det _ _ _ _ _ R2 Q) as [-> ->].
              exists (r_data D s' []). split; [|apply obs_eq_refl]. rewrite app_nil_r.
              cbn [app nonempty] in Hstep. eapply runs_stop; [exact Hstep|left; discriminate].
           ++ exists s2. split; [|apply obs_eq_refl]. cbn [app nonempty] in Hstep.
              eapply runs_cont; [exact Hstep| |exact R2].
              cbn [cn r_data]. congruence.
      * (* CLOSING *)
        destruct c; [|exfalso; specialize (F2 eq_refl); congruence|congruence].
        cbn [cont_of] in *. destruct (nonempty rem) eqn:Hn.
        -- cbn [cn r_data] in H. rewrite Hs' in H.
           destruct (run D cd n cf (r_data D s' rem)) as [sb eb|] eqn:R; [|discriminate]. inversion H; subst s1 e1.
           destruct (P3 eq_refl ltac:(cbn [cn r_data]; congruence)) as [W1 _].
           destruct (IH _ W1 ltac:(cbn [cn r_data]; congruence) _ _ R y s2 e2 Hfeed) as [s2' [R2 O2]].
           exists s2'. split; [|exact O2]. rewrite <- app_assoc.
           assert (Hc' : (if nonempty (rem ++ y) then Cont else Stop) = Cont) by (rewrite nonempty_app, Hn; reflexivity).
           rewrite Hc' in Hstep. eapply runs_cont; [exact Hstep| |exact R2].
           cbn [cn r_data]. congruence.
        -- inversion H; subst s1 e1. destruct rem as [|x r]; [|discriminate].
           destruct Hfeed as [[Hx _]|[_ R2]]; [cbn [cn r_data] in Hx; congruence|].
           destruct (F3 eq_refl) as [G1 [G2 G3]].
           destruct y as [|y0 yr].
           ++ rewrite push_nil in R2.
              assert (Q : Runs (r_data D s' []) (r_data D s' []) []).
              { eapply runs_stop; [apply step_empty_outside; [exact G3|reflexivity]|left; discriminate]. }
              destruct (runs_det _ _ _ _ _ R2 Q) as [-> ->].
              exists (r_data D s' []). split; [|apply obs_eq_refl]. rewrite app_nil_r.
              cbn [app nonempty] in Hstep. eapply runs_stop; [exact Hstep|left; discriminate].
           ++ exists s2. split; [|apply obs_eq_refl]. cbn [app nonempty] in Hstep.
              eapply runs_cont; [exact Hstep| |exact R2].
              cbn [cn r_data]. congruence.
    + (* the buffer ends inside the frame: this read's chunk and the next read's first chunk merge *)
      pose proof (sp_push_partial s f y Hr) as Spy. cbv zeta in Spy.
      unfold sp in H, P.
      pose proof (pay_apply_facts s f (data D s) (conj H2 H3) Hcur ltac:(lia)) as F.
      assert (Hne : mptr D s + lenN (data D s) <> f_len f) by lia.
      replace (mptr D s + lenN (data D s) =? f_len f) with false in F by (symmetry; now apply N.eqb_neq).
      set (r := f_len f - mptr D s - lenN (data D s)) in *.
      set (y1 := if r <=? lenN y then take r y else y).
      set (y2 := if r <=? lenN y then drop r y else []).
      assert (Spy' : step_payload D cd cf (push s y) f = sp s f (data D s ++ y1) y2).
      { rewrite Spy. unfold y1, y2. destruct (r <=? lenN y); reflexivity. }
      pose proof (pay_merge s f (data D s) y1 Hne) as M.
      destruct (pay_apply cf s f (data D s)) as [[s' e] c]. destruct F as [F1 [F2 F3]].
      assert (Hstep : step D cd cf (push s y) = sp s f (data D s ++ y1) y2).
      { unfold step. cbn [cur push r_data]. rewrite Hcur. exact Spy'. }
      assert (E : s1 = r_data D s' [] /\ e1 = e).
      { destruct c; cbn [cont_of nonempty] in H; inversion H; auto. }
      destruct E as [-> ->]. clear H.
      destruct c; [| |congruence].
      * (* first chunk accepted *)
        destruct (F3 eq_refl) as [G1 [G2 [G3 [G4 [G5 [G6 G7]]]]]].
        destruct Hfeed as [[Hx _]|[_ R2]]; [cbn [cn r_data] in Hx; congruence|].
        (* the second read's first step *)
        assert (Hstep2 : step D cd cf (push (r_data D s' []) y) = sp s' f y1 y2).
        { rewrite (step_after_partial s' f y G3). cbv zeta. rewrite G4.
          replace (f_len f - (mptr D s + lenN (data D s))) with r by (unfold r; lia).
          unfold y1, y2. destruct (r <=? lenN y); reflexivity. }
        unfold sp in Hstep, Hstep2.
        destruct (pay_apply cf s' f y1) as [[s2a e2a] c2].
        destruct M as [s'' [Em [Ecn Eeq]]]. rewrite Em in Hstep.
        pose proof (runs_inv _ _ _ R2) as I. rewrite Hstep2 in I.
        destruct I as [[Ic [Io [e2' [Ir ->]]]]|[Ic [-> ->]]].
        -- cbn [cn r_data] in Io. rewrite (Eeq Io) in Hstep. exists s2. split; [|apply obs_eq_refl].
           rewrite app_assoc. eapply runs_cont; [rewrite Hstep, Ic; reflexivity| |exact Ir].
           cbn [cn r_data]. exact Io.
        -- exists (r_data D s'' y2). split.
           ++ eapply runs_stop; [exact Hstep|]. cbn [cn r_data] in *. rewrite Ecn. exact Ic.
           ++ split; [cbn [cn r_data]; exact Ecn|]. cbn [cn r_data]. intros Ho. now rewrite (Eeq Ho).
      * (* first chunk rejected: CLOSED *)
        destruct M as [s'' [Em [Ecn Ecl]]]. unfold sp in Hstep. rewrite Em in Hstep. cbn [cont_of] in Hstep.
        destruct Hfeed as [[_ [-> ->]]|[Hx _]]; [|cbn [cn r_data] in Hx; congruence].
        exists (r_data D s'' y2). split.
        -- rewrite app_nil_r. eapply runs_stop; [exact Hstep|left; discriminate].
        -- split; [cbn [cn r_data push]; exact Ecn|]. cbn [cn r_data push]. congruence.
  - (* ---- outside a frame ---- *)
    assert (Hst : forall z, step D cd cf (push s z) = step_header D cd cf (push s z)).
    { intros z. unfold step. cbn [cur push r_data]. now rewrite Hcur. }
    destruct (step_header_outcome s) as [Hn _|c1 ef Hc Hf|s4 e f Hc4 Hm4 HW4 HL Hp].
    + rewrite Hn in H. inversion H; subst s1 e1.
      destruct Hfeed as [[Hx _]|[_ R2]]; [congruence|]. exists s2. split; [exact R2|apply obs_eq_refl].
    + pose proof (Hf []) as Hf0. rewrite push_nil in Hf0. rewrite Hf0 in H. inversion H; subst s1 e1.
      destruct Hfeed as [[_ [-> ->]]|[Hx _]]; [|cbn [cn r_cn] in Hx; congruence].
      exists (r_cn D (push s y) c1). split; [|apply obs_eq_refl].
      rewrite app_nil_r. eapply runs_stop; [rewrite Hst; apply Hf|left; discriminate].
    + pose proof (Hp []) as Hp0. rewrite !push_nil in Hp0. rewrite Hp0 in H.
      destruct HW as [H2 H3]. specialize (HW4 H2).
      assert (Hstep : step D cd cf (push s y) =
                (push s4 y, e, if pd_len_zero (f_len f) || nonempty (data D s4 ++ y) then Cont else Stop)).
      { rewrite Hst. apply Hp. }
      destruct (st (cn D s4)) eqn:Hs4.
      3:{ assert (E : s1 = s4 /\ e1 = e).
          { destruct (pd_len_zero (f_len f) || nonempty (data D s4 ++ [])); rewrite ?Hs4 in H; inversion H; auto. }
          destruct E as [-> ->]. destruct Hfeed as [[_ [-> ->]]|[Hx _]]; [|congruence].
          exists (push s4 y). split; [|apply obs_eq_refl]. rewrite app_nil_r.
          eapply runs_stop; [exact Hstep|right; exact Hs4]. }
      * destruct (pd_len_zero (f_len f) || nonempty (data D s4 ++ [])) eqn:Hc0.
        -- destruct (run D cd n cf s4) as [sb eb|] eqn:R; [|discriminate]. inversion H; subst s1 e1.
           destruct (IH _ HW4 ltac:(congruence) _ _ R y s2 e2 Hfeed) as [s2' [R2 O2]].
           exists s2'. split; [|exact O2]. rewrite <- app_assoc. eapply runs_cont; [rewrite Hstep| |exact R2].
           ++ rewrite app_nil_r in Hc0. rewrite nonempty_app.
              destruct (pd_len_zero (f_len f)); [reflexivity|]. cbn [orb] in *. rewrite Hc0. reflexivity.
           ++ cbn [cn push r_data]. congruence.
        -- inversion H; subst s1 e1. apply orb_false_iff in Hc0. destruct Hc0 as [Hz Hd].
           rewrite app_nil_r in Hd. destruct (data D s4) as [|x0 xr] eqn:Hd4; [|discriminate].
           destruct Hfeed as [[Hx _]|[_ R2]]; [congruence|].
           rewrite Hz in Hstep. cbn [orb app] in Hstep.
           destruct y as [|y0 yr].
           ++ rewrite push_nil in R2, Hstep.
              assert (Q : Runs s4 s4 []).
              { assert (St : step D cd cf s4 = (s4, [], Stop)).
                { apply (step_empty_in_frame s4 f HW4 Hc4 Hd4).
                  rewrite Hm4. unfold pd_len_zero in Hz. apply N.eqb_neq in Hz. lia. }
                eapply runs_stop; [exact St|left; discriminate]. }
              destruct (runs_det _ _ _ _ _ R2 Q) as [-> ->].
              exists s4. split; [|apply obs_eq_refl]. rewrite app_nil_r.
              rewrite push_nil in Hstep. cbn [nonempty] in Hstep.
              eapply runs_stop; [rewrite push_nil; exact Hstep|left; discriminate].
           ++ exists s2. split; [|apply obs_eq_refl]. eapply runs_cont; [exact Hstep| |exact R2].
              cbn [cn push r_data]. congruence.
      * destruct (pd_len_zero (f_len f) || nonempty (data D s4 ++ [])) eqn:Hc0.
        -- destruct (run D cd n cf s4) as [sb eb|] eqn:R; [|discriminate]. inversion H; subst s1 e1.
           destruct (IH _ HW4 ltac:(congruence) _ _ R y s2 e2 Hfeed) as [s2' [R2 O2]].
           exists s2'. split; [|exact O2]. rewrite <- app_assoc. eapply runs_cont; [rewrite Hstep| |exact R2].
           ++ rewrite app_nil_r in Hc0. rewrite nonempty_app.
              destruct (pd_len_zero (f_len f)); [reflexivity|]. cbn [orb] in *. rewrite Hc0. reflexivity.
           ++ cbn [cn push r_data]. congruence.
        -- inversion H; subst s1 e1. apply orb_false_iff in Hc0. destruct Hc0 as [Hz Hd].
           rewrite app_nil_r in Hd. destruct (data D s4) as [|x0 xr] eqn:Hd4; [|discriminate].
           destruct Hfeed as [[Hx _]|[_ R2]]; [congruence|].
           rewrite Hz in Hstep. cbn [orb app] in Hstep.
           destruct y as [|y0 yr].
           ++ rewrite push_nil in R2, Hstep.
              assert (Q : Runs s4 s4 []).
              { assert (St : step D cd cf s4 = (s4, [], Stop)).
                { apply (step_empty_in_frame s4 f HW4 Hc4 Hd4).
                  rewrite Hm4. unfold pd_len_zero in Hz. apply N.eqb_neq in Hz. lia. }
                eapply runs_stop; [exact St|left; discriminate]. }
              destruct (runs_det _ _ _ _ _ R2 Q) as [-> ->].
              exists s4. split; [|apply obs_eq_refl]. rewrite app_nil_r.
              rewrite push_nil in Hstep. cbn [nonempty] in Hstep.
              eapply runs_stop; [rewrite push_nil; exact Hstep|left; discriminate].
           ++ exists s2. split; [|apply obs_eq_refl]. eapply runs_cont; [exact Hstep| |exact R2].
              cbn [cn push r_data]. congruence.
Qed.

(* ---------- quiescence: where a run stops, an empty read does nothing ---------- *)
Lemma stop_is_quiescent (s s1 : rstate) e1 : Wf s -> step D cd cf s = (s1, e1, Stop) -> st (cn D s1) <> CLOSED ->
  step D cd cf s1 = (s1, [], Stop).
Proof.
  intros HW H Ho. pose proof (step_progress s HW) as P. rewrite H in P. destruct P as [_ [P2 _]].
  specialize (P2 eq_refl Ho). unfold step in H. destruct (cur D s) as [f|] eqn:Hcur.
  - destruct HW as [H2 H3]. pose proof H3 as H3'. unfold W3 in H3'. rewrite Hcur in H3'. destruct H3' as [Hm _].
    rewrite step_payload_sp in H. cbv zeta in H. unfold sp in H.
    destruct (N.leb_spec (f_len f - mptr D s) (lenN (data D s))) as [Hr|Hr].
    + pose proof (pay_apply_facts s f (take (f_len f - mptr D s) (data D s)) (conj H2 H3) Hcur) as F.
      rewrite lenN_take in F by exact Hr. specialize (F ltac:(lia)).
      destruct (pay_apply cf s f _) as [[s' e] c]. destruct F as [F1 [F2 F3]].
      replace (mptr D s + (f_len f - mptr D s) =? f_len f) with true in F3 by (symmetry; apply N.eqb_eq; lia).
      destruct c; cbn [cont_of] in H.
      * destruct (nonempty (drop (f_len f - mptr D s) (data D s))) eqn:Hn; [discriminate|]. inversion H; subst.
        destruct (drop (f_len f - mptr D s) (data D s)); [|discriminate].
        destruct (F3 eq_refl) as [_ [_ G3]]. apply step_empty_outside; [exact G3|reflexivity].
      * inversion H; subst. cbn [cn r_data] in Ho. now rewrite (F2 eq_refl) in Ho.
      * congruence.
    + pose proof (pay_apply_facts s f (data D s) (conj H2 H3) Hcur ltac:(lia)) as F.
      destruct (pay_apply cf s f _) as [[s' e] c]. destruct F as [F1 [F2 F3]].
      replace (mptr D s + lenN (data D s) =? f_len f) with false in F3 by (symmetry; apply N.eqb_neq; lia).
      destruct c; cbn [cont_of nonempty] in H; inversion H; subst.
      * destruct (F3 eq_refl) as [G1 [G2 [G3 [G4 [G5 [G6 G7]]]]]].
        apply (step_empty_in_frame (r_data D s' []) f P2); [exact G3|reflexivity|]. cbn [mptr r_data]. rewrite G4. lia.
      * cbn [cn r_data] in Ho. now rewrite (F2 eq_refl) in Ho.
  - destruct (step_header_outcome s) as [Hn _|c1 ef Hc Hf|s4 e f Hc4 Hm4 HW4 HL Hp].
    + rewrite Hn in H. inversion H; subst. unfold step. rewrite Hcur. exact Hn.
    + specialize (Hf []). rewrite push_nil in Hf. rewrite Hf in H. inversion H; subst. cbn [cn r_cn] in Ho. congruence.
    + specialize (Hp []). rewrite !push_nil in Hp. rewrite Hp in H.
      destruct (pd_len_zero (f_len f) || nonempty (data D s4 ++ [])) eqn:Hc0; [discriminate|]. inversion H; subst.
      apply orb_false_iff in Hc0. destruct Hc0 as [Hz Hd]. rewrite app_nil_r in Hd.
      destruct (data D s1) eqn:Hd1; [|discriminate].
      apply (step_empty_in_frame s1 f P2 Hc4 Hd1). rewrite Hm4. unfold pd_len_zero in Hz. apply N.eqb_neq in Hz. lia.
Qed.

(* states in which reads arrive: well-formed and quiescent *)
Definition Good (s : rstate) : Prop := Wf s /\ (st (cn D s) <> CLOSED -> step D cd cf s = (s, [], Stop)).

Lemma Good_init p d0 : Good (init_state D p d0).
Proof. split; [apply Wf_init|]. intros _. reflexivity. Qed.

Lemma run_quiescent n : forall (s s1 : rstate) e1, Wf s -> run D cd n cf s = Done D s1 e1 -> st (cn D s1) <> CLOSED ->
  step D cd cf s1 = (s1, [], Stop).
Proof.
  induction n as [|n IH]; intros s s1 e1 HW H Hc; [discriminate|]. cbn [run] in H.
  pose proof (step_progress s HW) as P. pose proof (stop_is_quiescent s) as Q.
  destruct (step D cd cf s) as [[sa ea] c]. destruct P as [P1 [P2 P3]].
  destruct c.
  - destruct (st (cn D sa)) eqn:Hs.
    + destruct (run D cd n cf sa) as [s2 e2|] eqn:R; [|discriminate]. inversion H; subst.
      destruct (P3 eq_refl ltac:(congruence)) as [W1 _]. eapply IH; eauto.
    + destruct (run D cd n cf sa) as [s2 e2|] eqn:R; [|discriminate]. inversion H; subst.
      destruct (P3 eq_refl ltac:(congruence)) as [W1 _]. eapply IH; eauto.
    + inversion H; subst. congruence.
  - inversion H; subst. eapply Q; eauto.
  - congruence.
Qed.

(* ---------- feed ---------- *)
Lemma feed_closed (s : rstate) d : st (cn D s) = CLOSED -> feed D cd cf s d = Done D (push s d) [].
Proof. intros H. unfold feed. cbn [cn r_data]. rewrite H. reflexivity. Qed.

Lemma fuel_enough (s : rstate) : (mu s < fuel_of D s)%nat.
Proof. unfold mu, fuel_of. destruct (cur D s); lia. Qed.

Lemma feed_open (s : rstate) d : Wf s -> st (cn D s) <> CLOSED ->
  exists s1 e1, feed D cd cf s d = Done D s1 e1 /\ Runs (push s d) s1 e1 /\ (st (cn D s1) <> CLOSED -> Good s1).
Proof.
  intros HW Ho. destruct (run_terminates (fuel_of D (push s d)) (push s d) HW (fuel_enough _)) as [s1 [e1 R]].
  exists s1, e1. split; [|split].
  - unfold feed. fold (push s d). cbn [cn push r_data]. destruct (st (cn D s)); try congruence; exact R.
  - eexists; exact R.
  - intros Hc. split.
    + apply (run_Wf _ (push s d) s1 e1 HW R Hc).
    + intros _. apply (run_quiescent _ (push s d) s1 e1 HW R Hc).
Qed.

Lemma feed_of_runs (s s1 : rstate) d e1 : Wf s -> st (cn D s) <> CLOSED -> Runs (push s d) s1 e1 ->
  feed D cd cf s d = Done D s1 e1.
Proof.
  intros HW Ho R. destruct (feed_open s d HW Ho) as [s1' [e1' [F [R' _]]]].
  destruct (runs_det _ _ _ _ _ R R') as [-> ->]. exact F.
Qed.

Lemma feed_all_closed chunks : forall (s : rstate), st (cn D s) = CLOSED ->
  feed_all D cd cf s chunks = Done D (push s (concat chunks)) [].
Proof.
  induction chunks as [|c r IH]; intros s H; cbn [feed_all concat].
  - now rewrite push_nil.
  - rewrite (feed_closed s c H). rewrite (IH (push s c)) by exact H. now rewrite push_push.
Qed.

Lemma obs_eq_trans a b c : obs_eq a b -> obs_eq b c -> obs_eq a c.
Proof.
  intros [H1 H2] [H3 H4]. split; [congruence|]. intros Hc. rewrite <- (H4 Hc). apply H2. rewrite H3. exact Hc.
Qed.

(* two reads = one read of the concatenation *)
Theorem feed_app (s : rstate) a b : Good s ->
  exists s1 e1 s2 e2 s12,
    feed D cd cf s a = Done D s1 e1 /\ feed D cd cf s1 b = Done D s2 e2 /\
    feed D cd cf s (a ++ b) = Done D s12 (e1 ++ e2) /\ obs_eq s12 s2 /\
    (st (cn D s1) <> CLOSED -> Good s1) /\ (st (cn D s2) <> CLOSED -> Good s2).
Proof.
  intros [HW HQ]. destruct (st (cn D s)) eqn:Hs.
  3:{ exists (push s a), [], (push (push s a) b), [], (push s (a ++ b)).
      assert (Hs' : st (cn D (push s a)) = CLOSED) by exact Hs.
      rewrite (feed_closed s a Hs), (feed_closed (push s a) b Hs'), (feed_closed s (a ++ b) Hs), push_push.
      split; [reflexivity|]. split; [reflexivity|]. split; [reflexivity|]. split; [apply obs_eq_refl|].
      split; intros Hx; exfalso; apply Hx; exact Hs. }
  all: (assert (Ho : st (cn D s) <> CLOSED) by congruence;
    destruct (feed_open s a HW Ho) as [s1 [e1 [F1 [[n R1] G1]]]];
    assert (X : exists s2 e2, feed D cd cf s1 b = Done D s2 e2 /\ feeds s1 b s2 e2 /\ (st (cn D s2) <> CLOSED -> Good s2));
    [ destruct (st (cn D s1)) eqn:Hs1;
      [ destruct (G1 ltac:(congruence)) as [W1 Q1];
        destruct (feed_open s1 b W1 ltac:(congruence)) as [s2 [e2 [F2 [R2 G2]]]];
        exists s2, e2; split; [exact F2|]; split; [right; split; [congruence|exact R2]|exact G2]
      | destruct (G1 ltac:(congruence)) as [W1 Q1];
        destruct (feed_open s1 b W1 ltac:(congruence)) as [s2 [e2 [F2 [R2 G2]]]];
        exists s2, e2; split; [exact F2|]; split; [right; split; [congruence|exact R2]|exact G2]
      | exists (push s1 b), []; split; [now apply feed_closed|]; split; [left; auto|cbn [cn push r_data]; congruence] ]
    | destruct X as [s2 [e2 [F2 [Fe G2]]]];
      destruct (append_commutes n (push s a) HW ltac:(cbn [cn push r_data]; congruence) s1 e1 R1 b s2 e2 Fe) as [s12 [R12 O12]];
      rewrite push_push in R12;
      exists s1, e1, s2, e2, s12; split; [exact F1|]; split; [exact F2|];
      split; [now apply feed_of_runs|]; split; [exact O12|]; split; [exact G1|exact G2] ]).
Qed.

(* any segmentation: the events are those of the single read of the whole stream; the final states agree
   (exactly while the connection is not CLOSED; in their connection record once it is) *)
Theorem split_independent chunks : forall (s : rstate), Good s ->
  exists s_split evs s_whole,
    feed_all D cd cf s chunks = Done D s_split evs /\
    feed D cd cf s (concat chunks) = Done D s_whole evs /\
    obs_eq s_whole s_split.
Proof.
  induction chunks as [|c r IH]; intros s HG.
  - cbn [feed_all concat]. exists s, [], s. split; [reflexivity|]. split; [|apply obs_eq_refl].
    destruct HG as [HW HQ]. destruct (st (cn D s)) eqn:Hs.
    3:{ rewrite feed_closed by exact Hs. now rewrite push_nil. }
    all: apply feed_of_runs; [exact HW|congruence|]; rewrite push_nil;
         eapply runs_stop; [apply HQ; congruence|left; discriminate].
  - cbn [feed_all concat].
    destruct (feed_app s c (concat r) HG) as [s1 [e1 [s2 [e2 [s12 [F1 [F2 [F12 [O12 [G1 G2]]]]]]]]]].
    rewrite F1.
    destruct (st (cn D s1)) eqn:Hs1.
    3:{ rewrite (feed_all_closed r s1 Hs1). rewrite (feed_closed s1 _ Hs1) in F2. inversion F2; subst.
        exists (push s1 (concat r)), (e1 ++ []), s12. split; [reflexivity|]. split; [exact F12|exact O12]. }
    all: (destruct (IH s1 (G1 ltac:(congruence))) as [sa [ea [sw [A1 [A2 A3]]]]];
          rewrite A1; rewrite A2 in F2; inversion F2; subst;
          exists sa, (e1 ++ e2), s12; split; [reflexivity|]; split; [exact F12|];
          eapply obs_eq_trans; eauto).
Qed.

End FailByDrop.

End WithCodec.

(* ================================================================================================= *)
(* closed statements *)
Definition codec_law {D} (cd : codec D) : Prop :=
  (forall d, d_data cd d [] = (d, [])) /\
  (forall d a b, d_data cd d (a ++ b) =
                 let '(d1, o1) := d_data cd d a in let '(d2, o2) := d_data cd d1 b in (d2, o1 ++ o2)).

Lemma id_codec_law : codec_law id_codec.
Proof. split; intros; reflexivity. Qed.

(* the full-strength statement of C02's last sentence, over the model: from the state after the handshake (OPEN or
   CLOSING), for every configuration, every decompressor obeying the stream law and every segmentation, the reads
   produce the events of the single read of the concatenation and observably the same final state *)
Definition split_independent_statement : Prop :=
  forall D (cd : codec D), codec_law cd -> forall cf p d0 chunks,
  exists s_split evs s_whole,
    feed_all D cd cf (init_state D p d0) chunks = Done D s_split evs /\
    feed D cd cf (init_state D p d0) (concat chunks) = Done D s_whole evs /\
    obs_eq D s_whole s_split.

(* ... holds for the default policy failByDrop = true *)
Theorem split_independent_failbydrop :
  forall D (cd : codec D), codec_law cd -> forall cf, failByDrop cf = true -> forall p d0 chunks,
  exists s_split evs s_whole,
    feed_all D cd cf (init_state D p d0) chunks = Done D s_split evs /\
    feed D cd cf (init_state D p d0) (concat chunks) = Done D s_whole evs /\
    obs_eq D s_whole s_split.
Proof.
  intros D cd [L1 L2] cf FBD p d0 chunks.
  apply (split_independent D cd L1 L2 cf FBD chunks). apply Good_init.
Qed.

(* ... and from every state in which a read can arrive (Good: well-formed and quiescent), a property every read
   re-establishes (feed_app) *)
Theorem split_independent_failbydrop_reachable :
  forall D (cd : codec D), codec_law cd -> forall cf, failByDrop cf = true -> forall s chunks, Good D cd cf s ->
  exists s_split evs s_whole,
    feed_all D cd cf s chunks = Done D s_split evs /\
    feed D cd cf s (concat chunks) = Done D s_whole evs /\
    obs_eq D s_whole s_split.
Proof. intros D cd [L1 L2] cf FBD s chunks G. apply (split_independent D cd L1 L2 cf FBD chunks s G). Qed.

Theorem good_after_feed :
  forall D (cd : codec D), codec_law cd -> forall cf, failByDrop cf = true -> forall s d, Good D cd cf s ->
  exists s1 e1, feed D cd cf s d = Done D s1 e1 /\ (st (cn D s1) <> CLOSED -> Good D cd cf s1).
Proof.
  intros D cd [L1 L2] cf FBD s d G.
  destruct (feed_app D cd L1 L2 cf FBD s d [] G) as [s1 [e1 [s2 [e2 [s12 [F1 [_ [_ [_ [G1 _]]]]]]]]]].
  exists s1, e1. split; assumption.
Qed.

(* ... and is FALSE for failByDrop = false (F-C02-1): server, close-handshake policy, a masked zero-length text frame
   with RSV3 (octets 91 80 00 00 00 00).  One read: one violation, close 1002 written, CLOSING.  Reads [91 80][00 00 00 00]:
   the two-octet header is judged on the first read (close 1002) and again on the second (the extended header was
   incomplete) -> second failure in CLOSING -> the TCP connection is dropped. *)
Definition split_witness_cfg : cfg := mkCfg true true false true false true 0 0 false false.
Definition split_witness_chunks : list (list N) := [[0x91; 0x80]; [0; 0; 0; 0]].

Theorem split_independent_refuted : ~ split_independent_statement.
Proof.
  intros H. destruct (H unit id_codec id_codec_law split_witness_cfg OPEN tt split_witness_chunks)
    as [ss [evs [sw [A [B _]]]]].
  vm_compute in A. vm_compute in B. inversion A; subst. inversion B.
Qed.
