From Coq Require Import List String Bool.
From AV Require Import Gen.MaskOpts Model.MaskOpts Model.WsSend.
Import ListNotations.
Open Scope string_scope.

Lemma optb_eqb_eq a b : optb_eqb a b = true -> a = b.
Proof. destruct a as [[|]|], b as [[|]|]; simpl; intro H; congruence. Qed.

Lemma table_ok_lookup opts t : table_ok opts t = true ->
  forall m, In m opts -> forall p a, tbl_lookup t m p a = Some (spec_set p a).
Proof.
  unfold table_ok. intros H m Hm p a.
  rewrite forallb_forall in H. specialize (H m Hm).
  rewrite forallb_forall in H.
  assert (Hp : In p [true; false]) by (destruct p; simpl; auto).
  specialize (H p Hp). rewrite forallb_forall in H.
  assert (Ha : In a [None; Some true; Some false]) by (destruct a as [[|]|]; simpl; auto).
  specialize (H a Ha). apply optb_eqb_eq in H. exact H.
Qed.

Lemma client_table_ok : table_ok client_mask_options client_set_table = true.
Proof. vm_compute. reflexivity. Qed.
Lemma server_table_ok : table_ok server_mask_options server_set_table = true.
Proof. vm_compute. reflexivity. Qed.

Definition keys_in (opts : list string) (st : mstate) : Prop := forall m v, In (m, v) st -> In m opts.

Lemma apply_call_spec opts t : table_ok opts t = true -> forall c st, keys_in opts st ->
  apply_call t c st = map (fun e => (fst e, spec_set (snd e) (arg_of c (fst e)))) st.
Proof.
  intros Hok c st. induction st as [|[m v] r IH]; intro Hk; [reflexivity|].
  simpl. rewrite (table_ok_lookup opts t Hok m (Hk m v (or_introl eq_refl))).
  f_equal. apply IH. intros m' v' Hin. apply (Hk m' v'). right. exact Hin.
Qed.

Lemma apply_call_untouched opts t : table_ok opts t = true -> forall c st, keys_in opts st ->
  names_no_masking_option opts c -> apply_call t c st = st.
Proof.
  intros Hok c st Hk Hc. rewrite (apply_call_spec opts t Hok c st Hk).
  induction st as [|[m v] r IH]; [reflexivity|]. simpl.
  rewrite (Hc m (Hk m v (or_introl eq_refl))). simpl. f_equal.
  apply IH. intros m' v' Hin. apply (Hk m' v'). right. exact Hin.
Qed.

Lemma run_calls_untouched opts t : table_ok opts t = true -> forall calls st, keys_in opts st ->
  Forall (names_no_masking_option opts) calls -> run_calls t calls st = st.
Proof.
  intros Hok calls. unfold run_calls.
  induction calls as [|c cs IH]; intros st Hk Hall; [reflexivity|].
  simpl. inversion Hall as [|c' cs' Hc Hcs]; subst.
  rewrite (apply_call_untouched opts t Hok c st Hk Hc). apply IH; assumption.
Qed.

(* an option set explicitly keeps the value given until it is named again *)
Lemma apply_call_sets opts t : table_ok opts t = true -> forall c st m b, keys_in opts st ->
  arg_of c m = Some b -> forall v, In (m, v) (apply_call t c st) -> In m (map fst st) /\ v = b.
Proof.
  intros Hok c st m b Hk Ha v. rewrite (apply_call_spec opts t Hok c st Hk).
  rewrite in_map_iff. intros [[m0 v0] [Heq Hin]]. simpl in Heq. inversion Heq; subst.
  rewrite Ha. simpl. split; [|reflexivity]. apply in_map_iff. exists (m, v0). split; [reflexivity|exact Hin].
Qed.

Lemma client_keys : keys_in client_mask_options client_mask_defaults.
Proof. intros m v H. vm_compute in H. vm_compute. intuition; match goal with H : (_, _) = (_, _) |- _ => inversion H; auto end. Qed.
Lemma server_keys : keys_in server_mask_options server_mask_defaults.
Proof. intros m v H. vm_compute in H. vm_compute. intuition; match goal with H : (_, _) = (_, _) |- _ => inversion H; auto end. Qed.

Lemma client_defaults_stable : forall calls, Forall (names_no_masking_option client_mask_options) calls ->
  run_calls client_set_table calls client_mask_defaults = client_mask_defaults.
Proof. intros. apply (run_calls_untouched client_mask_options); auto using client_table_ok, client_keys. Qed.

Lemma server_defaults_stable : forall calls, Forall (names_no_masking_option server_mask_options) calls ->
  run_calls server_set_table calls server_mask_defaults = server_mask_defaults.
Proof. intros. apply (run_calls_untouched server_mask_options); auto using server_table_ok, server_keys. Qed.

(* the generated defaults are the masking fields of the send model's default configuration (Model/WsSend.v), and the
   two probes (calls naming no masking option are neutral; a connection copies the factory) came out true *)
Lemma defaults_are_model_defaults :
  client_mask_defaults = [("applyMask", apply_mask (default_cfg false)); ("maskClientFrames", mask_client_frames (default_cfg false))] /\
  arg_of server_mask_defaults "applyMask" = Some (apply_mask (default_cfg true)) /\
  arg_of server_mask_defaults "maskServerFrames" = Some (mask_server_frames (default_cfg true)) /\
  arg_of server_mask_defaults "requireMaskedClientFrames" = Some true /\
  client_other_calls_neutral = true /\ server_other_calls_neutral = true /\
  client_connection_copies_factory = true /\ server_connection_copies_factory = true.
Proof. vm_compute. repeat split. Qed.
