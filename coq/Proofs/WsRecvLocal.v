(* Local decision lemmas of the receive path: length rules, close payload, pong echo, UTF-8 handling. *)
From Coq Require Import NArith List Bool Lia.
From AV Require Import Model.Masker Gen.WsConsts Model.WsRecv Proofs.WsRecvHeader.
Import ListNotations.
Open Scope N_scope.

(* ---------------- length rules ---------------- *)
Lemma ext_len_small len1 d : len1 <= 125 -> ext_len len1 d = (len1, [], 2).
Proof.
  intros H. unfold ext_len, pd_len1_is16_x, pd_len1_is64_x.
  destruct (N.eqb_spec len1 126); [lia|]. destruct (N.eqb_spec len1 127); [lia|]. reflexivity.
Qed.

Lemma ext_len_16 d : let n := be_val 0 (take 2 (drop 2 d)) in
  ext_len 126 d = (n, if n <? 126 then [HLen16NonMin] else [], 4).
Proof. reflexivity. Qed.

Lemma ext_len_64 d : let n := be_val 0 (take 8 (drop 2 d)) in
  ext_len 127 d = (n, (if 2 ^ 63 <=? n then [HLen64Huge] else []) ++ (if n <? 65536 then [HLen64NonMin] else []), 10).
Proof.
  cbv zeta. unfold ext_len, pd_len1_is16_x, pd_len1_is64_x, pd_len64_huge, pd_len64_nonmin, vif.
  change (127 =? 126) with false. change (127 =? 127) with true. cbv iota.
  set (n := be_val 0 (take 8 (drop 2 d))).
  replace (9223372036854775807 <? n) with (2 ^ 63 <=? n); [reflexivity|].
  change (2 ^ 63) with 9223372036854775808.
  destruct (N.leb_spec 9223372036854775808 n), (N.ltb_spec 9223372036854775807 n); try reflexivity; lia.
Qed.

(* the implementation's length verdict is the RFC's (5.2 "the minimal number of bytes MUST be used", "the most
   significant bit MUST be 0"), for every length form and every value of the extended length field *)
Lemma length_rules_rfc len1 d : len1 < 128 ->
  lenN (drop 2 d) >= (if len1 <=? 125 then 0 else if len1 =? 126 then 2 else 8) ->
  match rfc_length len1 (drop 2 d) with
  | LNeed => False
  | LBad => snd (fst (ext_len len1 d)) <> []
  | LOk n _ => ext_len len1 d = (n, [], if len1 <=? 125 then 2 else if len1 =? 126 then 4 else 10)
  end.
Proof.
  intros Hl Hn. unfold rfc_length.
  destruct (N.leb_spec len1 125) as [H1|H1].
  - now apply ext_len_small.
  - destruct (N.eqb_spec len1 126) as [->|H2].
    + destruct (N.ltb_spec (lenN (drop 2 d)) 2); [lia|].
      pose proof (ext_len_16 d) as E. cbv zeta in E. rewrite E.
      destruct (be_val 0 (take 2 (drop 2 d)) <? 126); cbn; [discriminate|reflexivity].
    + assert (len1 = 127) as -> by lia.
      destruct (N.ltb_spec (lenN (drop 2 d)) 8); [lia|].
      pose proof (ext_len_64 d) as E. cbv zeta in E. rewrite E.
      destruct (be_val 0 (take 8 (drop 2 d)) <? 65536), (2 ^ 63 <=? be_val 0 (take 8 (drop 2 d))); cbn; try discriminate; reflexivity.
Qed.

(* ---------------- close codes ---------------- *)
Definition close_code_cell (k : N) : bool := Bool.eqb (close_code_invalid k) (negb (rfc_close_code_ok k)).
Lemma close_code_sweep : forallb close_code_cell (rangeN 5000) = true.
Proof. vm_compute. reflexivity. Qed.

(* the implementation's close-code test (generated comparisons + the generated CLOSE_STATUS_CODES_ALLOWED) accepts
   exactly the codes RFC 6455 7.4 / the IANA registry allow on the wire -- for every code, not only 16-bit ones *)
Lemma close_code_table k : close_code_invalid k = negb (rfc_close_code_ok k).
Proof.
  destruct (N.lt_ge_cases k 5000) as [H|H].
  - pose proof close_code_sweep as S. rewrite forallb_forall in S.
    specialize (S k (proj2 (rangeN_in 5000 k) H)). apply Bool.eqb_prop in S. exact S.
  - unfold close_code_invalid, rfc_close_code_ok, cf_code_high, inr.
    replace (5000 <=? k) with true by (symmetry; apply N.leb_le; lia).
    rewrite !orb_true_r.
    replace (k <=? 1003) with false by (symmetry; apply N.leb_gt; lia).
    replace (k <=? 1013) with false by (symmetry; apply N.leb_gt; lia).
    replace (k <=? 4999) with false by (symmetry; apply N.leb_gt; lia).
    rewrite !andb_false_r. reflexivity.
Qed.

(* ---------------- close frames ---------------- *)
Definition first_fail (evs : list event) : option N :=
  match filter (fun e => match e with EFail _ => true | _ => false end) evs with EFail k :: _ => Some k | _ => None end.

(* an OPEN or CLOSING receiver judging a close payload (code, reason):
   invalid code -> fails with 1002 first; valid code but a reason that is not complete well-formed UTF-8 -> fails
   with 1007; otherwise no failure, the close is accepted (ghost ECloseOk) and the code / reason are remembered *)
Lemma close_payload_verdict cf c code reason : st c <> CLOSED ->
  let '(c1, evs) := on_close_frame cf c code reason in
  match code with
  | Some k =>
      if negb (rfc_close_code_ok k) then first_fail evs = Some code_protocol_error
      else match reason with
           | Some r => if utf8_complete r
                       then first_fail evs = None /\ In (ECloseOk code reason) evs /\ rcode c1 = code /\ rreason c1 = reason
                       else first_fail evs = Some code_invalid_payload
           | None => first_fail evs = None /\ In (ECloseOk code reason) evs /\ rcode c1 = code /\ rreason c1 = None
           end
  | None =>
      match reason with
      | None => first_fail evs = None /\ In (ECloseOk None None) evs /\ rcode c1 = None /\ rreason c1 = None
      | Some _ => True       (* processControlFrame never passes a reason without a code *)
      end
  end.
Proof.
  intros Hs. unfold on_close_frame, protocol_violation, invalid_payload, fail_connection, drop_connection, send_close_frame, utf8_complete.
  destruct c as [s f cl rc rr]. cbn [st] in Hs.
  destruct code as [k|].
  - rewrite <- close_code_table. destruct (close_code_invalid k).
    + destruct reason as [r|]; [destruct (u_validate 0 r) as [[v e] u]; destruct v, e|];
      destruct s, (failByDrop cf), (isServer cf), (echoClose cf); try congruence; cbn; reflexivity.
    + destruct reason as [r|]; [destruct (u_validate 0 r) as [[v e] u]; destruct v, e|];
      destruct s, (failByDrop cf), (isServer cf), (echoClose cf); try congruence; cbn; auto 10.
  - destruct reason as [r|].
    + match goal with |- let '(_, _) := ?x in True => destruct x; exact I end.
    + destruct s, (failByDrop cf), (isServer cf), (echoClose cf); try congruence; cbn; auto 10.
Qed.

(* the payload split done by processControlFrame: length 0 -> no code; length >= 2 -> big-endian code, reason = rest
   (None when empty).  (Length 1 never arrives here without a violation: HCloseLen1 of the header table.) *)
Lemma close_payload_split payload :
  let ll := lenN payload in
  (if pc_has_code ll then Some (be_val 0 (take 2 payload)) else None) =
    match payload with c1 :: c2 :: _ => Some (c1 * 256 + c2) | _ => None end /\
  (if pc_has_code ll && pc_has_reason ll then Some (drop 2 payload) else None) =
    match payload with _ :: _ :: (_ :: _) as r => Some r | _ => None end.
Proof.
  assert (BE : forall c1 c2 r, be_val 0 (take 2 (c1 :: c2 :: r)) = c1 * 256 + c2).
  { intros. change (be_val 0 (take 2 (c1 :: c2 :: r))) with ((0 * 256 + c1) * 256 + c2). lia. }
  destruct payload as [|c1 [|c2 [|c3 r]]].
  - split; reflexivity.
  - split; reflexivity.
  - change (lenN [c1; c2]) with 2. change (pc_has_code 2) with true. change (pc_has_reason 2) with false.
    cbv iota beta. rewrite BE. split; reflexivity.
  - cbv zeta. unfold pc_has_code, pc_has_reason, lenN. cbn [length].
    replace (1 <? N.of_nat (S (S (S (length r))))) with true by (symmetry; apply N.ltb_lt; lia).
    replace (2 <? N.of_nat (S (S (S (length r))))) with true by (symmetry; apply N.ltb_lt; lia).
    cbv iota beta. rewrite BE. split; reflexivity.
Qed.

Section WithCodec.
Variable D : Type.
Variable cd : codec D.
Notation rstate := (rstate D).

(* ---------------- pong echo ---------------- *)
(* a ping frame (payload <= 125 by the header table) completed while OPEN: the callback fires and a pong with the
   identical payload is written, nothing else happens, the connection stays OPEN *)
Lemma ping_echo cf (s : rstate) f : f_op f = 9 -> st (cn D s) = OPEN -> lenN (cdata D s) <= 125 ->
  process_control_frame D cf s f = (r_cdata D s [], [EPing (cdata D s); ESendPong (cdata D s)], false).
Proof.
  intros Ho Hs Hl. unfold process_control_frame. rewrite Ho. change (pc_is_close 9) with false. change (pc_is_ping 9) with true.
  cbn [cn r_cdata]. rewrite Hs. unfold sp_too_long.
  replace (125 <? lenN (cdata D s)) with false by (symmetry; apply N.ltb_ge; lia).
  rewrite andb_false_r. reflexivity.
Qed.
(* in CLOSING the callback still fires but nothing is written *)
Lemma ping_closing cf (s : rstate) f : f_op f = 9 -> st (cn D s) <> OPEN ->
  process_control_frame D cf s f = (r_cdata D s [], [EPing (cdata D s)], false).
Proof.
  intros Ho Hs. unfold process_control_frame. rewrite Ho. change (pc_is_close 9) with false. change (pc_is_ping 9) with true.
  cbn [cn r_cdata]. destruct (st (cn D s)); [congruence|reflexivity|reflexivity].
Qed.
Lemma pong_delivered cf (s : rstate) f : f_op f = 10 ->
  process_control_frame D cf s f = (r_cdata D s [], [EPong (cdata D s)], false).
Proof. intros Ho. unfold process_control_frame. rewrite Ho. reflexivity. Qed.

End WithCodec.

(* ---------------- UTF-8 ---------------- *)
Lemma u_step_reject b : u_step 1 b = 1. Proof. reflexivity. Qed.

(* Utf8Validator.validate over a chunked text: the verdict and state after a ++ b are those of a then b *)
Lemma u_loop_app s a b :
  u_loop s (a ++ b) = let '(v, s1) := u_loop s a in if v then u_loop s1 b else (false, 1).
Proof.
  revert s; induction a as [|x a IH]; intros s; cbn [app u_loop].
  - destruct (N.eqb_spec s 1) as [->|Hs]; cbn [negb]; [|reflexivity].
    destruct b; reflexivity.
  - destruct (u_step s x =? 1); [reflexivity|apply IH].
Qed.

(* a call reported valid never leaves the validator in REJECT *)
Lemma u_loop_true_not_reject s bs st' : u_loop s bs = (true, st') -> (st' =? 1) = false.
Proof.
  revert s; induction bs as [|b r IH]; intros s H; cbn [u_loop] in H.
  - inversion H; subst. now apply negb_true_iff.
  - destruct (u_step s b =? 1); [discriminate|]. eapply IH; eauto.
Qed.

(* fail-fast: the verdict turns invalid exactly at the first octet that leads the RFC 3629 automaton to reject,
   whatever follows it *)
Lemma u_loop_first_offender s a x r :
  u_loop s a = (true, snd (u_loop s a)) -> u_step (snd (u_loop s a)) x = 1 -> u_loop s (a ++ x :: r) = (false, 1).
Proof.
  intros Ha Hx. rewrite u_loop_app. rewrite Ha. cbn [u_loop]. rewrite Hx. reflexivity.
Qed.

Lemma u_loop_valid_state s bs st' : u_loop s bs = (true, st') -> st' <> 1.
Proof. intros H. apply u_loop_true_not_reject in H. now apply N.eqb_neq. Qed.


(* the status codes announced by the three failure hooks (values read from the source by the translator) *)
Lemma policy_codes : code_protocol_error = 1002 /\ code_invalid_payload = 1007 /\ code_message_too_big = 1009 /\
  (forall cf c, protocol_violation cf c = (fst (fail_connection cf c 1002), snd (fail_connection cf c 1002), failByDrop cf)) /\
  (forall cf c, invalid_payload cf c = (fst (fail_connection cf c 1007), snd (fail_connection cf c 1007), failByDrop cf)) /\
  (forall cf c, max_size_exceeded cf c = fail_connection cf c 1009).
Proof.
  split; [reflexivity|]. split; [reflexivity|]. split; [reflexivity|].
  split; [|split]; intros cf c.
  - unfold protocol_violation. change code_protocol_error with 1002. destruct (fail_connection cf c 1002); reflexivity.
  - unfold invalid_payload. change code_invalid_payload with 1007. destruct (fail_connection cf c 1007); reflexivity.
  - reflexivity.
Qed.
