(* parse (marshal m) = Ok (norm m) *)
From Coq Require Import NArith ZArith List Bool String Lia.
From AV Require Import Model.WampValue Model.WampSchema Proofs.WampDictProofs Proofs.WampLayoutProofs Proofs.WampWfProofs Proofs.WampExtractProofs Proofs.WampCheckProofs.
Import ListNotations.
Open Scope list_scope.

Lemma fields_ok_inv : forall uri_ok custom_ok s m, fields_ok uri_ok custom_ok s m = true ->
  pos_ok uri_ok (marshal_dict s m) (s_slots s) (m_pos m) = true
  /\ opts_ok uri_ok (s_opts s) (m_opts m) = true
  /\ (match s_payload s with Some pc => pl_fields_ok custom_ok pc (m_pl m) | None => true end) = true
  /\ (match s_special s with
      | SpNone => true
      | sp => negb (is_nil (m_roles m)) && forallb (role_ok uri_ok (roles_cfg sp)) (m_roles m) end) = true
  /\ ctor_ok custom_ok s (norm s m) = true.
Proof. intros u c s m H. unfold fields_ok in H. rewrite !andb_true_iff in H. tauto. Qed.

Lemma marshal_tail_length : forall p, (List.length (marshal_tail p) <= 2)%nat.
Proof.
  intros. unfold marshal_tail.
  destruct (truthy (p_payload p)); [simpl; lia|].
  destruct (truthy (p_kwargs p)); [simpl; lia|].
  destruct (truthy (p_args p)); simpl; lia.
Qed.

Lemma len_ok_payload : forall s pc k, s_payload s = Some pc -> (k <= 2)%nat -> len_ok s (S (nslots s + k)) = true.
Proof.
  intros s pc k Ep Hk. unfold len_ok, lens. rewrite Ep. simpl.
  destruct k as [|[|[|k]]]; try lia.
  - replace (nslots s + 0)%nat with (nslots s) by lia. replace (nslots s + 1)%nat with (S (nslots s)) by lia.
    rewrite Nat.eqb_refl. reflexivity.
  - replace (nslots s + 1)%nat with (S (nslots s)) by lia. replace (nslots s + 2)%nat with (S (S (nslots s))) by lia.
    rewrite Nat.eqb_refl. apply orb_true_r.
  - replace (nslots s + 2)%nat with (S (S (nslots s))) by lia. replace (nslots s + 3)%nat with (S (S (S (nslots s)))) by lia.
    rewrite Nat.eqb_refl. rewrite !orb_true_r. reflexivity.
Qed.

Section Main.
  Variable uri_ok : uri_fl -> str -> bool.
  Variable custom_ok : str -> bool.

  (* the layout facts about the marshalled list, in one place *)
  Lemma marshal_layout : forall s m,
    wf_schema custom_ok s = true -> shape_ok custom_ok s m = true ->
    pos_ok uri_ok (marshal_dict s m) (s_slots s) (m_pos m) = true ->
    let body := tl (marshal s m) in
    find_opts (s_slots s) body = marshal_dict s m
    /\ skipn (nslots s) body = (match s_payload s with Some _ => marshal_tail (m_pl m) | None => [] end)
    /\ len_ok s (S (List.length body)) = true
    /\ check_slots uri_ok (marshal_dict s m) (s_slots s) body = None.
  Proof.
    intros s m Hwf Hs Hpos.
    destruct (wf_schema_inv _ _ Hwf) as (Hnd & Hcount & Hopt & Hcust & Hcfg & Hsp).
    destruct (shape_ok_inv _ _ _ Hs) as (Hlp & Hlen & Hpl & Hrs & Hck).
    pose proof (keys_all_str_marshal_dict custom_ok s m Hs) as Hks.
    unfold marshal. simpl tl. unfold nslots. cbv zeta.
    destruct (s_optdict_optional s && is_nil (marshal_dict s m)) eqn:Eabs.
    - apply andb_true_iff in Eabs. destruct Eabs as [Eo En]. rewrite Eo in Hopt.
      destruct (init_if_last_opts (s_slots s)) as [fs|] eqn:Ei; [|discriminate].
      apply init_if_last_opts_spec in Ei.
      rewrite !andb_true_iff in Hopt. destruct Hopt as [[Hno Hpn] Hsn].
      unfold payload_none in Hpn. destruct (s_payload s) eqn:Ep; [discriminate|].
      destruct (marshal_dict s m) eqn:Ed; [|discriminate].
      rewrite Ei in *. rewrite nfields_app_opts in Hlp. rewrite pos_ok_app_opts in Hpos.
      destruct (marshal_slots_none_last fs (m_pos m) Hno) as [Em El]. rewrite Em, app_nil_r.
      repeat split.
      + apply find_opts_none_last; auto.
      + apply skipn_all2. rewrite El. rewrite (app_length fs [SOpts]). simpl. lia.
      + unfold len_ok, lens, nslots. rewrite Ep, Eo, El, Ei. rewrite (app_length fs [SOpts]). simpl.
        replace (List.length fs + 1)%nat with (S (List.length fs)) by lia.
        rewrite Nat.eqb_refl. reflexivity.
      + apply check_slots_none_last; auto.
    - assert (Hdv : check_extra (VDict (marshal_dict s m)) = None) by (simpl; rewrite Hks; reflexivity).
      set (tail := match s_payload s with Some _ => marshal_tail (m_pl m) | None => [] end).
      assert (Hlen_ok : len_ok s (S (List.length (marshal_slots (s_slots s) (m_pos m) (Some (VDict (marshal_dict s m))) ++ tail))) = true).
      { rewrite app_length, marshal_slots_length. subst tail.
        destruct (s_payload s) as [pc|] eqn:Ep.
        - eapply len_ok_payload; eauto. apply marshal_tail_length.
        - simpl. unfold len_ok, lens, nslots. rewrite Ep. rewrite Nat.add_0_r.
          destruct (s_optdict_optional s); simpl; replace (List.length (s_slots s) + 1)%nat with (S (List.length (s_slots s))) by lia;
            rewrite Nat.eqb_refl; rewrite ?orb_true_r; reflexivity. }
      destruct (count_opts (s_slots s)) as [|[|n]] eqn:Ec; [| |discriminate].
      + rewrite !andb_true_iff in Hcount. destruct Hcount as [[Hn Hpn] Hsn].
        pose proof (count_opts_0_no_opts _ Ec) as Hno.
        unfold payload_none in Hpn. unfold special_none in Hsn.
        assert (Ed : marshal_dict s m = []).
        { unfold marshal_dict. destruct (s_special s); try discriminate. destruct (s_payload s); try discriminate.
          destruct (s_opts s); [reflexivity|discriminate]. }
        repeat split.
        * rewrite Ed. apply find_opts_no_opts; auto.
        * apply skipn_marshal_slots.
        * exact Hlen_ok.
        * apply check_slots_no_opts; auto.
      + repeat split.
        * apply find_opts_marshal_slots; auto.
        * apply skipn_marshal_slots.
        * exact Hlen_ok.
        * apply check_slots_marshal; auto.
  Qed.

  Theorem check_marshal : forall s m,
    wf_schema custom_ok s = true -> shape_ok custom_ok s m = true -> fields_ok uri_ok custom_ok s m = true ->
    check uri_ok custom_ok s (marshal s m) = None.
  Proof.
    intros s m Hwf Hs Hf.
    destruct (fields_ok_inv _ _ _ _ Hf) as (Hpos & Hopts & Hplf & Hroles & Hctor).
    destruct (marshal_layout s m Hwf Hs Hpos) as (Eod & Etail & Elen & Eslots).
    pose proof (extract_marshal custom_ok s m Hwf Hs) as EM.
    destruct (wf_schema_inv _ _ Hwf) as (Hnd & Hcount & Hopt & Hcust & Hcfg & Hsp).
    destruct (shape_ok_inv _ _ _ Hs) as (Hlp & Hlen & Hpl & Hrs & Hck).
    assert (Hc : marshal s m = VInt (s_type s) :: tl (marshal s m)) by reflexivity.
    cbv zeta in Eod, Etail, Elen, Eslots.
    set (B := tl (marshal s m)) in *. clearbody B.
    rewrite Hc in EM. rewrite Hc. clear Hc.
    unfold check.
    rewrite Z.eqb_refl. simpl require at 1. simpl andthen at 1.
    change (List.length (VInt (s_type s) :: B)) with (S (List.length B)).
    rewrite Elen. simpl require at 1. simpl andthen at 1.
    cbv zeta. rewrite Eod, Etail, Eslots. simpl andthen at 1.
    rewrite EM.
    (* Hello roles *)
    rewrite andthen_none.
    2:{ destruct (s_special s) eqn:Esp; try reflexivity.
        apply andb_true_iff in Hroles. destruct Hroles as [R1 R2].
        pose proof (check_roles_marshal uri_ok custom_ok s m Hwf Hs) as CR. rewrite Esp in CR.
        apply CR; auto. discriminate. }
    (* payload block *)
    rewrite andthen_none.
    2:{ destruct (s_payload s) as [pc|] eqn:Ep; [|reflexivity].
        apply check_pl_marshal; auto.
        intros T. destruct (s_special s) eqn:Esp.
        - eapply enc_marshal_dict; eauto.
        - unfold special_none, payload_none in Hsp. rewrite Esp, Ep in Hsp. discriminate.
        - unfold special_none, payload_none in Hsp. rewrite Esp, Ep in Hsp. discriminate. }
    (* options *)
    rewrite andthen_none.
    2:{ assert (Hndo : NoDup (okeys (s_opts s))) by (apply nodupb_NoDup; eapply nodupb_app_l; exact Hnd).
        unfold marshal_dict. destruct (s_special s) eqn:Esp.
        - pose proof (check_opts_emit uri_ok (s_opts s) (m_opts m) []
                        (match s_payload s with Some _ => emit_enc (m_pl m) | None => [] end) Hlen Hndo) as L.
          simpl in L. apply L; auto.
          intros k Hk. unfold all_keys in Hnd. destruct (s_payload s) eqn:Ep; [|reflexivity].
          apply dget_none_iff. intros Hin.
          apply (nodupb_app_disjoint _ _ k Hnd Hk). apply in_or_app. left.
          apply dkeys_emit_enc_incl with (p := m_pl m). exact Hin.
        - pose proof (check_opts_emit uri_ok (s_opts s) (m_opts m)
                        [(KS (s2l "roles"), marshal_roles hello_roles (m_roles m))] [] Hlen Hndo) as L.
          rewrite app_nil_r in L. simpl app in L. apply L; auto.
          intros k Hk. apply dget_none_iff. simpl. intros [Hin|[]]. subst k.
          apply (nodupb_app_disjoint _ _ _ Hnd Hk). apply in_or_app. right. rewrite Esp. simpl. auto.
        - pose proof (check_opts_emit uri_ok (s_opts s) (m_opts m) (m_custom m)
                        [(KS (s2l "roles"), marshal_roles welcome_roles (m_roles m))] Hlen Hndo) as L.
          apply L; auto.
          + intros k Hk. apply dget_none_iff. intros Hin.
            pose proof (custom_keys custom_ok _ _ Hck Hin) as Hc'.
            rewrite forallb_forall in Hcust. specialize (Hcust k (in_all_keys_opts s k Hk)).
            rewrite Hc' in Hcust. discriminate.
          + intros k Hk. apply dget_none_iff. simpl. intros [Hin|[]]. subst k.
            apply (nodupb_app_disjoint _ _ _ Hnd Hk). apply in_or_app. right. rewrite Esp. simpl. auto. }
    (* Welcome roles *)
    rewrite andthen_none.
    2:{ destruct (s_special s) eqn:Esp; try reflexivity.
        apply andb_true_iff in Hroles. destruct Hroles as [R1 R2].
        pose proof (check_roles_marshal uri_ok custom_ok s m Hwf Hs) as CR. rewrite Esp in CR.
        apply CR; auto. discriminate. }
    rewrite Hctor. simpl require at 1. simpl andthen at 1.
    destruct (s_payload s) as [pc|] eqn:Ep; [|reflexivity].
    apply require_true. unfold norm. simpl m_pl.
    rewrite extract_pl_marshal_tail.
    - unfold pl_fields_ok in Hplf. apply andb_true_iff in Hplf. tauto.
    - exact Hpl.
    - intros T. destruct (s_special s) eqn:Esp.
      + eapply enc_marshal_dict; eauto.
      + unfold special_none, payload_none in Hsp. rewrite Esp, Ep in Hsp. discriminate.
      + unfold special_none, payload_none in Hsp. rewrite Esp, Ep in Hsp. discriminate.
  Qed.

  Theorem parse_marshal : forall s m,
    wf_schema custom_ok s = true -> shape_ok custom_ok s m = true -> fields_ok uri_ok custom_ok s m = true ->
    parse uri_ok custom_ok s (marshal s m) = Ok (norm s m).
  Proof.
    intros s m Hwf Hs Hf. unfold parse. rewrite check_marshal by auto.
    rewrite extract_marshal by auto. reflexivity.
  Qed.

  Theorem roundtrip : forall s m,
    wf_schema custom_ok s = true -> valid uri_ok custom_ok s m ->
    parse uri_ok custom_ok s (marshal s m) = Ok m.
  Proof.
    intros s m Hwf (Hs & Hf & Hn). rewrite parse_marshal by auto. rewrite Hn. reflexivity.
  Qed.
End Main.
