(* C02_pong_echo at trace level: in the events of any sequence of reads, every ping received while the connection is
   still OPEN is directly followed by a pong with the identical payload (both failure policies). *)
From Coq Require Import NArith List Bool Lia.
From AV Require Import Model.Masker Proofs.MaskerProofs Gen.WsConsts Model.WsRecv Proofs.WsRecvProofs Proofs.WsRecvLocal Proofs.WsRecvSplit.
Import ListNotations.
Open Scope N_scope.

Definition is_open (c : conn) : bool := match st c with OPEN => true | _ => false end.
Definition closes (e : event) : bool := match e with ESendClose _ _ | EDrop _ => true | _ => false end.
Definition open_after (o : bool) (evs : list event) : bool := o && negb (existsb closes evs).

(* o = "the connection is OPEN before these events" *)
Inductive Echo : bool -> list event -> Prop :=
| Echo_nil o : Echo o []
| Echo_ping_open p r : Echo true r -> Echo true (EPing p :: ESendPong p :: r)
| Echo_ping_closed p r : Echo false r -> Echo false (EPing p :: r)
| Echo_closes o e r : closes e = true -> Echo false r -> Echo o (e :: r)
| Echo_other o e r : closes e = false -> (forall p, e <> EPing p) -> Echo o r -> Echo o (e :: r).

Definition no_ping (evs : list event) : Prop := forall p, ~ In (EPing p) evs.

Lemma Echo_no_ping evs : no_ping evs -> forall o, Echo o evs.
Proof.
  induction evs as [|e r IH]; intros H o; [constructor|].
  assert (Hr : no_ping r) by (intros p Hin; apply (H p); right; exact Hin).
  destruct (closes e) eqn:C.
  - apply Echo_closes; [exact C|apply IH; exact Hr].
  - apply Echo_other; [exact C| |apply IH; exact Hr]. intros p E. apply (H p). left. exact E.
Qed.

Lemma open_after_app o a b : open_after o (a ++ b) = open_after (open_after o a) b.
Proof. unfold open_after. rewrite existsb_app, negb_orb, andb_assoc. reflexivity. Qed.

Lemma Echo_app o a b : Echo o a -> Echo (open_after o a) b -> Echo o (a ++ b).
Proof.
  intros Ha. induction Ha as [o|p r Ha IH|p r Ha IH|o e r C Ha IH|o e r C Np Ha IH]; intros Hb; cbn [app].
  - unfold open_after in Hb. cbn in Hb. rewrite andb_true_r in Hb. exact Hb.
  - apply Echo_ping_open. apply IH. exact Hb.
  - apply Echo_ping_closed. apply IH. exact Hb.
  - apply Echo_closes; [exact C|]. apply IH. unfold open_after in *. cbn [existsb] in Hb. rewrite C in Hb. cbn in Hb.
    rewrite andb_false_r in Hb. exact Hb.
  - apply Echo_other; [exact C|exact Np|]. apply IH. unfold open_after in *. cbn [existsb] in Hb. rewrite C in Hb. exact Hb.
Qed.

(* connection-level steps: events and OPEN-ness move together; no pings here *)
Definition etrack (c : conn) (e : list event) (c' : conn) : Prop :=
  no_ping e /\ is_open c' = open_after (is_open c) e.

Lemma etrack_refl c : etrack c [] c.
Proof. split; [intros p []|]. unfold open_after. cbn. now rewrite andb_true_r. Qed.
Lemma etrack_trans c e1 c1 e2 c2 : etrack c e1 c1 -> etrack c1 e2 c2 -> etrack c (e1 ++ e2) c2.
Proof.
  intros [N1 O1] [N2 O2]. split.
  - intros p Hin. apply in_app_iff in Hin. destruct Hin; [eapply N1|eapply N2]; eauto.
  - rewrite open_after_app, <- O1. exact O2.
Qed.

Lemma fail_connection_etrack cf c code : etrack c (snd (fail_connection cf c code)) (fst (fail_connection cf c code)).
Proof.
  unfold fail_connection, drop_connection, send_close_frame. destruct c as [s f cl rc rr].
  destruct s, (failByDrop cf); cbn; (split; [intros p Hin; cbn in Hin; intuition discriminate|reflexivity]).
Qed.

Lemma on_close_frame_etrack cf c code reason :
  etrack c (snd (on_close_frame cf c code reason)) (fst (on_close_frame cf c code reason)).
Proof.
  unfold on_close_frame, protocol_violation, invalid_payload, fail_connection, drop_connection, send_close_frame.
  destruct c as [s f cl rc rr].
  destruct code as [k|]; [destruct (close_code_invalid k)|];
  (destruct reason as [r|]; [destruct (u_validate 0 r) as [[v e] u]; destruct v, e|]);
  destruct s, (failByDrop cf), (isServer cf), (echoClose cf); cbn;
  (split; [intros p Hin; cbn in Hin; intuition discriminate|reflexivity]).
Qed.

Lemma pv_all_etrack cf vs : forall c, let '(c1, e, _) := pv_all cf c vs in etrack c e c1.
Proof.
  induction vs as [|v r IH]; intros c; cbn [pv_all]; [apply etrack_refl|].
  unfold protocol_violation. pose proof (fail_connection_etrack cf c code_protocol_error) as H.
  destruct (fail_connection cf c code_protocol_error) as [c1 e1]. cbn [fst snd] in H.
  destruct (failByDrop cf); [exact H|].
  specialize (IH c1). destruct (pv_all cf c1 r) as [[c2 e2] s2]. eapply etrack_trans; eauto.
Qed.

(* a violation never leaves the connection OPEN *)
Lemma fail_not_open cf c code : is_open (fst (fail_connection cf c code)) = true -> False.
Proof.
  unfold fail_connection, drop_connection, send_close_frame. destruct c as [s f cl rc rr].
  destruct s, (failByDrop cf); cbn; discriminate.
Qed.
Lemma pv_all_not_open cf v vs c : let '(c1, _, _) := pv_all cf c (v :: vs) in is_open c1 = true -> False.
Proof.
  cbn [pv_all]. unfold protocol_violation. pose proof (fail_not_open cf c code_protocol_error) as H.
  pose proof (fail_connection_etrack cf c code_protocol_error) as [_ O1].
  destruct (fail_connection cf c code_protocol_error) as [c1 e1]. cbn [fst snd] in *.
  destruct (failByDrop cf); [exact H|].
  pose proof (pv_all_etrack cf vs c1) as T. destruct (pv_all cf c1 vs) as [[c2 e2] s2]. destruct T as [_ O2].
  intros Ho. rewrite O2 in Ho. unfold open_after in Ho. apply andb_true_iff in Ho. destruct Ho as [Ho _]. auto.
Qed.

Section WithCodec.
Variable D : Type.
Variable cd : codec D.
Variable cf : cfg.
Notation rstate := (rstate D).
Notation mstate := (mstate D).

Definition PInv (s : rstate) : Prop :=
  match cur D s with
  | Some f => mptr D s <= f_len f /\
              (pd_is_ctl (f_op f) = true -> is_open (cn D s) = true -> f_len f <= 125 /\ lenN (cdata D s) <= mptr D s)
  | None => True
  end.
Definition strack (s : rstate) (e : list event) (s' : rstate) : Prop :=
  Echo (is_open (cn D s)) e /\ is_open (cn D s') = open_after (is_open (cn D s)) e.

Lemma strack_of_etrack (s s' : rstate) e : etrack (cn D s) e (cn D s') -> strack s e s'.
Proof. intros [N O]. split; [now apply Echo_no_ping|exact O]. Qed.
Lemma strack_trans (s s1 s2 : rstate) e1 e2 : strack s e1 s1 -> strack s1 e2 s2 -> strack s (e1 ++ e2) s2.
Proof.
  intros [E1 O1] [E2 O2]. split; [apply Echo_app; [exact E1|rewrite <- O1; exact E2]|].
  rewrite open_after_app, <- O1. exact O2.
Qed.
Lemma strack_refl (s : rstate) : strack s [] s.
Proof. apply strack_of_etrack, etrack_refl. Qed.

Lemma ip_etrack c : let '(c1, e, _) := invalid_payload cf c in etrack c e c1.
Proof.
  unfold invalid_payload. pose proof (fail_connection_etrack cf c code_invalid_payload) as H.
  destruct (fail_connection cf c code_invalid_payload). exact H.
Qed.

Lemma omfb_etrack c (m : mstate) len : let '(c1, _, e) := on_message_frame_begin D cf c m len in etrack c e c1.
Proof.
  unfold on_message_frame_begin, max_size_exceeded. destruct (failed c); [apply etrack_refl|].
  pose proof (fail_connection_etrack cf c code_message_too_big) as H.
  destruct (mf_msg_limit _ _); [destruct (fail_connection cf c code_message_too_big); exact H|].
  destruct (mf_frame_limit _ _); [destruct (fail_connection cf c code_message_too_big); exact H|apply etrack_refl].
Qed.

Lemma on_frame_begin_etrack (s : rstate) f :
  let '(s1, e) := on_frame_begin D cd cf s f in
  etrack (cn D s) e (cn D s1) /\ cur D s1 = cur D s /\ mptr D s1 = mptr D s /\
  (pd_is_ctl (f_op f) = true -> cdata D s1 = []).
Proof.
  unfold on_frame_begin. change (fb_is_ctl (f_op f)) with (pd_is_ctl (f_op f)). destruct (pd_is_ctl (f_op f)).
  - cbn. split; [apply etrack_refl|auto].
  - destruct (failed (cn D s)); [cbn; split; [apply etrack_refl|]; repeat split; auto; try discriminate|].
    match goal with |- context [on_message_frame_begin D cf ?c ?m ?l] =>
      pose proof (omfb_etrack c m l) as H; destruct (on_message_frame_begin D cf c m l) as [[c1 m2] e] end.
    cbn. split; [exact H|]. repeat split; auto; try discriminate.
Qed.

Lemma on_frame_data_etrack (s : rstate) f p :
  let '(s2, e, _) := on_frame_data D cd cf s f p in
  etrack (cn D s) e (cn D s2) /\ cur D s2 = cur D s /\ mptr D s2 = mptr D s /\
  cdata D s2 = (if pd_is_ctl (f_op f) then cdata D s ++ p else cdata D s) /\
  (pd_is_ctl (f_op f) = true -> cn D s2 = cn D s).
Proof.
  unfold on_frame_data. change (fd_is_ctl (f_op f)) with (pd_is_ctl (f_op f)). destruct (pd_is_ctl (f_op f)).
  - cbn. split; [apply etrack_refl|auto].
  - destruct (if zon D (ms D s) then _ else _) as [d1 pl].
    destruct (uon D _).
    + destruct (u_validate _ pl) as [[v e] u1]. destruct v; cbn [negb].
      * cbn. split; [apply etrack_refl|]. repeat split; auto; try discriminate.
      * pose proof (ip_etrack (cn D s)) as H. destruct (invalid_payload cf (cn D s)) as [[c1 ev] stop].
        destruct stop; cbn; (split; [exact H|]); repeat split; auto; try discriminate.
    + cbn. split; [apply etrack_refl|]. repeat split; auto; try discriminate.
Qed.

Lemma on_frame_end_data_etrack (s : rstate) f : pd_is_ctl (f_op f) = false ->
  let '(s3, e, c3) := on_frame_end D cd cf s f in
  etrack (cn D s) e (cn D s3) /\ c3 <> Raised /\ (cur D s3 = None \/ cur D s3 = cur D s) /\ mptr D s3 = mptr D s.
Proof.
  intros Hc. unfold on_frame_end. change (fe_is_ctl (f_op f)) with (pd_is_ctl (f_op f)). rewrite Hc.
  destruct (f_fin f).
  - match goal with |- context [if ?b then invalid_payload cf ?c else _] => destruct b end.
    + pose proof (ip_etrack (cn D s)) as H. destruct (invalid_payload cf (cn D s)) as [[c1 e1] stop]. destruct stop.
      * cbn. split; [exact H|]. split; [discriminate|]. split; [right; reflexivity|reflexivity].
      * cbn [cn r_cur r_ms r_cn cur mptr]. split; [|split; [discriminate|split; [left; reflexivity|reflexivity]]].
        destruct H as [N O]. destruct (failed c1).
        -- rewrite app_nil_r. split; assumption.
        -- split.
           ++ intros p Hin. apply in_app_iff in Hin. destruct Hin as [Hin|[Hin|[]]]; [eapply N; eauto|discriminate].
           ++ rewrite open_after_app, <- O. unfold open_after. cbn. now rewrite andb_true_r.
    + cbn [cn r_cur r_ms r_cn cur mptr]. split; [|split; [discriminate|split; [left; reflexivity|reflexivity]]].
      destruct (failed (cn D s)); cbn; [apply etrack_refl|].
      split; [intros p [Hin|[]]; discriminate|]. unfold open_after. cbn. now rewrite andb_true_r.
  - cbn. split; [apply etrack_refl|]. split; [discriminate|]. split; [left; reflexivity|reflexivity].
Qed.

(* one payload chunk *)
Lemma pay_apply_echo (s : rstate) f chunk : cur D s = Some f -> PInv s -> lenN chunk <= f_len f - mptr D s ->
  let '(s', e, c) := pay_apply D cd cf s f chunk in strack s e s' /\ PInv s' /\ c <> Raised.
Proof.
  intros Hcur HP Hchunk. unfold PInv in HP. rewrite Hcur in HP. destruct HP as [Hm Hctl].
  unfold pay_apply.
  pose proof (mask_process_ptr (mkey D s) (mptr D s) chunk) as Hp.
  pose proof (mask_process_len (mkey D s) (mptr D s) chunk) as Hl.
  destruct (mask_process (mkey D s) (mptr D s) chunk) as [payload p1]. cbn [fst snd] in *. subst p1.
  set (s1 := mkR D (cn D s) (ms D s) (data D s) (cur D s) (mkey D s) (mptr D s + lenN chunk) (cdata D s)).
  pose proof (on_frame_data_etrack s1 f payload) as OD.
  destruct (on_frame_data D cd cf s1 f payload) as [[s2 e2] stop2].
  destruct OD as [T2 [C2 [P2 [D2 K2]]]]. cbn [cn cur mptr cdata s1] in T2, C2, P2, D2, K2.
  assert (ST2 : strack s e2 s2) by (apply strack_of_etrack; exact T2).
  assert (PI2 : PInv s2).
  { unfold PInv. rewrite C2, Hcur, P2. split; [lia|]. intros Hc Ho. rewrite Hc in D2. rewrite (K2 Hc) in Ho.
    destruct (Hctl Hc Ho) as [A B]. split; [exact A|]. rewrite D2, lenN_app, Hl. lia. }
  destruct stop2; [split; [exact ST2|split; [exact PI2|discriminate]]|].
  rewrite P2. destruct (N.eqb_spec (mptr D s + lenN chunk) (f_len f)) as [He|He]; [|split; [exact ST2|split; [exact PI2|discriminate]]].
  destruct (pd_is_ctl (f_op f)) eqn:Hc.
  - (* control frame complete *)
    unfold on_frame_end, process_control_frame. change (fe_is_ctl (f_op f)) with (pd_is_ctl (f_op f)). rewrite Hc.
    cbn [cdata r_cdata cn].
    destruct (pc_is_close (f_op f)).
    + match goal with |- context [on_close_frame cf ?c ?k ?r] =>
        pose proof (on_close_frame_etrack cf c k r) as T; destruct (on_close_frame cf c k r) as [c1 e1] end.
      cbn [fst snd] in T. split; [|split; [exact I|discriminate]].
      eapply strack_trans; [exact ST2|]. apply strack_of_etrack. cbn [cn r_cur r_cn r_cdata]. exact T.
    + destruct (pc_is_ping (f_op f)).
      * destruct (st (cn D s2)) eqn:Es2.
        -- (* OPEN: the payload is short, the pong goes out *)
           assert (Ho : is_open (cn D s) = true) by (rewrite <- (K2 eq_refl); unfold is_open; now rewrite Es2).
           destruct (Hctl eq_refl Ho) as [A B].
           assert (Hs : sp_too_long (lenN (cdata D s2)) = false).
           { unfold sp_too_long. apply N.ltb_ge. rewrite D2, lenN_app, Hl. lia. }
           rewrite Hs, andb_false_r. split; [|split; [exact I|discriminate]].
           eapply strack_trans; [exact ST2|]. split.
           ++ unfold is_open. rewrite Es2. apply Echo_ping_open. constructor.
           ++ cbn. unfold is_open, open_after. rewrite Es2. reflexivity.
        -- split; [|split; [exact I|discriminate]]. eapply strack_trans; [exact ST2|]. split.
           ++ unfold is_open. rewrite Es2. apply Echo_ping_closed. constructor.
           ++ cbn. unfold is_open, open_after. rewrite Es2. reflexivity.
        -- split; [|split; [exact I|discriminate]]. eapply strack_trans; [exact ST2|]. split.
           ++ unfold is_open. rewrite Es2. apply Echo_ping_closed. constructor.
           ++ cbn. unfold is_open, open_after. rewrite Es2. reflexivity.
      * destruct (pc_is_pong (f_op f)); (split; [|split; [exact I|discriminate]]); (eapply strack_trans; [exact ST2|]).
        -- split; [apply Echo_other; [reflexivity|discriminate|constructor]|]. cbn. unfold open_after. cbn. now rewrite andb_true_r.
        -- apply strack_of_etrack. cbn [cn r_cur r_cdata]. apply etrack_refl.
  - (* data frame complete *)
    pose proof (on_frame_end_data_etrack s2 f Hc) as OE.
    destruct (on_frame_end D cd cf s2 f) as [[s3 e3] c3]. destruct OE as [T3 [R3 [C3 P3]]].
    split; [eapply strack_trans; [exact ST2|apply strack_of_etrack; exact T3]|]. split; [|exact R3].
    unfold PInv. destruct C3 as [C3|C3]; rewrite C3; [exact I|]. rewrite C2, Hcur, P3, P2. split; [lia|]. intros Hx; congruence.
Qed.

Lemma step_payload_echo (s : rstate) f : cur D s = Some f -> PInv s ->
  let '(s', e, c) := step_payload D cd cf s f in strack s e s' /\ PInv s' /\ c <> Raised.
Proof.
  intros Hcur HP. rewrite step_payload_nf. cbv zeta.
  destruct (if pd_have_rest _ _ then _ else _) as [chunk rem] eqn:Ec.
  assert (Hchunk : lenN chunk <= f_len f - mptr D s).
  { unfold pd_have_rest in Ec. destruct (N.leb_spec (f_len f - mptr D s) (lenN (data D s))); inversion Ec; subst.
    - unfold take, lenN. rewrite firstn_length. lia.
    - lia. }
  pose proof (pay_apply_echo (r_data D s rem) f chunk Hcur HP Hchunk) as P.
  destruct (pay_apply D cd cf (r_data D s rem) f chunk) as [[s' e] c]. destruct P as [P1 [P2 P3]].
  split; [exact P1|]. split; [exact P2|]. destruct c; cbn; try discriminate; try congruence. destruct (nonempty _); discriminate.
Qed.

Lemma step_header_echo (s : rstate) : cur D s = None ->
  let '(s', e, c) := step_header D cd cf s in strack s e s' /\ PInv s' /\ c <> Raised.
Proof.
  intros Hcur. unfold step_header.
  assert (PN : forall c0, PInv (r_cn D s c0)) by (intros c0; unfold PInv; cbn [cur r_cn]; now rewrite Hcur).
  destruct (negb (pd_have2 _)).
  { split; [apply strack_refl|]. split; [unfold PInv; now rewrite Hcur|discriminate]. }
  set (b0 := nth 0 (data D s) 0). set (b1 := nth 1 (data D s) 0).
  pose proof (pv_all_etrack cf (hdr_viols cf (inside D (ms D s)) b0 b1) (cn D s)) as T1.
  pose proof (pv_all_not_open cf) as NO1.
  destruct (hdr_viols cf (inside D (ms D s)) b0 b1) as [|v vs] eqn:Hv.
  2:{ specialize (NO1 v vs (cn D s)). destruct (pv_all cf (cn D s) (v :: vs)) as [[c1 e1] stop1].
      assert (S1 : strack s e1 (r_cn D s c1)) by (apply strack_of_etrack; exact T1).
      destruct stop1; [split; [exact S1|split; [apply PN|discriminate]]|].
      destruct (header_len_some (hb_len1 b1) (if hb_masked b1 then 4 else 0) (hb_len1_lt b1)) as [hl [Ehl _]]. rewrite Ehl.
      destruct (negb (pd_have_header _ hl)); [split; [exact S1|split; [apply PN|discriminate]]|].
      destruct (ext_len _ _) as [[plen lv] i].
      pose proof (pv_all_etrack cf lv c1) as T2. cbn [cn r_cn]. destruct (pv_all cf c1 lv) as [[c2 e2] stop2].
      assert (E12 : etrack (cn D s) (e1 ++ e2) c2) by (eapply etrack_trans; eauto).
      destruct stop2; [split; [apply strack_of_etrack; exact E12|split; [apply PN|discriminate]]|].
      match goal with |- context [on_frame_begin D cd cf ?s3 ?f] =>
        pose proof (on_frame_begin_etrack s3 f) as B; destruct (on_frame_begin D cd cf s3 f) as [s4 e4] end.
      destruct B as [T4 [C4 [P4 K4]]]. cbn [cn cur mptr r_cn] in T4, C4, P4.
      split; [|split; [|destruct (_ || _); discriminate]].
      - apply strack_of_etrack. eapply etrack_trans; [exact T1|]. eapply etrack_trans; [exact T2|exact T4].
      - unfold PInv. rewrite C4, P4. split; [lia|]. intros _ Ho. exfalso.
        (* the connection cannot be OPEN after a violation *)
        destruct T4 as [_ O4]. destruct T2 as [_ O2]. rewrite O4 in Ho. unfold open_after in Ho.
        apply andb_true_iff in Ho. destruct Ho as [Ho _]. rewrite O2 in Ho. unfold open_after in Ho.
        apply andb_true_iff in Ho. destruct Ho as [Ho _]. exact (NO1 Ho). }
  cbn [pv_all] in T1 |- *. cbn [cn r_cn].
  assert (Es : r_cn D s (cn D s) = s) by (destruct s; reflexivity). rewrite Es.
  destruct (header_len_some (hb_len1 b1) (if hb_masked b1 then 4 else 0) (hb_len1_lt b1)) as [hl [Ehl _]]. rewrite Ehl.
  destruct (negb (pd_have_header _ hl)).
  { split; [apply strack_refl|]. split; [unfold PInv; now rewrite Hcur|discriminate]. }
  destruct (ext_len (hb_len1 b1) (data D s)) as [[plen lv] i] eqn:Ex.
  pose proof (pv_all_etrack cf lv (cn D s)) as T2. pose proof (pv_all_not_open cf) as NO2.
  destruct lv as [|v vs].
  2:{ specialize (NO2 v vs (cn D s)). destruct (pv_all cf (cn D s) (v :: vs)) as [[c2 e2] stop2].
      destruct stop2; [split; [apply strack_of_etrack; exact T2|split; [apply PN|discriminate]]|].
      match goal with |- context [on_frame_begin D cd cf ?s3 ?f] =>
        pose proof (on_frame_begin_etrack s3 f) as B; destruct (on_frame_begin D cd cf s3 f) as [s4 e4] end.
      destruct B as [T4 [C4 [P4 K4]]]. cbn [cn cur mptr r_cn] in T4, C4, P4.
      split; [|split; [|destruct (_ || _); discriminate]].
      - apply strack_of_etrack. cbn [app]. eapply etrack_trans; [exact T2|exact T4].
      - unfold PInv. rewrite C4, P4. split; [lia|]. intros _ Ho. exfalso.
        destruct T4 as [_ O4]. rewrite O4 in Ho. unfold open_after in Ho.
        apply andb_true_iff in Ho. destruct Ho as [Ho _]. exact (NO2 Ho). }
  cbn [pv_all]. rewrite Es. cbn [app].
  match goal with |- context [on_frame_begin D cd cf ?s3 ?f] =>
    pose proof (on_frame_begin_etrack s3 f) as B; destruct (on_frame_begin D cd cf s3 f) as [s4 e4] eqn:Eb end.
  destruct B as [T4 [C4 [P4 K4]]]. cbn [cn cur mptr] in T4, C4, P4.
  split; [apply strack_of_etrack; exact T4|]. split; [|destruct (_ || _); discriminate].
  unfold PInv. rewrite C4, P4. split; [lia|]. cbn [f_op f_len]. intros Hc _.
  change (pd_is_ctl (hb_opcode b0) = true) in Hc.
  pose proof (hdr_viols_nil_ctl cf _ _ _ Hv Hc) as Hle.
  pose proof (ext_len_small (hb_len1 b1) (data D s) Hle) as Esm. rewrite Ex in Esm. inversion Esm; subst plen.
  split; [exact Hle|]. rewrite (K4 Hc). unfold lenN. cbn. lia.
Qed.

Lemma step_echo (s : rstate) : PInv s -> let '(s', e, c) := step D cd cf s in strack s e s' /\ PInv s' /\ c <> Raised.
Proof.
  intros HP. unfold step. destruct (cur D s) eqn:Hc; [now apply step_payload_echo|now apply step_header_echo].
Qed.

Lemma run_echo n : forall (s s1 : rstate) e, PInv s -> run D cd n cf s = Done D s1 e -> strack s e s1 /\ PInv s1.
Proof.
  induction n as [|n IH]; intros s s1 e HP H; [discriminate|]. cbn [run] in H.
  pose proof (step_echo s HP) as P. destruct (step D cd cf s) as [[sa ea] c]. destruct P as [P1 [P2 P3]].
  destruct c.
  - destruct (st (cn D sa)) eqn:Hs.
    + destruct (run D cd n cf sa) as [s2 e2|] eqn:R; [|discriminate]. inversion H; subst.
      destruct (IH _ _ _ P2 R) as [Q1 Q2]. split; [eapply strack_trans; eauto|exact Q2].
    + destruct (run D cd n cf sa) as [s2 e2|] eqn:R; [|discriminate]. inversion H; subst.
      destruct (IH _ _ _ P2 R) as [Q1 Q2]. split; [eapply strack_trans; eauto|exact Q2].
    + inversion H; subst. split; assumption.
  - inversion H; subst. split; assumption.
  - congruence.
Qed.

Lemma feed_echo (s s1 : rstate) d e : PInv s -> feed D cd cf s d = Done D s1 e -> strack s e s1 /\ PInv s1.
Proof.
  intros HP. unfold feed. cbn [cn r_data]. destruct (st (cn D s)) eqn:Hs; intros H.
  - apply (run_echo (fuel_of D (r_data D s (data D s ++ d))) (r_data D s (data D s ++ d)) s1 e HP H).
  - apply (run_echo (fuel_of D (r_data D s (data D s ++ d))) (r_data D s (data D s ++ d)) s1 e HP H).
  - inversion H; subst. split; [apply strack_of_etrack; apply etrack_refl|exact HP].
Qed.

(* C02_pong_echo, trace level *)
Theorem pong_echo chunks : forall (s s1 : rstate) evs, PInv s ->
  feed_all D cd cf s chunks = Done D s1 evs -> Echo (is_open (cn D s)) evs.
Proof.
  induction chunks as [|c r IH]; intros s s1 evs HP H; cbn [feed_all] in H.
  - inversion H; subst. constructor.
  - destruct (feed D cd cf s c) as [s' e'|] eqn:Hf; [|discriminate].
    destruct (feed_all D cd cf s' r) as [s2 e2|] eqn:Hr; [|discriminate]. inversion H; subst.
    destruct (feed_echo _ _ _ _ HP Hf) as [[E1 O1] P1]. apply Echo_app; [exact E1|]. rewrite <- O1. eapply IH; eauto.
Qed.

Lemma PInv_init p d0 : PInv (init_state D p d0).
Proof. exact I. Qed.

End WithCodec.

(* what Echo says, position by position: a ping received while no close frame has been written and the TCP
   connection has not been dropped is directly followed by the pong with the same payload *)
Lemma Echo_spec o a p b : Echo o (a ++ EPing p :: b) -> open_after o a = true -> exists b', b = ESendPong p :: b'.
Proof.
  revert o. induction a as [|e a IH]; intros o H Ho; cbn [app] in H.
  - unfold open_after in Ho. cbn in Ho. rewrite andb_true_r in Ho. subst o.
    inversion H; subst; try (eexists; reflexivity); cbn in *; try discriminate.
    match goal with X : forall q, EPing p <> EPing q |- _ => exfalso; apply (X p); reflexivity end.
  - unfold open_after in Ho. cbn [existsb] in Ho. rewrite negb_orb in Ho.
    apply andb_true_iff in Ho. destruct Ho as [Ho1 Ho2]. apply andb_true_iff in Ho2. destruct Ho2 as [Hc Ho2].
    apply negb_true_iff in Hc. subst o.
    inversion H; subst.
    + (* e = EPing q followed by its pong *)
      destruct a as [|e2 a2]; cbn [app] in *.
      * match goal with X : _ :: _ = EPing p :: b |- _ => inversion X end.
      * match goal with X : ESendPong _ :: _ = e2 :: _ |- _ => inversion X; subst end.
        cbn [existsb closes] in Ho2. cbn [orb] in Ho2.
        match goal with X : Echo true (a2 ++ EPing p :: b) |- _ => apply (IH true) end.
        2:{ unfold open_after. cbn. cbn in Ho2. exact Ho2. }
        (* re-assemble: Echo true (ESendPong :: a2 ++ ...) *)
        apply Echo_other; [reflexivity|discriminate|assumption].
    + congruence.
    + apply (IH true); [assumption|]. unfold open_after. rewrite Ho2. reflexivity.
Qed.
