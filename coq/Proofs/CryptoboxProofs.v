(* Lemmas about Model/Cryptobox.v (C20). *)
From Coq Require Import List String Bool NArith Lia PeanoNat.
From AV Require Import Model.SessionErr Model.Cryptobox Proofs.SessionErrProofs.
Import ListNotations.
Open Scope string_scope.

(* ------------------------------------------------------------------ the assumptions, as predicates *)
(* NaCl crypto_box (XSalsa20-Poly1305 under the Curve25519 shared secret) as an authenticated cipher:
   correctness, rejection under any other secret, and unforgeability (whatever opens was sealed under that secret) *)
Definition aead_ok {P C nonce : Type} (seal : secret -> nonce -> P -> C) (open : secret -> C -> option P) : Prop :=
  (forall s n p, open s (seal s n p) = Some p) /\
  (forall s s' n p, s <> s' -> open s' (seal s n p) = None) /\
  (forall s c p, open s c = Some p -> exists n, c = seal s n p).

(* JSON round trip of the envelope (serializer._dumps / _loads on JSON-representable values) *)
Definition json_ok {V P : Type} (dumps : envelope V -> option P) (loads : P -> option (envelope V)) : Prop :=
  forall e p, dumps e = Some p -> loads p = Some e.

Section Facts.
  Variables V P C nonce : Type.
  Variable pub : sk -> pk.
  Variable dh : sk -> pk -> secret.
  Variable seal : secret -> nonce -> P -> C.
  Variable open : secret -> C -> option P.
  Variable dumps : envelope V -> option P.
  Variable loads : P -> option (envelope V).
  Notation kw := (kw V).
  Notation keyring := (keyring).
  Notation encode := (encode V P C nonce seal dumps).
  Notation decode := (decode V P C open loads).
  Notation receive := (receive V P C open loads).
  Notation originate := (originate V P C nonce seal dumps).
  Notation yield_body := (yield_body V P C nonce seal dumps).
  Notation error_body := (error_body V P C nonce seal dumps).
  Notation progress_body := (progress_body V P C nonce seal dumps).
  Notation on_event := (on_event V P C open loads).
  Notation on_result := (on_result V P C open loads).
  Notation on_error_codec := (on_error_codec V P C open loads).

  (* ---------------- keyring lookup ---------------- *)
  Lemma longest_prefix_spec : forall uri t best,
    let r := longest_prefix uri t best in
    (r = best \/ exists p k, r = Some (p, k) /\ In (p, k) t /\ String.prefix p uri = true) /\
    (forall p k, In (p, k) t -> String.prefix p uri = true ->
       match r with Some (q, _) => String.length p <= String.length q | None => False end) /\
    (match best with
     | Some (bp, _) => match r with Some (q, _) => String.length bp <= String.length q | None => False end
     | None => True
     end).
  Proof.
    intros uri t. induction t as [|[p k] t IH]; intros best; simpl.
    - split; [left; reflexivity|]. split; [intros ? ? []|]. destruct best as [[bp bk]|]; [apply Nat.le_refl | exact I].
    - set (better := match best with None => true | Some (bp, _) => Nat.ltb (String.length bp) (String.length p) end).
      set (best' := if String.prefix p uri && better then Some (p, k) else best).
      specialize (IH best'). cbv zeta in IH. destruct IH as (IH1 & IH2 & IH3).
      set (r := longest_prefix uri t best') in *.
      split; [|split].
      + destruct IH1 as [E | (q & kq & E & Hin & Hp)].
        * unfold best' in E. destruct (String.prefix p uri && better) eqn:Eb.
          -- right. exists p, k. split; [exact E|]. split; [left; reflexivity|].
             apply andb_true_iff in Eb. tauto.
          -- left. exact E.
        * right. exists q, kq. split; [exact E|]. split; [right; exact Hin | exact Hp].
      + intros p0 k0 [E | Hin] Hp.
        * inversion E; subst p0 k0. unfold best' in IH3.
          rewrite Hp in IH3. simpl in IH3. unfold better in IH3.
          destruct best as [[bp bk]|].
          -- destruct (Nat.ltb (String.length bp) (String.length p)) eqn:El.
             ++ exact IH3.
             ++ apply Nat.ltb_ge in El. destruct r as [[q kq]|]; [lia | exact IH3].
          -- exact IH3.
        * apply IH2 with k0; assumption.
      + destruct best as [[bp bk]|]; [|exact I]. unfold best', better in IH3.
        destruct (String.prefix p uri && Nat.ltb (String.length bp) (String.length p)) eqn:Eb.
        * apply andb_true_iff in Eb. destruct Eb as [_ El]. apply Nat.ltb_lt in El.
          destruct r as [[q kq]|]; [lia | exact IH3].
        * exact IH3.
  Qed.

  (* the longest registered prefix of the URI decides *)
  Lemma lookup_longest : forall (r : keyring) uri p k,
    In (p, k) (kr_trie r) -> String.prefix p uri = true ->
    (forall p' k', In (p', k') (kr_trie r) -> String.prefix p' uri = true ->
        (p' = p /\ k' = k) \/ String.length p' < String.length p) ->
    lookup_key r uri = Some k.
  Proof.
    intros r uri p k Hin Hp Hmax. unfold lookup_key.
    destruct (longest_prefix_spec uri (kr_trie r) None) as (H1 & H2 & _).
    specialize (H2 p k Hin Hp).
    destruct H1 as [E | (q & kq & E & Hq & Hqp)].
    - rewrite E in H2. contradiction.
    - rewrite E in *. destruct (Hmax q kq Hq Hqp) as [[E1 E2] | Hlt].
      + subst. reflexivity.
      + lia.
  Qed.

  (* no registered prefix: the default key (or no key at all) *)
  Lemma lookup_default : forall (r : keyring) uri,
    (forall p k, In (p, k) (kr_trie r) -> String.prefix p uri = false) ->
    lookup_key r uri = kr_default r.
  Proof.
    intros r uri H. unfold lookup_key.
    destruct (longest_prefix_spec uri (kr_trie r) None) as (H1 & _ & _).
    destruct H1 as [E | (q & kq & E & Hq & Hqp)].
    - rewrite E. reflexivity.
    - rewrite (H q kq Hq) in Hqp. discriminate.
  Qed.

  (* set_key / lookup: the default slot is the empty URI *)
  Lemma set_key_default : forall (r : keyring) k, kr_default (set_key r "" k) = k /\ kr_trie (set_key r "" k) = kr_trie r.
  Proof. intros. split; reflexivity. Qed.

  (* ---------------- sending ---------------- *)
  (* no key for the URI: encode returns None and the payload goes out in the clear, as the docstring says *)
  Lemma originate_no_key : forall r uri a k n,
    get_box r true uri = None -> originate (Some r) uri a k n = Sent (Plain (Some a) (Some k)).
  Proof. intros r uri a k n H. unfold originate, Cryptobox.encode. rewrite H. reflexivity. Qed.

  (* a key for the URI: nothing but ciphertext + the three enc_* attributes *)
  Lemma originate_encrypted : forall r uri a k n s b,
    get_box r true uri = Some s -> originate (Some r) uri a k n = Sent b ->
    exists p, dumps (Some uri, Some a, Some k) = Some p /\
              b = Encoded (mkEnc (seal s n p) "cryptobox" (Some "json") None).
  Proof.
    intros r uri a k n s b H. unfold originate, Cryptobox.encode. rewrite H.
    destruct (dumps (Some uri, Some a, Some k)) as [p|]; intro E; [|discriminate].
    inversion E. exists p. split; reflexivity.
  Qed.

  Lemma yield_encrypted : forall r proc a k n s p,
    get_box r false proc = Some s -> dumps (Some proc, Some a, k) = Some p ->
    yield_body (Some r) true proc a k n = Encoded (mkEnc (seal s n p) "cryptobox" (Some "json") None).
  Proof. intros r proc a k n s p H D. unfold yield_body, Cryptobox.encode. rewrite H, D. reflexivity. Qed.

  (* ... but when the result cannot be JSON-encoded the YIELD of an encrypted call goes out in the clear *)
  Lemma yield_encode_failure_clear : forall r proc a k n,
    dumps (Some proc, Some a, k) = None ->
    yield_body (Some r) true proc a k n = Plain (Some a) k.
  Proof.
    intros r proc a k n D. unfold yield_body, Cryptobox.encode.
    destruct (get_box r false proc); [rewrite D|]; reflexivity.
  Qed.

  (* a progressive result of an encrypted call is ciphertext or is not sent at all *)
  Lemma progress_encrypted : forall r proc a k n s b,
    get_box r false proc = Some s -> progress_body (Some r) true proc a k n = Sent b ->
    exists p, dumps (Some proc, Some a, Some k) = Some p /\
              b = Encoded (mkEnc (seal s n p) "cryptobox" (Some "json") None).
  Proof.
    intros r proc a k n s b H. unfold progress_body, Cryptobox.encode. rewrite H.
    destruct (dumps (Some proc, Some a, Some k)) as [p|]; intro E; [|discriminate].
    inversion E. exists p. split; reflexivity.
  Qed.

  Lemma error_encrypted : forall r error a k n s b,
    get_box r false error = Some s -> error_body (Some r) error a k n = Sent b ->
    exists p, dumps (Some error, a, k) = Some p /\ b = Encoded (mkEnc (seal s n p) "cryptobox" (Some "json") None).
  Proof.
    intros r error a k n s b H. unfold error_body, Cryptobox.encode. rewrite H.
    destruct (dumps (Some error, a, k)) as [p|]; intro E; [|discriminate].
    inversion E. exists p. split; reflexivity.
  Qed.

  (* the ERROR is keyed by the error URI, not by the procedure *)
  Lemma error_no_key_clear : forall r error a k n,
    get_box r false error = None -> error_body (Some r) error a k n = Sent (Plain a k).
  Proof. intros r error a k n H. unfold error_body, Cryptobox.encode. rewrite H. reflexivity. Qed.

  (* ---------------- receiving ---------------- *)
  Hypothesis AEAD : aead_ok seal open.
  Hypothesis JSON : json_ok dumps loads.

  Lemma opt_streqb_spec : forall u uri, opt_streqb u (Some uri) = true <-> u = Some uri.
  Proof.
    intros [u|] uri; simpl; split; intro H; try discriminate.
    - apply String.eqb_eq in H. subst. reflexivity.
    - inversion H. apply String.eqb_refl.
  Qed.

  (* what the paired receiver makes of a sealed envelope *)
  Lemma receive_sealed : forall r io uri' s n p inner a k,
    get_box r io uri' = Some s -> dumps (inner, a, k) = Some p ->
    receive (Some r) io uri' (Encoded (mkEnc (seal s n p) "cryptobox" (Some "json") None)) =
      if opt_streqb inner (Some uri') then RPayload a k else RUriMismatch inner.
  Proof.
    intros r io uri' s n p inner a k Hb Hd. destruct AEAD as (A1 & _ & _).
    unfold Cryptobox.receive, Cryptobox.decode. simpl. rewrite Hb. simpl. rewrite A1. rewrite (JSON _ _ Hd). reflexivity.
  Qed.

  Lemma receive_wrong_key : forall r io uri' s s' n p,
    get_box r io uri' = Some s' -> s <> s' ->
    receive (Some r) io uri' (Encoded (mkEnc (seal s n p) "cryptobox" (Some "json") None)) = RDecryptError CryptoError.
  Proof.
    intros r io uri' s s' n p Hb Hne. destruct AEAD as (_ & A2 & _).
    unfold Cryptobox.receive, Cryptobox.decode. simpl. rewrite Hb. rewrite (A2 s s' n p Hne). reflexivity.
  Qed.

  Lemma receive_no_key : forall r io uri' c ser key,
    get_box r io uri' = None ->
    receive (Some r) io uri' (Encoded (mkEnc c "cryptobox" ser key)) = RDecryptError NoKey.
  Proof. intros. unfold Cryptobox.receive, Cryptobox.decode. simpl. rewrite H. reflexivity. Qed.

  Lemma receive_no_codec : forall io uri' e, receive None io uri' (Encoded e) = RNoCodec.
  Proof. reflexivity. Qed.

  (* a ciphertext the receiver's box does not open never yields a payload *)
  Lemma receive_unopenable : forall r io uri' e,
    (forall s, get_box r io uri' = Some s -> open s (e_payload e) = None) ->
    exists x, receive (Some r) io uri' (Encoded e) = RDecryptError x.
  Proof.
    intros r io uri' e H. unfold Cryptobox.receive, Cryptobox.decode.
    destruct (negb (String.eqb (e_algo e) "cryptobox")); [eexists; reflexivity|].
    destruct (get_box r io uri') as [s|] eqn:Hb; [|eexists; reflexivity].
    rewrite (H s eq_refl). eexists; reflexivity.
  Qed.

  (* integrity, full strength: whatever is handed on as payload of an encrypted message was sealed under the
     receiver's own shared secret for exactly the envelope URI *)
  Lemma receive_authentic : forall codec io uri' e a k,
    receive codec io uri' (Encoded e) = RPayload a k ->
    exists r s n p, codec = Some r /\ get_box r io uri' = Some s /\ e_payload e = seal s n p /\
                    loads p = Some (Some uri', a, k) /\ e_algo e = "cryptobox" /\ e_serializer e = Some "json".
  Proof.
    intros codec io uri' e a k. unfold Cryptobox.receive, Cryptobox.decode.
    destruct codec as [r|]; [|discriminate].
    destruct (String.eqb (e_algo e) "cryptobox") eqn:Ealgo; simpl; [|discriminate].
    destruct (get_box r io uri') as [s|] eqn:Hb; [|discriminate].
    destruct (open s (e_payload e)) as [p|] eqn:Ho; [|discriminate].
    destruct (e_serializer e) as [x|] eqn:Es; simpl; [|discriminate].
    destruct (String.eqb x "json") eqn:Ex; simpl; [|discriminate].
    destruct (loads p) as [[[u a'] k']|] eqn:El; [|discriminate].
    destruct (opt_streqb u (Some uri')) eqn:Eu; [|discriminate].
    intro E. inversion E; subst a' k'. apply opt_streqb_spec in Eu. subst u.
    destruct AEAD as (_ & _ & A3). destruct (A3 s _ p Ho) as [n Hn].
    exists r, s, n, p. apply String.eqb_eq in Ealgo. apply String.eqb_eq in Ex. subst x.
    repeat split; assumption.
  Qed.

  (* the four consumers hand a payload on only when [receive] produced one *)
  Lemma event_invoked_iff : forall codec topic b a k,
    on_event codec topic b = HandlerInvoked a k <->
    exists a' k', receive codec false topic b = RPayload a' k' /\ a = or_nil a' /\ k = or_nil k'.
  Proof.
    intros. unfold Cryptobox.on_event. destruct (receive codec false topic b) as [a' k'| |x|u]; split; intro H.
    - inversion H. exists a', k'. repeat split.
    - destruct H as (a2 & k2 & E & -> & ->). inversion E. reflexivity.
    - discriminate.
    - destruct H as (? & ? & E & _). discriminate.
    - discriminate.
    - destruct H as (? & ? & E & _). discriminate.
    - discriminate.
    - destruct H as (? & ? & E & _). discriminate.
  Qed.

  Lemma result_resolved_iff : forall codec proc progress b a k,
    (on_result codec proc progress b = Resolved a k \/ on_result codec proc progress b = ProgressDelivered a k) <->
    exists a' k', receive codec true proc b = RPayload a' k' /\ a = or_nil a' /\ k = or_nil k'.
  Proof.
    intros. unfold Cryptobox.on_result. destruct (receive codec true proc b) as [a' k'| |x|u]; split; intro H.
    - exists a', k'. destruct progress; destruct H as [H|H]; inversion H; repeat split.
    - destruct H as (a2 & k2 & E & -> & ->). inversion E. destruct progress; [right|left]; reflexivity.
    - destruct progress; destruct H; discriminate.
    - destruct H as (? & ? & E & _). discriminate.
    - destruct progress; destruct H; discriminate.
    - destruct H as (? & ? & E & _). discriminate.
    - destruct progress; destruct H; discriminate.
    - destruct H as (? & ? & E & _). discriminate.
  Qed.

  (* failures are explicit: per direction, what a non-payload [receive] turns into *)
  Lemma event_failure : forall codec topic b r,
    receive codec false topic b = r -> (forall a k, r <> RPayload a k) -> on_event codec topic b = EventIgnored r.
  Proof.
    intros codec topic b r E H. unfold Cryptobox.on_event. rewrite E.
    destruct r as [a k| |x|u]; try reflexivity. exfalso. apply (H a k). reflexivity.
  Qed.

  Lemma result_failure : forall codec proc b r,
    receive codec true proc b = r -> (forall a k, r <> RPayload a k) ->
    on_result codec proc false b = RejectedWith (enc_error_uri r) /\
    on_result codec proc true b = ProgressNotDelivered (enc_error_uri r).
  Proof.
    intros codec proc b r E H. unfold Cryptobox.on_result. rewrite E.
    destruct r as [a k| |x|u]; try (split; reflexivity). exfalso. apply (H a k). reflexivity.
  Qed.

  Lemma error_failure : forall codec error b r,
    receive codec true error b = r -> (forall a k, r <> RPayload a k) ->
    on_error_codec codec error b = ErrEnc (enc_error_uri r).
  Proof.
    intros codec error b r E H. unfold Cryptobox.on_error_codec. rewrite E.
    destruct r as [a k| |x|u]; try reflexivity. exfalso. apply (H a k). reflexivity.
  Qed.

  Variable note : recv V -> V.
  Notation on_invocation := (on_invocation V P C nonce seal open dumps loads note).

  Lemma invocation_invoked_iff : forall codec proc b n a k enc,
    on_invocation codec proc b n = EndpointInvoked a k enc <->
    exists a' k', receive codec false proc b = RPayload a' k' /\ a = or_nil a' /\ k = or_nil k' /\
                  enc = match b with Encoded _ => true | Plain _ _ => false end.
  Proof.
    intros. unfold Cryptobox.on_invocation. destruct (receive codec false proc b) as [a' k'| |x|u]; split; intro H.
    - inversion H. exists a', k'. repeat split.
    - destruct H as (a2 & k2 & E & -> & -> & ->). inversion E. reflexivity.
    - discriminate.
    - destruct H as (? & ? & E & _). discriminate.
    - discriminate.
    - destruct H as (? & ? & E & _). discriminate.
    - discriminate.
    - destruct H as (? & ? & E & _). discriminate.
  Qed.

  Lemma invocation_failure : forall codec proc b n r,
    receive codec false proc b = r -> (forall a k, r <> RPayload a k) ->
    on_invocation codec proc b n =
      ErrorReply (enc_error_uri r) (error_body codec (enc_error_uri r) (Some [note r]) (Some []) n).
  Proof.
    intros codec proc b n r E H. unfold Cryptobox.on_invocation. rewrite E.
    destruct r as [a k| |x|u]; try reflexivity. exfalso. apply (H a k). reflexivity.
  Qed.
  (* ---------------- the four directions, sender and receiver composed ---------------- *)
  Lemma roundtrip_publish_event : forall ra rb topic a k n s b,
    get_box ra true topic = Some s -> get_box rb false topic = Some s ->
    originate (Some ra) topic a k n = Sent b ->
    on_event (Some rb) topic b = HandlerInvoked a k.
  Proof.
    intros ra rb topic a k n s b Ha Hb Ho.
    destruct (originate_encrypted ra topic a k n s b Ha Ho) as (p & Hd & ->).
    unfold Cryptobox.on_event. rewrite (receive_sealed rb false topic s n p (Some topic) (Some a) (Some k) Hb Hd).
    simpl. rewrite String.eqb_refl. reflexivity.
  Qed.

  Lemma roundtrip_call_invocation : forall ra rb proc a k n n' s b,
    get_box ra true proc = Some s -> get_box rb false proc = Some s ->
    originate (Some ra) proc a k n = Sent b ->
    on_invocation (Some rb) proc b n' = EndpointInvoked a k true.
  Proof.
    intros ra rb proc a k n n' s b Ha Hb Ho.
    destruct (originate_encrypted ra proc a k n s b Ha Ho) as (p & Hd & ->).
    unfold Cryptobox.on_invocation. rewrite (receive_sealed rb false proc s n p (Some proc) (Some a) (Some k) Hb Hd).
    simpl. rewrite String.eqb_refl. reflexivity.
  Qed.

  (* every way of registering: the callee binds the ciphertext to the REGISTERED full URI (= what REGISTER carried) *)
  Lemma roundtrip_call_invocation_registered : forall ra rb prefix name detail a k n n' s b,
    let full := fst (register_uris prefix name) in
    (detail = None \/ detail = Some full) ->
    get_box ra true full = Some s -> get_box rb false full = Some s ->
    originate (Some ra) full a k n = Sent b ->
    Cryptobox.on_invocation_registered V P C nonce seal open dumps loads note (Some rb) prefix name detail b n'
      = EndpointInvoked a k true /\
    snd (register_uris prefix name) = full /\
    full = match prefix with Some p => String.append p name | None => name end.
  Proof.
    intros ra rb prefix name detail a k n n' s b full Hd Ha Hb Ho.
    split; [|split; reflexivity].
    unfold Cryptobox.on_invocation_registered.
    assert (E : invocation_proc detail (snd (register_uris prefix name)) = full) by (destruct Hd as [-> | ->]; reflexivity).
    rewrite E. apply (roundtrip_call_invocation ra rb full a k n n' s b Ha Hb Ho).
  Qed.

  Lemma roundtrip_yield_result : forall ra rb proc a k n s p progress,
    get_box ra true proc = Some s -> get_box rb false proc = Some s ->
    dumps (Some proc, Some a, k) = Some p ->
    on_result (Some ra) proc progress (yield_body (Some rb) true proc a k n) =
      if progress then ProgressDelivered a (or_nil k) else Resolved a (or_nil k).
  Proof.
    intros ra rb proc a k n s p progress Ha Hb Hd.
    rewrite (yield_encrypted rb proc a k n s p Hb Hd).
    unfold Cryptobox.on_result. rewrite (receive_sealed ra true proc s n p (Some proc) (Some a) k Ha Hd).
    simpl. rewrite String.eqb_refl. reflexivity.
  Qed.

  Lemma roundtrip_error : forall ra rb error a k n s b,
    get_box ra true error = Some s -> get_box rb false error = Some s ->
    error_body (Some rb) error a k n = Sent b ->
    on_error_codec (Some ra) error b = ErrPayload a k.
  Proof.
    intros ra rb error a k n s b Ha Hb Ho.
    destruct (error_encrypted rb error a k n s b Hb Ho) as (p & Hd & ->).
    unfold Cryptobox.on_error_codec. rewrite (receive_sealed ra true error s n p (Some error) a k Ha Hd).
    simpl. rewrite String.eqb_refl. reflexivity.
  Qed.

  (* ---------------- URI binding: a ciphertext made for [inner] delivered under envelope URI [uri] ---------------- *)
  Lemma uri_binding : forall r uri inner s n n' p a k,
    inner <> uri -> dumps (Some inner, a, k) = Some p ->
    let b := Encoded (mkEnc (seal s n p) "cryptobox" (Some "json") None) in
    (get_box r false uri = Some s ->
       on_event (Some r) uri b = EventIgnored (RUriMismatch (Some inner)) /\
       on_invocation (Some r) uri b n' =
         ErrorReply ENC_TRUSTED_URI_MISMATCH
           (error_body (Some r) ENC_TRUSTED_URI_MISMATCH (Some [note (RUriMismatch (Some inner))]) (Some []) n')) /\
    (get_box r true uri = Some s ->
       on_result (Some r) uri false b = RejectedWith ENC_TRUSTED_URI_MISMATCH /\
       on_result (Some r) uri true b = ProgressNotDelivered ENC_TRUSTED_URI_MISMATCH /\
       on_error_codec (Some r) uri b = ErrEnc ENC_TRUSTED_URI_MISMATCH).
  Proof.
    intros r uri inner s n n' p a k Hne Hd b.
    assert (Hm : forall io, get_box r io uri = Some s -> receive (Some r) io uri b = RUriMismatch (Some inner)).
    { intros io Hb. unfold b. rewrite (receive_sealed r io uri s n p (Some inner) a k Hb Hd). simpl.
      destruct (String.eqb inner uri) eqn:E; [apply String.eqb_eq in E; contradiction | reflexivity]. }
    assert (Hnp : forall a0 k0, RUriMismatch (V:=V) (Some inner) <> RPayload a0 k0) by (intros; discriminate).
    split; intro Hb.
    - split.
      + apply event_failure; [apply Hm; exact Hb | exact Hnp].
      + apply (invocation_failure (Some r) uri b n' _ (Hm false Hb) Hnp).
    - destruct (result_failure (Some r) uri b _ (Hm true Hb) Hnp) as [H1 H2].
      split; [exact H1|]. split; [exact H2|]. apply (error_failure (Some r) uri b _ (Hm true Hb) Hnp).
  Qed.

  (* ---------------- any body the receiver cannot open: nothing delivered, explicit failure ---------------- *)
  Lemma unopenable_never_delivered : forall r uri e n',
    (forall io s, get_box r io uri = Some s -> open s (e_payload e) = None) ->
    (exists x, on_event (Some r) uri (Encoded e) = EventIgnored (RDecryptError x)) /\
    (exists x, on_invocation (Some r) uri (Encoded e) n' =
         ErrorReply ENC_DECRYPT_ERROR
           (error_body (Some r) ENC_DECRYPT_ERROR (Some [note (RDecryptError x)]) (Some []) n')) /\
    on_result (Some r) uri false (Encoded e) = RejectedWith ENC_DECRYPT_ERROR /\
    on_result (Some r) uri true (Encoded e) = ProgressNotDelivered ENC_DECRYPT_ERROR /\
    on_error_codec (Some r) uri (Encoded e) = ErrEnc ENC_DECRYPT_ERROR.
  Proof.
    intros r uri e n' H.
    destruct (receive_unopenable r false uri e (H false)) as [x Hx].
    destruct (receive_unopenable r true uri e (H true)) as [y Hy].
    assert (Hnp : forall z a0 k0, RDecryptError (V:=V) z <> RPayload a0 k0) by (intros; discriminate).
    split; [exists x; apply event_failure; [exact Hx | apply Hnp]|].
    split; [exists x; apply (invocation_failure (Some r) uri (Encoded e) n' _ Hx (Hnp x))|].
    destruct (result_failure (Some r) uri (Encoded e) _ Hy (Hnp y)) as [H1 H2].
    split; [exact H1|]. split; [exact H2|]. apply (error_failure (Some r) uri (Encoded e) _ Hy (Hnp y)).
  Qed.

  (* sealed under another shared secret *)
  Lemma wrong_key_never_delivered : forall r uri s n p n',
    (forall io s', get_box r io uri = Some s' -> s <> s') ->
    let e := mkEnc (seal s n p) "cryptobox" (Some "json") None in
    (exists x, on_event (Some r) uri (Encoded e) = EventIgnored (RDecryptError x)) /\
    (exists x, on_invocation (Some r) uri (Encoded e) n' =
         ErrorReply ENC_DECRYPT_ERROR
           (error_body (Some r) ENC_DECRYPT_ERROR (Some [note (RDecryptError x)]) (Some []) n')) /\
    on_result (Some r) uri false (Encoded e) = RejectedWith ENC_DECRYPT_ERROR /\
    on_result (Some r) uri true (Encoded e) = ProgressNotDelivered ENC_DECRYPT_ERROR /\
    on_error_codec (Some r) uri (Encoded e) = ErrEnc ENC_DECRYPT_ERROR.
  Proof.
    intros r uri s n p n' H e. apply unopenable_never_delivered.
    intros io s' Hb. simpl. destruct AEAD as (_ & A2 & _). apply A2. apply (H io s' Hb).
  Qed.

  (* everything delivered from an encrypted message is authentic, in every direction *)
  Lemma delivered_authentic : forall codec uri e n',
    (forall a k, on_event codec uri (Encoded e) = HandlerInvoked a k \/
                 (exists enc, on_invocation codec uri (Encoded e) n' = EndpointInvoked a k enc) ->
       exists r s n p a' k', codec = Some r /\ get_box r false uri = Some s /\ e_payload e = seal s n p /\
                             loads p = Some (Some uri, a', k') /\ a = or_nil a' /\ k = or_nil k') /\
    (forall a k progress, on_result codec uri progress (Encoded e) = Resolved a k \/
                          on_result codec uri progress (Encoded e) = ProgressDelivered a k ->
       exists r s n p a' k', codec = Some r /\ get_box r true uri = Some s /\ e_payload e = seal s n p /\
                             loads p = Some (Some uri, a', k') /\ a = or_nil a' /\ k = or_nil k') /\
    (forall a k, on_error_codec codec uri (Encoded e) = ErrPayload a k ->
       exists r s n p, codec = Some r /\ get_box r true uri = Some s /\ e_payload e = seal s n p /\
                       loads p = Some (Some uri, a, k)).
  Proof.
    intros codec uri e n'. split; [|split].
    - intros a k [H | [enc H]].
      + apply event_invoked_iff in H. destruct H as (a' & k' & Hr & -> & ->).
        destruct (receive_authentic codec false uri e a' k' Hr) as (r & s & n & p & H1 & H2 & H3 & H4 & _).
        exists r, s, n, p, a', k'. repeat split; assumption.
      + apply invocation_invoked_iff in H. destruct H as (a' & k' & Hr & -> & -> & _).
        destruct (receive_authentic codec false uri e a' k' Hr) as (r & s & n & p & H1 & H2 & H3 & H4 & _).
        exists r, s, n, p, a', k'. repeat split; assumption.
    - intros a k progress H. apply result_resolved_iff in H. destruct H as (a' & k' & Hr & -> & ->).
      destruct (receive_authentic codec true uri e a' k' Hr) as (r & s & n & p & H1 & H2 & H3 & H4 & _).
      exists r, s, n, p, a', k'. repeat split; assumption.
    - intros a k H. unfold Cryptobox.on_error_codec in H.
      destruct (receive codec true uri (Encoded e)) as [a' k'| |x|u] eqn:Hr; try discriminate.
      inversion H; subst a' k'.
      destruct (receive_authentic codec true uri e a k Hr) as (r & s & n & p & H1 & H2 & H3 & H4 & _).
      exists r, s, n, p. repeat split; assumption.
  Qed.
  (* ---------------- EVENT dispatch over ALL handlers of the subscription ---------------- *)
  Notation dispatch_event := (dispatch_event V P C open loads).

  (* no handler at all is invoked when [receive] fails for the (active) handlers' topic *)
  Lemma dispatch_none : forall codec msg_topic b hs,
    (forall h, In h hs -> h_active h = true -> forall a k, receive codec false (event_topic msg_topic h) b <> RPayload a k) ->
    dispatch_event codec msg_topic b hs = [].
  Proof.
    intros codec msg_topic b hs. induction hs as [|h rest IH]; intro H; simpl; [reflexivity|].
    destruct (h_active h) eqn:Ea; simpl.
    - destruct (receive codec false (event_topic msg_topic h) b) as [a k| |x|u] eqn:Er; try reflexivity.
      exfalso. apply (H h (or_introl eq_refl) Ea a k). exact Er.
    - apply IH. intros h' Hin. apply H. right. exact Hin.
  Qed.

  (* every invocation made was for a handler whose own [receive] produced exactly that payload *)
  Lemma dispatch_sound : forall codec msg_topic b hs i a k,
    In (i, a, k) (dispatch_event codec msg_topic b hs) ->
    exists h a' k', In h hs /\ h_active h = true /\ h_id h = i /\
                    receive codec false (event_topic msg_topic h) b = RPayload a' k' /\ a = or_nil a' /\ k = or_nil k'.
  Proof.
    intros codec msg_topic b hs i a k. induction hs as [|h rest IH]; simpl; [intros []|].
    destruct (h_active h) eqn:Ea; simpl.
    - destruct (receive codec false (event_topic msg_topic h) b) as [a' k'| |x|u] eqn:Er;
        [| intros [] | intros [] | intros []].
      intros [E | Hin].
      + inversion E; subst. exists h, a', k'. repeat split; try assumption. left; reflexivity.
      + destruct (IH Hin) as (h' & a2 & k2 & H1 & H2). exists h', a2, k2. split; [right; exact H1 | exact H2].
    - intro Hin. destruct (IH Hin) as (h' & a2 & k2 & H1 & H2). exists h', a2, k2. split; [right; exact H1 | exact H2].
  Qed.

  Lemma dispatch_cons : forall codec msg_topic b h rest,
    dispatch_event codec msg_topic b (h :: rest) =
    if negb (h_active h) then dispatch_event codec msg_topic b rest
    else match receive codec false (event_topic msg_topic h) b with
         | RPayload a k => (h_id h, or_nil a, or_nil k) :: dispatch_event codec msg_topic b rest
         | _ => []
         end.
  Proof. reflexivity. Qed.

  (* all handlers listen on the envelope topic (one subscription id = one topic, or the EVENT names the topic) *)
  Definition on_topic (msg_topic : option string) (uri : string) (hs : list ehandler) : Prop :=
    forall h, In h hs -> event_topic msg_topic h = uri.

  (* round trip: every active handler, in order, gets exactly the published payload *)
  Lemma dispatch_roundtrip : forall ra rb topic a k n s b msg_topic hs,
    get_box ra true topic = Some s -> get_box rb false topic = Some s ->
    originate (Some ra) topic a k n = Sent b -> on_topic msg_topic topic hs ->
    dispatch_event (Some rb) msg_topic b hs = map (fun h => (h_id h, a, k)) (filter h_active hs).
  Proof.
    intros ra rb topic a k n s b msg_topic hs Ha Hb Ho Ht.
    destruct (originate_encrypted ra topic a k n s b Ha Ho) as (p & Hd & ->).
    induction hs as [|h rest IH]; [reflexivity|].
    assert (IH' := IH (fun h' Hin => Ht h' (or_intror Hin))).
    rewrite dispatch_cons. cbn [filter map].
    destruct (h_active h); cbn [negb map]; [|exact IH'].
    rewrite (Ht h (or_introl eq_refl)).
    rewrite (receive_sealed rb false topic s n p (Some topic) (Some a) (Some k) Hb Hd).
    cbn [opt_streqb]. rewrite String.eqb_refl. cbn [or_nil]. rewrite IH'. reflexivity.
  Qed.

  (* URI binding for all handlers: a ciphertext sealed for [inner] arriving on the subscription for [uri] *)
  Lemma dispatch_uri_binding : forall r uri inner s n p a k msg_topic hs,
    inner <> uri -> dumps (Some inner, a, k) = Some p -> get_box r false uri = Some s -> on_topic msg_topic uri hs ->
    dispatch_event (Some r) msg_topic (Encoded (mkEnc (seal s n p) "cryptobox" (Some "json") None)) hs = [].
  Proof.
    intros r uri inner s n p a k msg_topic hs Hne Hd Hb Ht. apply dispatch_none.
    intros h Hin _ a0 k0. rewrite (Ht h Hin).
    rewrite (receive_sealed r false uri s n p (Some inner) a k Hb Hd). simpl.
    destruct (String.eqb inner uri) eqn:E; [apply String.eqb_eq in E; contradiction | discriminate].
  Qed.

  (* tamper / wrong key for all handlers *)
  Lemma dispatch_unopenable : forall r uri e msg_topic hs,
    (forall s, get_box r false uri = Some s -> open s (e_payload e) = None) -> on_topic msg_topic uri hs ->
    dispatch_event (Some r) msg_topic (Encoded e) hs = [].
  Proof.
    intros r uri e msg_topic hs H Ht. apply dispatch_none.
    intros h Hin _ a0 k0. rewrite (Ht h Hin).
    destruct (receive_unopenable r false uri e H) as [x Hx]. rewrite Hx. discriminate.
  Qed.

  (* whatever any handler receives from an encrypted EVENT is authentic for that handler's topic *)
  Lemma dispatch_authentic : forall codec msg_topic e hs i a k,
    In (i, a, k) (dispatch_event codec msg_topic (Encoded e) hs) ->
    exists h r s n p a' k', In h hs /\ h_id h = i /\ codec = Some r /\
      get_box r false (event_topic msg_topic h) = Some s /\ e_payload e = seal s n p /\
      loads p = Some (Some (event_topic msg_topic h), a', k') /\ a = or_nil a' /\ k = or_nil k'.
  Proof.
    intros codec msg_topic e hs i a k Hin.
    destruct (dispatch_sound codec msg_topic (Encoded e) hs i a k Hin) as (h & a' & k' & H1 & _ & H3 & Hr & -> & ->).
    destruct (receive_authentic codec false (event_topic msg_topic h) e a' k' Hr) as (r & s & n & p & E1 & E2 & E3 & E4 & _).
    exists h, r, s, n, p, a', k'. repeat split; assumption.
  Qed.

  (* ---------------- ERROR direction, whole _exception_from_message: for EVERY caller-side registry ---------------- *)
  Variable MV : Type.
  Variable enc_note : string -> V.
  Variable construct : cls -> shape -> list V -> kw -> ctor_result V MV.
  Variable caller_hook : hook.
  Notation efm_codec := (exception_from_message_codec V P C open loads MV enc_note construct caller_hook).
  Notation enc_exn := (enc_exn V MV enc_note).

  (* a ciphertext the caller cannot open: the explicit decrypt error, whatever class is registered for the URI;
     the constructor oracle is never consulted *)
  Lemma error_unopenable_registered : forall reg r error e rtype req meta,
    (forall s, get_box r true error = Some s -> open s (e_payload e) = None) ->
    efm_codec reg (Some r) rtype req error (Encoded e) meta = (Ok (enc_exn ENC_DECRYPT_ERROR), false).
  Proof.
    intros reg r error e rtype req meta H. unfold exception_from_message_codec.
    destruct (receive_unopenable r true error e H) as [x Hx].
    assert (Hnp : forall a0 k0, RDecryptError (V:=V) x <> RPayload a0 k0) by (intros; discriminate).
    rewrite (error_failure (Some r) error (Encoded e) _ Hx Hnp). reflexivity.
  Qed.

  Lemma error_wrong_key_registered : forall reg r error s n p rtype req meta,
    (forall s', get_box r true error = Some s' -> s <> s') ->
    efm_codec reg (Some r) rtype req error (Encoded (mkEnc (seal s n p) "cryptobox" (Some "json") None)) meta
      = (Ok (enc_exn ENC_DECRYPT_ERROR), false).
  Proof.
    intros reg r error s n p rtype req meta H. apply error_unopenable_registered.
    intros s' Hb. simpl. destruct AEAD as (_ & A2 & _). apply A2. apply (H s' Hb).
  Qed.

  (* a ciphertext sealed for another URI (same secret): the explicit mismatch error; the foreign args never reach a
     registered class *)
  Lemma error_uri_binding_registered : forall reg r uri inner s n p a k rtype req meta,
    inner <> uri -> dumps (Some inner, a, k) = Some p -> get_box r true uri = Some s ->
    efm_codec reg (Some r) rtype req uri (Encoded (mkEnc (seal s n p) "cryptobox" (Some "json") None)) meta
      = (Ok (enc_exn ENC_TRUSTED_URI_MISMATCH), false).
  Proof.
    intros reg r uri inner s n p a k rtype req meta Hne Hd Hb. unfold exception_from_message_codec.
    destruct (uri_binding r uri inner s n n p a k Hne Hd) as [_ H]. destruct (H Hb) as (_ & _ & He).
    rewrite He. reflexivity.
  Qed.

  Lemma error_no_codec_registered : forall reg error e rtype req meta,
    efm_codec reg None rtype req error (Encoded e) meta = (Ok (enc_exn ENC_NO_PAYLOAD_CODEC), false).
  Proof. reflexivity. Qed.

  (* everything else is authentic: the registry / constructors only ever see args and kwargs that were sealed under
     the caller's own secret for exactly this error URI *)
  Lemma error_authentic_registered : forall reg codec error e rtype req meta,
    (exists u, (u = ENC_NO_PAYLOAD_CODEC \/ u = ENC_DECRYPT_ERROR \/ u = ENC_TRUSTED_URI_MISMATCH) /\
               efm_codec reg codec rtype req error (Encoded e) meta = (Ok (enc_exn u), false))
    \/
    (exists r s n p a k, codec = Some r /\ get_box r true error = Some s /\ e_payload e = seal s n p /\
                         loads p = Some (Some error, a, k) /\
                         efm_codec reg codec rtype req error (Encoded e) meta =
                           exception_from_message construct caller_hook reg (mkErr rtype req error a k meta)).
  Proof.
    intros reg codec error e rtype req meta. unfold exception_from_message_codec.
    destruct (on_error_codec codec error (Encoded e)) as [a k|u] eqn:Eo.
    - right. unfold Cryptobox.on_error_codec in Eo.
      destruct (receive codec true error (Encoded e)) as [a' k'| |x|u'] eqn:Hr; try discriminate.
      inversion Eo; subst a' k'.
      destruct (receive_authentic codec true error e a k Hr) as (r & s & n & p & H1 & H2 & H3 & H4 & _).
      exists r, s, n, p, a, k. repeat split; assumption.
    - left. exists u. split; [|reflexivity].
      unfold Cryptobox.on_error_codec in Eo.
      destruct (receive codec true error (Encoded e)) as [a' k'| |x|u']; inversion Eo; simpl; tauto.
  Qed.

  (* round trip with a registry: what the caller's registry / constructors work on is exactly what the callee encoded *)
  Lemma roundtrip_error_registered : forall reg ra rb error a k n s b rtype req meta,
    get_box ra true error = Some s -> get_box rb false error = Some s ->
    error_body (Some rb) error a k n = Sent b ->
    efm_codec reg (Some ra) rtype req error b meta = exception_from_message construct caller_hook reg (mkErr rtype req error a k meta).
  Proof.
    intros reg ra rb error a k n s b rtype req meta Ha Hb Ho. unfold exception_from_message_codec.
    rewrite (roundtrip_error ra rb error a k n s b Ha Hb Ho). reflexivity.
  Qed.
End Facts.

(* matching key material: the originator's box and the responder's box compute the same secret *)
Lemma keys_pair : forall (pub : sk -> pk) (dh : sk -> pk -> secret),
  (forall a b, dh a (pub b) = dh b (pub a)) ->
  forall a b,
    (exists k1 k2, make_key pub dh (Some a) None None (Some (pub b)) = Some k1 /\
                   make_key pub dh None (Some (pub a)) (Some b) None = Some k2 /\
                   originator_box k1 = Some (dh a (pub b)) /\ responder_box k1 = None /\
                   responder_box k2 = Some (dh a (pub b)) /\ originator_box k2 = None).
Proof.
  intros pub dh Hdh a b. eexists. eexists. simpl. repeat split. rewrite (Hdh b a). reflexivity.
Qed.

(* ================================================================== the keyring as a mutable object *)
Section History.
  (* ---- a use never changes what later steps see ---- *)
  Lemma run_history_ring : forall {X} (steps : list (kstep X)) r,
    fst (run_history r steps) = apply_sets r (sets_of steps).
  Proof.
    intros X steps. induction steps as [|[u k|f] rest IH]; intro r; simpl; [reflexivity | apply IH |].
    specialize (IH r). destruct (run_history r rest) as [r' xs]. exact IH.
  Qed.

  Fixpoint uses_in {X} (steps : list (kstep X)) : nat :=
    match steps with [] => 0 | KSet _ _ :: r => uses_in r | KUse _ :: r => S (uses_in r) end.

  (* the result of a use = the function applied to the ring made by the set_key calls BEFORE it — whatever was
     looked up, encoded or decoded earlier *)
  Lemma run_history_use : forall {X} (pre : list (kstep X)) f post r,
    exists xs ys, snd (run_history r ((pre ++ KUse f :: post)%list)) = (xs ++ f (apply_sets r (sets_of pre)) :: ys)%list
                  /\ List.length xs = uses_in pre.
  Proof.
    intros X pre f post. induction pre as [|[u k|g] rest IH]; intro r; simpl.
    - destruct (run_history r post) as [r' ys]. exists [], ys. split; reflexivity.
    - apply IH.
    - destruct (IH r) as (xs & ys & E & L). destruct (run_history r ((rest ++ KUse f :: post)%list)) as [r' zs].
      simpl in E. exists (g r :: xs), ys. split; [simpl; rewrite E; reflexivity | simpl; rewrite L; reflexivity].
  Qed.

  (* ---- what the trie holds after a history of set_key calls ---- *)
  Lemma aget_in : forall {A} p (k : A) t, aget String.eqb p t = Some k -> In (p, k) t.
  Proof.
    intros A p k t. induction t as [|[p' k'] r IH]; simpl; [discriminate|].
    destruct (String.eqb p p') eqn:E.
    - intro H. inversion H. apply String.eqb_eq in E. subst. left. reflexivity.
    - intro H. right. apply IH. exact H.
  Qed.

  Lemma in_aget : forall {A} p (k : A) t, NoDup (map fst t) -> In (p, k) t -> aget String.eqb p t = Some k.
  Proof.
    intros A p k t. induction t as [|[p' k'] r IH]; simpl; intros Hnd Hin; [contradiction|].
    inversion Hnd as [|? ? Hnot Hnd']; subst.
    destruct Hin as [E | Hin].
    - inversion E; subst. rewrite String.eqb_refl. reflexivity.
    - destruct (String.eqb p p') eqn:E.
      + apply String.eqb_eq in E. subst p'. exfalso. apply Hnot. apply (in_map fst) in Hin. exact Hin.
      + apply IH; assumption.
  Qed.

  Lemma keys_aset : forall {A} u (k : A) t x, In x (map fst (aset String.eqb u k t)) <-> x = u \/ In x (map fst t).
  Proof.
    intros A u k t x. induction t as [|[p' k'] r IH]; simpl.
    - split; [intros [E|[]]; left; symmetry; exact E | intros [E|[]]; left; symmetry; exact E].
    - destruct (String.eqb u p') eqn:E; simpl.
      + apply String.eqb_eq in E. subst p'. split; [intros [H|H]; [left; symmetry; exact H | right; right; exact H] |
          intros [H|[H|H]]; [left; symmetry; exact H | left; exact H | right; exact H]].
      + rewrite IH. tauto.
  Qed.

  Lemma nodup_aset : forall {A} u (k : A) t, NoDup (map fst t) -> NoDup (map fst (aset String.eqb u k t)).
  Proof.
    intros A u k t. induction t as [|[p' k'] r IH]; simpl; intro H.
    - constructor; [intros [] | constructor].
    - inversion H as [|? ? Hnot Hnd]; subst. destruct (String.eqb u p') eqn:E; simpl.
      + constructor; assumption.
      + constructor; [|apply IH; exact Hnd]. intro Hin. apply keys_aset in Hin. destruct Hin as [E'|Hin].
        * subst p'. rewrite String.eqb_refl in E. discriminate.
        * apply Hnot. exact Hin.
  Qed.

  Lemma keys_adel : forall {A} u (t : list (string * A)) x, In x (map fst (adel String.eqb u t)) -> In x (map fst t).
  Proof.
    intros A u t x. induction t as [|[p' k'] r IH]; simpl; [tauto|].
    destruct (String.eqb u p'); simpl; [intro H; right; apply IH; exact H | intros [H|H]; [left; exact H | right; apply IH; exact H]].
  Qed.

  Lemma nodup_adel : forall {A} u (t : list (string * A)), NoDup (map fst t) -> NoDup (map fst (adel String.eqb u t)).
  Proof.
    intros A u t. induction t as [|[p' k'] r IH]; simpl; intro H; [constructor|].
    inversion H as [|? ? Hnot Hnd]; subst. destruct (String.eqb u p'); simpl; [apply IH; exact Hnd|].
    constructor; [|apply IH; exact Hnd]. intro Hin. apply Hnot. apply (keys_adel u r p'). exact Hin.
  Qed.

  (* invariant of every ring reachable by set_key: unique prefixes, never the empty one in the trie *)
  Definition ring_wf (r : keyring) : Prop := NoDup (map fst (kr_trie r)) /\ ~ In "" (map fst (kr_trie r)).

  Lemma set_key_wf : forall r u k, ring_wf r -> ring_wf (set_key r u k).
  Proof.
    intros r u k [H1 H2]. unfold set_key. destruct (String.eqb u "") eqn:E; [split; assumption|].
    destruct k as [k'|]; simpl; split.
    - apply nodup_aset; exact H1.
    - intro Hin. apply keys_aset in Hin. destruct Hin as [E'|Hin]; [subst u; rewrite String.eqb_refl in E; discriminate | exact (H2 Hin)].
    - apply nodup_adel; exact H1.
    - intro Hin. apply H2. apply (keys_adel u _ ""). exact Hin.
  Qed.

  Lemma apply_sets_wf : forall sets r, ring_wf r -> ring_wf (apply_sets r sets).
  Proof.
    induction sets as [|[u k] rest IH]; intros r H; simpl; [exact H|]. apply IH. apply set_key_wf. exact H.
  Qed.

  Lemma empty_wf : ring_wf empty_ring.
  Proof. split; [constructor | intros []]. Qed.

  (* the trie entry of a prefix = its LAST set_key *)
  Lemma trie_fold : forall sets r p, p <> "" ->
    aget String.eqb p (kr_trie (apply_sets r sets)) =
    fold_left (fun acc '(u, k) => if String.eqb u p then k else acc) sets (aget String.eqb p (kr_trie r)).
  Proof.
    induction sets as [|[u k] rest IH]; intros r p Hp; simpl; [reflexivity|].
    rewrite (IH (set_key r u k) p Hp). f_equal.
    unfold set_key. destruct (String.eqb u "") eqn:E0.
    - apply String.eqb_eq in E0. subst u. simpl.
      destruct p; [congruence | reflexivity].
    - destruct (String.eqb u p) eqn:E.
      + apply String.eqb_eq in E. subst u. destruct k as [k'|]; simpl.
        * apply (aget_aset_same String.eqb Seqb_spec).
        * apply (aget_adel_same String.eqb).
      + assert (E' : String.eqb p u = false) by (rewrite String.eqb_sym; exact E).
        destruct k as [k'|]; simpl.
        * apply (aget_aset_other String.eqb Seqb_spec). exact E'.
        * apply (aget_adel_other String.eqb Seqb_spec). exact E'.
  Qed.

  Lemma trie_binding : forall sets p, p <> "" ->
    aget String.eqb p (kr_trie (apply_sets empty_ring sets)) = binding sets p.
  Proof. intros sets p Hp. rewrite (trie_fold sets empty_ring p Hp). reflexivity. Qed.

  Lemma default_fold : forall sets r,
    kr_default (apply_sets r sets) = fold_left (fun acc '(u, k) => if String.eqb u "" then k else acc) sets (kr_default r).
  Proof.
    induction sets as [|[u k] rest IH]; intro r; simpl; [reflexivity|].
    rewrite (IH (set_key r u k)). f_equal. unfold set_key.
    destruct (String.eqb u ""); [reflexivity | destruct k; reflexivity].
  Qed.

  Lemma default_binding : forall sets, kr_default (apply_sets empty_ring sets) = binding sets "".
  Proof. intro sets. rewrite default_fold. reflexivity. Qed.

  (* ---- lookup after ANY history = longest-prefix lookup in the CURRENT bindings ---- *)
  Lemma lookup_history : forall sets uri p k,
    p <> "" -> binding sets p = Some k -> String.prefix p uri = true ->
    (forall p', p' <> "" -> p' <> p -> binding sets p' <> None -> String.prefix p' uri = true ->
                String.length p' < String.length p) ->
    lookup_key (apply_sets empty_ring sets) uri = Some k.
  Proof.
    intros sets uri p k Hp Hb Hpre Hmax.
    destruct (apply_sets_wf sets empty_ring empty_wf) as [Hnd Hne].
    apply (lookup_longest (apply_sets empty_ring sets) uri p k).
    - apply aget_in. rewrite (trie_binding sets p Hp). exact Hb.
    - exact Hpre.
    - intros p' k' Hin Hpre'.
      assert (Hp' : p' <> "") by (intro E; subst p'; apply Hne; apply (in_map fst) in Hin; exact Hin).
      pose proof (in_aget p' k' _ Hnd Hin) as Hg. rewrite (trie_binding sets p' Hp') in Hg.
      destruct (String.eqb p' p) eqn:E.
      + apply String.eqb_eq in E. subst p'. left. split; [reflexivity|]. rewrite Hb in Hg. inversion Hg. reflexivity.
      + right. apply Hmax; try assumption.
        * intro E'. subst p'. rewrite String.eqb_refl in E. discriminate.
        * rewrite Hg. discriminate.
  Qed.

  Lemma lookup_history_default : forall sets uri,
    (forall p, p <> "" -> binding sets p <> None -> String.prefix p uri = false) ->
    lookup_key (apply_sets empty_ring sets) uri = binding sets "".
  Proof.
    intros sets uri H. rewrite <- default_binding. apply lookup_default.
    intros p k Hin.
    destruct (apply_sets_wf sets empty_ring empty_wf) as [Hnd Hne].
    assert (Hp : p <> "") by (intro E; subst p; apply Hne; apply (in_map fst) in Hin; exact Hin).
    apply H; [exact Hp|]. rewrite <- (trie_binding sets p Hp). rewrite (in_aget p k _ Hnd Hin). discriminate.
  Qed.
End History.

(* the session theorems lifted to keyrings that were mutated at will before the message *)
Section HistoryLifted.
  Variables V P C nonce : Type.
  Variable seal : secret -> nonce -> P -> C.
  Variable open : secret -> C -> option P.
  Variable dumps : envelope V -> option P.
  Variable loads : P -> option (envelope V).
  Hypothesis AEAD : aead_ok seal open.
  Hypothesis JSON : json_ok dumps loads.

  (* "the key that currently applies to uri is k" *)
  Definition current_key (sets : list (string * option key)) (uri : string) (k : key) : Prop :=
    (exists p, p <> "" /\ binding sets p = Some k /\ String.prefix p uri = true /\
               forall p', p' <> "" -> p' <> p -> binding sets p' <> None -> String.prefix p' uri = true ->
                          String.length p' < String.length p)
    \/ ((forall p, p <> "" -> binding sets p <> None -> String.prefix p uri = false) /\ binding sets "" = Some k).

  Lemma current_key_lookup : forall sets uri k, current_key sets uri k ->
    lookup_key (apply_sets empty_ring sets) uri = Some k.
  Proof.
    intros sets uri k [(p & H1 & H2 & H3 & H4) | [H1 H2]].
    - apply (lookup_history sets uri p k); assumption.
    - rewrite (lookup_history_default sets uri H1). exact H2.
  Qed.

  (* no clear payload once a key applies — no matter what was sent for this URI before the key was installed *)
  Lemma no_clear_after_history : forall sets uri k s a kw n b,
    current_key sets uri k -> originator_box k = Some s ->
    originate V P C nonce seal dumps (Some (apply_sets empty_ring sets)) uri a kw n = Sent b ->
    exists p, dumps (Some uri, Some a, Some kw) = Some p /\ b = Encoded (mkEnc (seal s n p) "cryptobox" (Some "json") None).
  Proof.
    intros sets uri k s a kw n b Hc Hs Ho.
    apply (originate_encrypted V P C nonce seal dumps (apply_sets empty_ring sets) uri a kw n s b); [|exact Ho].
    unfold get_box. rewrite (current_key_lookup sets uri k Hc). exact Hs.
  Qed.

  (* exact recovery between two rings with arbitrary histories whose CURRENT keys pair up *)
  Lemma roundtrip_after_histories : forall setsA setsB topic kA kB s a kw n b msg_topic hs,
    current_key setsA topic kA -> originator_box kA = Some s ->
    current_key setsB topic kB -> responder_box kB = Some s ->
    originate V P C nonce seal dumps (Some (apply_sets empty_ring setsA)) topic a kw n = Sent b ->
    on_topic msg_topic topic hs ->
    dispatch_event V P C open loads (Some (apply_sets empty_ring setsB)) msg_topic b hs =
      map (fun h => (h_id h, a, kw)) (filter h_active hs).
  Proof.
    intros setsA setsB topic kA kB s a kw n b msg_topic hs HA HsA HB HsB Ho Ht.
    apply (dispatch_roundtrip V P C nonce seal open dumps loads AEAD JSON
             (apply_sets empty_ring setsA) (apply_sets empty_ring setsB) topic a kw n s b msg_topic hs); try assumption.
    - unfold get_box. rewrite (current_key_lookup setsA topic kA HA). exact HsA.
    - unfold get_box. rewrite (current_key_lookup setsB topic kB HB). exact HsB.
  Qed.

  (* a ciphertext under a key that was replaced (or any other secret) is rejected by the CURRENT ring *)
  Variable note : recv V -> V.
  Lemma stale_key_rejected : forall sets uri k s n p n' msg_topic hs,
    current_key sets uri k ->
    (forall s', originator_box k = Some s' \/ responder_box k = Some s' -> s <> s') ->
    on_topic msg_topic uri hs ->
    let r := apply_sets empty_ring sets in
    let e := mkEnc (seal s n p) "cryptobox" (Some "json") None in
    dispatch_event V P C open loads (Some r) msg_topic (Encoded e) hs = [] /\
    (exists x, on_invocation V P C nonce seal open dumps loads note (Some r) uri (Encoded e) n' =
         ErrorReply ENC_DECRYPT_ERROR
           (error_body V P C nonce seal dumps (Some r) ENC_DECRYPT_ERROR (Some [note (RDecryptError x)]) (Some []) n')) /\
    on_result V P C open loads (Some r) uri false (Encoded e) = RejectedWith ENC_DECRYPT_ERROR /\
    on_error_codec V P C open loads (Some r) uri (Encoded e) = ErrEnc ENC_DECRYPT_ERROR.
  Proof.
    intros sets uri k s n p n' msg_topic hs Hc Hne Ht r e.
    assert (Hbox : forall io s', get_box r io uri = Some s' -> s <> s').
    { intros io s' Hg. unfold get_box, r in Hg. rewrite (current_key_lookup sets uri k Hc) in Hg.
      apply Hne. destruct io; [left | right]; exact Hg. }
    destruct (wrong_key_never_delivered V P C nonce seal open dumps loads AEAD note r uri s n p n' Hbox)
      as (_ & H2 & H3 & _ & H5).
    split; [|split; [exact H2 | split; [exact H3 | exact H5]]].
    apply (dispatch_unopenable V P C open loads r uri e msg_topic hs); [|exact Ht].
    intros s' Hg. simpl. destruct AEAD as (_ & A2 & _). apply A2. apply (Hbox false s' Hg).
  Qed.
End HistoryLifted.
