(* Lemmas about the connection model (Model/WsConn.v), part 1:
   - encode_truncate / wf_utf8
   - a compositional rule set for invariants over (output log, state): [presL]
   - the safety invariants behind C05 *)
From Coq Require Import NArith List Bool Lia Arith.
From AV Require Import Gen.WsConnConsts Model.WsConn.
Import ListNotations.
Open Scope N_scope.

(* ================================================================================================ *)
(* UTF-8 / encode_truncate *)

Lemma char_len_app : forall bs r k, char_len bs = S k -> char_len (firstn (S k) bs ++ r) = S k.
Proof.
  intros bs r k H. unfold char_len in *.
  destruct bs as [|b1 r1]; [discriminate|].
  destruct (b1 <=? 127) eqn:E1.
  { inversion H; subst. simpl. rewrite E1. reflexivity. }
  destruct r1 as [|b2 r2]; [discriminate|].
  destruct (lead2 b1 && utail b2) eqn:E2.
  { inversion H; subst. simpl. rewrite E1, E2. reflexivity. }
  destruct r2 as [|b3 r3]; [discriminate|].
  destruct (ok3 b1 b2 && utail b3) eqn:E3.
  { inversion H; subst. simpl. rewrite E1, E2, E3. reflexivity. }
  destruct r3 as [|b4 r4]; [discriminate|].
  destruct (ok4 b1 b2 && utail b3 && utail b4) eqn:E4; [|discriminate].
  inversion H; subst. simpl. rewrite E1, E2, E3, E4. reflexivity.
Qed.

Lemma char_len_le : forall bs, (char_len bs <= length bs)%nat.
Proof.
  intros bs. unfold char_len.
  destruct bs as [|b1 [|b2 [|b3 [|b4 r]]]]; simpl;
    repeat match goal with |- context[if ?b then _ else _] => destruct b end; simpl; lia.
Qed.

Lemma take_chars_prefix : forall fuel bs, exists r, bs = take_chars fuel bs ++ r.
Proof.
  induction fuel as [|f IH]; intros bs; cbn [take_chars].
  - exists bs. reflexivity.
  - destruct (char_len bs) as [|k] eqn:E.
    + exists bs. reflexivity.
    + destruct (IH (skipn (S k) bs)) as [r Hr]. exists r.
      rewrite <- app_assoc. rewrite <- Hr. symmetry. apply firstn_skipn.
Qed.

Lemma take_chars_length : forall fuel bs, (length (take_chars fuel bs) <= length bs)%nat.
Proof.
  intros fuel bs. destruct (take_chars_prefix fuel bs) as [r Hr].
  rewrite Hr at 2. rewrite app_length. lia.
Qed.

Lemma take_chars_wf_fuel : forall fuel bs f,
  (length (take_chars fuel bs) <= f)%nat -> wf_fuel f (take_chars fuel bs) = true.
Proof.
  induction fuel as [|n IH]; intros bs f Hf; cbn [take_chars] in *.
  - destruct f; reflexivity.
  - destruct (char_len bs) as [|k] eqn:E.
    + destruct f; reflexivity.
    + pose proof (char_len_le bs) as Hle. rewrite E in Hle.
      assert (Hl : length (firstn (S k) bs) = S k) by (apply firstn_length_le; exact Hle).
      rewrite app_length, Hl in Hf.
      destruct f as [|f']; [lia|].
      remember (take_chars n (skipn (S k) bs)) as T.
      assert (Hx : firstn (S k) bs ++ T = firstn (S k) bs ++ T) by reflexivity.
      destruct (firstn (S k) bs ++ T) as [|x xs] eqn:EX.
      { apply (f_equal (@length N)) in EX. rewrite app_length, Hl in EX. simpl in EX. lia. }
      unfold wf_fuel; fold wf_fuel. rewrite <- EX.
      rewrite (char_len_app bs T k E).
      assert (Hs : skipn (S k) (firstn (S k) bs ++ T) = T).
      { rewrite skipn_app. rewrite Hl. replace (S k - S k)%nat with 0%nat by lia.
        rewrite skipn_all2 by lia. reflexivity. }
      rewrite Hs. subst T. apply IH. lia.
Qed.

Lemma take_chars_wf : forall fuel bs, wf_utf8 (take_chars fuel bs) = true.
Proof. intros. unfold wf_utf8. apply take_chars_wf_fuel. lia. Qed.

(* util.encode_truncate: the result is well-formed UTF-8 of at most [n] octets and a prefix of the input *)
Lemma truncate_valid : forall s n,
  wf_utf8 s = true ->
  wf_utf8 (encode_truncate s n) = true /\ (length (encode_truncate s n) <= n)%nat
  /\ exists r, s = encode_truncate s n ++ r.
Proof.
  intros s n Hwf. unfold encode_truncate.
  destruct (Nat.leb (length s) n) eqn:E.
  - apply Nat.leb_le in E. repeat split; auto. exists []. rewrite app_nil_r. reflexivity.
  - repeat split.
    + apply take_chars_wf.
    + eapply Nat.le_trans; [apply take_chars_length|]. apply firstn_le_length.
    + destruct (take_chars_prefix n (firstn n s)) as [r Hr].
      exists (r ++ skipn n s). rewrite app_assoc, <- Hr. symmetry. apply firstn_skipn.
Qed.

(* without the hypothesis: whatever comes out of the truncating branch is well-formed *)
Lemma truncate_len : forall s n, (length (encode_truncate s n) <= n)%nat.
Proof.
  intros s n. unfold encode_truncate. destruct (Nat.leb (length s) n) eqn:E.
  - apply Nat.leb_le in E. exact E.
  - eapply Nat.le_trans; [apply take_chars_length|]. apply firstn_le_length.
Qed.

Lemma truncate_id : forall s n, (length s <= n)%nat -> encode_truncate s n = s.
Proof. intros s n H. unfold encode_truncate. apply Nat.leb_le in H. rewrite H. reflexivity. Qed.

(* ================================================================================================ *)
(* invariants over (log, state), compositionally *)

Definition presL (I : list out -> cstate -> Prop) (m : M) : Prop :=
  forall log s, I log s -> I (log ++ snd (m s)) (fst (m s)).

Lemma presL_ret : forall I, presL I ret.
Proof. unfold presL, ret. intros. simpl. rewrite app_nil_r. assumption. Qed.

Lemma presL_seq : forall I a b, presL I a -> presL I b -> presL I (a ;; b).
Proof.
  unfold presL, seqM. intros I a b Ha Hb log s H.
  specialize (Ha log s H). destruct (a s) as [s1 o1]. simpl in Ha.
  specialize (Hb _ _ Ha). destruct (b s1) as [s2 o2]. simpl in *. rewrite app_assoc. exact Hb.
Qed.

Lemma presL_when : forall I b a, presL I a -> presL I (whenM b a).
Proof. intros. destruct b; simpl; auto using presL_ret. Qed.

Lemma presL_ifS : forall I g a b, presL I a -> presL I b -> presL I (ifS g a b).
Proof. unfold presL, ifS. intros I g a b Ha Hb log s H. destruct (g s); auto. Qed.

Lemma presL_bindS : forall I f, (forall s0, presL I (f s0)) -> presL I (bindS f).
Proof. unfold presL, bindS. intros. apply H. assumption. Qed.

Lemma presL_upd : forall (I : list out -> cstate -> Prop) f,
  (forall log s, I log s -> I log (f s)) -> presL I (upd f).
Proof. unfold presL, upd. intros. simpl. rewrite app_nil_r. auto. Qed.

Lemma presL_say : forall (I : list out -> cstate -> Prop) o,
  (forall log s, I log s -> I (log ++ [(now s, o)]) s) -> presL I (say o).
Proof. unfold presL, say. intros. simpl. auto. Qed.

(* guarded variant: the guard is known at the head of the computation *)
Definition presG (G : cstate -> Prop) (I : list out -> cstate -> Prop) (m : M) : Prop :=
  forall log s, G s -> I log s -> I (log ++ snd (m s)) (fst (m s)).

Lemma presL_ifS_g : forall I g a b,
  presG (fun s => g s = true) I a -> presG (fun s => g s = false) I b -> presL I (ifS g a b).
Proof. unfold presL, presG, ifS. intros I g a b Ha Hb log s H. destruct (g s) eqn:E; auto. Qed.

Lemma presG_weaken : forall G I m, presL I m -> presG G I m.
Proof. unfold presL, presG. auto. Qed.

Lemma run_from_cons0 : forall c e evs s log,
  run_from c s log (e :: evs) = run_from c (fst (handle c e s)) (log ++ snd (handle c e s)) evs.
Proof. intros. unfold run_from, step. simpl. destruct (handle c e s). reflexivity. Qed.

Lemma presL_run_from : forall (I : list out -> cstate -> Prop) c,
  (forall e, presL I (handle c e)) ->
  forall evs s log, I log s -> I (snd (run_from c s log evs)) (fst (run_from c s log evs)).
Proof.
  intros I c Hh evs. induction evs as [|e evs IH]; intros s log H.
  - exact H.
  - rewrite run_from_cons0. apply IH. apply Hh. exact H.
Qed.

Lemma presL_run : forall (I : list out -> cstate -> Prop) c,
  I (init_out c) (init c) -> (forall e, presL I (handle c e)) ->
  forall evs, I (snd (run c evs)) (fst (run c evs)).
Proof. intros. unfold run. apply presL_run_from; assumption. Qed.

Lemma run_from_app : forall c evs1 evs2 s log,
  run_from c s log (evs1 ++ evs2) =
  run_from c (fst (run_from c s log evs1)) (snd (run_from c s log evs1)) evs2.
Proof.
  intros. unfold run_from. rewrite fold_left_app.
  destruct (fold_left _ evs1 (s, log)). reflexivity.
Qed.

Lemma run_app : forall c evs1 evs2,
  run c (evs1 ++ evs2) = run_from c (fst (run c evs1)) (snd (run c evs1)) evs2.
Proof. intros. unfold run. apply run_from_app. Qed.

Lemma run_from_cons : forall c e evs s log,
  run_from c s log (e :: evs) = run_from c (fst (handle c e s)) (log ++ snd (handle c e s)) evs.
Proof. intros. unfold run_from, step. simpl. destruct (handle c e s). reflexivity. Qed.

(* the log only grows *)
Lemma run_from_log_prefix : forall c evs s log, exists o, snd (run_from c s log evs) = log ++ o.
Proof.
  intros c evs. induction evs as [|e evs IH]; intros s log.
  - exists []. rewrite app_nil_r. reflexivity.
  - rewrite run_from_cons. destruct (IH (fst (handle c e s)) (log ++ snd (handle c e s))) as [o' Ho'].
    exists (snd (handle c e s) ++ o'). rewrite Ho'. rewrite app_assoc. reflexivity.
Qed.

(* ---------- timer primitives leave everything but the timer bookkeeping alone ---------- *)
(* [same_core s s'] : s' differs from s at most in timers / handles / nextId *)
Definition same_core (s s' : cstate) : Prop :=
  st s' = st s /\ now s' = now s /\ gone s' = gone s /\ closedByMe s' = closedByMe s /\ failedByMe s' = failedByMe s
  /\ droppedByMe s' = droppedByMe s /\ wasClean s' = wasClean s /\ ncr s' = ncr s
  /\ localCode s' = localCode s /\ localReason s' = localReason s
  /\ remoteCode s' = remoteCode s /\ remoteReason s' = remoteReason s
  /\ wasOpenTO s' = wasOpenTO s /\ wasCloseTO s' = wasCloseTO s /\ wasDropTO s' = wasDropTO s
  /\ pingPending s' = pingPending s /\ pingSeq s' = pingSeq s
  /\ closingSince s' = closingSince s /\ lastPeerClose s' = lastPeerClose s.

Lemma same_core_set_slot : forall k v s, same_core s (set_slot k v s).
Proof. intros. destruct k; unfold same_core; simpl; repeat split. Qed.

Lemma arm_batched_core : forall k d s, same_core s (fst (arm_batched k d s)) /\ snd (arm_batched k d s) = [].
Proof. intros. unfold arm_batched. simpl. split; [|reflexivity]. destruct k; unfold same_core; simpl; repeat split. Qed.
Lemma arm_exact_core : forall k d s, same_core s (fst (arm_exact k d s)) /\ snd (arm_exact k d s) = [].
Proof. intros. unfold arm_exact. simpl. split; [|reflexivity]. destruct k; unfold same_core; simpl; repeat split. Qed.
Lemma cancel_slot_core : forall k s, same_core s (fst (cancel_slot k s)) /\ snd (cancel_slot k s) = [].
Proof.
  intros. unfold cancel_slot. destruct (slot_of k s); simpl; (split; [|reflexivity]).
  - destruct k; unfold same_core; simpl; repeat split.
  - unfold same_core; repeat split.
Qed.

(* an invariant that only looks at the core fields is preserved by the timer primitives *)
Definition core_only (I : list out -> cstate -> Prop) : Prop :=
  forall log s s', same_core s s' -> I log s -> I log s'.

Lemma presL_arm_batched : forall I k d, core_only I -> presL I (arm_batched k d).
Proof.
  intros I k d HI log s H. destruct (arm_batched_core k d s) as [Hc Ho]. rewrite Ho, app_nil_r. eapply HI; eauto.
Qed.
Lemma presL_arm_exact : forall I k d, core_only I -> presL I (arm_exact k d).
Proof.
  intros I k d HI log s H. destruct (arm_exact_core k d s) as [Hc Ho]. rewrite Ho, app_nil_r. eapply HI; eauto.
Qed.
Lemma presL_cancel_slot : forall I k, core_only I -> presL I (cancel_slot k).
Proof.
  intros I k HI log s H. destruct (cancel_slot_core k s) as [Hc Ho]. rewrite Ho, app_nil_r. eapply HI; eauto.
Qed.

(* ---------- guarded rules: what is known about the state at the head of a computation ---------- *)
Lemma presG_ret : forall G I, presG G I ret.
Proof. unfold presG, ret. intros. simpl. rewrite app_nil_r. assumption. Qed.

Lemma presG_seq : forall G I a b, presG G I a -> presL I b -> presG G I (a ;; b).
Proof.
  unfold presG, presL, seqM. intros G I a b Ha Hb log s HG H.
  specialize (Ha log s HG H). destruct (a s) as [s1 o1]. simpl in Ha.
  specialize (Hb _ _ Ha). destruct (b s1) as [s2 o2]. simpl in *. rewrite app_assoc. exact Hb.
Qed.

Lemma presG_when : forall G I b a, presG G I a -> presG G I (whenM b a).
Proof. intros. destruct b; simpl; auto using presG_ret. Qed.

Lemma presG_ifS : forall (G : cstate -> Prop) I g a b,
  presG (fun s => G s /\ g s = true) I a -> presG (fun s => G s /\ g s = false) I b -> presG G I (ifS g a b).
Proof. unfold presG, ifS. intros G I g a b Ha Hb log s HG H. destruct (g s) eqn:E; auto. Qed.

Lemma presG_bindS : forall (G : cstate -> Prop) I f,
  (forall s0, presG (fun s => G s /\ s = s0) I (f s0)) -> presG G I (bindS f).
Proof. unfold presG, bindS. intros G I f H log s HG HI. apply (H s log s); auto. Qed.

Lemma presG_upd : forall (G : cstate -> Prop) (I : list out -> cstate -> Prop) f,
  (forall log s, G s -> I log s -> I log (f s)) -> presG G I (upd f).
Proof. unfold presG, upd. intros. simpl. rewrite app_nil_r. auto. Qed.

Lemma presG_say : forall (G : cstate -> Prop) (I : list out -> cstate -> Prop) o,
  (forall log s, G s -> I log s -> I (log ++ [(now s, o)]) s) -> presG G I (say o).
Proof. unfold presG, say. intros. simpl. auto. Qed.

Lemma presG_emit_and : forall (G : cstate -> Prop) (I : list out -> cstate -> Prop) o f,
  (forall log s, G s -> I log s -> I (log ++ [(now s, o)]) (f s)) -> presG G I (emit_and o f).
Proof. unfold presG, emit_and. intros. simpl. auto. Qed.

Lemma presG_absurd : forall (G : cstate -> Prop) (I : list out -> cstate -> Prop) m,
  (forall log s, G s -> I log s -> False) -> presG G I m.
Proof. unfold presG. intros. exfalso. eauto. Qed.

Lemma presL_of_G : forall I m, presG (fun _ => True) I m -> presL I m.
Proof. unfold presG, presL. intros. auto. Qed.

Lemma presG_arm_batched : forall G I k d, core_only I -> presG G I (arm_batched k d).
Proof. intros. apply presG_weaken. apply presL_arm_batched. assumption. Qed.
Lemma presG_arm_exact : forall G I k d, core_only I -> presG G I (arm_exact k d).
Proof. intros. apply presG_weaken. apply presL_arm_exact. assumption. Qed.
Lemma presG_cancel_slot : forall G I k, core_only I -> presG G I (cancel_slot k).
Proof. intros. apply presG_weaken. apply presL_cancel_slot. assumption. Qed.

Lemma presG_seq_say : forall (G : cstate -> Prop) I o b,
  presG G I (say o) -> presG G I b -> presG G I (say o ;; b).
Proof.
  unfold presG, seqM, say. intros G I o b Ha Hb log s HG H. simpl.
  specialize (Ha log s HG H). simpl in Ha. specialize (Hb _ s HG Ha).
  destruct (b s) as [s2 o2]. simpl in *. rewrite <- app_assoc in Hb. exact Hb.
Qed.

Lemma presG_seq_ret : forall (G : cstate -> Prop) I b, presG G I b -> presG G I (ret ;; b).
Proof.
  unfold presG, seqM, ret. intros G I b Hb log s HG H. specialize (Hb log s HG H).
  destruct (b s) as [s2 o2]. simpl in *. exact Hb.
Qed.

(* after [upd f] the state is [f s0] for some s0 that satisfied the guard (strongest postcondition) *)
Lemma presG_seq_upd : forall (G : cstate -> Prop) I f b,
  presG G I (upd f) -> presG (fun s' => exists s0, G s0 /\ s' = f s0) I b -> presG G I (upd f ;; b).
Proof.
  unfold presG, seqM, upd. intros G I f b Ha Hb log s HG H. simpl.
  specialize (Ha log s HG H). simpl in Ha. rewrite app_nil_r in Ha.
  specialize (Hb log (f s) (ex_intro _ s (conj HG eq_refl)) Ha).
  destruct (b (f s)) as [s2 o2]. simpl in *. exact Hb.
Qed.

Lemma presG_ext : forall G I m m', (forall s, m s = m' s) -> presG G I m' -> presG G I m.
Proof. unfold presG. intros G I m m' E H log s HG HI. rewrite E. auto. Qed.

Lemma seq_assoc : forall a b r s, ((a ;; b) ;; r) s = (a ;; (b ;; r)) s.
Proof.
  intros. unfold seqM. destruct (a s) as [s1 o1]. destruct (b s1) as [s2 o2]. destruct (r s2) as [s3 o3].
  rewrite app_assoc. reflexivity.
Qed.
Lemma seq_ifS_distr : forall g a b r s, (ifS g a b ;; r) s = ifS g (a ;; r) (b ;; r) s.
Proof. intros. unfold seqM, ifS. destruct (g s); reflexivity. Qed.

Lemma presG_seq_assoc : forall G I a b r, presG G I (a ;; (b ;; r)) -> presG G I ((a ;; b) ;; r).
Proof. intros. eapply presG_ext; [apply seq_assoc|assumption]. Qed.
Lemma presG_seq_ifS : forall G I g a b r, presG G I (ifS g (a ;; r) (b ;; r)) -> presG G I (ifS g a b ;; r).
Proof. intros. eapply presG_ext; [apply seq_ifS_distr|assumption]. Qed.

(* ---------- the generic decomposition tactic ----------
   [leaf] solves the obligations of upd / say (goal: forall log s, G s -> I log s -> I ... ...);
   [blocks] is tried first on every node (lemmas for handlers whose intermediate states break I);
   [absurd] tries to show that guard and invariant contradict each other (goal: forall log s, G s -> I log s -> False). *)
Ltac head_of t := match t with ?f _ => head_of f | _ => t end.

(* the role test of onConnect-raises is split here, outside any section (a [destruct (is_server c)] inside a section
   whose hypotheses mention is_server c would make that section's lemmas unusable for the rest of the proof) *)
Lemma presG_hcr : forall (G : cstate -> Prop) I c txt,
  presG G I (handshake_bad c) -> presG G I (client_connect_raises c txt) -> presG G I (handshake_connect_raises c txt).
Proof. intros. unfold handshake_connect_raises. destruct (is_server c); assumption. Qed.

Ltac pres_node leaf blocks absurd :=
  first [ solve [ apply presG_absurd; absurd ] |
  lazymatch goal with
  | |- presL _ _ => first [ blocks | apply presL_of_G ]
  | |- presG _ _ ret => apply presG_ret
  | |- presG _ _ (handshake_connect_raises _ _) => first [ blocks | apply presG_hcr ]
  | |- presG _ _ (seqM (say _) _) => first [ blocks | apply presG_seq_say ]
  | |- presG _ _ (seqM (upd _) _) => first [ blocks | apply presG_seq_upd ]
  | |- presG _ _ (seqM ret _) => apply presG_seq_ret
  | |- presG _ _ (seqM (seqM _ _) _) => first [ blocks | apply presG_seq_assoc ]
  | |- presG _ _ (seqM (ifS _ _ _) _) => first [ blocks | apply presG_seq_ifS ]
  | |- presG _ _ (seqM (whenM ?b _) _) => first [ blocks | destruct b eqn:?; unfold whenM ]
  | |- presG _ _ (seqM (if ?b then _ else _) _) => first [ blocks | destruct b eqn:? ]
  | |- presG _ _ (seqM _ _) => first [ blocks | apply presG_seq ]
  | |- presG _ _ (whenM _ _) => apply presG_when
  | |- presG _ _ (ifS _ _ _) => first [ blocks | apply presG_ifS ]
  | |- presG _ _ (bindS _) => first [ blocks | apply presG_bindS; intro ]
  | |- presG _ _ (upd _) => first [ blocks | apply presG_upd; leaf ]
  | |- presG _ _ (say _) => first [ blocks | apply presG_say; leaf ]
  | |- presG _ _ (emit_and _ _) => first [ blocks | apply presG_emit_and; leaf ]
  | |- presG _ _ (arm_batched _ _) => first [ blocks | apply presG_arm_batched; assumption ]
  | |- presG _ _ (arm_exact _ _) => first [ blocks | apply presG_arm_exact; assumption ]
  | |- presG _ _ (cancel_slot _) => first [ blocks | apply presG_cancel_slot; assumption ]
  | |- presG _ _ (if ?b then _ else _) => destruct b eqn:?
  | |- presG _ _ (match ?x with _ => _ end) => destruct x eqn:?
  | |- presG _ _ ?m => first [ blocks | let h := head_of m in unfold h ]
  end ].
Ltac pres_go3 leaf blocks absurd := repeat (pres_node leaf blocks absurd).
Ltac pres_go leaf blocks := pres_go3 leaf blocks fail.

(* the reactor loop: an invariant preserved by every timeout handler and by moving the clock is preserved by Tick *)
Lemma presL_run_calls : forall I c, (forall k, presL I (on_timer c k)) -> forall calls, presL I (run_calls c calls).
Proof.
  intros I c H calls. induction calls as [|[k id] r IH]; simpl.
  - apply presL_ret.
  - apply presL_seq; auto.
Qed.

Definition time_insensitive (I : list out -> cstate -> Prop) : Prop :=
  forall log s tm rest, I log s -> I log (set_now (N.max (now s) tm) (set_timers rest s)).

Lemma presL_fire_loop : forall I c t,
  (forall k, presL I (on_timer c k)) -> time_insensitive I -> forall fuel, presL I (fire_loop fuel c t).
Proof.
  intros I c t Hk Ht fuel. induction fuel as [|f IH]; simpl.
  - apply presL_ret.
  - apply presL_bindS. intro s0. destruct (pick_due t (timers s0)) as [[e rest]|].
    + apply presL_seq; [|apply presL_seq; [apply presL_run_calls; assumption | exact IH]].
      apply presL_upd. intros. apply Ht. assumption.
    + apply presL_ret.
Qed.

Lemma presL_tick : forall I c t,
  (forall k, presL I (on_timer c k)) -> time_insensitive I -> presL I (tick c t).
Proof.
  intros I c t Hk Ht. unfold tick. apply presL_seq.
  - apply presL_bindS. intro. apply presL_fire_loop; assumption.
  - apply presL_upd. intros log s H. specialize (Ht log s t (timers s) H).
    replace (set_now (N.max (now s) t) s) with (set_now (N.max (now s) t) (set_timers (timers s) s)); [exact Ht|].
    destruct s; reflexivity.
Qed.

(* ================================================================================================ *)
(* C05_forward_only *)
Definition rank (w : wstate) : nat :=
  match w with CONNECTING => 0 | OPEN => 1 | CLOSING => 2 | CLOSED => 3 end.

Lemma in_state_true : forall w s, in_state w s = true -> st s = w.
Proof. unfold in_state. intros w s. destruct (st s), w; simpl; congruence. Qed.
Lemma in_state_false : forall w s, in_state w s = false -> st s <> w.
Proof. unfold in_state. intros w s. destruct (st s), w; simpl; congruence. Qed.

Definition I_rank (n : nat) (log : list out) (s : cstate) : Prop := (n <= rank (st s))%nat.

Lemma I_rank_core : forall n, core_only (I_rank n).
Proof. unfold core_only, I_rank, same_core. intros n log s s' H. destruct H as [H _]. rewrite H. auto. Qed.

Ltac guard_facts :=
  repeat match goal with
  | H : _ /\ _ |- _ => destruct H
  | H : exists _, _ |- _ => destruct H
  | H : in_state _ _ = true |- _ => apply in_state_true in H
  | H : in_state _ _ = false |- _ => apply in_state_false in H
  | H : (fun _ => _) _ = _ |- _ => cbv beta in H
  | H : frames_ready _ = true |- _ => unfold frames_ready in H; apply andb_prop in H
  | H : msg_start _ = true |- _ => unfold msg_start in H; apply andb_prop in H
  | H : connecting _ = true |- _ => unfold connecting in H; apply andb_prop in H
  | H : proxy_connecting _ = true |- _ => unfold proxy_connecting in H; apply andb_prop in H
  | H : frames_flow _ = true |- _ => unfold frames_flow in H; apply andb_prop in H
  | H : _ && _ = true |- _ => apply andb_prop in H
  | H : negb _ = true |- _ => apply negb_true_iff in H
  | H : negb _ = false |- _ => apply negb_false_iff in H
  | H : wstate_eqb (st _) _ = true |- _ => apply (in_state_true _ _) in H
  | H : ?s = ?s0 |- _ => is_var s; is_var s0; subst s
  | H : ?s = _ |- _ => is_var s; match type of s with cstate => subst s end
  | H : _ = ?s |- _ => is_var s; match type of s with cstate => subst s end
  end.

Lemma rank_le3 : forall w, (rank w <= 3)%nat.
Proof. destruct w; simpl; lia. Qed.

Ltac leaf_rank :=
  intros log s HG HI; unfold I_rank in *; guard_facts; simpl in *;
  try match goal with H : st _ = _ |- _ => rewrite H in * end; simpl in *; try lia;
  try (match goal with H : (_ <= rank ?w)%nat |- _ => pose proof (rank_le3 w) end; lia);
  try (destruct (st s); simpl in *; lia).

Lemma on_timer_rank : forall n c k, presL (I_rank n) (on_timer c k).
Proof.
  intros n c k. pose proof (I_rank_core n) as Hcore.
  destruct k; unfold on_timer; pres_go leaf_rank fail.
Qed.

Lemma step_rank : forall n c e, presL (I_rank n) (handle c e).
Proof.
  intros n c e. pose proof (I_rank_core n) as Hcore.
  destruct e; unfold handle;
    try (apply presL_tick; [apply on_timer_rank | unfold time_insensitive, I_rank; intros; simpl; assumption]);
    pres_go leaf_rank fail.
Qed.

Lemma forward_only : forall c s e, (rank (st s) <= rank (st (fst (step c s e))))%nat.
Proof. intros c s e. unfold step. apply (step_rank (rank (st s)) c e [] s). unfold I_rank. lia. Qed.

Lemma forward_only_run : forall c evs s log, (rank (st s) <= rank (st (fst (run_from c s log evs))))%nat.
Proof.
  intros c evs s log.
  apply (presL_run_from (I_rank (rank (st s))) c (step_rank _ c) evs s log). unfold I_rank. lia.
Qed.

(* ================================================================================================ *)
(* output classification *)
Definition is_cbclose (o : out) : bool := match snd o with CbClose _ _ _ _ => true | _ => false end.
Definition cbcount (l : list out) : nat := length (filter is_cbclose l).
Definition is_frame (o : out) : bool :=
  match snd o with WData | WHdr | WPayload _ | WPing _ | WPong | WClose _ _ _ => true | _ => false end.
Definition is_closef (o : out) : bool := match snd o with WClose _ _ _ => true | _ => false end.
Definition close_in (l : list out) : bool := existsb is_closef l.
(* no frame of any kind follows a close frame (in particular: at most one close frame) *)
Fixpoint wc (seen : bool) (l : list out) : bool :=
  match l with
  | [] => true
  | o :: r => if is_frame o && seen then false else wc (seen || is_closef o) r
  end.
(* the only thing that may still happen after the close notification: an exception raised to an API caller *)
Definition is_raise (o : out) : bool := match snd o with Raised _ => true | _ => false end.

Lemma cbcount_app : forall a b, cbcount (a ++ b) = (cbcount a + cbcount b)%nat.
Proof. intros. unfold cbcount. rewrite filter_app, app_length. reflexivity. Qed.
Lemma close_in_app : forall a b, close_in (a ++ b) = close_in a || close_in b.
Proof. intros. unfold close_in. apply existsb_app. Qed.
Lemma wc_app : forall a b seen, wc seen (a ++ b) = wc seen a && wc (seen || close_in a) b.
Proof.
  induction a as [|o a IH]; intros b seen; simpl.
  - rewrite orb_false_r. reflexivity.
  - destruct (is_frame o && seen); [reflexivity|]. rewrite IH. rewrite orb_assoc. reflexivity.
Qed.

Lemma cbcount_single : forall o, cbcount [o] = if is_cbclose o then 1%nat else 0%nat.
Proof. intros. unfold cbcount. simpl. destruct (is_cbclose o); reflexivity. Qed.

(* ---------- I_gone: the close notification fires exactly when the transport-gone event is delivered ---------- *)
Definition I_gone (log : list out) (s : cstate) : Prop :=
  (gone s = false -> cbcount log = 0%nat) /\ (gone s = true -> st s = CLOSED /\ cbcount log = 1%nat).

Lemma I_gone_core : core_only I_gone.
Proof.
  unfold core_only, I_gone, same_core. intros log s s' H.
  destruct H as (H1 & _ & H3 & _). rewrite H1, H3. auto.
Qed.

(* Hoare triples over (log, state) for the few blocks whose intermediate states need a different assertion *)
Definition hoare (P : list out -> cstate -> Prop) (m : M) (Q : list out -> cstate -> Prop) : Prop :=
  forall log s, P log s -> Q (log ++ snd (m s)) (fst (m s)).

Lemma hoare_seq : forall P R Q a b, hoare P a R -> hoare R b Q -> hoare P (a ;; b) Q.
Proof.
  unfold hoare, seqM. intros P R Q a b Ha Hb log s H.
  specialize (Ha log s H). destruct (a s) as [s1 o1]. simpl in Ha.
  specialize (Hb _ _ Ha). destruct (b s1) as [s2 o2]. simpl in *. rewrite app_assoc. exact Hb.
Qed.
Lemma hoare_presL : forall I m, presL I m -> hoare I m I.
Proof. unfold hoare, presL. auto. Qed.
Lemma presG_of_hoare : forall (G : cstate -> Prop) I m, hoare (fun log s => G s /\ I log s) m I -> presG G I m.
Proof. unfold hoare, presG. auto. Qed.
Lemma presG_imp : forall (G G' : cstate -> Prop) I m, (forall s, G s -> G' s) -> presG G' I m -> presG G I m.
Proof. unfold presG. auto. Qed.

Ltac leaf_gone :=
  intros log s HG HI; unfold I_gone in *; guard_facts; simpl in *;
  rewrite ?cbcount_app, ?cbcount_single; unfold is_cbclose; simpl; rewrite ?Nat.add_0_r;
  repeat match goal with
  | H : gone ?s = _ |- _ => rewrite H in *
  | H : st ?s = _ |- _ => rewrite H in *
  end;
  try solve [ split; intros; try discriminate; try congruence; try lia; auto
            | match goal with |- context[gone ?x] => destruct (gone x) eqn:? end; split; intros; try discriminate;
              repeat match goal with H : ?a = ?a -> _ |- _ => specialize (H eq_refl) end;
              guard_facts; try congruence; try lia; auto ].

(* _connectionLost, entered with the transport not yet reported gone *)
Definition J_notgone (log : list out) (s : cstate) : Prop := gone s = false /\ cbcount log = 0%nat.
Lemma J_notgone_core : core_only J_notgone.
Proof. unfold core_only, J_notgone, same_core. intros log s s' H. destruct H as (_ & _ & H3 & _). rewrite H3. auto. Qed.

Lemma conn_lost_gone : forall c, presG (fun s => gone s = false) I_gone (conn_lost c).
Proof.
  intros c. apply presG_of_hoare. unfold conn_lost.
  pose proof J_notgone_core as Hcore.
  assert (Hc : forall k, hoare J_notgone (cancel_slot k) J_notgone)
    by (intro k; apply hoare_presL; apply presL_cancel_slot; assumption).
  apply hoare_seq with (R := J_notgone).
  { destruct (is_server c).
    - unfold hoare, ret. intros log s [Hg HI]. simpl. rewrite app_nil_r. unfold J_notgone, I_gone in *. tauto.
    - unfold hoare. intros log s [Hg HI]. apply (Hc TServerDrop). unfold J_notgone, I_gone in *. tauto. }
  apply hoare_seq with (R := J_notgone); [apply Hc|].
  apply hoare_seq with (R := J_notgone); [apply Hc|].
  apply hoare_seq with (R := J_notgone); [apply Hc|].
  apply hoare_seq with (R := fun log s => J_notgone log s /\ st s = CLOSED).
  { unfold hoare, ifS, ret, seqM, upd, say, J_notgone. intros log s [Hg Hc0].
    destruct (in_state CLOSED s) eqn:E; simpl.
    - rewrite app_nil_r. apply in_state_true in E. auto.
    - rewrite cbcount_app, cbcount_single. simpl. rewrite Hc0. auto. }
  unfold hoare, ifS, bindS, emit_and, seqM, upd, ret, J_notgone, I_gone. intros log s [[Hg Hc0] Hst].
  destruct (wasClean s); simpl.
  - rewrite cbcount_app, cbcount_single. simpl. rewrite Hc0. split; [discriminate|auto].
  - destruct (negb (droppedByMe s) && _); simpl; rewrite cbcount_app, cbcount_single; simpl; rewrite Hc0;
      (split; [discriminate|auto]).
Qed.

Ltac blocks_gone := idtac;
  match goal with
  | |- presG _ _ (conn_lost _) => eapply presG_imp; [|apply conn_lost_gone]; cbv beta; intros; guard_facts; auto
  end.

Lemma on_timer_gone : forall c k, presL I_gone (on_timer c k).
Proof.
  intros c k. pose proof I_gone_core as Hcore.
  destruct k; unfold on_timer; pres_go leaf_gone fail.
Qed.

Lemma step_gone : forall c e, presL I_gone (handle c e).
Proof.
  intros c e. pose proof I_gone_core as Hcore.
  destruct e; unfold handle;
    try (apply presL_tick; [apply on_timer_gone | unfold time_insensitive, I_gone; intros; simpl; assumption]);
    pres_go leaf_gone blocks_gone.
Qed.

(* ---------- I_cf: at most one close frame, nothing written after it; CLOSING/CLOSED exactly after it ---------- *)
Definition I_cf (log : list out) (s : cstate) : Prop :=
  wc false log = true /\ (close_in log = true -> (2 <= rank (st s))%nat) /\ (st s = CLOSING -> close_in log = true).

Lemma I_cf_core : core_only I_cf.
Proof. unfold core_only, I_cf, same_core. intros log s s' H. destruct H as (H1 & _). rewrite H1. auto. Qed.

Ltac leaf_cf :=
  intros log s HG HI; unfold I_cf in *; guard_facts; simpl in *;
  rewrite ?wc_app, ?close_in_app; unfold is_frame, is_closef; simpl;
  repeat match goal with H : st ?s = _ |- _ => rewrite H in * end; simpl in *;
  destruct (close_in log) eqn:?; simpl in *; rewrite ?andb_true_r, ?orb_false_r, ?orb_true_r;
  try solve [ intuition (try discriminate; try congruence; try lia)
            | match goal with |- context[st ?x] => destruct (st x) eqn:? end; simpl in *;
              intuition (try discriminate; try congruence; try lia) ].

Lemma on_timer_cf : forall c k, presL I_cf (on_timer c k).
Proof.
  intros c k. pose proof I_cf_core as Hcore.
  destruct k; unfold on_timer; pres_go leaf_cf fail.
Qed.

Lemma step_cf : forall c e, presL I_cf (handle c e).
Proof.
  intros c e. pose proof I_cf_core as Hcore.
  destruct e; unfold handle;
    try (apply presL_tick; [apply on_timer_cf | unfold time_insensitive, I_cf; intros; simpl; assumption]);
    pres_go leaf_cf fail.
Qed.

(* ---------- after the close notification: nothing but exceptions raised to API callers ---------- *)
Definition I_dead (log : list out) (s : cstate) : Prop :=
  st s = CLOSED /\ gone s = true /\ forallb is_raise log = true.

Lemma I_dead_core : core_only I_dead.
Proof. unfold core_only, I_dead, same_core. intros log s s' H. destruct H as (H1 & _ & H3 & _). rewrite H1, H3. auto. Qed.

Ltac absurd_dead :=
  intros log s HG HI; unfold I_dead, I_gone in *; guard_facts; simpl in *;
  repeat match goal with H : wstate_eqb _ _ || wstate_eqb _ _ = true |- _ => apply orb_prop in H; destruct H end;
  guard_facts; simpl in *; try congruence; try discriminate.

Ltac leaf_dead :=
  intros log s HG HI; unfold I_dead in *; guard_facts; simpl in *;
  rewrite ?forallb_app; cbn [forallb];
  repeat match goal with |- context[is_raise (?t, ?o)] =>
           let v := eval cbv [is_raise snd] in (is_raise (t, o)) in change (is_raise (t, o)) with v end;
  rewrite ?andb_true_r;
  try solve [ intuition (try discriminate; try congruence) ].

Lemma on_timer_dead : forall c k, presL I_dead (on_timer c k).
Proof.
  intros c k. pose proof I_dead_core as Hcore.
  destruct k; unfold on_timer; pres_go3 leaf_dead fail absurd_dead.
Qed.

Lemma step_dead : forall c e, presL I_dead (handle c e).
Proof.
  intros c e. pose proof I_dead_core as Hcore.
  destruct e; unfold handle;
    try (apply presL_tick; [apply on_timer_dead | unfold time_insensitive, I_dead; intros; simpl; assumption]);
    pres_go3 leaf_dead fail absurd_dead.
Qed.

(* ---------- after CLOSED no timer produces output ---------- *)
Definition I_quiet (log : list out) (s : cstate) : Prop := st s = CLOSED /\ log = [].
Lemma I_quiet_core : core_only I_quiet.
Proof. unfold core_only, I_quiet, same_core. intros log s s' H. destruct H as (H1 & _). rewrite H1. auto. Qed.
Ltac absurd_quiet :=
  intros log s HG HI; unfold I_quiet in *; guard_facts; simpl in *; try congruence; try discriminate.
Ltac leaf_quiet :=
  intros log s HG HI; unfold I_quiet in *; guard_facts; simpl in *;
  try solve [ intuition (try discriminate; try congruence) ].
Lemma on_timer_quiet : forall c k, presL I_quiet (on_timer c k).
Proof.
  intros c k. pose proof I_quiet_core as Hcore.
  destruct k; unfold on_timer; pres_go3 leaf_quiet fail absurd_quiet.
Qed.
Lemma tick_quiet : forall c t, presL I_quiet (tick c t).
Proof.
  intros. apply presL_tick; [apply on_timer_quiet | unfold time_insensitive, I_quiet; intros; simpl; assumption].
Qed.

Lemma dead_after_close : forall c s t, st s = CLOSED -> snd (step c s (ETick t)) = [] /\ st (fst (step c s (ETick t))) = CLOSED.
Proof.
  intros c s t H. pose proof (tick_quiet c t [] s (conj H eq_refl)) as [H1 H2].
  unfold step, handle. simpl in H2. auto.
Qed.
