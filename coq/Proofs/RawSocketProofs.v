(* Proofs about Model/RawSocket.v *)
From Coq Require Import NArith ZArith List Bool Lia.
From AV Require Import Model.RawSocket Model.WsSubproto Gen.RawSocketConsts.
Import ListNotations.
Open Scope N_scope.

Ltac Zify.zify_post_hook ::= Z.to_euclidean_division_equations.

(* ---------------------------------------------------------------------------------------------------------- *)
(* arithmetic of the bit operations                                                                             *)
(* ---------------------------------------------------------------------------------------------------------- *)
Lemma lo4_mod o : lo4 o = o mod 16.
Proof. unfold lo4. change 15 with (N.ones 4). rewrite N.land_ones. reflexivity. Qed.

Lemma hi4_div o : hi4 o = o / 16.
Proof. unfold hi4. rewrite N.shiftr_div_pow2. reflexivity. Qed.

Lemma memN_In x l : memN x l = true <-> In x l.
Proof.
  unfold memN. rewrite existsb_exists. split.
  - intros [y [Hy He]]. apply N.eqb_eq in He. now subst.
  - intros H. exists x. split; [assumption|apply N.eqb_refl].
Qed.

Lemma memN_false x l : memN x l = false <-> ~ In x l.
Proof. rewrite <- memN_In. destruct (memN x l); split; congruence. Qed.

Lemma octet2_arith lexp ser : ser < 16 -> octet2 lexp ser = 16 * lexp + ser.
Proof.
  intros H. unfold octet2. rewrite N.shiftl_mul_pow2. change (2 ^ 4) with 16.
  assert (Hl : N.land (lexp * 16) ser = 0).
  { apply N.bits_inj_0. intros n. rewrite N.land_spec.
    destruct (N.ltb_spec n 4) as [Hn|Hn].
    + replace (lexp * 16) with (lexp * 2 ^ 4) by reflexivity.
      rewrite N.mul_pow2_bits_low by assumption. reflexivity.
    + replace (N.testbit ser n) with false; [apply andb_false_r|].
      symmetry. destruct (N.eq_dec ser 0) as [->|Hz]; [apply N.bits_0|].
      apply N.bits_above_log2. apply N.lt_le_trans with 4; [|assumption].
      apply N.log2_lt_pow2; [lia|]. change (2 ^ 4) with 16. assumption. }
  rewrite <- (N.lxor_lor _ _ Hl), <- (N.add_nocarry_lxor _ _ Hl). lia.
Qed.

(* ---------------------------------------------------------------------------------------------------------- *)
(* 1. handshake decisions                                                                                       *)
(* ---------------------------------------------------------------------------------------------------------- *)
Definition attaches (h : hs_out) : Prop := exists ser ms reply, h = HsAttach ser ms reply.
Definition refuses (h : hs_out) : Prop := exists ab reply, h = HsRefuse ab reply.

Lemma neqb_127 o : negb (o =? 127) = false <-> o = 127.
Proof. destruct (N.eqb_spec o 127); cbn; split; congruence. Qed.

(* --- Twisted server --- *)
Lemma rz_false o3 o4 : negb (o3 =? 0) || negb (o4 =? 0) = false <-> (o3 = 0 /\ o4 = 0).
Proof. destruct (N.eqb_spec o3 0); destruct (N.eqb_spec o4 0); cbn; split; intros; try tauto; try discriminate. Qed.

Lemma tx_server_hs_value sup rexp o1 o2 o3 o4 :
  o1 = 127 -> o3 = 0 -> o4 = 0 -> In (o2 mod 16) sup ->
  tx_server_hs sup rexp o1 o2 o3 o4 =
    HsAttach (o2 mod 16) (2 ^ (9 + o2 / 16)) [127; 16 * (rexp - 9) + o2 mod 16; 0; 0].
Proof.
  intros -> -> -> Hin. unfold tx_server_hs. change (negb (127 =? 127)) with false.
  change (negb (0 =? 0)) with false. cbn [orb].
  rewrite lo4_mod. apply memN_In in Hin. rewrite Hin.
  unfold max_send_of. rewrite hi4_div, octet2_arith; [reflexivity|].
  apply N.mod_lt. lia.
Qed.

Lemma tx_server_hs_refuse sup rexp o1 o2 o3 o4 :
  ~ (o1 = 127 /\ o3 = 0 /\ o4 = 0 /\ In (o2 mod 16) sup) -> tx_server_hs sup rexp o1 o2 o3 o4 = HsRefuse true [].
Proof.
  intros H. unfold tx_server_hs. destruct (N.eqb_spec o1 127) as [E|E]; cbn [negb]; [|reflexivity].
  destruct (negb (o3 =? 0) || negb (o4 =? 0)) eqn:R; [reflexivity|]. apply rz_false in R.
  rewrite lo4_mod. destruct (memN (o2 mod 16) sup) eqn:M; [|reflexivity].
  exfalso. apply H. apply memN_In in M. tauto.
Qed.

Lemma tx_server_attach_iff sup rexp o1 o2 o3 o4 :
  attaches (tx_server_hs sup rexp o1 o2 o3 o4) <-> (o1 = 127 /\ In (o2 mod 16) sup /\ o3 = 0 /\ o4 = 0).
Proof.
  split.
  - intros [s [m [r H]]].
    destruct (N.eq_dec o1 127) as [E1|E1]; [|rewrite tx_server_hs_refuse in H; [discriminate|tauto]].
    destruct (N.eq_dec o3 0) as [E3|E3]; [|rewrite tx_server_hs_refuse in H; [discriminate|tauto]].
    destruct (N.eq_dec o4 0) as [E4|E4]; [|rewrite tx_server_hs_refuse in H; [discriminate|tauto]].
    destruct (memN (o2 mod 16) sup) eqn:M; [apply memN_In in M; tauto|].
    apply memN_false in M. rewrite tx_server_hs_refuse in H; [discriminate|tauto].
  - intros [E [Hin [E3 E4]]]. rewrite (tx_server_hs_value _ _ _ _ _ _ E E3 E4 Hin). repeat eexists.
Qed.

Lemma tx_server_no_escape sup rexp o1 o2 o3 o4 :
  attaches (tx_server_hs sup rexp o1 o2 o3 o4) \/ tx_server_hs sup rexp o1 o2 o3 o4 = HsRefuse true [].
Proof.
  destruct (N.eq_dec o1 127) as [E|E]; [|right; apply tx_server_hs_refuse; tauto].
  destruct (N.eq_dec o3 0) as [E3|E3]; [|right; apply tx_server_hs_refuse; tauto].
  destruct (N.eq_dec o4 0) as [E4|E4]; [|right; apply tx_server_hs_refuse; tauto].
  destruct (memN (o2 mod 16) sup) eqn:M.
  - left. apply tx_server_attach_iff. apply memN_In in M. tauto.
  - right. apply tx_server_hs_refuse. apply memN_false in M. tauto.
Qed.

(* --- Twisted client --- *)
Lemma tx_client_hs_value own o1 o2 o3 o4 :
  o1 = 127 -> o3 = 0 -> o4 = 0 -> o2 mod 16 = own ->
  tx_client_hs own o1 o2 o3 o4 = HsAttach own (2 ^ (9 + o2 / 16)) [].
Proof.
  intros -> -> -> H. unfold tx_client_hs. change (negb (127 =? 127)) with false.
  change (negb (0 =? 0)) with false. cbn [orb]. rewrite lo4_mod, H, N.eqb_refl. cbn [negb].
  unfold max_send_of. now rewrite hi4_div.
Qed.

Lemma tx_client_hs_refuse own o1 o2 o3 o4 :
  ~ (o1 = 127 /\ o3 = 0 /\ o4 = 0 /\ o2 mod 16 = own) -> tx_client_hs own o1 o2 o3 o4 = HsRefuse true [].
Proof.
  intros H. unfold tx_client_hs. destruct (N.eqb_spec o1 127) as [E|E]; cbn [negb]; [|reflexivity].
  destruct (negb (o3 =? 0) || negb (o4 =? 0)) eqn:R; [reflexivity|]. apply rz_false in R.
  rewrite lo4_mod. destruct (N.eqb_spec (o2 mod 16) own) as [E2|E2]; cbn [negb]; [|reflexivity].
  exfalso. tauto.
Qed.

Lemma tx_client_attach_iff own o1 o2 o3 o4 :
  attaches (tx_client_hs own o1 o2 o3 o4) <-> (o1 = 127 /\ o2 mod 16 = own /\ o3 = 0 /\ o4 = 0).
Proof.
  split.
  - intros [s [m [r H]]].
    destruct (N.eq_dec o1 127) as [E1|E1]; [|rewrite tx_client_hs_refuse in H; [discriminate|tauto]].
    destruct (N.eq_dec o3 0) as [E3|E3]; [|rewrite tx_client_hs_refuse in H; [discriminate|tauto]].
    destruct (N.eq_dec o4 0) as [E4|E4]; [|rewrite tx_client_hs_refuse in H; [discriminate|tauto]].
    destruct (N.eq_dec (o2 mod 16) own) as [E2|E2]; [tauto|]. rewrite tx_client_hs_refuse in H; [discriminate|tauto].
  - intros [E [E2 [E3 E4]]]. rewrite (tx_client_hs_value _ _ _ _ _ E E3 E4 E2). repeat eexists.
Qed.

Lemma tx_client_no_escape own o1 o2 o3 o4 :
  attaches (tx_client_hs own o1 o2 o3 o4) \/ tx_client_hs own o1 o2 o3 o4 = HsRefuse true [].
Proof.
  destruct (N.eq_dec o1 127) as [E|E]; [|right; apply tx_client_hs_refuse; tauto].
  destruct (N.eq_dec o3 0) as [E3|E3]; [|right; apply tx_client_hs_refuse; tauto].
  destruct (N.eq_dec o4 0) as [E4|E4]; [|right; apply tx_client_hs_refuse; tauto].
  destruct (N.eq_dec (o2 mod 16) own) as [E2|E2]; [|right; apply tx_client_hs_refuse; tauto].
  left. apply tx_client_attach_iff. tauto.
Qed.

(* --- asyncio --- *)
Lemma aio_parse_some o1 o2 o3 o4 :
  o1 = 127 -> o3 = 0 -> o4 = 0 -> aio_parse_handshake o1 o2 o3 o4 = Some (o2 mod 16, o2 / 16).
Proof.
  intros -> -> ->. unfold aio_parse_handshake. change (negb (127 =? 127)) with false.
  change (negb (0 =? 0)) with false. cbn [orb]. now rewrite lo4_mod, hi4_div.
Qed.

Lemma aio_parse_none o1 o2 o3 o4 :
  ~ (o1 = 127 /\ o3 = 0 /\ o4 = 0) -> aio_parse_handshake o1 o2 o3 o4 = None.
Proof.
  intros H. unfold aio_parse_handshake.
  destruct (N.eqb_spec o1 127); cbn [negb]; [|reflexivity].
  destruct (N.eqb_spec o3 0); destruct (N.eqb_spec o4 0); cbn; try reflexivity. exfalso. tauto.
Qed.

Lemma aio_server_hs_value sup lexp o1 o2 o3 o4 :
  o1 = 127 -> o3 = 0 -> o4 = 0 -> In (o2 mod 16) sup ->
  aio_server_hs sup lexp o1 o2 o3 o4 = HsAttach (o2 mod 16) (2 ^ (9 + o2 / 16)) [127; 16 * lexp + o2 mod 16; 0; 0].
Proof.
  intros E1 E3 E4 Hin. unfold aio_server_hs. rewrite (aio_parse_some _ _ _ _ E1 E3 E4).
  apply memN_In in Hin. rewrite Hin.
  assert (Hlt : o2 mod 16 < 16) by (apply N.mod_lt; lia).
  replace (N.land (o2 mod 16) 15) with (o2 mod 16).
  - rewrite octet2_arith by assumption. now rewrite (N.add_comm (o2 / 16) 9).
  - change 15 with (N.ones 4). rewrite N.land_ones. change (2 ^ 4) with 16. now rewrite N.mod_mod by lia.
Qed.

Lemma aio_server_hs_refuse sup lexp o1 o2 o3 o4 :
  ~ (o1 = 127 /\ o3 = 0 /\ o4 = 0) -> aio_server_hs sup lexp o1 o2 o3 o4 = HsRefuse false [].
Proof. intros H. unfold aio_server_hs. now rewrite aio_parse_none. Qed.

Lemma aio_server_hs_unsupported sup lexp o1 o2 o3 o4 :
  o1 = 127 -> o3 = 0 -> o4 = 0 -> ~ In (o2 mod 16) sup ->
  aio_server_hs sup lexp o1 o2 o3 o4 = HsRefuse false [127; 16; 0; 0].
Proof.
  intros E1 E3 E4 Hin. unfold aio_server_hs. rewrite (aio_parse_some _ _ _ _ E1 E3 E4).
  apply memN_false in Hin. now rewrite Hin.
Qed.

Lemma aio_server_attach_iff sup lexp o1 o2 o3 o4 :
  attaches (aio_server_hs sup lexp o1 o2 o3 o4) <-> (o1 = 127 /\ In (o2 mod 16) sup /\ o3 = 0 /\ o4 = 0).
Proof.
  split.
  - intros [s [m [r H]]].
    destruct (N.eq_dec o1 127) as [E1|E1]; [|rewrite aio_server_hs_refuse in H; [discriminate|tauto]].
    destruct (N.eq_dec o3 0) as [E3|E3]; [|rewrite aio_server_hs_refuse in H; [discriminate|tauto]].
    destruct (N.eq_dec o4 0) as [E4|E4]; [|rewrite aio_server_hs_refuse in H; [discriminate|tauto]].
    destruct (memN (o2 mod 16) sup) eqn:M.
    + apply memN_In in M. tauto.
    + apply memN_false in M. rewrite aio_server_hs_unsupported in H by assumption. discriminate.
  - intros [E1 [Hin [E3 E4]]]. rewrite aio_server_hs_value by assumption. repeat eexists.
Qed.

Lemma aio_server_no_escape sup lexp o1 o2 o3 o4 :
  attaches (aio_server_hs sup lexp o1 o2 o3 o4) \/
  (exists reply, aio_server_hs sup lexp o1 o2 o3 o4 = HsRefuse false reply /\
                 (reply = [] \/ (reply = [127; 16; 0; 0] /\ o1 = 127 /\ o3 = 0 /\ o4 = 0 /\ ~ In (o2 mod 16) sup))).
Proof.
  destruct (N.eq_dec o1 127) as [E1|E1]; [|right; exists []; split; [apply aio_server_hs_refuse; tauto|now left]].
  destruct (N.eq_dec o3 0) as [E3|E3]; [|right; exists []; split; [apply aio_server_hs_refuse; tauto|now left]].
  destruct (N.eq_dec o4 0) as [E4|E4]; [|right; exists []; split; [apply aio_server_hs_refuse; tauto|now left]].
  destruct (memN (o2 mod 16) sup) eqn:M.
  - left. apply aio_server_attach_iff. apply memN_In in M. tauto.
  - right. apply memN_false in M. exists [127; 16; 0; 0]. split; [now apply aio_server_hs_unsupported|right; tauto].
Qed.

Lemma aio_client_hs_value own o1 o2 o3 o4 :
  o1 = 127 -> o3 = 0 -> o4 = 0 -> o2 mod 16 = own -> own <> 0 ->
  aio_client_hs own o1 o2 o3 o4 = HsAttach own (2 ^ (9 + o2 / 16)) [].
Proof.
  intros E1 E3 E4 E2 Hnz. unfold aio_client_hs. rewrite (aio_parse_some _ _ _ _ E1 E3 E4). rewrite E2.
  destruct (N.eqb_spec own 0); [contradiction|]. rewrite N.eqb_refl. cbn [negb].
  now rewrite (N.add_comm (o2 / 16) 9).
Qed.

Lemma aio_client_hs_refuse own o1 o2 o3 o4 :
  ~ (o1 = 127 /\ o3 = 0 /\ o4 = 0 /\ o2 mod 16 = own /\ own <> 0) ->
  aio_client_hs own o1 o2 o3 o4 = HsRefuse false [].
Proof.
  intros H. unfold aio_client_hs.
  destruct (N.eq_dec o1 127) as [E1|E1]; [|rewrite aio_parse_none; [reflexivity|tauto]].
  destruct (N.eq_dec o3 0) as [E3|E3]; [|rewrite aio_parse_none; [reflexivity|tauto]].
  destruct (N.eq_dec o4 0) as [E4|E4]; [|rewrite aio_parse_none; [reflexivity|tauto]].
  rewrite (aio_parse_some _ _ _ _ E1 E3 E4).
  destruct (N.eqb_spec (o2 mod 16) 0) as [Z|Z]; [reflexivity|].
  destruct (N.eqb_spec own (o2 mod 16)) as [E2|E2]; cbn [negb]; [|reflexivity].
  exfalso. apply H. repeat split; try assumption; congruence.
Qed.

Lemma aio_client_attach_iff own o1 o2 o3 o4 :
  attaches (aio_client_hs own o1 o2 o3 o4) <-> (o1 = 127 /\ o2 mod 16 = own /\ own <> 0 /\ o3 = 0 /\ o4 = 0).
Proof.
  split.
  - intros [s [m [r H]]].
    destruct (N.eq_dec o1 127) as [E1|E1]; [|rewrite aio_client_hs_refuse in H; [discriminate|tauto]].
    destruct (N.eq_dec o3 0) as [E3|E3]; [|rewrite aio_client_hs_refuse in H; [discriminate|tauto]].
    destruct (N.eq_dec o4 0) as [E4|E4]; [|rewrite aio_client_hs_refuse in H; [discriminate|tauto]].
    destruct (N.eq_dec (o2 mod 16) own) as [E2|E2]; [|rewrite aio_client_hs_refuse in H; [discriminate|tauto]].
    destruct (N.eq_dec own 0) as [Z|Z]; [|tauto]. rewrite aio_client_hs_refuse in H; [discriminate|tauto].
  - intros [E1 [E2 [Hnz [E3 E4]]]]. rewrite aio_client_hs_value by assumption. repeat eexists.
Qed.

Lemma aio_client_no_escape own o1 o2 o3 o4 :
  attaches (aio_client_hs own o1 o2 o3 o4) \/ aio_client_hs own o1 o2 o3 o4 = HsRefuse false [].
Proof.
  destruct (N.eq_dec o1 127) as [E1|E1]; [|right; apply aio_client_hs_refuse; tauto].
  destruct (N.eq_dec o3 0) as [E3|E3]; [|right; apply aio_client_hs_refuse; tauto].
  destruct (N.eq_dec o4 0) as [E4|E4]; [|right; apply aio_client_hs_refuse; tauto].
  destruct (N.eq_dec (o2 mod 16) own) as [E2|E2]; [|right; apply aio_client_hs_refuse; tauto].
  destruct (N.eq_dec own 0) as [Z|Z]; [right; apply aio_client_hs_refuse; tauto|].
  left. apply aio_client_attach_iff. tauto.
Qed.

(* negotiated limit bounds *)
Lemma max_send_bounds o2 : o2 < 256 -> 512 <= 2 ^ (9 + o2 / 16) <= 16777216.
Proof.
  intros H. assert (o2 / 16 <= 15) by lia. split.
  - change 512 with (2 ^ 9). apply N.pow_le_mono_r; lia.
  - change 16777216 with (2 ^ 24). apply N.pow_le_mono_r; lia.
Qed.

(* ---------------------------------------------------------------------------------------------------------- *)
(* 2. framing: a generic header-driven loop, its fuel irrelevance, append law and idempotence                   *)
(* ---------------------------------------------------------------------------------------------------------- *)
Lemma blen_app a b : blen (a ++ b) = blen a + blen b.
Proof. unfold blen. rewrite app_length. lia. Qed.
Lemma blen_cons x a : blen (x :: a) = 1 + blen a.
Proof. unfold blen. cbn [length]. lia. Qed.
Lemma blen_nat a : N.to_nat (blen a) = length a.
Proof. unfold blen. apply Nat2N.id. Qed.

Lemma firstn_app_le {A} n (a b : list A) : (n <= length a)%nat -> firstn n (a ++ b) = firstn n a.
Proof.
  intros H. rewrite firstn_app. replace (n - length a)%nat with 0%nat by lia.
  cbn [firstn]. apply app_nil_r.
Qed.
Lemma skipn_app_le {A} n (a b : list A) : (n <= length a)%nat -> skipn n (a ++ b) = skipn n a ++ b.
Proof.
  intros H. rewrite skipn_app. replace (n - length a)%nat with 0%nat by lia. reflexivity.
Qed.

Inductive hdec := HFail (e : fev) | HData (l : N) | HCtl (l : N) (e : fev).

Section Generic.
  Variable dec : N -> N -> N -> N -> hdec.
  Variable mk : list N -> fstate.
  Hypothesis mk_open : forall u, exists h, mk u = FOpen u h.

  Fixpoint gloop (fuel : nat) (u : list N) : fstate * list fev :=
    match u with
    | b0 :: b1 :: b2 :: b3 :: rest =>
        match dec b0 b1 b2 b3 with
        | HFail e => (FDead, [e])
        | HData l =>
            if blen rest <? l then (mk u, [])
            else match fuel with
                 | O => (FOutOfFuel, [])
                 | S f => let '(s, evs) := gloop f (skipn (N.to_nat l) rest) in
                          (s, FFrame (firstn (N.to_nat l) rest) :: evs)
                 end
        | HCtl l e => if blen rest <? l then (mk u, []) else (FDead, [e])
        end
    | _ => (mk u, [])
    end.

  Lemma gloop_S f b0 b1 b2 b3 rest :
    gloop (S f) (b0 :: b1 :: b2 :: b3 :: rest) =
      match dec b0 b1 b2 b3 with
      | HFail e => (FDead, [e])
      | HData l =>
          if blen rest <? l then (mk (b0 :: b1 :: b2 :: b3 :: rest), [])
          else let '(s, evs) := gloop f (skipn (N.to_nat l) rest) in
               (s, FFrame (firstn (N.to_nat l) rest) :: evs)
      | HCtl l e => if blen rest <? l then (mk (b0 :: b1 :: b2 :: b3 :: rest), []) else (FDead, [e])
      end.
  Proof. reflexivity. Qed.

  Lemma gloop_short fuel u : (length u < 4)%nat -> gloop fuel u = (mk u, []).
  Proof.
    intros H. destruct u as [|b0 [|b1 [|b2 [|b3 rest]]]]; destruct fuel; try reflexivity; cbn [length] in H; lia.
  Qed.

  Lemma gloop_fuel f1 : forall f2 u, (length u <= f1)%nat -> (length u <= f2)%nat -> gloop f1 u = gloop f2 u.
  Proof.
    induction f1 as [|f1 IH]; intros f2 u H1 H2.
    - destruct u; [|cbn [length] in H1; lia]. destruct f2; reflexivity.
    - destruct u as [|b0 [|b1 [|b2 [|b3 rest]]]]; try (destruct f2; reflexivity).
      destruct f2 as [|f2]; [cbn [length] in H2; lia|].
      rewrite !gloop_S. destruct (dec b0 b1 b2 b3); try reflexivity.
      destruct (blen rest <? l); [reflexivity|].
      rewrite (IH f2); [reflexivity| |]; rewrite skipn_length; cbn [length] in *; lia.
  Qed.

  Definition gparse (u : list N) := gloop (length u) u.

  Lemma gparse_unfold b0 b1 b2 b3 rest :
    gparse (b0 :: b1 :: b2 :: b3 :: rest) =
      match dec b0 b1 b2 b3 with
      | HFail e => (FDead, [e])
      | HData l =>
          if blen rest <? l then (mk (b0 :: b1 :: b2 :: b3 :: rest), [])
          else let '(s, evs) := gparse (skipn (N.to_nat l) rest) in
               (s, FFrame (firstn (N.to_nat l) rest) :: evs)
      | HCtl l e => if blen rest <? l then (mk (b0 :: b1 :: b2 :: b3 :: rest), []) else (FDead, [e])
      end.
  Proof.
    unfold gparse. change (length (b0 :: b1 :: b2 :: b3 :: rest)) with (S (3 + length rest)).
    rewrite gloop_S. destruct (dec b0 b1 b2 b3); try reflexivity.
    destruct (blen rest <? l); [reflexivity|].
    rewrite (gloop_fuel (3 + length rest) (length (skipn (N.to_nat l) rest)) (skipn (N.to_nat l) rest));
      [reflexivity| |]; rewrite ?skipn_length; lia.
  Qed.

  Lemma gparse_short u : (length u < 4)%nat -> gparse u = (mk u, []).
  Proof. apply gloop_short. Qed.

  (* strong induction on the buffer length *)
  Lemma gparse_ind (P : list N -> Prop) :
    (forall u, (forall v, (length v < length u)%nat -> P v) -> P u) -> forall u, P u.
  Proof.
    intros H u. remember (length u) as n eqn:E. revert u E.
    induction n as [n IH] using lt_wf_ind. intros u ->. apply H. intros v Hv. eapply IH; [exact Hv|reflexivity].
  Qed.

  Ltac open_mk := match goal with |- context [mk ?u] =>
                    let h := fresh "h" in let Hh := fresh "Hh" in destruct (mk_open u) as [h Hh]; rewrite Hh end.

  Lemma gparse_no_fuel_out u : fst (gparse u) <> FOutOfFuel.
  Proof.
    induction u as [u IH] using gparse_ind.
    destruct (Nat.lt_ge_cases (length u) 4) as [Hs|Hl].
    { rewrite (gparse_short u Hs). cbn [fst]. destruct (mk_open u) as [h ->]. discriminate. }
    destruct u as [|b0 [|b1 [|b2 [|b3 rest]]]]; try (cbn [length] in Hl; lia).
    rewrite gparse_unfold. destruct (dec b0 b1 b2 b3); try (cbn [fst]; discriminate).
    - destruct (blen rest <? l); [cbn [fst]; open_mk; discriminate|].
      specialize (IH (skipn (N.to_nat l) rest)). destruct (gparse (skipn (N.to_nat l) rest)) as [s evs].
      cbn [fst] in *. apply IH. rewrite skipn_length. cbn [length]. lia.
    - destruct (blen rest <? l); cbn [fst]; [open_mk|]; discriminate.
  Qed.

  (* append law: parsing u ++ d = parsing u, then continuing with the residue ++ d *)
  Lemma gparse_app u : forall d,
    gparse (u ++ d) =
      match gparse u with
      | (FOpen r _, evs) => let '(s', e') := gparse (r ++ d) in (s', evs ++ e')
      | (s, evs) => (s, evs)
      end.
  Proof.
    induction u as [u IH] using gparse_ind. intros d.
    destruct (Nat.lt_ge_cases (length u) 4) as [Hs|Hl].
    { rewrite (gparse_short u Hs). destruct (mk_open u) as [h ->]. destruct (gparse (u ++ d)). reflexivity. }
    destruct u as [|b0 [|b1 [|b2 [|b3 rest]]]]; try (cbn [length] in Hl; lia).
    change ((b0 :: b1 :: b2 :: b3 :: rest) ++ d) with (b0 :: b1 :: b2 :: b3 :: (rest ++ d)).
    rewrite !gparse_unfold. destruct (dec b0 b1 b2 b3) as [e|l|l e] eqn:D; [reflexivity| |].
    - rewrite blen_app. destruct (N.ltb_spec (blen rest) l) as [Hlt|Hge].
      + destruct (mk_open (b0 :: b1 :: b2 :: b3 :: rest)) as [h ->].
        change ((b0 :: b1 :: b2 :: b3 :: rest) ++ d) with (b0 :: b1 :: b2 :: b3 :: (rest ++ d)).
        rewrite gparse_unfold, D, blen_app.
        destruct (blen rest + blen d <? l); [|destruct (gparse _)]; reflexivity.
      + destruct (N.ltb_spec (blen rest + blen d) l) as [Hlt2|_]; [lia|].
        assert (Hn : (N.to_nat l <= length rest)%nat) by (rewrite <- blen_nat; lia).
        rewrite (firstn_app_le _ _ _ Hn), (skipn_app_le _ _ _ Hn).
        rewrite (IH (skipn (N.to_nat l) rest)) by (rewrite skipn_length; cbn [length]; lia).
        destruct (gparse (skipn (N.to_nat l) rest)) as [s evs].
        destruct s as [r h| |]; try reflexivity.
        destruct (gparse (r ++ d)) as [s' e']. reflexivity.
    - rewrite blen_app. destruct (N.ltb_spec (blen rest) l) as [Hlt|Hge].
      + destruct (mk_open (b0 :: b1 :: b2 :: b3 :: rest)) as [h ->].
        change ((b0 :: b1 :: b2 :: b3 :: rest) ++ d) with (b0 :: b1 :: b2 :: b3 :: (rest ++ d)).
        rewrite gparse_unfold, D, blen_app.
        destruct (blen rest + blen d <? l); reflexivity.
      + destruct (N.ltb_spec (blen rest + blen d) l) as [Hlt2|_]; [lia|]. reflexivity.
  Qed.

  (* the residue is stuck: parsing it again changes nothing *)
  Lemma gparse_idem u : forall r h evs, gparse u = (FOpen r h, evs) -> gparse r = (FOpen r h, []).
  Proof.
    induction u as [u IH] using gparse_ind. intros r h evs.
    destruct (Nat.lt_ge_cases (length u) 4) as [Hs|Hl].
    { rewrite (gparse_short u Hs). intros H. destruct (mk_open u) as [h' Hh]. rewrite Hh in H. inversion H; subst.
      rewrite (gparse_short r Hs). congruence. }
    destruct u as [|b0 [|b1 [|b2 [|b3 rest]]]]; try (cbn [length] in Hl; lia).
    rewrite gparse_unfold. destruct (dec b0 b1 b2 b3) as [e|l|l e] eqn:D; [discriminate| |].
    - destruct (blen rest <? l) eqn:L.
      + intros H. assert (r = b0 :: b1 :: b2 :: b3 :: rest) as ->.
        { destruct (mk_open (b0 :: b1 :: b2 :: b3 :: rest)) as [h' Hh]. rewrite Hh in H. now inversion H. }
        rewrite gparse_unfold, D, L. congruence.
      + specialize (IH (skipn (N.to_nat l) rest)).
        destruct (gparse (skipn (N.to_nat l) rest)) as [s evs'] eqn:G. intros H. inversion H; subst.
        eapply IH; [|reflexivity]. rewrite skipn_length. cbn [length]. lia.
    - destruct (blen rest <? l) eqn:L; [|discriminate].
      intros H. assert (r = b0 :: b1 :: b2 :: b3 :: rest) as ->.
      { destruct (mk_open (b0 :: b1 :: b2 :: b3 :: rest)) as [h' Hh]. rewrite Hh in H. now inversion H. }
      rewrite gparse_unfold, D, L. congruence.
  Qed.

  (* feeding on top of a stuck residue *)
  Definition gwf (s : fstate) : Prop :=
    match s with FOpen u h => gparse u = (FOpen u h, []) | FDead => True | FOutOfFuel => False end.
  Definition gfeed (s : fstate) (d : list N) : fstate * list fev :=
    match s with FOpen u _ => gparse (u ++ d) | _ => (s, []) end.

  Lemma gfeed_wf s d : gwf s -> gwf (fst (gfeed s d)).
  Proof.
    destruct s as [u h| |]; cbn [gfeed gwf fst]; try tauto. intros _.
    destruct (gparse (u ++ d)) as [s1 e1] eqn:G. cbn [fst]. destruct s1 as [r h1| |]; cbn [gwf]; [|exact I|].
    - eapply gparse_idem. exact G.
    - apply (gparse_no_fuel_out (u ++ d)). now rewrite G.
  Qed.

  Lemma gfeed_app s a b : gwf s ->
    gfeed s (a ++ b) = let '(s1, e1) := gfeed s a in let '(s2, e2) := gfeed s1 b in (s2, e1 ++ e2).
  Proof.
    destruct s as [u h| |]; cbn [gfeed gwf]; [| reflexivity | tauto]. intros _.
    rewrite app_assoc, gparse_app. destruct (gparse (u ++ a)) as [s1 e1]. destruct s1 as [r h1| |]; cbn [gfeed].
    - reflexivity.
    - now rewrite app_nil_r.
    - now rewrite app_nil_r.
  Qed.

  Lemma gfeed_nil s : gwf s -> gfeed s [] = (s, []).
  Proof. destruct s as [u h| |]; cbn [gfeed gwf]; try reflexivity. now rewrite app_nil_r. Qed.

  Lemma gfeed_all s segs : gwf s -> feed_all gfeed s segs = gfeed s (concat segs).
  Proof.
    revert s. induction segs as [|d r IH]; intros s W; cbn [feed_all concat].
    - now rewrite gfeed_nil.
    - rewrite (gfeed_app s d (concat r) W). pose proof (gfeed_wf s d W) as W1.
      destruct (gfeed s d) as [s1 e1]. cbn [fst] in W1. rewrite (IH s1 W1). reflexivity.
  Qed.

  (* decoding what the sender encoded *)
  Lemma gparse_frames ps : forall tail,
    (forall p, In p ps -> (blen p < 4294967296) /\ (forall b0 b1 b2 b3, enc32 (blen p) = [b0; b1; b2; b3] -> dec b0 b1 b2 b3 = HData (blen p))) ->
    gparse (concat (map encode_frame ps) ++ tail) =
      let '(s, evs) := gparse tail in (s, map FFrame ps ++ evs).
  Proof.
    induction ps as [|p ps IH]; intros tail H; cbn [map concat app].
    - destruct (gparse tail). reflexivity.
    - destruct (H p (or_introl eq_refl)) as [Hlt Hd]. unfold encode_frame at 1. unfold enc32 at 1.
      rewrite <- !app_assoc. cbn [app]. rewrite gparse_unfold.
      rewrite (Hd _ _ _ _ eq_refl). rewrite blen_app.
      destruct (N.ltb_spec (blen p + blen (concat (map encode_frame ps) ++ tail)) (blen p)) as [L|_]; [lia|].
      rewrite blen_nat, firstn_app_le, skipn_app_le by lia.
      rewrite firstn_all, skipn_all. cbn [app].
      rewrite IH by (intros q Hq; apply H; now right).
      destruct (gparse tail). reflexivity.
  Qed.
End Generic.

(* ---------------------------------------------------------------------------------------------------------- *)
(* 2a. the Twisted machine is the generic loop                                                                  *)
(* ---------------------------------------------------------------------------------------------------------- *)
Definition dec_tx (m b0 b1 b2 b3 : N) : hdec :=
  if m <? be32 b0 b1 b2 b3 then HFail (FEscaped EPayloadExceeded) else HData (be32 b0 b1 b2 b3).
Definition mk_tx (u : list N) : fstate := FOpen u None.
Lemma mk_tx_open u : exists h, mk_tx u = FOpen u h. Proof. now exists None. Qed.

Lemma tx_loop_gloop fuel : forall m u, tx_loop fuel m u = gloop (dec_tx m) mk_tx fuel u.
Proof.
  induction fuel as [|f IH]; intros m u; destruct u as [|b0 [|b1 [|b2 [|b3 rest]]]]; try reflexivity.
  - cbn [tx_loop gloop]. unfold dec_tx. destruct (m <? be32 b0 b1 b2 b3); [reflexivity|].
    destruct (blen rest <? be32 b0 b1 b2 b3); reflexivity.
  - rewrite gloop_S. cbn [tx_loop]. unfold dec_tx. destruct (m <? be32 b0 b1 b2 b3); [reflexivity|].
    destruct (blen rest <? be32 b0 b1 b2 b3); [reflexivity|]. now rewrite IH.
Qed.

Lemma tx_feed_gfeed m s d : tx_feed m s d = gfeed (dec_tx m) mk_tx s d.
Proof. destruct s; cbn [tx_feed gfeed]; try reflexivity. apply tx_loop_gloop. Qed.

Lemma tx_wf_gwf m s : tx_wf m s <-> (gwf (dec_tx m) mk_tx s /\ match s with FOpen _ h => h = None | _ => True end).
Proof.
  destruct s as [u h| |]; cbn [tx_wf gwf]; try tauto. rewrite tx_loop_gloop. unfold gparse.
  split; [intros [-> H]; now split|intros [H ->]; now split].
Qed.

Lemma tx_wf_init m : tx_wf m (FOpen [] None).
Proof. cbn. now split. Qed.

Lemma gparse_tx_hdr m u r h evs : gparse (dec_tx m) mk_tx u = (FOpen r h, evs) -> h = None.
Proof.
  intros G. pose proof (gparse_idem _ _ mk_tx_open _ _ _ _ G) as Hi.
  destruct (Nat.lt_ge_cases (length r) 4) as [Hs|Hl].
  - rewrite (gparse_short _ _ mk_tx_open r Hs) in Hi. unfold mk_tx in Hi. congruence.
  - destruct r as [|b0 [|b1 [|b2 [|b3 rest]]]]; try (cbn [length] in Hl; lia).
    rewrite (gparse_unfold _ _ mk_tx_open) in Hi. unfold mk_tx in Hi. destruct (dec_tx m b0 b1 b2 b3); try discriminate.
    + destruct (blen rest <? l); [congruence|]. destruct (gparse _ _ _) as [s0 e0] in Hi. inversion Hi.
    + destruct (blen rest <? l); [congruence|discriminate].
Qed.

Lemma tx_feed_wf m s d : tx_wf m s -> tx_wf m (fst (tx_feed m s d)).
Proof.
  intros W. apply tx_wf_gwf in W. destruct W as [W Hh]. apply tx_wf_gwf. rewrite tx_feed_gfeed. split.
  - now apply gfeed_wf; [apply mk_tx_open|].
  - destruct s as [u h| |]; cbn [gfeed fst]; try exact I.
    destruct (gparse (dec_tx m) mk_tx (u ++ d)) as [s1 e1] eqn:G. cbn [fst]. destruct s1 as [r h1| |]; try exact I.
    eapply gparse_tx_hdr. exact G.
Qed.

Lemma tx_feed_app m s a b : tx_wf m s ->
  tx_feed m s (a ++ b) = let '(s1, e1) := tx_feed m s a in let '(s2, e2) := tx_feed m s1 b in (s2, e1 ++ e2).
Proof.
  intros W. apply tx_wf_gwf in W. destruct W as [W _]. rewrite !tx_feed_gfeed.
  rewrite (gfeed_app _ _ mk_tx_open s a b W). destruct (gfeed _ _ s a). now rewrite tx_feed_gfeed.
Qed.

Lemma feed_all_ext f g s segs : (forall s d, f s d = g s d) -> feed_all f s segs = feed_all g s segs.
Proof.
  intros E. revert s. induction segs as [|d r IH]; intros s; cbn [feed_all]; [reflexivity|].
  rewrite E. destruct (g s d). now rewrite IH.
Qed.

Lemma tx_feed_all m s segs : tx_wf m s -> feed_all (tx_feed m) s segs = tx_feed m s (concat segs).
Proof.
  intros W. apply tx_wf_gwf in W. destruct W as [W _].
  rewrite (feed_all_ext _ (gfeed (dec_tx m) mk_tx)) by (intros; apply tx_feed_gfeed).
  rewrite tx_feed_gfeed. now apply gfeed_all; [apply mk_tx_open|].
Qed.

(* ---------------------------------------------------------------------------------------------------------- *)
(* 2b. the asyncio machine (with its cached header) is the generic loop on well-formed states                    *)
(* ---------------------------------------------------------------------------------------------------------- *)
Definition dec_aio (m b0 b1 b2 b3 : N) : hdec :=
  let t := N.land b0 7 in
  if 2 <? t then HFail FLose
  else let l := be24 b1 b2 b3 in
       if m <? l then HFail FLose
       else if t =? 0 then HData l else HCtl l (FEscaped ENotImplemented).
Definition hdr_of (m : N) (u : list N) : option (N * N) :=
  match u with
  | b0 :: b1 :: b2 :: b3 :: _ =>
      let t := N.land b0 7 in
      if 2 <? t then None else let l := be24 b1 b2 b3 in if m <? l then None else Some (t, l)
  | _ => None
  end.
Definition mk_aio (m : N) (u : list N) : fstate := FOpen u (hdr_of m u).
Lemma mk_aio_open m u : exists h, mk_aio m u = FOpen u h. Proof. now eexists. Qed.

Lemma aio_loop_gloop fuel : forall m u, aio_loop fuel m None u = gloop (dec_aio m) (mk_aio m) fuel u.
Proof.
  induction fuel as [|f IH]; intros m u; destruct u as [|b0 [|b1 [|b2 [|b3 rest]]]]; try reflexivity.
  - cbn [aio_loop gloop]. unfold dec_aio, mk_aio, hdr_of.
    destruct (2 <? N.land b0 7); [reflexivity|]. destruct (m <? be24 b1 b2 b3); [reflexivity|].
    destruct (N.land b0 7 =? 0); destruct (blen rest <? be24 b1 b2 b3); reflexivity.
  - rewrite gloop_S. cbn [aio_loop]. unfold dec_aio, mk_aio, hdr_of.
    destruct (2 <? N.land b0 7); [reflexivity|]. destruct (m <? be24 b1 b2 b3); [reflexivity|].
    destruct (N.land b0 7 =? 0); destruct (blen rest <? be24 b1 b2 b3); try reflexivity. now rewrite IH.
Qed.

Lemma aio_wf_gwf m s : aio_wf m s <-> gwf (dec_aio m) (mk_aio m) s.
Proof. destruct s as [u h| |]; cbn [aio_wf gwf]; try tauto. rewrite aio_loop_gloop. unfold gparse. tauto. Qed.

(* on a well-formed state the cached header is what a fresh parse of the same four octets gives *)
Lemma aio_cached m u h : aio_wf m (FOpen u h) ->
  forall fuel d, aio_loop fuel m h (u ++ d) = aio_loop fuel m None (u ++ d).
Proof.
  intros W fuel d. destruct h as [[t l]|]; [|reflexivity].
  cbn [aio_wf] in W. destruct u as [|b0 [|b1 [|b2 [|b3 rest]]]];
    try (cbn in W; discriminate).
  change (length (b0 :: b1 :: b2 :: b3 :: rest)) with (S (3 + length rest)) in W.
  cbn [aio_loop] in W. change ((b0 :: b1 :: b2 :: b3 :: rest) ++ d) with (b0 :: b1 :: b2 :: b3 :: (rest ++ d)).
  destruct fuel; cbn [aio_loop];
    (destruct (2 <? N.land b0 7); [discriminate|]; destruct (m <? be24 b1 b2 b3); [discriminate|];
     destruct (blen rest <? be24 b1 b2 b3);
     [inversion W; subst; reflexivity
     | destruct (N.land b0 7 =? 0); [destruct (aio_loop _ _ _ _); discriminate|discriminate]]).
Qed.

Lemma aio_feed_gfeed m s d : aio_wf m s -> aio_feed m s d = gfeed (dec_aio m) (mk_aio m) s d.
Proof.
  destruct s as [u h| |]; cbn [aio_feed gfeed]; try reflexivity. intros W.
  rewrite (aio_cached m u h W). apply aio_loop_gloop.
Qed.

Lemma aio_wf_init m : aio_wf m (FOpen [] None).
Proof. reflexivity. Qed.

Lemma aio_feed_wf m s d : aio_wf m s -> aio_wf m (fst (aio_feed m s d)).
Proof.
  intros W. rewrite (aio_feed_gfeed m s d W). apply aio_wf_gwf. apply gfeed_wf; [apply mk_aio_open|].
  now apply aio_wf_gwf.
Qed.

Lemma aio_feed_app m s a b : aio_wf m s ->
  aio_feed m s (a ++ b) = let '(s1, e1) := aio_feed m s a in let '(s2, e2) := aio_feed m s1 b in (s2, e1 ++ e2).
Proof.
  intros W. pose proof (aio_feed_wf m s a W) as W1.
  rewrite (aio_feed_gfeed m s (a ++ b) W). rewrite (aio_feed_gfeed m s a W) in *.
  rewrite (gfeed_app _ _ (mk_aio_open m) s a b) by now apply aio_wf_gwf.
  destruct (gfeed _ _ s a) as [s1 e1]. cbn [fst] in W1. now rewrite (aio_feed_gfeed m s1 b W1).
Qed.

Lemma aio_feed_all m : forall segs s, aio_wf m s -> feed_all (aio_feed m) s segs = aio_feed m s (concat segs).
Proof.
  induction segs as [|d r IH]; intros s W; cbn [feed_all concat].
  - rewrite (aio_feed_gfeed m s [] W). rewrite gfeed_nil; [reflexivity|now apply aio_wf_gwf].
  - rewrite (aio_feed_app m s d (concat r) W). pose proof (aio_feed_wf m s d W) as W1.
    destruct (aio_feed m s d) as [s1 e1]. cbn [fst] in W1. now rewrite (IH s1 W1).
Qed.

(* ---------------------------------------------------------------------------------------------------------- *)
(* 2c. round trip, receive limit, the 2^24 boundary                                                             *)
(* ---------------------------------------------------------------------------------------------------------- *)
Lemma be32_enc32 n b0 b1 b2 b3 : n < 4294967296 -> enc32 n = [b0; b1; b2; b3] -> be32 b0 b1 b2 b3 = n.
Proof.
  intros H E. unfold enc32 in E.
  replace (n / 16777216) with (n / 256 / 256 / 256) in E by (rewrite !N.div_div by lia; reflexivity).
  replace (n / 65536) with (n / 256 / 256) in E by (rewrite !N.div_div by lia; reflexivity).
  inversion E; subst. unfold be32. lia.
Qed.

Lemma be24_enc32 n b0 b1 b2 b3 : n < 16777216 -> enc32 n = [b0; b1; b2; b3] -> b0 = 0 /\ be24 b1 b2 b3 = n.
Proof.
  intros H E. unfold enc32 in E.
  replace (n / 16777216) with (n / 256 / 256 / 256) in E by (rewrite !N.div_div by lia; reflexivity).
  replace (n / 65536) with (n / 256 / 256) in E by (rewrite !N.div_div by lia; reflexivity).
  inversion E; subst. unfold be24. split; lia.
Qed.

Lemma enc32_bytes n : Forall (fun b => b < 256) (enc32 n).
Proof. unfold enc32. repeat constructor; apply N.mod_lt; lia. Qed.

(* Twisted: frames no longer than MAX_LENGTH are decoded back identically and in order *)
Lemma tx_roundtrip m ps tail :
  m < 4294967296 -> (forall p, In p ps -> blen p <= m) ->
  tx_feed m (FOpen [] None) (concat (map encode_frame ps) ++ tail) =
    let '(s, evs) := tx_feed m (FOpen [] None) tail in (s, map FFrame ps ++ evs).
Proof.
  intros Hm H. rewrite !tx_feed_gfeed. cbn [gfeed app].
  apply (gparse_frames _ _ mk_tx_open). intros p Hp. specialize (H p Hp). split; [lia|].
  intros b0 b1 b2 b3 E. unfold dec_tx. rewrite (be32_enc32 (blen p) _ _ _ _ ltac:(lia) E).
  destruct (N.ltb_spec m (blen p)); [lia|reflexivity].
Qed.

Lemma aio_roundtrip m ps tail :
  (forall p, In p ps -> blen p <= m /\ blen p < 16777216) ->
  aio_feed m (FOpen [] None) (concat (map encode_frame ps) ++ tail) =
    let '(s, evs) := aio_feed m (FOpen [] None) tail in (s, map FFrame ps ++ evs).
Proof.
  intros H. rewrite !(aio_feed_gfeed m _ _ (aio_wf_init m)). cbn [gfeed app].
  apply (gparse_frames _ _ (mk_aio_open m)). intros p Hp. destruct (H p Hp) as [H1 H2]. split; [lia|].
  intros b0 b1 b2 b3 E. destruct (be24_enc32 _ _ _ _ _ H2 E) as [-> E2]. unfold dec_aio. rewrite E2.
  cbn [N.land]. change (2 <? 0) with false. cbv iota.
  destruct (N.ltb_spec m (blen p)); [lia|reflexivity].
Qed.

(* the receive limit is enforced on the four header octets alone: whatever follows (nothing, part of the payload, the
   whole payload) is never buffered *)
Lemma tx_recv_limit m n tail :
  m < n -> n < 4294967296 ->
  tx_feed m (FOpen [] None) (enc32 n ++ tail) = (FDead, [FEscaped EPayloadExceeded]).
Proof.
  intros H1 H2. rewrite tx_feed_gfeed. cbn [gfeed app]. unfold enc32. cbn [app].
  rewrite (gparse_unfold _ _ mk_tx_open). unfold dec_tx.
  rewrite (be32_enc32 n _ _ _ _ H2 eq_refl). destruct (N.ltb_spec m n); [reflexivity|lia].
Qed.

Lemma aio_recv_limit m n tail :
  m < n -> n < 16777216 ->
  aio_feed m (FOpen [] None) (enc32 n ++ tail) = (FDead, [FLose]).
Proof.
  intros H1 H2. rewrite (aio_feed_gfeed m _ _ (aio_wf_init m)). cbn [gfeed app]. unfold enc32. cbn [app].
  rewrite (gparse_unfold _ _ (mk_aio_open m)). unfold dec_aio.
  destruct (be24_enc32 n _ _ _ _ H2 eq_refl) as [E0 E]. rewrite E0, E.
  cbn [N.land]. change (2 <? 0) with false. cbv iota. destruct (N.ltb_spec m n); [reflexivity|lia].
Qed.

(* asyncio: a payload of exactly 2^24 octets (which both send sides accept when the peer announced 2^24) is framed
   as 01 00 00 00 and read back as an empty PING: NotImplementedError leaves data_received, the payload is lost *)
Lemma enc32_2p24 : enc32 16777216 = [1; 0; 0; 0].
Proof. reflexivity. Qed.

Lemma aio_boundary_2p24 m p tail :
  blen p = 16777216 ->
  aio_feed m (FOpen [] None) (encode_frame p ++ tail) = (FDead, [FEscaped ENotImplemented]).
Proof.
  intros H. rewrite (aio_feed_gfeed m _ _ (aio_wf_init m)). cbn [gfeed app]. unfold encode_frame.
  rewrite H, enc32_2p24. cbn [app]. rewrite (gparse_unfold _ _ (mk_aio_open m)). unfold dec_aio.
  change (N.land 1 7) with 1. change (2 <? 1) with false. change (1 =? 0) with false. cbv iota.
  change (be24 0 0 0) with 0. destruct (N.ltb_spec m 0); [lia|].
  destruct (N.ltb_spec (blen (p ++ tail)) 0); [lia|reflexivity].
Qed.

Lemma tx_boundary_2p24 m p :
  blen p = 16777216 -> 16777216 <= m -> m < 4294967296 ->
  tx_feed m (FOpen [] None) (encode_frame p) = (FOpen [] None, [FFrame p]).
Proof.
  intros H Hm Hm2. pose proof (tx_roundtrip m [p] [] Hm2) as R. cbn [map concat] in R.
  rewrite !app_nil_r in R. rewrite R; [reflexivity|]. intros q [<-|[]]. lia.
Qed.

(* ---------------------------------------------------------------------------------------------------------- *)
(* 3. send side                                                                                                 *)
(* ---------------------------------------------------------------------------------------------------------- *)
Lemma tx_send_limit ms p : 0 < ms -> ms < blen p -> tx_send true ms (SerOk p) = SendRaise EPayloadExceeded.
Proof.
  intros H0 H. unfold tx_send. cbn [negb]. destruct (N.ltb_spec 0 ms); [|lia]. destruct (N.ltb_spec ms (blen p)); [|lia].
  reflexivity.
Qed.
Lemma tx_send_ok ms p : blen p <= ms -> ms <= 16777216 -> tx_send true ms (SerOk p) = Sent (encode_frame p).
Proof.
  intros H Hm. unfold tx_send. cbn [negb]. destruct (N.ltb_spec ms (blen p)); [lia|]. rewrite andb_false_r.
  destruct (N.leb_spec 4294967296 (blen p)); [lia|reflexivity].
Qed.
Lemma aio_send_limit ms p : ms < blen p -> aio_send true ms (SerOk p) = SendRaise EPayloadExceeded.
Proof. intros H. unfold aio_send. cbn [negb]. destruct (N.ltb_spec ms (blen p)); [reflexivity|lia]. Qed.
Lemma aio_send_ok ms p : blen p <= ms -> ms <= 16777216 -> aio_send true ms (SerOk p) = Sent (encode_frame p).
Proof.
  intros H Hm. unfold aio_send. cbn [negb]. destruct (N.ltb_spec ms (blen p)); [lia|].
  destruct (N.leb_spec 4294967296 (blen p)); [lia|reflexivity].
Qed.
Lemma send_ser_failure f ms so : (f = tx_send \/ f = aio_send) -> (forall p, so <> SerOk p) ->
  f true ms so = SendRaise ESerialization.
Proof. intros [-> | ->] H; destruct so; try reflexivity; exfalso; now apply (H payload). Qed.
Lemma send_detached f ms so : (f = tx_send \/ f = aio_send) -> f false ms so = SendRaise ETransportLost.
Proof. intros [-> | ->]; reflexivity. Qed.

(* ---------------------------------------------------------------------------------------------------------- *)
(* 4. connection machine                                                                                        *)
(* ---------------------------------------------------------------------------------------------------------- *)
Lemma upper_app i : forall e1 e2 sc,
  upper i sc (e1 ++ e2) =
    let '(sc1, o1) := upper i sc e1 in let '(sc2, o2) := upper i sc1 e2 in (sc2, o1 ++ o2).
Proof.
  induction e1 as [|e r IH]; intros e2 sc; cbn [app upper].
  - destruct (upper i sc e2). reflexivity.
  - destruct e as [p| |x].
    + rewrite IH. destruct (upper i (tl sc) r) as [sc1 o1]. destruct (upper i sc1 e2) as [sc2 o2].
      now rewrite app_assoc.
    + rewrite IH. destruct (upper i sc r) as [sc1 o1]. destruct (upper i sc1 e2). reflexivity.
    + rewrite IH. destruct (upper i sc r) as [sc1 o1]. destruct (upper i sc1 e2). reflexivity.
Qed.

Definition frame_wf (c : cfg) (f : fstate) : Prop :=
  match c_impl c with Tx => tx_wf (recv_max c) f | Aio => aio_wf (recv_max c) f end.

Lemma frame_wf_init c : frame_wf c (FOpen [] None).
Proof. unfold frame_wf. destruct (c_impl c); [apply tx_wf_init|apply aio_wf_init]. Qed.

Lemma frame_feed_wf c f d : frame_wf c f -> frame_wf c (fst (frame_feed c f d)).
Proof. unfold frame_wf, frame_feed. destruct (c_impl c); [apply tx_feed_wf|apply aio_feed_wf]. Qed.

Lemma frame_feed_app c f a b : frame_wf c f ->
  frame_feed c f (a ++ b) =
    let '(s1, e1) := frame_feed c f a in let '(s2, e2) := frame_feed c s1 b in (s2, e1 ++ e2).
Proof. unfold frame_wf, frame_feed. destruct (c_impl c); [apply tx_feed_app|apply aio_feed_app]. Qed.

Definition conn_wf (c : cfg) (s : cstate) : Prop :=
  match ph s with
  | PHs hb => (length hb < 4)%nat /\ sess s = false
  | PEst _ _ f => frame_wf c f /\ sess s = true
  | PDead | PGone => sess s = false
  end.

Lemma conn_wf_init c sc : conn_wf c (conn_init sc).
Proof. cbn. split; [lia|reflexivity]. Qed.

Lemma data_est_app c ser ms f sc a b : frame_wf c f ->
  data_est c ser ms f sc (a ++ b) =
    let '(p1, sc1, e1) := data_est c ser ms f sc a in
    match p1 with
    | PEst ser1 ms1 f1 => let '(p2, sc2, e2) := data_est c ser1 ms1 f1 sc1 b in (p2, sc2, e1 ++ e2)
    | _ => (p1, sc1, e1)
    end.
Proof.
  intros W. unfold data_est. rewrite (frame_feed_app c f a b W).
  destruct (frame_feed c f a) as [f1 ev1].
  destruct (upper (c_impl c) sc ev1) as [sc1 o1] eqn:U. cbv beta iota.
  destruct (frame_feed c f1 b) as [f2 ev2].
  rewrite upper_app, U. destruct (upper (c_impl c) sc1 ev2) as [sc2 o2]. reflexivity.
Qed.

Lemma data_est_wf c ser ms f sc d : frame_wf c f ->
  match data_est c ser ms f sc d with (PEst _ _ f', _, _) => frame_wf c f' | _ => False end.
Proof.
  intros W. unfold data_est. pose proof (frame_feed_wf c f d W) as W1.
  destruct (frame_feed c f d) as [f1 ev1]. destruct (upper (c_impl c) sc ev1). exact W1.
Qed.

(* the handshake phase presented as one pattern match on (octets so far ++ read); on well-formed states (fewer than four
   handshake octets buffered) it is what both implementations' slicing computes *)
Definition conn_data_pm (c : cfg) (s : cstate) (d : list N) : cstate * list ev :=
  match ph s with
  | PHs hb =>
      match hb ++ d with
      | o1 :: o2 :: o3 :: o4 :: rest => hs_apply c s o1 o2 o3 o4 rest
      | few => ({| ph := PHs few; sess := sess s; script := script s |}, [])
      end
  | PEst ser ms f =>
      let '(p, sc, evs) := data_est c ser ms f (script s) d in
      ({| ph := p; sess := sess s; script := sc |}, evs)
  | PDead | PGone => (s, [])
  end.

Lemma hs_take_spec i hb d : (length hb < 4)%nat -> hs_take i hb d = (firstn 4 (hb ++ d), skipn 4 (hb ++ d)).
Proof.
  intros H. destruct i; cbn [hs_take]; [|reflexivity].
  rewrite firstn_app, skipn_app. rewrite (firstn_all2 hb) by lia.
  rewrite (skipn_all2 hb) by lia. reflexivity.
Qed.

Lemma take4_match {B} (l : list N) (F : N -> N -> N -> N -> list N -> B) (G : list N -> B) :
  (let '(h4, rest) := (firstn 4 l, skipn 4 l) in
   match h4 with [o1; o2; o3; o4] => F o1 o2 o3 o4 rest | few => G few end) =
  match l with o1 :: o2 :: o3 :: o4 :: rest => F o1 o2 o3 o4 rest | few => G few end.
Proof. destruct l as [|o1 [|o2 [|o3 [|o4 rest]]]]; reflexivity. Qed.

Lemma conn_data_eq c s d : conn_wf c s -> conn_data c s d = conn_data_pm c s d.
Proof.
  unfold conn_wf, conn_data, conn_data_pm. destruct (ph s) as [hb|ser ms f| |]; try reflexivity.
  intros [Hl _]. rewrite (hs_take_spec _ hb d Hl).
  destruct (hb ++ d) as [|o1 [|o2 [|o3 [|o4 rest]]]]; reflexivity.
Qed.

Lemma conn_data_pm_wf c s d : conn_wf c s -> conn_wf c (fst (conn_data_pm c s d)).
Proof.
  unfold conn_wf, conn_data_pm, hs_apply. destruct (ph s) as [hb|ser ms f| |] eqn:P.
  - intros [Hl Hs]. destruct (hb ++ d) as [|o1 [|o2 [|o3 [|o4 rest]]]] eqn:E;
      try (cbn [fst ph sess]; split; [cbn [length]; lia|assumption]).
    destruct (hs_decide c o1 o2 o3 o4).
    + pose proof (data_est_wf c ser max_send (FOpen [] None) (script s) rest (frame_wf_init c)) as W.
      destruct (data_est c ser max_send (FOpen [] None) (script s) rest) as [[p sc] evs].
      cbn [fst ph sess]. destruct p; try contradiction. now split.
    + reflexivity.
    + reflexivity.
  - intros [W Hs]. pose proof (data_est_wf c ser ms f (script s) d W) as W1.
    destruct (data_est c ser ms f (script s) d) as [[p sc] evs]. cbn [fst ph sess].
    destruct p; try contradiction. now split.
  - intros H. cbn [fst]. now rewrite P.
  - intros H. cbn [fst]. now rewrite P.
Qed.

Ltac short_case b :=
  unfold conn_data_pm, hs_apply; cbn [ph script sess];
  match goal with |- context [match ?l ++ b with _ => _ end] =>
    destruct (l ++ b) as [|?y1 [|?y2 [|?y3 [|?y4 ?r]]]]; try reflexivity;
    match goal with |- context [hs_decide ?c ?a1 ?a2 ?a3 ?a4] =>
      destruct (hs_decide c a1 a2 a3 a4); [destruct (data_est _ _ _ _ _ _) as [[? ?] ?]| |]; reflexivity end
  end.

(* segmentation independence of the whole connection (handshake octets, frames, session calls, transport calls) *)
Lemma conn_data_pm_app c s a b : conn_wf c s ->
  conn_data_pm c s (a ++ b) =
    let '(s1, e1) := conn_data_pm c s a in let '(s2, e2) := conn_data_pm c s1 b in (s2, e1 ++ e2).
Proof.
  intros W. unfold conn_wf in W. unfold conn_data_pm at 1 2. unfold hs_apply. destruct (ph s) as [hb|ser ms f| |] eqn:P.
  - destruct W as [Hl Hs]. rewrite app_assoc.
    destruct (hb ++ a) as [|o1 [|o2 [|o3 [|o4 rest]]]] eqn:E.
    + short_case b.
    + short_case b.
    + short_case b.
    + short_case b.
    + cbn [app]. destruct (hs_decide c o1 o2 o3 o4).
      * rewrite (data_est_app c ser max_send (FOpen [] None) (script s) rest b (frame_wf_init c)).
        pose proof (data_est_wf c ser max_send (FOpen [] None) (script s) rest (frame_wf_init c)) as W1.
        destruct (data_est c ser max_send (FOpen [] None) (script s) rest) as [[p1 sc1] e1].
        destruct p1 as [|ser1 ms1 f1| |]; try contradiction.
        unfold conn_data_pm, hs_apply. cbn [ph script sess].
        destruct (data_est c ser1 ms1 f1 sc1 b) as [[p2 sc2] e2].
        f_equal. rewrite <- !app_assoc. cbn [app]. rewrite <- !app_assoc. reflexivity.
      * unfold conn_data_pm, hs_apply. cbn [ph]. now rewrite app_nil_r.
      * unfold conn_data_pm, hs_apply. cbn [ph]. now rewrite app_nil_r.
  - destruct W as [W Hs]. rewrite (data_est_app c ser ms f (script s) a b W).
    pose proof (data_est_wf c ser ms f (script s) a W) as W1.
    destruct (data_est c ser ms f (script s) a) as [[p1 sc1] e1].
    destruct p1 as [|ser1 ms1 f1| |]; try contradiction.
    unfold conn_data_pm, hs_apply. cbn [ph script sess].
    destruct (data_est c ser1 ms1 f1 sc1 b) as [[p2 sc2] e2]. reflexivity.
  - unfold conn_data_pm. rewrite P. reflexivity.
  - unfold conn_data_pm. rewrite P. reflexivity.
Qed.

Lemma conn_data_wf c s d : conn_wf c s -> conn_wf c (fst (conn_data c s d)).
Proof. intros W. rewrite (conn_data_eq c s d W). now apply conn_data_pm_wf. Qed.

(* segmentation independence of the whole connection (handshake octets, frames, session calls, transport calls) *)
Lemma conn_data_app c s a b : conn_wf c s ->
  conn_data c s (a ++ b) =
    let '(s1, e1) := conn_data c s a in let '(s2, e2) := conn_data c s1 b in (s2, e1 ++ e2).
Proof.
  intros W. rewrite (conn_data_eq c s (a ++ b) W), (conn_data_eq c s a W), (conn_data_pm_app c s a b W).
  pose proof (conn_data_pm_wf c s a W) as W1. destruct (conn_data_pm c s a) as [s1 e1]. cbn [fst] in W1.
  now rewrite (conn_data_eq c s1 b W1).
Qed.

Lemma conn_run_split c s a b rest : conn_wf c s ->
  conn_run c s (IData (a ++ b) :: rest) = conn_run c s (IData a :: IData b :: rest).
Proof.
  intros W. cbn [conn_run conn_step]. rewrite (conn_data_app c s a b W).
  destruct (conn_data c s a) as [s1 e1]. destruct (conn_data c s1 b) as [s2 e2].
  destruct (conn_run c s2 rest) as [s3 e3]. now rewrite app_assoc.
Qed.

Lemma tx_feed_nil m s : tx_wf m s -> tx_feed m s [] = (s, []).
Proof. intros W. symmetry. exact (tx_feed_all m s [] W). Qed.
Lemma aio_feed_nil m s : aio_wf m s -> aio_feed m s [] = (s, []).
Proof. intros W. symmetry. exact (aio_feed_all m [] s W). Qed.

(* all segmentations of one octet stream: feeding the pieces = feeding the whole *)
Lemma conn_run_segs c : forall segs s, conn_wf c s ->
  conn_run c s (map IData segs) = conn_data c s (concat segs).
Proof.
  induction segs as [|d r IH]; intros s W; cbn [map concat conn_run].
  - rewrite (conn_data_eq c s [] W). unfold conn_wf in W. unfold conn_data_pm. destruct (ph s) as [hb| ser ms f | |] eqn:P.
    + rewrite app_nil_r. destruct W as [Hl Hs].
      destruct hb as [|o1 [|o2 [|o3 [|o4 rest]]]]; try (cbn [length] in Hl; lia);
        destruct s as [p se sc]; cbn [ph sess script] in *; subst; reflexivity.
    + destruct W as [W Hs]. unfold data_est. unfold frame_wf, frame_feed in *.
      destruct (c_impl c) eqn:I.
      * rewrite (tx_feed_nil _ _ W). cbn [upper].
        destruct s as [p se sc]; cbn [ph sess script] in *; subst; reflexivity.
      * rewrite (aio_feed_nil _ _ W). cbn [upper].
        destruct s as [p se sc]; cbn [ph sess script] in *; subst; reflexivity.
    + reflexivity.
    + reflexivity.
  - cbn [conn_step]. rewrite (conn_data_app c s d (concat r) W).
    pose proof (conn_data_wf c s d W) as W1. destruct (conn_data c s d) as [s1 e1]. cbn [fst] in W1.
    now rewrite (IH s1 W1).
Qed.

(* ---------------------------------------------------------------------------------------------------------- *)
(* 5. error mapping on the RawSocket leg                                                                        *)
(* ---------------------------------------------------------------------------------------------------------- *)
Definition all_ok (ms : list (N * reaction)) : Prop := Forall (fun m => snd m = ROk) ms.

Lemma deliver_all_ok i ms : all_ok ms -> deliver i ms = map (fun m => SessMsg (fst m)) ms.
Proof.
  induction 1 as [|[id r] rest Hr _ IH]; cbn [deliver map fst]; [reflexivity|].
  cbn [snd] in Hr. subst r. now rewrite IH.
Qed.

Lemma deliver_first_bad i pre id r post :
  all_ok pre -> r <> ROk ->
  deliver i (pre ++ (id, r) :: post) =
    map (fun m => SessMsg (fst m)) pre ++ SessMsg id ::
      match r, i with RCancel, Tx => [] | _, _ => [Abort] end.
Proof.
  intros H Hr. induction H as [|[id0 r0] rest Hr0 _ IH]; cbn [app deliver map fst].
  - destruct r; try contradiction; destruct i; reflexivity.
  - cbn [snd] in Hr0. subst r0. now rewrite IH.
Qed.

Definition no_escape (evs : list ev) : Prop := forall e, ~ In (Escaped e) evs.

Lemma deliver_no_escape i ms : no_escape (deliver i ms).
Proof.
  induction ms as [|[id r] rest IH]; intros e; cbn [deliver]; [tauto|].
  intros [H|H]; [discriminate|]. destruct r; destruct i; try (exact (IH e H)); cbn in H; intuition discriminate.
Qed.

Lemma string_received_no_escape i fc : no_escape (string_received i fc).
Proof.
  destruct fc; cbn [string_received]; [|apply deliver_no_escape].
  intros e [H|[]]. discriminate.
Qed.

(* escapes out of the framing layer are exactly the framing-level failures *)
Lemma upper_escapes i : forall fevs sc e,
  In (Escaped e) (snd (upper i sc fevs)) <-> In (FEscaped e) fevs.
Proof.
  induction fevs as [|x r IH]; intros sc e; cbn [upper snd]; [tauto|].
  destruct x as [p| |x].
  - specialize (IH (tl sc) e). destruct (upper i (tl sc) r) as [sc1 o1]. cbn [snd] in *.
    rewrite in_app_iff, IH. cbn [In]. split.
    + intros [H|H]; [exfalso; exact (string_received_no_escape _ _ _ H)|now right].
    + intros [H|H]; [discriminate|now right].
  - specialize (IH sc e). destruct (upper i sc r) as [sc1 o1]. cbn [snd In] in *. rewrite IH.
    split; intros [H|H]; try discriminate; now right.
  - specialize (IH sc e). destruct (upper i sc r) as [sc1 o1]. cbn [snd In] in *. rewrite IH.
    split; intros [H|H]; [left; congruence|now right|left; congruence|now right].
Qed.

(* ---------------------------------------------------------------------------------------------------------- *)
(* 6. the session is told exactly once                                                                          *)
(* ---------------------------------------------------------------------------------------------------------- *)
Lemma obs_run_app o a b : obs_run o (a ++ b) = obs_run (obs_run o a) b.
Proof. unfold obs_run. apply fold_left_app. Qed.

Lemma obs_bad evs : obs_run OBad evs = OBad.
Proof. induction evs as [|e r IH]; [reflexivity|]. cbn [obs_run fold_left] in *. destruct e; exact IH. Qed.

Lemma obs_deliver i ms : obs_run OAttached (deliver i ms) = OAttached.
Proof.
  induction ms as [|[id r] rest IH]; [reflexivity|]. cbn [deliver].
  change (obs_run OAttached (SessMsg id :: ?x)) with (obs_run OAttached x).
  destruct r; destruct i; try exact IH; reflexivity.
Qed.

Lemma obs_upper i : forall fevs sc, obs_run OAttached (snd (upper i sc fevs)) = OAttached.
Proof.
  induction fevs as [|x r IH]; intros sc; [reflexivity|]. cbn [upper]. destruct x as [p| |x].
  - specialize (IH (tl sc)). destruct (upper i (tl sc) r) as [sc1 o1]. cbn [snd] in *.
    rewrite obs_run_app. replace (obs_run OAttached (string_received i (hd Undecodable sc))) with OAttached; [exact IH|].
    destruct (hd Undecodable sc); cbn [string_received]; [reflexivity|]. symmetry. apply obs_deliver.
  - specialize (IH sc). destruct (upper i sc r) as [sc1 o1]. exact IH.
  - specialize (IH sc). destruct (upper i sc r) as [sc1 o1]. exact IH.
Qed.

Lemma obs_wr o d : obs_run o (wr d) = o.
Proof. destruct d; reflexivity. Qed.

(* invariant tying the transport's notion of "session attached" to what the session has seen *)
Definition J (s : cstate) (o : obs) : Prop :=
  match ph s with
  | PHs _ => sess s = false /\ o = ONone
  | PEst _ _ _ => sess s = true /\ o = OAttached
  | PDead => sess s = false /\ o = ONone
  | PGone => sess s = false /\ (o = ONone \/ o = OTold)
  end.

Lemma J_init sc : J (conn_init sc) ONone.
Proof. cbn. tauto. Qed.

Lemma J_data c s o d : J s o -> J (fst (conn_data c s d)) (obs_run o (snd (conn_data c s d))).
Proof.
  unfold J, conn_data. destruct (ph s) as [hb|ser ms f| |] eqn:P.
  - intros [Hs ->]. destruct (hs_take (c_impl c) hb d) as [h4 rest].
    destruct h4 as [|o1 [|o2 [|o3 [|o4 [|x r]]]]]; try (cbn; tauto).
    unfold hs_apply. destruct (hs_decide c o1 o2 o3 o4) as [ser ms reply|ab reply|e reply].
    + unfold data_est. destruct (frame_feed c (FOpen [] None) rest) as [f' fevs].
      pose proof (obs_upper (c_impl c) fevs (script s)) as U.
      destruct (upper (c_impl c) (script s) fevs) as [sc' evs]. cbn [fst snd ph sess] in *.
      split; [reflexivity|]. rewrite obs_run_app, obs_wr.
      change (obs_run ONone (SessOpen :: ?x)) with (obs_run OAttached x). rewrite obs_run_app.
      destruct (c_open_raises c); exact U.
    + cbn [fst snd ph sess]. split; [reflexivity|]. rewrite obs_run_app, obs_wr. destruct ab; reflexivity.
    + cbn [fst snd ph sess]. split; [reflexivity|]. rewrite obs_run_app, obs_wr. reflexivity.
  - intros [Hs ->]. unfold data_est. destruct (frame_feed c f d) as [f' fevs].
    pose proof (obs_upper (c_impl c) fevs (script s)) as U.
    destruct (upper (c_impl c) (script s) fevs) as [sc' evs]. cbn [fst snd ph sess] in *. now split.
  - intros H. cbn [fst snd]. rewrite P. exact H.
  - intros H. cbn [fst snd]. rewrite P. exact H.
Qed.

Lemma J_step c s o i : J s o -> J (fst (conn_step c s i)) (obs_run o (snd (conn_step c s i))).
Proof.
  destruct i as [d|clean|so| |]; cbn [conn_step].
  - apply J_data.
  - unfold J. destruct (ph s) eqn:P; cbn [fst snd ph sess]; intros [Hs Ho]; rewrite ?Hs; subst; cbn; try rewrite P; tauto.
  - intros H. destruct (match c_impl c with Tx => tx_send | Aio => aio_send end (sess s) _ so); exact H.
  - intros H. destruct (sess s); exact H.
  - intros H. destruct (c_impl c); [exact H|]. destruct (sess s); exact H.
Qed.

Lemma J_run c : forall ins s o, J s o ->
  J (fst (conn_run c s ins)) (obs_run o (snd (conn_run c s ins))).
Proof.
  induction ins as [|i r IH]; intros s o H; [exact H|]. cbn [conn_run].
  pose proof (J_step c s o i H) as H1. destruct (conn_step c s i) as [s1 e1]. cbn [fst snd] in H1.
  specialize (IH s1 _ H1). destruct (conn_run c s1 r) as [s2 e2]. cbn [fst snd] in *.
  now rewrite obs_run_app.
Qed.

Lemma J_not_bad s o : J s o -> o <> OBad.
Proof. unfold J. destruct (ph s); intros [_ H]; [| | |destruct H as [H|H]]; subst; discriminate. Qed.

(* what the observer automaton says about the number of onClose calls *)
Lemma count_close_app a b : count_close (a ++ b) = (count_close a + count_close b)%nat.
Proof. unfold count_close. now rewrite filter_app, app_length. Qed.

Definition count_spec (o o' : obs) (n : nat) : Prop :=
  match o, o' with
  | ONone, ONone => n = 0%nat
  | ONone, OAttached => n = 0%nat
  | ONone, OTold => n = 1%nat
  | OAttached, OAttached => n = 0%nat
  | OAttached, OTold => n = 1%nat
  | OTold, OTold => n = 0%nat
  | _, _ => False
  end.

Lemma obs_count' : forall evs o o', obs_run o evs = o' -> o' <> OBad -> count_spec o o' (count_close evs).
Proof.
  induction evs as [|e r IH]; intros o o' Ho Hb.
  - cbn in Ho. subst o'. destruct o; try reflexivity. congruence.
  - change (obs_run o (e :: r)) with (obs_run (obs_step o e) r) in Ho.
    pose proof (IH _ _ Ho Hb) as C.
    assert (Hc : count_close (e :: r) = ((if is_close e then 1 else 0) + count_close r)%nat).
    { unfold count_close. cbn [filter]. destruct (is_close e); reflexivity. }
    rewrite Hc. clear Hc IH.
    destruct e; destruct o; cbn [obs_step is_close] in *;
      try (rewrite obs_bad in Ho; congruence);
      destruct o'; cbn [count_spec] in *; try contradiction; try lia; try exact C.
Qed.

Lemma obs_count evs o : obs_run o evs <> OBad -> count_spec o (obs_run o evs) (count_close evs).
Proof. intros H. now apply obs_count'. Qed.

Theorem told_once c sc ins :
  let evs := snd (conn_run c (conn_init sc) ins) in
  obs_run ONone evs <> OBad /\ (count_close evs <= 1)%nat /\
  (count_close evs = 1%nat <-> obs_run ONone evs = OTold).
Proof.
  intros evs. pose proof (J_run c ins (conn_init sc) ONone (J_init sc)) as H.
  pose proof (J_not_bad _ _ H) as Hb. fold evs in H, Hb. split; [exact Hb|].
  pose proof (obs_count evs ONone Hb) as C. destruct (obs_run ONone evs); cbn [count_spec] in C; try contradiction;
    split; try lia; split; intros; try lia; try congruence.
Qed.

(* once connectionLost has been processed the session is not left attached *)
Lemma lost_gone c : forall ins s clean, In (ILost clean) ins -> ph (fst (conn_run c s ins)) = PGone.
Proof.
  assert (G : forall ins s, ph s = PGone -> ph (fst (conn_run c s ins)) = PGone).
  { induction ins as [|i r IH]; intros s P; [exact P|]. cbn [conn_run].
    assert (P1 : ph (fst (conn_step c s i)) = PGone).
    { destruct i; cbn [conn_step].
      - unfold conn_data. rewrite P. exact P.
      - rewrite P. exact P.
      - match goal with |- context [match ?x with Sent _ => _ | SendRaise _ => _ end] => destruct x end; exact P.
      - exact P.
      - destruct (c_impl c); exact P. }
    destruct (conn_step c s i) as [s1 e1]. specialize (IH s1 P1). destruct (conn_run c s1 r). exact IH. }
  induction ins as [|i r IH]; intros s clean H; [destruct H|destruct H as [H|H]].
  - subst i. cbn [conn_run conn_step].
    assert (P1 : ph (fst (match ph s with PGone => (s, []) | _ =>
                ({| ph := PGone; sess := false; script := script s |}, if sess s then [SessClose clean] else []) end)) = PGone)
      by (destruct (ph s) eqn:P; try reflexivity; exact P).
    destruct (match ph s with PGone => (s, []) | _ => _ end) as [s1 e1]. specialize (G r s1 P1).
    destruct (conn_run c s1 r). exact G.
  - cbn [conn_run]. destruct (conn_step c s i) as [s1 e1]. specialize (IH s1 clean H).
    destruct (conn_run c s1 r). exact IH.
Qed.

Lemma obs_none_inv : forall evs o, obs_run o evs = ONone -> o = ONone /\ ~ In SessOpen evs.
Proof.
  induction evs as [|e r IH]; intros o H; [split; [exact H|intros []]|].
  change (obs_run o (e :: r)) with (obs_run (obs_step o e) r) in H. destruct (IH _ H) as [H1 H2].
  destruct e; destruct o; cbn [obs_step] in H1; try discriminate;
    (split; [reflexivity|intros [X|X]; [discriminate|exact (H2 X)]]).
Qed.

Lemma obs_no_open : forall evs, ~ In SessOpen evs -> obs_run ONone evs = ONone \/ obs_run ONone evs = OBad.
Proof.
  induction evs as [|e r IH]; intros H; [now left|].
  assert (Hr : ~ In SessOpen r) by (intros X; apply H; now right).
  change (obs_run ONone (e :: r)) with (obs_run (obs_step ONone e) r).
  destruct e; cbn [obs_step]; try (apply IH; exact Hr); try (right; apply obs_bad).
  exfalso. apply H. now left.
Qed.

Theorem told_after_loss c sc ins clean :
  In (ILost clean) ins ->
  let evs := snd (conn_run c (conn_init sc) ins) in
  (In SessOpen evs -> count_close evs = 1%nat) /\ (~ In SessOpen evs -> count_close evs = 0%nat).
Proof.
  intros Hin evs. pose proof (J_run c ins (conn_init sc) ONone (J_init sc)) as H.
  pose proof (lost_gone c ins (conn_init sc) clean Hin) as G. unfold J in H. rewrite G in H.
  destruct H as [_ Ho]. fold evs in Ho.
  assert (Hb : obs_run ONone evs <> OBad) by (destruct Ho as [-> | ->]; discriminate).
  pose proof (obs_count evs ONone Hb) as C. split; intros Hs.
  - destruct Ho as [Ho|Ho]; rewrite Ho in C; [|exact C].
    destruct (obs_none_inv _ _ Ho) as [_ Hn]. contradiction.
  - destruct (obs_no_open evs Hs) as [Ho'|Ho']; [rewrite Ho' in C; exact C|contradiction].
Qed.

(* ---------------------------------------------------------------------------------------------------------- *)
(* 7. WebSocket leg: subprotocol selection                                                                      *)
(* ---------------------------------------------------------------------------------------------------------- *)
Lemma str_eqb_eq a : forall b, str_eqb a b = true <-> a = b.
Proof.
  induction a as [|x a IH]; intros [|y b]; cbn [str_eqb]; split; try congruence; try reflexivity.
  - intros H. apply andb_true_iff in H. destruct H as [H1 H2]. apply N.eqb_eq in H1. apply IH in H2. congruence.
  - intros H. inversion H; subst. rewrite N.eqb_refl. cbn. now apply IH.
Qed.
Lemma str_eqb_refl a : str_eqb a a = true.
Proof. now apply str_eqb_eq. Qed.
Lemma mem_str_In x l : mem_str x l = true <-> In x l.
Proof.
  unfold mem_str. rewrite existsb_exists. split.
  - intros [y [Hy He]]. apply str_eqb_eq in He. now subst.
  - intros H. exists x. split; [assumption|apply str_eqb_refl].
Qed.
Lemma mem_str_false x l : mem_str x l = false <-> ~ In x l.
Proof. rewrite <- mem_str_In. destruct (mem_str x l); split; congruence. Qed.

Lemma split_dot_nonempty s : split_dot s <> [].
Proof. destruct s as [|c r]; cbn [split_dot]; [discriminate|]. destruct (c =? dot); [discriminate|]. destruct (split_dot r); discriminate. Qed.

Lemma join_split s : join_dot (split_dot s) = s.
Proof.
  induction s as [|c r IH]; [reflexivity|]. cbn [split_dot]. destruct (N.eqb_spec c dot) as [->|Hc].
  - pose proof (split_dot_nonempty r) as Hn. destruct (split_dot r) as [|h t]; [contradiction|].
    change (join_dot ([] :: h :: t)) with ([] ++ dot :: join_dot (h :: t)). now rewrite IH.
  - pose proof (split_dot_nonempty r) as Hn. destruct (split_dot r) as [|h t]; [contradiction|].
    destruct t as [|x t']; cbn [join_dot app] in *; congruence.
Qed.

Lemma split_dot_cons_dot a r : ~ In dot a -> split_dot (a ++ dot :: r) = a :: split_dot r.
Proof.
  induction a as [|c a IH]; intros H; cbn [app split_dot].
  - now rewrite N.eqb_refl.
  - destruct (N.eqb_spec c dot) as [->|Hc]; [exfalso; apply H; now left|].
    rewrite IH by (intros X; apply H; now right). reflexivity.
Qed.

Section Subproto.
  Variable pyint : str -> option Z.
  Hypothesis pyint_2 : pyint s_2 = Some 2%Z.          (* int("2") == 2 *)

  Lemma parse_mk_proto sid : parse_subproto pyint (mk_proto sid) = Some (2%Z, sid).
  Proof.
    unfold parse_subproto, mk_proto.
    rewrite split_dot_cons_dot by (cbv; intuition discriminate).
    rewrite split_dot_cons_dot by (cbv; intuition discriminate).
    rewrite str_eqb_refl, pyint_2, join_split. reflexivity.
  Qed.

  Definition acceptable (keys : list str) (p : str) : Prop :=
    exists sid, parse_subproto pyint p = Some (2%Z, sid) /\ In sid keys.

  Lemma acceptable_dec keys p :
    match parse_subproto pyint p with
    | Some (v, sid) => if (v =? 2)%Z && mem_str sid keys then acceptable keys p else ~ acceptable keys p
    | None => ~ acceptable keys p
    end.
  Proof.
    destruct (parse_subproto pyint p) as [[v sid]|] eqn:E.
    - destruct (Z.eqb_spec v 2) as [->|Hv]; cbn [andb].
      + destruct (mem_str sid keys) eqn:M.
        * exists sid. split; [exact E|now apply mem_str_In].
        * intros [sid' [H1 H2]]. rewrite E in H1. inversion H1; subst. apply mem_str_false in M. contradiction.
      + intros [sid' [H1 H2]]. rewrite E in H1. inversion H1; subst. contradiction.
    - intros [sid' [H1 H2]]. rewrite E in H1. discriminate.
  Qed.

  (* the server's choice is the FIRST entry of the client's list that the server can speak *)
  Lemma server_select_first keys : forall protos,
    match server_select pyint keys protos with
    | Some (p, sid) =>
        exists pre post, protos = pre ++ p :: post /\ (forall q, In q pre -> ~ acceptable keys q) /\
                         parse_subproto pyint p = Some (2%Z, sid) /\ In sid keys
    | None => forall q, In q protos -> ~ acceptable keys q
    end.
  Proof.
    induction protos as [|p r IH]; cbn [server_select]; [intros q []|].
    pose proof (acceptable_dec keys p) as D.
    destruct (parse_subproto pyint p) as [[v sid]|] eqn:E.
    - destruct ((v =? 2)%Z && mem_str sid keys) eqn:B.
      + exists [], r. split; [reflexivity|]. split; [intros q []|].
        apply andb_true_iff in B. destruct B as [B1 B2]. apply Z.eqb_eq in B1. subst. split; [exact E|now apply mem_str_In].
      + destruct (server_select pyint keys r) as [[p' sid']|].
        * destruct IH as [pre [post [H1 [H2 H3]]]]. exists (p :: pre), post. split; [now rewrite H1|].
          split; [|exact H3]. intros q [<-|Hq]; [exact D|now apply H2].
        * intros q [<-|Hq]; [exact D|now apply IH].
    - destruct (server_select pyint keys r) as [[p' sid']|].
      + destruct IH as [pre [post [H1 [H2 H3]]]]. exists (p :: pre), post. split; [now rewrite H1|].
        split; [|exact H3]. intros q [<-|Hq]; [exact D|now apply H2].
      + intros q [<-|Hq]; [exact D|now apply IH].
  Qed.

  (* real client against real server: agreement on the serializer, or refusal exactly when nothing is shared *)
  Lemma subproto_end_to_end srv_ids cl_ids :
    match server_select pyint srv_ids (client_protocols cl_ids) with
    | Some (p, sid) =>
        client_accept pyint cl_ids (Some p) = CAccept sid /\ In sid srv_ids /\ In sid cl_ids /\
        p = mk_proto sid /\
        exists pre post, cl_ids = pre ++ sid :: post /\ forall x, In x pre -> ~ In x srv_ids
    | None => (forall x, In x cl_ids -> ~ In x srv_ids) /\ client_accept pyint cl_ids None = CRefuse
    end.
  Proof.
    pose proof (server_select_first srv_ids (client_protocols cl_ids)) as F.
    destruct (server_select pyint srv_ids (client_protocols cl_ids)) as [[p sid]|].
    - destruct F as [pre [post [H1 [H2 [H3 H4]]]]].
      unfold client_protocols in H1. apply map_eq_app in H1. destruct H1 as [l1 [l2 [E1 [E2 E3]]]].
      destruct l2 as [|x l2]; [discriminate|]. cbn [map] in E3. inversion E3; subst.
      rewrite parse_mk_proto in H3. inversion H3; subst.
      assert (Hin : In sid (l1 ++ sid :: l2)) by (apply in_or_app; right; now left).
      split; [|split; [exact H4|split; [exact Hin|split; [reflexivity|]]]].
      + unfold client_accept. assert (M : mem_str (mk_proto sid) (client_protocols (l1 ++ sid :: l2)) = true).
        { apply mem_str_In. unfold client_protocols. apply in_map. exact Hin. }
        rewrite M, parse_mk_proto. apply mem_str_In in Hin. now rewrite Hin.
      + exists l1, l2. split; [reflexivity|]. intros x Hx Hs. apply (H2 (mk_proto x)); [now apply in_map|].
        exists x. split; [apply parse_mk_proto|exact Hs].
    - split; [|reflexivity]. intros x Hx Hs. apply (F (mk_proto x)); [unfold client_protocols; now apply in_map|].
      exists x. split; [apply parse_mk_proto|exact Hs].
  Qed.

  Lemma client_accept_sound cl_ids resp sid : client_accept pyint cl_ids resp = CAccept sid ->
    In sid cl_ids /\ resp = Some (mk_proto sid).
  Proof.
    unfold client_accept. destruct resp as [p|]; [|discriminate].
    destruct (mem_str p (client_protocols cl_ids)) eqn:M; [|discriminate].
    apply mem_str_In in M. unfold client_protocols in M. apply in_map_iff in M. destruct M as [x [<- Hx]].
    rewrite parse_mk_proto. destruct (mem_str x cl_ids) eqn:M2; [|discriminate].
    intros H. inversion H; subst. split; [assumption|reflexivity].
  Qed.

  Lemma client_no_keyerror cl_ids resp : client_accept pyint cl_ids resp <> CKeyError.
  Proof.
    unfold client_accept. destruct resp as [p|]; [|discriminate].
    destruct (mem_str p (client_protocols cl_ids)) eqn:M; [|discriminate].
    apply mem_str_In in M. unfold client_protocols in M. apply in_map_iff in M. destruct M as [x [<- Hx]].
    rewrite parse_mk_proto. apply mem_str_In in Hx. rewrite Hx. discriminate.
  Qed.
End Subproto.

(* ---------------------------------------------------------------------------------------------------------- *)
(* 8. WebSocket leg: error mapping and told-once                                                               *)
(* ---------------------------------------------------------------------------------------------------------- *)
Lemma ws_wrong_type bin att b fc : b <> bin -> ws_on_message bin att b fc = [WBailout gen_close_protocol_error].
Proof. intros H. unfold ws_on_message. destruct b; destruct bin; try congruence; reflexivity. Qed.

Lemma ws_undecodable bin att : ws_on_message bin att bin Undecodable = [WBailout gen_close_protocol_error].
Proof. unfold ws_on_message. now rewrite Bool.eqb_reflx. Qed.

Lemma ws_deliver_all_ok ms : all_ok ms -> ws_deliver true ms = map (fun m => WSessMsg (fst m)) ms.
Proof.
  induction 1 as [|[id r] rest Hr _ IH]; cbn [ws_deliver map fst negb]; [reflexivity|].
  cbn [snd] in Hr. subst r. now rewrite IH.
Qed.

Lemma ws_deliver_first_bad pre id r post :
  all_ok pre -> r <> ROk ->
  ws_deliver true (pre ++ (id, r) :: post) =
    map (fun m => WSessMsg (fst m)) pre ++
      [WSessMsg id; WBailout (match r with RProto => gen_close_protocol_error | _ => gen_close_internal_error end)].
Proof.
  intros H Hr. induction H as [|[id0 r0] rest Hr0 _ IH]; cbn [app ws_deliver map fst negb].
  - destruct r; try contradiction; reflexivity.
  - cbn [snd] in Hr0. subst r0. now rewrite IH.
Qed.

Lemma ws_message_ok bin ms : ws_on_message bin true bin (Batch ms) = ws_deliver true ms.
Proof. unfold ws_on_message. now rewrite Bool.eqb_reflx. Qed.

Lemma wobs_run_app o a b : wobs_run o (a ++ b) = wobs_run (wobs_run o a) b.
Proof. unfold wobs_run. apply fold_left_app. Qed.
Lemma wobs_bad evs : wobs_run OBad evs = OBad.
Proof. induction evs as [|e r IH]; [reflexivity|]. cbn [wobs_run fold_left] in *. destruct e; exact IH. Qed.

Lemma wobs_deliver_att ms : wobs_run OAttached (ws_deliver true ms) = OAttached.
Proof.
  induction ms as [|[id r] rest IH]; [reflexivity|]. cbn [ws_deliver negb].
  change (wobs_run OAttached (WSessMsg id :: ?x)) with (wobs_run OAttached x). destruct r; try exact IH; reflexivity.
Qed.
Lemma wobs_deliver_det o ms : wobs_run o (ws_deliver false ms) = o.
Proof. destruct ms as [|[id r] rest]; reflexivity. Qed.

Definition WJ (att : bool) (o : obs) : Prop := (att = true /\ o = OAttached) \/ (att = false /\ (o = ONone \/ o = OTold)).

Lemma WJ_step bin att o i : is_wopen i = false -> WJ att o ->
  WJ (fst (ws_step bin att i)) (wobs_run o (snd (ws_step bin att i))).
Proof.
  intros Hi H. destruct i as [r|b fc|clean|so| |]; [discriminate| | | | |]; cbn [ws_step fst snd].
  - unfold ws_on_message. destruct (negb (Bool.eqb b bin)); [exact H|]. destruct fc; [exact H|].
    destruct H as [[-> ->]|[-> Ho]].
    + rewrite wobs_deliver_att. now left.
    + rewrite wobs_deliver_det. now right.
  - destruct H as [[-> ->]|[-> Ho]]; right; cbn; tauto.
  - destruct att; [destruct so|]; exact H.
  - destruct att; exact H.
  - destruct att; exact H.
Qed.

Lemma WJ_run bin : forall ins att o, forallb (fun i => negb (is_wopen i)) ins = true -> WJ att o ->
  WJ (fst (ws_run bin att ins)) (wobs_run o (snd (ws_run bin att ins))).
Proof.
  induction ins as [|i r IH]; intros att o Hn H; [exact H|]. cbn [forallb] in Hn.
  apply andb_true_iff in Hn. destruct Hn as [Hi Hr]. apply negb_true_iff in Hi.
  cbn [ws_run]. pose proof (WJ_step bin att o i Hi H) as H1.
  destruct (ws_step bin att i) as [a1 e1]. cbn [fst snd] in H1. specialize (IH a1 _ Hr H1).
  destruct (ws_run bin a1 r) as [a2 e2]. cbn [fst snd] in *. now rewrite wobs_run_app.
Qed.

Lemma ws_run_app bin : forall a att b,
  ws_run bin att (a ++ b) = let '(a1, e1) := ws_run bin att a in let '(a2, e2) := ws_run bin a1 b in (a2, e1 ++ e2).
Proof.
  induction a as [|i r IH]; intros att b; cbn [app ws_run].
  - destruct (ws_run bin att b). reflexivity.
  - destruct (ws_step bin att i) as [a1 e1]. rewrite IH. destruct (ws_run bin a1 r) as [a2 e2].
    destruct (ws_run bin a2 b) as [a3 e3]. now rewrite app_assoc.
Qed.

Lemma count_wclose_app a b : count_wclose (a ++ b) = (count_wclose a + count_wclose b)%nat.
Proof. unfold count_wclose. now rewrite filter_app, app_length. Qed.

Lemma wobs_count' : forall evs o o', wobs_run o evs = o' -> o' <> OBad -> count_spec o o' (count_wclose evs).
Proof.
  induction evs as [|e r IH]; intros o o' Ho Hb.
  - cbn in Ho. subst o'. destruct o; try reflexivity. congruence.
  - change (wobs_run o (e :: r)) with (wobs_run (wobs_step o e) r) in Ho.
    pose proof (IH _ _ Ho Hb) as C.
    assert (Hc : count_wclose (e :: r) = ((if is_wclose e then 1 else 0) + count_wclose r)%nat).
    { unfold count_wclose. cbn [filter]. destruct (is_wclose e); reflexivity. }
    rewrite Hc. clear Hc IH.
    destruct e; destruct o; cbn [wobs_step is_wclose] in *;
      try (rewrite wobs_bad in Ho; congruence);
      destruct o'; cbn [count_spec] in *; try contradiction; try lia; try exact C.
Qed.

Lemma wobs_from_attached : forall evs, wobs_run OAttached evs <> ONone.
Proof.
  assert (T : forall evs, wobs_run OTold evs <> ONone).
  { induction evs as [|e r IH]; [discriminate|].
    change (wobs_run OTold (e :: r)) with (wobs_run (wobs_step OTold e) r).
    destruct e; cbn [wobs_step]; try exact IH; rewrite wobs_bad; discriminate. }
  induction evs as [|e r IH]; [discriminate|].
  change (wobs_run OAttached (e :: r)) with (wobs_run (wobs_step OAttached e) r).
  destruct e; cbn [wobs_step]; try exact IH; try apply T; rewrite wobs_bad; discriminate.
Qed.

Definition is_wclose_in (i : wsin) : bool := match i with WClose _ => true | _ => false end.

Lemma ws_closed_stays bin : forall ins att,
  forallb (fun i => negb (is_wopen i)) ins = true ->
  (att = false \/ existsb is_wclose_in ins = true) -> fst (ws_run bin att ins) = false.
Proof.
  induction ins as [|i r IH]; intros att Hn H.
  - destruct H as [-> |H]; [reflexivity|discriminate].
  - cbn [forallb] in Hn. apply andb_true_iff in Hn. destruct Hn as [Hi Hr]. cbn [ws_run].
    assert (H1 : fst (ws_step bin att i) = false \/ existsb is_wclose_in r = true).
    { destruct i; try discriminate; cbn [ws_step fst existsb is_wclose_in orb] in *;
        try (destruct H as [-> |H]; [now left|now right]). now left. }
    destruct (ws_step bin att i) as [a1 e1]. cbn [fst] in H1. specialize (IH a1 Hr H1).
    destruct (ws_run bin a1 r). exact IH.
Qed.

(* the engine calls onOpen once, then anything but another onOpen *)
Theorem ws_told_once bin raises post :
  forallb (fun i => negb (is_wopen i)) post = true ->
  let evs := snd (ws_run bin false (WOpen raises :: post)) in
  wobs_run ONone evs <> OBad /\ (count_wclose evs <= 1)%nat /\
  (existsb is_wclose_in post = true -> count_wclose evs = 1%nat).
Proof.
  intros Hpost evs. subst evs. cbn [ws_run ws_step].
  pose proof (WJ_run bin post true OAttached Hpost (or_introl (conj eq_refl eq_refl))) as H.
  pose proof (ws_closed_stays bin post true Hpost) as Hc.
  destruct (ws_run bin true post) as [a2 e2]. cbn [fst snd] in *.
  set (evs := (WSessOpen :: (if raises then [WBailout gen_close_internal_error] else [])) ++ e2).
  assert (E : wobs_run ONone evs = wobs_run OAttached e2).
  { unfold evs. rewrite wobs_run_app. destruct raises; reflexivity. }
  assert (Hb : wobs_run ONone evs <> OBad).
  { rewrite E. destruct H as [[_ ->]|[_ [-> | ->]]]; discriminate. }
  pose proof (wobs_count' evs ONone _ eq_refl Hb) as C. split; [exact Hb|]. split.
  - destruct (wobs_run ONone evs); cbn [count_spec] in C; try contradiction; lia.
  - intros Hx. specialize (Hc (or_intror Hx)). subst a2.
    destruct H as [[X _]|[_ [Ho|Ho]]]; [discriminate| |].
    + exfalso. exact (wobs_from_attached e2 Ho).
    + rewrite E, Ho in C. exact C.
Qed.

(* ---------------------------------------------------------------------------------------------------------- *)
(* 9. the handshake decision in arithmetic form: general lemma + the 2^16 sweep                                 *)
(* ---------------------------------------------------------------------------------------------------------- *)
Definition hs_spec (c : cfg) (o1 o2 o3 o4 : N) : hs_out :=
  let ser := o2 mod 16 in
  let ms := 2 ^ (9 + o2 / 16) in
  let magic := o1 =? 127 in
  let rz := (o3 =? 0) && (o4 =? 0) in
  match c_impl c, c_role c with
  | Tx, Server => if magic && rz && memN ser (c_sers c)
                  then HsAttach ser ms [127; 16 * (N.log2_up (c_max c) - 9) + ser; 0; 0] else HsRefuse true []
  | Tx, Client => if magic && rz && (ser =? own_ser c) then HsAttach ser ms [] else HsRefuse true []
  | Aio, Server => if magic && rz
                   then (if memN ser (c_sers c) then HsAttach ser ms [127; 240 + ser; 0; 0] else HsRefuse false [127; 16; 0; 0])
                   else HsRefuse false []
  | Aio, Client => if magic && rz && (ser =? own_ser c) && negb (own_ser c =? 0)
                   then HsAttach ser ms [] else HsRefuse false []
  end.

Lemma hs_decide_spec c o1 o2 o3 o4 : hs_decide c o1 o2 o3 o4 = hs_spec c o1 o2 o3 o4.
Proof.
  unfold hs_decide, hs_spec. destruct (c_impl c); destruct (c_role c).
  - destruct (N.eqb_spec o1 127) as [E|E]; cbn [andb]; [|apply tx_server_hs_refuse; tauto].
    destruct (N.eqb_spec o3 0) as [E3|E3]; cbn [andb]; [|apply tx_server_hs_refuse; tauto].
    destruct (N.eqb_spec o4 0) as [E4|E4]; cbn [andb]; [|apply tx_server_hs_refuse; tauto].
    destruct (memN (o2 mod 16) (c_sers c)) eqn:M.
    + apply memN_In in M. unfold tx_rexp. now rewrite tx_server_hs_value.
    + apply memN_false in M. apply tx_server_hs_refuse. tauto.
  - destruct (N.eqb_spec o1 127) as [E|E]; cbn [andb]; [|apply tx_client_hs_refuse; tauto].
    destruct (N.eqb_spec o3 0) as [E3|E3]; cbn [andb]; [|apply tx_client_hs_refuse; tauto].
    destruct (N.eqb_spec o4 0) as [E4|E4]; cbn [andb]; [|apply tx_client_hs_refuse; tauto].
    destruct (N.eqb_spec (o2 mod 16) (own_ser c)) as [E2|E2].
    + rewrite tx_client_hs_value by assumption. now rewrite E2.
    + apply tx_client_hs_refuse. tauto.
  - destruct (N.eqb_spec o1 127) as [E|E]; cbn [andb]; [|apply aio_server_hs_refuse; tauto].
    destruct (N.eqb_spec o3 0) as [E3|E3]; cbn [andb]; [|apply aio_server_hs_refuse; tauto].
    destruct (N.eqb_spec o4 0) as [E4|E4]; cbn [andb]; [|apply aio_server_hs_refuse; tauto].
    destruct (memN (o2 mod 16) (c_sers c)) eqn:M.
    + apply memN_In in M. unfold aio_lexp. now rewrite aio_server_hs_value.
    + apply memN_false in M. now apply aio_server_hs_unsupported.
  - destruct (N.eqb_spec o1 127) as [E|E]; cbn [andb]; [|apply aio_client_hs_refuse; tauto].
    destruct (N.eqb_spec o3 0) as [E3|E3]; cbn [andb]; [|apply aio_client_hs_refuse; tauto].
    destruct (N.eqb_spec o4 0) as [E4|E4]; cbn [andb]; [|apply aio_client_hs_refuse; tauto].
    destruct (N.eqb_spec (o2 mod 16) (own_ser c)) as [E2|E2]; cbn [andb]; [|apply aio_client_hs_refuse; tauto].
    destruct (N.eqb_spec (own_ser c) 0) as [Z|Z]; cbn [negb]; [apply aio_client_hs_refuse; tauto|].
    rewrite aio_client_hs_value by assumption. now rewrite E2.
Qed.

(* boolean equality on outcomes, for the sweep *)
Fixpoint listN_eqb (a b : list N) : bool :=
  match a, b with
  | [], [] => true
  | x :: a', y :: b' => (x =? y) && listN_eqb a' b'
  | _, _ => false
  end.
Lemma listN_eqb_eq a : forall b, listN_eqb a b = true -> a = b.
Proof.
  induction a as [|x a IH]; intros [|y b]; cbn [listN_eqb]; try congruence.
  intros H. apply andb_true_iff in H. destruct H as [H1 H2]. apply N.eqb_eq in H1. apply IH in H2. congruence.
Qed.
Definition exn_eqb (a b : exn) : bool :=
  match a, b with
  | ETransportLost, ETransportLost | EPayloadExceeded, EPayloadExceeded | ENotImplemented, ENotImplemented
  | EValueError, EValueError | ESerialization, ESerialization | EOther, EOther => true
  | _, _ => false
  end.
Lemma exn_eqb_eq a b : exn_eqb a b = true -> a = b.
Proof. destruct a; destruct b; cbn; congruence. Qed.
Definition hs_out_eqb (a b : hs_out) : bool :=
  match a, b with
  | HsAttach s m r, HsAttach s' m' r' => (s =? s') && (m =? m') && listN_eqb r r'
  | HsRefuse ab r, HsRefuse ab' r' => Bool.eqb ab ab' && listN_eqb r r'
  | HsEscaped e r, HsEscaped e' r' => exn_eqb e e' && listN_eqb r r'
  | _, _ => false
  end.
Lemma hs_out_eqb_eq a b : hs_out_eqb a b = true -> a = b.
Proof.
  destruct a; destruct b; cbn [hs_out_eqb]; try congruence; intros H;
    repeat (apply andb_true_iff in H; destruct H as [H ?]).
  - apply N.eqb_eq in H. apply N.eqb_eq in H1. apply listN_eqb_eq in H0. congruence.
  - apply Bool.eqb_prop in H. apply listN_eqb_eq in H0. congruence.
  - apply exn_eqb_eq in H. apply listN_eqb_eq in H0. congruence.
Qed.

Definition rangeN (n : nat) : list N := map N.of_nat (seq 0 n).
Lemma In_rangeN n x : x < N.of_nat n -> In x (rangeN n).
Proof.
  intros H. unfold rangeN. apply in_map_iff. exists (N.to_nat x). split; [apply N2Nat.id|].
  apply in_seq. lia.
Qed.

Definition rep_reserved : list (N * N) := [(0, 0); (0, 1); (170, 187)].
Definition rep_cfgs : list cfg :=
  flat_map (fun i => flat_map (fun r =>
    map (fun sm => {| c_impl := i; c_role := r; c_sers := fst sm; c_max := snd sm; c_open_raises := false |})
        [(gen_tx_server_default_ids, 16777216); ([gen_rs_id_msgpack; gen_rs_id_cbor], 1000)])
    [Server; Client]) [Tx; Aio].

(* the independent reading: bit operations replaced by div/mod, decisions as one table *)
Definition forallb4 {A B C D} (f : A -> B -> C -> D -> bool) (la : list A) (lb : list B) (lc : list C) (ld : list D) : bool :=
  forallb (fun a => forallb (fun b => forallb (fun c => forallb (fun d => f a b c d) ld) lc) lb) la.
Lemma forallb4_lift {A B C D} (f : A -> B -> C -> D -> bool) la lb lc ld :
  forallb4 f la lb lc ld = true -> forall a b c d, In a la -> In b lb -> In c lc -> In d ld -> f a b c d = true.
Proof.
  unfold forallb4. intros S a b c d Ha Hb Hc Hd.
  rewrite forallb_forall in S. specialize (S a Ha).
  rewrite forallb_forall in S. specialize (S b Hb).
  rewrite forallb_forall in S. specialize (S c Hc).
  rewrite forallb_forall in S. exact (S d Hd).
Qed.

Definition hs_check (c : cfg) (o1 o2 : N) (r34 : N * N) : bool :=
  hs_out_eqb (hs_decide c o1 o2 (fst r34) (snd r34)) (hs_spec c o1 o2 (fst r34) (snd r34)).
Definition octets : list N := rangeN 256.

Lemma hs_sweep_ok : forallb4 hs_check rep_cfgs octets octets rep_reserved = true.
Proof. vm_cast_no_check (eq_refl true). Qed.

Lemma hs_sweep_lifted c o1 o2 o3 o4 :
  In c rep_cfgs -> o1 < 256 -> o2 < 256 -> In (o3, o4) rep_reserved ->
  hs_decide c o1 o2 o3 o4 = hs_spec c o1 o2 o3 o4.
Proof.
  intros Hc H1 H2 H34. apply hs_out_eqb_eq.
  exact (forallb4_lift hs_check rep_cfgs octets octets rep_reserved hs_sweep_ok c o1 o2 (o3, o4) Hc
           (In_rangeN 256 o1 H1) (In_rangeN 256 o2 H2) H34).
Qed.

(* which exceptions can leave the two frame receivers *)
Lemma tx_loop_escapes fuel : forall m u e, In (FEscaped e) (snd (tx_loop fuel m u)) -> e = EPayloadExceeded.
Proof.
  induction fuel as [|f IH]; intros m u e; destruct u as [|b0 [|b1 [|b2 [|b3 rest]]]]; cbn [tx_loop snd In]; try tauto;
    destruct (m <? be32 b0 b1 b2 b3); cbn [snd In]; try (intros [H|[]]; congruence);
    destruct (blen rest <? be32 b0 b1 b2 b3); cbn [snd In]; try tauto.
  specialize (IH m (skipn (N.to_nat (be32 b0 b1 b2 b3)) rest) e).
  destruct (tx_loop f m (skipn (N.to_nat (be32 b0 b1 b2 b3)) rest)). cbn [snd In] in *.
  intros [H|H]; [discriminate|now apply IH].
Qed.

Lemma aio_loop_escapes fuel : forall m h u e, In (FEscaped e) (snd (aio_loop fuel m h u)) -> e = ENotImplemented.
Proof.
  induction fuel as [|f IH]; intros m h u e; destruct u as [|b0 [|b1 [|b2 [|b3 rest]]]]; cbn [aio_loop snd In]; try tauto.
  - destruct (match h with Some h0 => Some h0 | None => _ end) as [[t l]|]; cbn [snd In]; [|intros [H|[]]; discriminate].
    destruct (blen rest <? l); cbn [snd In]; [tauto|]. destruct (t =? 0); cbn [snd In]; [tauto|].
    intros [H|[]]; congruence.
  - destruct (match h with Some h0 => Some h0 | None => _ end) as [[t l]|]; cbn [snd In]; [|intros [H|[]]; discriminate].
    destruct (blen rest <? l); cbn [snd In]; [tauto|]. destruct (t =? 0); cbn [snd In]; [|intros [H|[]]; congruence].
    specialize (IH m None (skipn (N.to_nat l) rest) e). destruct (aio_loop f m None (skipn (N.to_nat l) rest)).
    cbn [snd In] in *. intros [H|H]; [discriminate|now apply IH].
Qed.

Lemma conn_data_escapes c s d e :
  In (Escaped e) (snd (conn_data c s d)) ->
  (c_impl c = Tx /\ e = EPayloadExceeded) \/ (c_impl c = Aio /\ e = ENotImplemented).
Proof.
  assert (F : forall f d0 sc, In (Escaped e) (snd (upper (c_impl c) sc (snd (frame_feed c f d0)))) ->
              (c_impl c = Tx /\ e = EPayloadExceeded) \/ (c_impl c = Aio /\ e = ENotImplemented)).
  { intros f d0 sc H. apply upper_escapes in H. unfold frame_feed in H. destruct (c_impl c).
    - left. split; [reflexivity|]. destruct f; cbn [tx_feed snd In] in H; try tauto. eapply tx_loop_escapes; exact H.
    - right. split; [reflexivity|]. destruct f; cbn [aio_feed snd In] in H; try tauto. eapply aio_loop_escapes; exact H. }
  assert (D : forall ser ms f sc d0, In (Escaped e) (snd (data_est c ser ms f sc d0)) ->
              (c_impl c = Tx /\ e = EPayloadExceeded) \/ (c_impl c = Aio /\ e = ENotImplemented)).
  { intros ser ms f sc d0. unfold data_est. specialize (F f d0 sc). destruct (frame_feed c f d0) as [f' fevs].
    cbn [snd] in F. destruct (upper (c_impl c) sc fevs). exact F. }
  unfold conn_data. destruct (ph s) as [hb|ser ms f| |].
  - destruct (hs_take (c_impl c) hb d) as [h4 rest].
    destruct h4 as [|o1 [|o2 [|o3 [|o4 [|x r]]]]]; cbn [snd In]; try tauto.
    unfold hs_apply. rewrite hs_decide_spec. unfold hs_spec.
    destruct (c_impl c) eqn:I; destruct (c_role c) eqn:R;
      repeat match goal with |- context [if ?b then _ else _] => destruct b end;
      try (cbn [snd wr In app]; intros H; repeat (destruct H as [H|H]; try discriminate); tauto);
      try (match goal with |- context [data_est c ?a ?b ?f ?sc ?dd] =>
             specialize (D a b f sc dd); destruct (data_est c a b f sc dd) as [[p sc'] evs] end;
           cbn [snd] in *; intros H; apply in_app_or in H; destruct H as [H|H];
           [unfold wr in H; cbn in H; repeat (destruct H as [H|H]; try discriminate); tauto|];
           cbn [In] in H; destruct H as [H|H]; [discriminate|];
           apply in_app_or in H; destruct H as [H|H];
           [destruct (c_open_raises c); cbn in H; repeat (destruct H as [H|H]; try discriminate); tauto|];
           destruct (D H) as [[X Y]|[X Y]]; try congruence; tauto).
  - specialize (D ser ms f (script s) d). destruct (data_est c ser ms f (script s) d) as [[p sc'] evs].
    cbn [snd] in *. intros H. destruct (D H); tauto.
  - cbn [snd In]. tauto.
  - cbn [snd In]. tauto.
Qed.

(* ---------------------------------------------------------------------------------------------------------- *)
(* 10. statements cited by Props/C13.v                                                                          *)
(* ---------------------------------------------------------------------------------------------------------- *)
Lemma attach_values c o1 o2 o3 o4 ser ms reply :
  hs_decide c o1 o2 o3 o4 = HsAttach ser ms reply ->
  ser = o2 mod 16 /\ ms = 2 ^ (9 + o2 / 16) /\ o1 = 127 /\ (o2 < 256 -> 512 <= ms <= 16777216).
Proof.
  rewrite hs_decide_spec. unfold hs_spec.
  destruct (N.eqb_spec o1 127) as [E|E]; destruct (c_impl c); destruct (c_role c); cbn [andb];
    repeat match goal with |- context [if ?b then _ else _] => destruct b end; try discriminate;
    intros H; inversion H; subst; (split; [reflexivity|split; [reflexivity|split; [reflexivity|apply max_send_bounds]]]).
Qed.

Lemma refusal_never_attaches c o1 o2 o3 o4 :
  o1 <> 127 -> ~ attaches (hs_decide c o1 o2 o3 o4).
Proof. intros H [s [m [r E]]]. apply attach_values in E. tauto. Qed.

(* regression witnesses of the two repaired handshake defects (F-C13-2, F-C13-1) *)
Lemma tx_reserved_now_refused :
  tx_server_hs [1] 24 127 1 170 187 = HsRefuse true [] /\ tx_client_hs 1 127 1 170 187 = HsRefuse true [].
Proof. split; reflexivity. Qed.
Lemma aio_server_unsupported_now_refused : aio_server_hs [1] 15 127 243 0 0 = HsRefuse false [127; 16; 0; 0].
Proof. reflexivity. Qed.

(* the 2^24 boundary as an existence statement *)
Lemma boundary_2p24_witness :
  exists p, blen p = 16777216 /\
            aio_send true 16777216 (SerOk p) = Sent (encode_frame p) /\
            tx_send true 16777216 (SerOk p) = Sent (encode_frame p) /\
            (forall m tail, aio_feed m (FOpen [] None) (encode_frame p ++ tail) = (FDead, [FEscaped ENotImplemented])).
Proof.
  exists (repeat 0 (N.to_nat 16777216)).
  assert (L : blen (repeat 0 (N.to_nat 16777216)) = 16777216).
  { unfold blen. rewrite repeat_length. apply N2Nat.id. }
  split; [exact L|]. split; [apply aio_send_ok; lia|]. split; [apply tx_send_ok; lia|].
  intros m tail. now apply aio_boundary_2p24.
Qed.

(* binary flag agreement *)
Lemma ws_send_flag bin p : ws_step bin true (WSend (SerOk p)) = (true, [WSendMessage p bin]).
Proof. reflexivity. Qed.

(* ---------------------------------------------------------------------------------------------------------- *)
(* 11. announced receive limit = enforced receive limit (over the expressions translated from the source)        *)
(* ---------------------------------------------------------------------------------------------------------- *)
Lemma log2_up_range m : 512 <= m <= 16777216 -> 9 <= N.log2_up m <= 24.
Proof.
  intros [H1 H2]. split.
  - change 9 with (N.log2_up 512). now apply N.log2_up_le_mono.
  - change 24 with (N.log2_up 16777216). now apply N.log2_up_le_mono.
Qed.

Lemma pow_log2_up_ge m : 512 <= m -> m <= 2 ^ N.log2_up m.
Proof. intros H. destruct (N.log2_up_spec m) as [_ H2]; [lia|exact H2]. Qed.

Lemma announced_is_enforced m : 512 <= m <= 16777216 ->
  gen_tx_server_recv_limit m = 2 ^ (9 + gen_tx_server_announce_nibble m) /\
  gen_tx_client_recv_limit m = 2 ^ (9 + gen_tx_client_announce_nibble m) /\
  gen_tx_server_announce_nibble m <= 15 /\ gen_tx_client_announce_nibble m <= 15 /\
  m <= gen_tx_server_recv_limit m /\ m <= gen_tx_client_recv_limit m /\
  gen_aio_default_max_length = 2 ^ (9 + gen_aio_default_length_exp).
Proof.
  intros H. pose proof (log2_up_range m H) as [L1 L2]. pose proof (pow_log2_up_ge m (proj1 H)) as P.
  unfold gen_tx_server_recv_limit, gen_tx_client_recv_limit, gen_tx_server_announce_nibble, gen_tx_client_announce_nibble.
  replace (9 + (N.log2_up m - 9)) with (N.log2_up m) by lia.
  repeat split; try reflexivity; try lia; exact P.
Qed.

(* the nibble the hand-written handshake model writes (tx_rexp - 9, aio_lexp) is the one the source announces *)
Definition announced_nibble (c : cfg) : N :=
  match c_impl c with Tx => tx_rexp c - 9 | Aio => aio_lexp end.

Lemma model_announces_source_nibble c :
  gen_tx_server_announce_nibble (c_max c) = tx_rexp c - 9 /\ gen_tx_client_announce_nibble (c_max c) = tx_rexp c - 9 /\
  aio_lexp = gen_aio_default_length_exp /\
  conn_made {| c_impl := Tx; c_role := Client; c_sers := c_sers c; c_max := c_max c; c_open_raises := c_open_raises c |} =
    [Write [127; octet2 (gen_tx_client_announce_nibble (c_max c)) (own_ser c); 0; 0]] /\
  conn_made {| c_impl := Aio; c_role := Client; c_sers := c_sers c; c_max := c_max c; c_open_raises := c_open_raises c |} =
    [Write [127; octet2 gen_aio_default_length_exp (own_ser c); 0; 0]].
Proof. repeat split; reflexivity. Qed.

Lemma recv_limit_is_announced c :
  512 <= c_max c <= 16777216 -> (c_impl c = Aio -> c_max c = gen_aio_default_max_length) ->
  recv_max c = 2 ^ (9 + announced_nibble c) /\ announced_nibble c <= 15.
Proof.
  intros H Ha. destruct (announced_is_enforced (c_max c) H) as [E1 [E2 [B1 [B2 _]]]].
  unfold recv_max, announced_nibble. destruct (c_impl c); destruct (c_role c).
  - split; [exact E1|exact B1].
  - split; [exact E2|exact B2].
  - split; [now rewrite Ha|unfold aio_lexp; lia].
  - split; [now rewrite Ha|unfold aio_lexp; lia].
Qed.

(* one octet more than the announced size is refused on the header by every implementation/role ... *)
Lemma over_announced_rejected c n tail :
  512 <= c_max c <= 16777216 -> (c_impl c = Aio -> c_max c = gen_aio_default_max_length) ->
  recv_max c < n -> n < 16777216 ->
  snd (frame_feed c (FOpen [] None) (enc32 n ++ tail)) =
    match c_impl c with Tx => [FEscaped EPayloadExceeded] | Aio => [FLose] end.
Proof.
  intros H Ha Hn Hn2. unfold frame_feed. destruct (c_impl c).
  - rewrite tx_recv_limit by lia. reflexivity.
  - rewrite aio_recv_limit by lia. reflexivity.
Qed.

(* ... and everything up to the announced size (below the 2^24 wrap of the length field) is delivered *)
Lemma within_announced_accepted c p :
  blen p <= recv_max c -> blen p < 16777216 -> recv_max c < 4294967296 ->
  frame_feed c (FOpen [] None) (encode_frame p) = (FOpen [] None, [FFrame p]).
Proof.
  intros H1 H2 H3. unfold frame_feed. destruct (c_impl c).
  - pose proof (tx_roundtrip (recv_max c) [p] [] H3) as R. cbn [map concat] in R. rewrite !app_nil_r in R.
    rewrite R; [reflexivity|]. intros q [<-|[]]. exact H1.
  - pose proof (aio_roundtrip (recv_max c) [p] []) as R. cbn [map concat] in R. rewrite !app_nil_r in R.
    rewrite R; [reflexivity|]. intros q [<-|[]]. split; assumption.
Qed.

(* ---------------------------------------------------------------------------------------------------------- *)
(* 12. asyncio WebSocket adapter: segments reach the engine in arrival order, however many arrive per iteration   *)
(* ---------------------------------------------------------------------------------------------------------- *)
Lemma adapter_order : forall ins q,
  snd (adapter_run q (ins ++ [ATurn])) = q ++ received ins.
Proof.
  assert (Pb : gen_aio_ws_push_back = true) by reflexivity.
  assert (Pf : gen_aio_ws_pop_front = true) by reflexivity.
  induction ins as [|i r IH]; intros q.
  - cbn [app adapter_run adapter_step snd received]. unfold q_drain. rewrite Pf. now rewrite !app_nil_r.
  - cbn [app adapter_run]. destruct i as [d|]; cbn [adapter_step received].
    + specialize (IH (q_push q d)). destruct (adapter_run (q_push q d) (r ++ [ATurn])) as [q2 o2]. cbn [snd app] in *.
      rewrite IH. unfold q_push. rewrite Pb. now rewrite <- app_assoc.
    + specialize (IH []). destruct (adapter_run [] (r ++ [ATurn])) as [q2 o2]. cbn [snd app] in *.
      rewrite IH. unfold q_drain. now rewrite Pf.
Qed.

Lemma adapter_stream ins : concat (snd (adapter_run [] (ins ++ [ATurn]))) = concat (received ins).
Proof. now rewrite adapter_order. Qed.

(* ---------------------------------------------------------------------------------------------------------- *)
(* 13. decodable but not a WAMP message: a protocol violation on every transport                                 *)
(* ---------------------------------------------------------------------------------------------------------- *)
Lemma envelope_ok_inv r : envelope_ok r = true ->
  exists z, r = RMsg (TInt z) true /\ (0 <= z)%Z /\ In (Z.to_N z) gen_wamp_type_codes.
Proof.
  destruct r as [| |t ok]; try discriminate. destruct t; try discriminate. cbn [envelope_ok]. intros H.
  apply andb_true_iff in H. destruct H as [H Hok]. apply andb_true_iff in H. destruct H as [Hz Hm].
  exists z. subst ok. split; [reflexivity|]. split; [now apply Z.leb_le|now apply memN_In].
Qed.

Lemma violation_closes r id re :
  envelope_ok r = false ->
  (forall bin att, ws_on_message bin att bin (classify r id re) = [WBailout gen_close_protocol_error]) /\
  (forall i, string_received i (classify r id re) = [Abort]).
Proof.
  intros H. unfold classify. rewrite H. split; [intros bin att; apply ws_undecodable|reflexivity].
Qed.

Lemma non_integer_codes_rejected :
  (forall b ok, envelope_ok (RMsg (TBool b) ok) = false) /\ (forall ok, envelope_ok (RMsg TFloat ok) = false) /\
  (forall ok, envelope_ok (RMsg TStr ok) = false) /\ (forall ok, envelope_ok (RMsg TNull ok) = false) /\
  (forall ok, envelope_ok (RMsg TBytes ok) = false) /\ (forall ok, envelope_ok (RMsg TList ok) = false) /\
  (forall ok, envelope_ok (RMsg TDict ok) = false) /\ envelope_ok RNotList = false /\ envelope_ok REmptyList = false /\
  (forall z ok, (z < 0)%Z -> envelope_ok (RMsg (TInt z) ok) = false) /\
  (forall z ok, ~ In (Z.to_N z) gen_wamp_type_codes -> envelope_ok (RMsg (TInt z) ok) = false).
Proof.
  repeat split; try reflexivity.
  - intros z ok H. cbn [envelope_ok]. destruct (Z.leb_spec 0 z); [lia|reflexivity].
  - intros z ok H. cbn [envelope_ok]. apply memN_false in H. rewrite H. now rewrite andb_false_r.
Qed.
