(* Generic lemmas: strings, dict lookup, option emission. *)
From Coq Require Import NArith ZArith List Bool String Lia.
From AV Require Import Model.WampValue Model.WampSchema.
Import ListNotations.
Open Scope list_scope.

Lemma str_eqb_refl : forall a, str_eqb a a = true.
Proof. induction a; simpl; auto. rewrite N.eqb_refl, IHa. reflexivity. Qed.

Lemma str_eqb_eq : forall a b, str_eqb a b = true -> a = b.
Proof.
  induction a; destruct b; simpl; intros H; try discriminate; auto.
  apply andb_true_iff in H. destruct H as [H1 H2]. apply N.eqb_eq in H1. subst. f_equal. auto.
Qed.

Lemma str_eqb_neq : forall a b, a <> b -> str_eqb a b = false.
Proof. intros a b H. destruct (str_eqb a b) eqn:E; auto. apply str_eqb_eq in E. contradiction. Qed.

Lemma str_eqb_sym : forall a b, str_eqb a b = str_eqb b a.
Proof.
  intros a b. destruct (str_eqb a b) eqn:E.
  - apply str_eqb_eq in E. subst. symmetry. apply str_eqb_refl.
  - destruct (str_eqb b a) eqn:E2; auto. apply str_eqb_eq in E2. subst. rewrite str_eqb_refl in E. discriminate.
Qed.

(* ---- dget ---- *)
Lemma dget_app : forall k a b, dget k (a ++ b) = match dget k a with Some x => Some x | None => dget k b end.
Proof.
  induction a as [|[[k'|] v] a IH]; simpl; intros; auto.
  destruct (str_eqb k k'); auto.
Qed.

Lemma dget_cons_same : forall k v d, dget k ((KS k, v) :: d) = Some v.
Proof. intros. simpl. rewrite str_eqb_refl. reflexivity. Qed.

Lemma dget_cons_other : forall k k' v d, k <> k' -> dget k ((KS k', v) :: d) = dget k d.
Proof. intros. simpl. rewrite str_eqb_neq; auto. Qed.

(* keys of a dict that are strings *)
Fixpoint dkeys (d : list (key * value)) : list str :=
  match d with
  | [] => []
  | (KS k, _) :: r => k :: dkeys r
  | (KBad, _) :: r => dkeys r
  end.

Lemma dget_none_iff : forall k d, dget k d = None <-> ~ In k (dkeys d).
Proof.
  induction d as [|[[k'|] v] d IH]; simpl.
  - tauto.
  - destruct (str_eqb k k') eqn:E.
    + apply str_eqb_eq in E. subst. split; [discriminate | intros H; exfalso; apply H; auto].
    + split.
      * intros H [H1|H1]; [subst; rewrite str_eqb_refl in E; discriminate | apply IH in H; contradiction].
      * intros H. apply IH. intros H1. apply H. auto.
  - exact IH.
Qed.

Lemma dkeys_app : forall a b, dkeys (a ++ b) = dkeys a ++ dkeys b.
Proof. induction a as [|[[k|] v] a IH]; simpl; intros; auto. rewrite IH. reflexivity. Qed.

Lemma keys_all_str_app : forall a b, keys_all_str (a ++ b) = keys_all_str a && keys_all_str b.
Proof. intros. unfold keys_all_str. apply forallb_app. Qed.

(* ---- emit / norm ---- *)
Definition okeys (specs : list ospec) : list str := map (fun o => s2l (o_key o)) specs.

Lemma dkeys_emit_aux_incl : forall all specs vals k, In k (dkeys (emit_aux all specs vals)) -> In k (okeys specs).
Proof.
  induction specs as [|o specs IH]; destruct vals as [|v vals]; simpl; intros k H; try contradiction.
  rewrite dkeys_app in H. apply in_app_or in H. destruct H as [H|H].
  - destruct (holds all o v); simpl in H; [destruct H; auto; contradiction | contradiction].
  - right. eapply IH; eauto.
Qed.

Lemma keys_all_str_emit_aux : forall all specs vals, keys_all_str (emit_aux all specs vals) = true.
Proof.
  induction specs as [|o specs IH]; destruct vals as [|v vals]; simpl; auto.
  rewrite keys_all_str_app, IH. destruct (holds all o v); reflexivity.
Qed.

Lemma dget_emit_aux_notin : forall all specs vals k, ~ In k (okeys specs) -> dget k (emit_aux all specs vals) = None.
Proof. intros. apply dget_none_iff. intros H1. apply H. eapply dkeys_emit_aux_incl; eauto. Qed.

(* the central lookup lemma: reading every option back from  pre ++ emitted ++ post *)
Lemma ovals_emit_aux : forall all specs vals pre post,
  List.length vals = List.length specs ->
  NoDup (okeys specs) ->
  (forall k, In k (okeys specs) -> dget k pre = None) ->
  (forall k, In k (okeys specs) -> dget k post = None) ->
  map (oval (pre ++ emit_aux all specs vals ++ post)) specs = norm_aux all specs vals.
Proof.
  induction specs as [|o specs IH]; intros vals pre post Hlen Hnd Hpre Hpost.
  - destruct vals; reflexivity.
  - destruct vals as [|v vals]; [discriminate|]. simpl in Hlen. injection Hlen as Hlen.
    simpl in Hnd. inversion Hnd as [|? ? Hnotin Hnd']; subst.
    simpl map. simpl norm_aux. f_equal.
    + unfold oval. rewrite dget_app. rewrite (Hpre (s2l (o_key o))) by (simpl; auto).
      simpl emit_aux. rewrite <- app_assoc. rewrite dget_app.
      destruct (holds all o v).
      * simpl. rewrite str_eqb_refl. reflexivity.
      * simpl. rewrite dget_app. rewrite dget_emit_aux_notin by exact Hnotin.
        rewrite (Hpost (s2l (o_key o))) by (simpl; auto). reflexivity.
    + simpl emit_aux.
      replace (pre ++ ((if holds all o v then [(KS (s2l (o_key o)), v)] else []) ++ emit_aux all specs vals) ++ post)
        with ((pre ++ (if holds all o v then [(KS (s2l (o_key o)), v)] else [])) ++ emit_aux all specs vals ++ post)
        by (rewrite <- !app_assoc; reflexivity).
      apply IH; auto.
      * intros k Hk. rewrite dget_app. rewrite Hpre by (simpl; auto).
        destruct (holds all o v); simpl; auto.
        rewrite str_eqb_neq; auto. intros ->. contradiction.
      * intros k Hk. apply Hpost. simpl; auto.
Qed.

Lemma norm_aux_length : forall all specs vals, List.length vals = List.length specs ->
  List.length (norm_aux all specs vals) = List.length specs.
Proof. induction specs; destruct vals; simpl; intros; try discriminate; auto. Qed.
