(* Proofs about Model/WsFrame.v and Model/WsSend.v (property C01; role-policy lemmas cited by C15). *)
From Coq Require Import NArith ZArith List Bool Lia.
From AV Require Import Model.Masker Model.WsFrame Model.WsSend Proofs.MaskerProofs.
Import ListNotations.
Open Scope N_scope.

Ltac Zify.zify_post_hook ::= Z.to_euclidean_division_equations.

(* ---------- big endian ---------- *)
Lemma be_encode_length w v : length (be_encode w v) = w.
Proof. induction w; cbn [be_encode length]; congruence. Qed.

Lemma be_encode_octets w v : octets (be_encode w v).
Proof.
  induction w; cbn [be_encode]; constructor; [|assumption].
  apply N.mod_lt. lia.
Qed.

Lemma be_decode_acc w v acc :
  fold_left (fun a b => a * 256 + b) (be_encode w v) acc = acc * 256 ^ N.of_nat w + v mod 256 ^ N.of_nat w.
Proof.
  revert acc; induction w as [|w IH]; intros acc.
  - cbn. rewrite N.mod_1_r. lia.
  - cbn [be_encode fold_left]. rewrite IH.
    replace (N.of_nat (S w)) with (N.succ (N.of_nat w)) by lia.
    rewrite N.pow_succ_r'.
    set (p := 256 ^ N.of_nat w).
    assert (Hp : p <> 0) by (apply N.pow_nonzero; lia).
    rewrite (N.mul_comm 256 p).
    rewrite (N.mod_mul_r v p 256) by lia. lia.
Qed.

Lemma be_roundtrip w v : v < 256 ^ N.of_nat w -> be_decode (be_encode w v) = v.
Proof. intros H. unfold be_decode. rewrite be_decode_acc, N.mod_small by exact H. lia. Qed.

(* ---------- length field ---------- *)
Lemma encode_len_field n : n <= max_len -> encode_len n = Some (len_field n).
Proof.
  intros H. unfold encode_len, len_field.
  destruct (n <=? 125); [reflexivity|]. destruct (n <=? 65535); [reflexivity|].
  destruct (n <=? max_len) eqn:E; [reflexivity|]. apply N.leb_gt in E. lia.
Qed.

Lemma encode_len_none n : max_len < n -> encode_len n = None.
Proof.
  intros H. unfold encode_len, max_len in *.
  destruct (n <=? 125) eqn:E1; [apply N.leb_le in E1; lia|].
  destruct (n <=? 65535) eqn:E2; [apply N.leb_le in E2; lia|].
  destruct (n <=? 9223372036854775807) eqn:E3; [apply N.leb_le in E3; lia|]. reflexivity.
Qed.

Lemma firstn_app_exact {A} (a b : list A) n : length a = n -> firstn n (a ++ b) = a.
Proof. intros <-. rewrite firstn_app, Nat.sub_diag, firstn_all. cbn. apply app_nil_r. Qed.
Lemma skipn_app_exact {A} (a b : list A) n : length a = n -> skipn n (a ++ b) = b.
Proof. intros <-. rewrite skipn_app, Nat.sub_diag, skipn_all. reflexivity. Qed.

Lemma decode_len_field n rest : n <= max_len ->
  decode_len (fst (len_field n)) (snd (len_field n) ++ rest) = DLOk n rest.
Proof.
  intros H. unfold len_field, decode_len.
  destruct (n <=? 125) eqn:E1.
  - cbn [fst snd app]. rewrite E1. reflexivity.
  - apply N.leb_gt in E1. destruct (n <=? 65535) eqn:E2.
    + apply N.leb_le in E2. cbn [fst snd].
      change (126 <=? 125) with false. change (126 =? 126) with true. cbv iota.
      rewrite app_length, be_encode_length.
      replace (Nat.ltb (2 + length rest) 2) with false by (symmetry; apply Nat.ltb_ge; lia).
      rewrite firstn_app_exact by apply be_encode_length.
      rewrite skipn_app_exact by apply be_encode_length.
      rewrite be_roundtrip by (cbn; lia).
      replace (n <? 126) with false by (symmetry; apply N.ltb_ge; lia). reflexivity.
    + apply N.leb_gt in E2. cbn [fst snd].
      change (127 <=? 125) with false. change (127 =? 126) with false. cbv iota.
      rewrite app_length, be_encode_length.
      replace (Nat.ltb (8 + length rest) 8) with false by (symmetry; apply Nat.ltb_ge; lia).
      rewrite firstn_app_exact by apply be_encode_length.
      rewrite skipn_app_exact by apply be_encode_length.
      rewrite be_roundtrip by (unfold max_len in H; cbn; lia).
      replace (n <? 65536) with false by (symmetry; apply N.ltb_ge; lia).
      replace (max_len <? n) with false by (symmetry; apply N.ltb_ge; lia). reflexivity.
Qed.

(* C01_len_roundtrip *)
Lemma len_roundtrip n : n <= max_len ->
  exists l7 el, encode_len n = Some (l7, el) /\
    (forall rest, decode_len l7 (el ++ rest) = DLOk n rest) /\
    octets el /\ l7 < 128 /\
    (n <= 125 -> l7 = n /\ el = []) /\
    (126 <= n <= 65535 -> l7 = 126 /\ length el = 2%nat) /\
    (65536 <= n -> l7 = 127 /\ length el = 8%nat).
Proof.
  intros H. exists (fst (len_field n)), (snd (len_field n)).
  split; [rewrite encode_len_field by exact H; now destruct (len_field n)|].
  split; [intros rest; now apply decode_len_field|].
  unfold len_field.
  destruct (n <=? 125) eqn:E1; [apply N.leb_le in E1|apply N.leb_gt in E1; destruct (n <=? 65535) eqn:E2;
    [apply N.leb_le in E2|apply N.leb_gt in E2]]; cbn [fst snd].
  - repeat split; try lia; constructor.
  - repeat split; try lia; try apply be_encode_octets; apply be_encode_length.
  - repeat split; try lia; try apply be_encode_octets; apply be_encode_length.
Qed.

(* ---------- first two octets ---------- *)
Lemma byte0_fields fin rsv op : rsv < 8 -> op < 16 ->
  let b0 := byte0 fin rsv op in
  (128 <=? b0) = fin /\ (b0 / 16) mod 8 = rsv /\ b0 mod 16 = op /\ b0 < 256.
Proof.
  intros Hr Ho b0. subst b0. unfold byte0.
  destruct fin.
  - split; [apply N.leb_le; lia|]. split; [|split]; lia.
  - split; [apply N.leb_gt; lia|]. split; [|split]; lia.
Qed.

Lemma len_field_lt n : fst (len_field n) < 128.
Proof.
  unfold len_field. destruct (n <=? 125) eqn:E; [apply N.leb_le in E; cbn; lia|].
  destruct (n <=? 65535); cbn; lia.
Qed.

(* ---------- one frame ---------- *)
Lemma lenN_length (l : list N) : N.to_nat (lenN l) = length l.
Proof. unfold lenN. lia. Qed.

Definition frame_header_check (rc : rcfg) (f : frame) : option perr :=
  header_check rc (f_fin f) (f_rsv f) (f_opcode f) (match f_mask f with Some _ => true | None => false end)
               (lenN (f_payload f)).

Lemma parse_encode_frame rc f rest : frame_ok f ->
  parse_frame rc (encode_frame f ++ rest) =
    match frame_header_check rc f with Some e => FBad e | None => FOk f rest end.
Proof.
  intros (Hr & Ho & Hk & Hl).
  unfold encode_frame, encode_header, mask_payload, frame_header_check.
  pose proof (decode_len_field (lenN (f_payload f))) as Hd.
  pose proof (len_field_lt (lenN (f_payload f))) as Hlt.
  destruct (len_field (lenN (f_payload f))) as [l7 el]. cbn [fst snd] in Hd, Hlt.
  destruct (byte0_fields (f_fin f) _ _ Hr Ho) as (B1 & B2 & B3 & _).
  destruct f as [fin rsv op mk pl]; cbn [f_fin f_rsv f_opcode f_mask f_payload] in *.
  destruct mk as [k|].
  - destruct Hk as [Hk4 _].
    rewrite <- !app_comm_cons, <- !app_assoc.
    cbn [app parse_frame]. rewrite B1, B2, B3.
    replace (128 <=? 128 + l7) with true by (symmetry; apply N.leb_le; lia).
    replace ((128 + l7) mod 128) with l7 by lia.
    rewrite Hd by exact Hl.
    destruct (header_check rc fin rsv op true (lenN pl)); [reflexivity|].
    rewrite !app_length, Hk4.
    replace (Nat.ltb (4 + _) 4) with false by (symmetry; apply Nat.ltb_ge; lia).
    rewrite firstn_app_exact, skipn_app_exact by exact Hk4.
    rewrite lenN_app.
    replace (lenN (xor_spec k 0 pl) + lenN rest <? lenN pl) with false
      by (symmetry; apply N.ltb_ge; unfold lenN; rewrite xor_spec_length; lia).
    rewrite firstn_app_exact, skipn_app_exact by (rewrite xor_spec_length; symmetry; apply lenN_length).
    rewrite xor_spec_involutive. reflexivity.
  - rewrite <- !app_comm_cons, <- !app_assoc.
    cbn [app parse_frame]. rewrite B1, B2, B3.
    replace (128 <=? l7) with false by (symmetry; apply N.leb_gt; lia).
    replace (l7 mod 128) with l7 by lia.
    rewrite Hd by exact Hl.
    destruct (header_check rc fin rsv op false (lenN pl)); [reflexivity|].
    rewrite lenN_app.
    replace (lenN pl + lenN rest <? lenN pl) with false by (symmetry; apply N.ltb_ge; lia).
    rewrite firstn_app_exact, skipn_app_exact by (symmetry; apply lenN_length). reflexivity.
Qed.

Lemma header_check_syntax fin rsv op m n : header_check rc_syntax fin rsv op m n = None.
Proof. unfold header_check, rc_syntax. cbn. rewrite !andb_false_r. reflexivity. Qed.

(* C01_frame_roundtrip *)
Lemma frame_roundtrip f rest : frame_ok f -> parse_frame rc_syntax (encode_frame f ++ rest) = FOk f rest.
Proof.
  intros H. rewrite parse_encode_frame by exact H. unfold frame_header_check.
  now rewrite header_check_syntax.
Qed.
(* ---------- the stream as a sequence of frames ---------- *)
Lemma skipn_le {A} k (l : list A) : (length (skipn k l) <= length l)%nat.
Proof. rewrite skipn_length. lia. Qed.

Lemma decode_len_shorter l7 r n r1 : decode_len l7 r = DLOk n r1 -> (length r1 <= length r)%nat.
Proof.
  unfold decode_len. destruct (l7 <=? 125); [intros [= _ <-]; lia|].
  destruct (l7 =? 126).
  - destruct (Nat.ltb (length r) 2); [discriminate|].
    destruct (be_decode (firstn 2 r) <? 126); [discriminate|]. intros HH; injection HH as _ <-. apply (skipn_le 2).
  - destruct (Nat.ltb (length r) 8); [discriminate|].
    destruct (be_decode (firstn 8 r) <? 65536); [discriminate|].
    destruct (max_len <? be_decode (firstn 8 r)); [discriminate|]. intros HH; injection HH as _ <-. apply (skipn_le 8).
Qed.

Lemma parse_frame_consumes rc bs f rest : parse_frame rc bs = FOk f rest -> (length rest + 2 <= length bs)%nat.
Proof.
  unfold parse_frame. destruct bs as [|b0 [|b1 r]]; try discriminate.
  destruct (decode_len (b1 mod 128) r) as [n r1| |e] eqn:Ed; try discriminate.
  apply decode_len_shorter in Ed.
  destruct (header_check _ _ _ _ _ _); [discriminate|].
  destruct (128 <=? b1).
  - destruct (Nat.ltb (length r1) 4); [discriminate|].
    destruct (lenN (skipn 4 r1) <? n); [discriminate|]. intros HH; injection HH as _ <-.
    change (match r1 with | _ :: _ :: _ :: _ :: l2 => l2 | _ => [] end) with (skipn 4 r1).
    pose proof (skipn_le (N.to_nat n) (skipn 4 r1)). pose proof (skipn_le 4 r1). cbn [length]. lia.
  - destruct (lenN r1 <? n); [discriminate|]. intros HH; injection HH as _ <-.
    pose proof (skipn_le (N.to_nat n) r1). cbn [length]. lia.
Qed.

Lemma split_frames_fuel rc f1 : forall f2 bs, (length bs < f1)%nat -> (length bs < f2)%nat ->
  split_frames rc f1 bs = split_frames rc f2 bs.
Proof.
  induction f1 as [|f1 IH]; intros f2 bs H1 H2; [lia|].
  destruct f2 as [|f2]; [lia|]. cbn [split_frames].
  destruct (parse_frame rc bs) as [f rest| |e] eqn:Ep; try reflexivity.
  apply parse_frame_consumes in Ep.
  rewrite (IH f2 rest) by lia. reflexivity.
Qed.

Lemma split_frames_total rc fuel : forall bs, (length bs < fuel)%nat -> split_frames rc fuel bs <> SOutOfFuel.
Proof.
  induction fuel as [|fuel IH]; intros bs H; [lia|]. cbn [split_frames].
  destruct (parse_frame rc bs) as [f rest| |e] eqn:Ep; try discriminate.
  apply parse_frame_consumes in Ep.
  specialize (IH rest ltac:(lia)). destruct (split_frames rc fuel rest); congruence.
Qed.

Definition split (rc : rcfg) (bs : list N) : sres := split_frames rc (S (length bs)) bs.

Lemma rfc_parse_split rc bs :
  rfc_parse rc bs = match split rc bs with
                    | SOutOfFuel => VOutOfFuel
                    | SBad e _ => Malformed e
                    | SOk fs tail => match assemble astate0 fs with
                                     | ABad e => Malformed e
                                     | AOk st evs => WellFormed fs evs (a_open st) tail
                                     end
                    end.
Proof. reflexivity. Qed.

(* the fuel of the reference parser always suffices *)
Lemma rfc_parse_total rc bs : rfc_parse rc bs <> VOutOfFuel.
Proof.
  rewrite rfc_parse_split. unfold split.
  pose proof (split_frames_total rc (S (length bs)) bs ltac:(lia)) as H.
  destruct (split_frames rc (S (length bs)) bs) as [fs tail|e fs|]; try congruence.
  destruct (assemble astate0 fs); discriminate.
Qed.

Lemma split_step rc bs :
  split rc bs = match parse_frame rc bs with
                | FIncomplete => SOk [] bs
                | FBad e => SBad e []
                | FOk f rest => match split rc rest with
                                | SOk fs tail => SOk (f :: fs) tail
                                | SBad e fs => SBad e (f :: fs)
                                | SOutOfFuel => SOutOfFuel
                                end
                end.
Proof.
  unfold split at 1. cbn [split_frames].
  destruct (parse_frame rc bs) as [f rest| |e] eqn:Ep; try reflexivity.
  apply parse_frame_consumes in Ep. unfold split.
  rewrite (split_frames_fuel rc (length bs) (S (length rest)) rest) by lia. reflexivity.
Qed.

Definition frames_pass (rc : rcfg) (fs : list frame) : Prop :=
  Forall (fun f => frame_ok f /\ frame_header_check rc f = None) fs.

Lemma split_encode_frames rc fs bs : frames_pass rc fs ->
  split rc (encode_frames fs ++ bs) =
    match split rc bs with
    | SOk fs' tail => SOk (fs ++ fs') tail
    | SBad e fs' => SBad e (fs ++ fs')
    | SOutOfFuel => SOutOfFuel
    end.
Proof.
  induction 1 as [|f fs [Hok Hc] _ IH].
  - unfold encode_frames. cbn [map concat app]. destruct (split rc bs); reflexivity.
  - unfold encode_frames in *. cbn [map concat]. rewrite <- app_assoc, split_step.
    rewrite parse_encode_frame, Hc by exact Hok. rewrite IH.
    destruct (split rc bs); reflexivity.
Qed.

Lemma split_nil rc : split rc [] = SOk [] [].
Proof. reflexivity. Qed.

Lemma split_encode_frames_exact rc fs : frames_pass rc fs -> split rc (encode_frames fs) = SOk fs [].
Proof.
  intros H. rewrite <- (app_nil_r (encode_frames fs)), split_encode_frames, split_nil, app_nil_r by exact H.
  reflexivity.
Qed.

(* ---------- message assembly ---------- *)
Lemma assemble_app st a b :
  assemble st (a ++ b) =
    match assemble st a with
    | ABad e => ABad e
    | AOk st1 e1 => match assemble st1 b with
                    | ABad e => ABad e
                    | AOk st2 e2 => AOk st2 (e1 ++ e2)
                    end
    end.
Proof.
  revert st; induction a as [|f a IH]; intros st; cbn [app assemble].
  - destruct (assemble st b); reflexivity.
  - destruct (assemble_step st f) as [st1 e1|e]; [|reflexivity].
    rewrite IH. destruct (assemble st1 a) as [st2 e2|e]; [|reflexivity].
    destruct (assemble st2 b); [|reflexivity]. now rewrite app_assoc.
Qed.

Lemma assemble_snoc st fs f st1 e1 st2 e2 :
  assemble st fs = AOk st1 e1 -> assemble_step st1 f = AOk st2 e2 ->
  assemble st (fs ++ [f]) = AOk st2 (e1 ++ e2).
Proof.
  intros H1 H2. rewrite assemble_app, H1. cbn [assemble]. rewrite H2, app_nil_r. reflexivity.
Qed.

(* whole-stream verdict for an encoded frame list *)
Lemma rfc_parse_encoded rc fs st evs :
  frames_pass rc fs -> assemble astate0 fs = AOk st evs ->
  rfc_parse rc (encode_frames fs) = WellFormed fs evs (a_open st) [].
Proof.
  intros Hp Ha. rewrite rfc_parse_split, split_encode_frames_exact by exact Hp. now rewrite Ha.
Qed.
(* ---------- sendData / _trigger / _send : FIFO ---------- *)
Definition qcontent (q : qst) : list N := concat (map fst (queue q)).
(* reachable queue states: a non-empty queue always has its timer armed *)
Definition qwf (q : qst) : Prop := triggered q = false -> queue q = [].

Lemma take_firstn l : forall n, take n l = firstn (N.to_nat n) l.
Proof.
  induction l as [|x r IH]; intros n; cbn [take].
  - now rewrite firstn_nil.
  - destruct (n =? 0) eqn:E.
    + apply N.eqb_eq in E. subst n. reflexivity.
    + apply N.eqb_neq in E. rewrite IH.
      replace (N.to_nat n) with (S (N.to_nat (n - 1))) by lia. reflexivity.
Qed.

Lemma drop_skipn l : forall n, drop n l = skipn (N.to_nat n) l.
Proof.
  induction l as [|x r IH]; intros n; cbn [drop].
  - now rewrite skipn_nil.
  - destruct (n =? 0) eqn:E.
    + apply N.eqb_eq in E. subst n. reflexivity.
    + apply N.eqb_neq in E. rewrite IH.
      replace (N.to_nat n) with (S (N.to_nat (n - 1))) by lia. reflexivity.
Qed.

Lemma slice_firstn_skipn d i j : slice d i j = firstn (N.to_nat (j - i)) (skipn (N.to_nat i) d).
Proof. unfold slice. now rewrite take_firstn, drop_skipn. Qed.

Lemma slice_to_end d i : slice d i (lenN d) = skipn (N.to_nat i) d.
Proof.
  rewrite slice_firstn_skipn. apply firstn_all2. rewrite skipn_length. unfold lenN. lia.
Qed.

Lemma slice_skipn d i j : i <= j -> slice d i j ++ skipn (N.to_nat j) d = skipn (N.to_nat i) d.
Proof.
  intros H. rewrite slice_firstn_skipn.
  replace (N.to_nat j) with (N.to_nat i + N.to_nat (j - i))%nat by lia.
  rewrite skipn_plus. apply firstn_skipn.
Qed.

Lemma chop_loop_spec data cs : 0 < cs -> forall fuel i, i <= lenN data -> (N.to_nat (lenN data - i) < fuel)%nat ->
  exists pieces, chop_loop fuel data cs (lenN data) i = Some pieces /\ concat pieces = skipn (N.to_nat i) data.
Proof.
  intros Hcs. induction fuel as [|fuel IH]; intros i Hi Hf; [lia|].
  cbn [chop_loop]. destruct (lenN data <=? i + cs) eqn:E.
  - eexists; split; [reflexivity|]. cbn [concat]. rewrite app_nil_r. apply slice_to_end.
  - apply N.leb_gt in E.
    destruct (IH (i + cs)) as (pieces & Hp & Hc); [lia|lia|].
    rewrite Hp. eexists; split; [reflexivity|]. cbn [concat]. rewrite Hc. apply slice_skipn. lia.
Qed.

Lemma qcontent_app q l t : qcontent (mkQst (queue q ++ l) t) = qcontent q ++ concat (map fst l).
Proof. unfold qcontent. cbn [queue]. now rewrite map_app, concat_app. Qed.

Lemma q_send_spec ps q q' w : ps <> PClosed -> q_send ps q = (q', w) ->
  concat w ++ qcontent q' = qcontent q /\ (qwf q -> qwf q').
Proof.
  intros Hps. unfold q_send. destruct (queue q) as [|e r] eqn:Eq.
  - intros [= <- <-]. unfold qcontent. rewrite Eq. split; [reflexivity|]. intros _ _. reflexivity.
  - replace (pstate_eqb ps PClosed) with false by (destruct ps; try reflexivity; congruence).
    intros [= <- <-]. unfold qcontent at 2. rewrite Eq. cbn. rewrite app_nil_r. split; [reflexivity|].
    intros Hw Ht. cbn in Ht. specialize (Hw Ht). congruence.
Qed.

Lemma q_send_wf_true ps q q' w : triggered q = true -> q_send ps q = (q', w) -> qwf q'.
Proof.
  intros Ht. unfold q_send. destruct (queue q) as [|e r].
  - intros [= <- <-] _. reflexivity.
  - intros [= <- <-] H. cbn in H. congruence.
Qed.

Lemma q_trigger_spec ps q q' w : ps <> PClosed -> q_trigger ps q = (q', w) ->
  concat w ++ qcontent q' = qcontent q /\ qwf q'.
Proof.
  intros Hps. unfold q_trigger. destruct (triggered q) eqn:Et.
  - intros [= <- <-]. split; [reflexivity|]. intros H. congruence.
  - intros H. split.
    + apply q_send_spec in H; [|exact Hps]. exact (proj1 H).
    + eapply q_send_wf_true; [|exact H]. reflexivity.
Qed.

Lemma length_zero_nil {A} (l : list A) : Nat.eqb (length l) 0 = true -> l = [].
Proof. destruct l; [reflexivity|discriminate]. Qed.

Lemma send_data_spec ps q c : ps <> PClosed -> qwf q ->
  exists q' w, send_data ps q c = Some (q', w) /\
    concat w ++ qcontent q' = qcontent q ++ sd_data c /\ qwf q'.
Proof.
  intros Hps Hw. unfold send_data.
  destruct (match sd_chop c with Some z => if (0 <? z)%Z then Some (Z.to_N z) else None | None => None end)
    as [cs|] eqn:Ec.
  - assert (Hcs : 0 < cs).
    { destruct (sd_chop c) as [z|]; [|discriminate]. destruct (0 <? z)%Z eqn:Ez; [|discriminate].
      apply Z.ltb_lt in Ez. injection Ec as <-. lia. }
    destruct (chop_loop_spec (sd_data c) cs Hcs (S (length (sd_data c))) 0) as (pieces & Hp & Hc);
      [lia|unfold lenN; lia|].
    rewrite Hp. destruct (q_trigger ps _) as [q' w] eqn:Eq. exists q', w. split; [reflexivity|].
    apply q_trigger_spec in Eq; [|exact Hps]. destruct Eq as [E1 E2]. split; [|exact E2].
    rewrite E1, qcontent_app, map_map. cbn [fst]. rewrite map_id, Hc. reflexivity.
  - destruct (sd_sync c || negb (Nat.eqb (length (queue q)) 0)) eqn:Es.
    + destruct (q_trigger ps _) as [q' w] eqn:Eq. exists q', w. split; [reflexivity|].
      apply q_trigger_spec in Eq; [|exact Hps]. destruct Eq as [E1 E2]. split; [|exact E2].
      rewrite E1, qcontent_app. cbn. now rewrite app_nil_r.
    + apply orb_false_elim in Es. destruct Es as [_ Es]. apply negb_false_iff in Es.
      apply length_zero_nil in Es. exists q, [sd_data c]. split; [reflexivity|]. split; [|exact Hw].
      unfold qcontent. rewrite Es. cbn. now rewrite !app_nil_r.
Qed.

Lemma send_all_spec ps : ps <> PClosed -> forall cs q, qwf q ->
  exists q' w, send_all ps q cs = Some (q', w) /\
    concat w ++ qcontent q' = qcontent q ++ concat (map sd_data cs) /\ qwf q'.
Proof.
  intros Hps. induction cs as [|c cs IH]; intros q Hw.
  - exists q, []. split; [reflexivity|]. cbn. rewrite app_nil_r. split; [reflexivity|exact Hw].
  - cbn [send_all]. destruct (send_data_spec ps q c Hps Hw) as (q1 & w1 & E1 & C1 & W1). rewrite E1.
    destruct (IH q1 W1) as (q2 & w2 & E2 & C2 & W2). rewrite E2.
    exists q2, (w1 ++ w2). split; [reflexivity|]. split; [|exact W2].
    rewrite concat_app, <- app_assoc, C2, app_assoc, C1. cbn [map concat]. now rewrite app_assoc.
Qed.

Lemma drain_loop_spec ps : ps <> PClosed -> forall fuel q, qwf q -> (length (queue q) < fuel)%nat ->
  let '(q', w) := drain_loop fuel ps q in
  concat w = qcontent q /\ queue q' = [] /\ triggered q' = false.
Proof.
  intros Hps. induction fuel as [|fuel IH]; intros q Hw Hf; [lia|].
  cbn [drain_loop]. destruct (triggered q) eqn:Et.
  - destruct (q_send ps q) as [q1 w1] eqn:E1.
    pose proof (q_send_wf_true _ _ _ _ Et E1) as W1.
    pose proof (q_send_spec _ _ _ _ Hps E1) as [C1 _].
    destruct (queue q) as [|e r] eqn:Eq.
    + unfold q_send in E1. rewrite Eq in E1. injection E1 as <- <-.
      destruct fuel; cbn [drain_loop triggered]; unfold qcontent; rewrite Eq; cbn; auto.
    + assert (Hl : (length (queue q1) < fuel)%nat).
      { unfold q_send in E1. rewrite Eq in E1. injection E1 as <- _. cbn in *. lia. }
      specialize (IH q1 W1 Hl). destruct (drain_loop fuel ps q1) as [q2 w2].
      destruct IH as (I1 & I2 & I3). split; [|auto].
      rewrite concat_app, I1. exact C1.
  - specialize (Hw Et). unfold qcontent. rewrite Hw. cbn. auto.
Qed.

Lemma drain_spec ps q : ps <> PClosed -> qwf q ->
  concat (snd (drain ps q)) = qcontent q /\ queue (fst (drain ps q)) = [] /\ triggered (fst (drain ps q)) = false.
Proof.
  intros Hps Hw. unfold drain.
  pose proof (drain_loop_spec ps Hps (S (length (queue q))) q Hw ltac:(lia)) as H.
  destruct (drain_loop _ ps q) as [q' w]. exact H.
Qed.
(* ---------- sendFrame builds exactly encode_frame ---------- *)
Lemma N_lt_forall (P : N -> bool) n :
  forallb P (map N.of_nat (seq 0 n)) = true -> forall x, x < N.of_nat n -> P x = true.
Proof.
  intros H x Hx. rewrite forallb_forall in H. apply H.
  rewrite <- (N2Nat.id x). apply in_map. apply in_seq. lia.
Qed.

Lemma b0_code (fin : bool) rsv op : rsv < 8 -> op < 16 ->
  N.lor (N.lor (if fin then 128 else 0) (N.shiftl (rsv mod 8) 4)) (op mod 128) = byte0 fin rsv op.
Proof.
  intros Hr Ho.
  pose (P := fun r : N => forallb (fun o : N =>
     (N.lor (N.lor 128 (N.shiftl (r mod 8) 4)) (o mod 128) =? byte0 true r o) &&
     (N.lor (N.lor 0 (N.shiftl (r mod 8) 4)) (o mod 128) =? byte0 false r o)) (map N.of_nat (seq 0 16))).
  assert (HP : forallb P (map N.of_nat (seq 0 8)) = true) by (vm_compute; reflexivity).
  pose proof (N_lt_forall P 8 HP rsv Hr) as H1. unfold P in H1.
  pose proof (N_lt_forall _ 16 H1 op Ho) as H2. cbv beta in H2.
  apply andb_prop in H2. destruct H2 as [Ha Hb]. apply N.eqb_eq in Ha, Hb.
  destruct fin; assumption.
Qed.

Lemma b1_code (m : bool) l7 : l7 < 128 -> N.lor (if m then 128 else 0) l7 = (if m then 128 + l7 else l7).
Proof.
  intros H.
  pose (P := fun l : N => (N.lor 128 l =? 128 + l) && (N.lor 0 l =? l)).
  assert (HP : forallb P (map N.of_nat (seq 0 128)) = true) by (vm_compute; reflexivity).
  pose proof (N_lt_forall P 128 HP l7 H) as H1. unfold P in H1.
  apply andb_prop in H1. destruct H1 as [Ha Hb]. apply N.eqb_eq in Ha, Hb. destruct m; assumption.
Qed.

Definition nk_step (c : scfg) (nk : nat) : nat := if masks c then S nk else nk.

Lemma truthy_key k : length k = 4%nat -> truthy k = true.
Proof. destruct k; [discriminate|reflexivity]. Qed.

Lemma build_frame_std c ks nk op pl fin rsv :
  apply_mask c = true -> keys_ok ks -> rsv < 8 -> op < 16 -> lenN pl <= max_len ->
  build_frame c ks nk op pl fin rsv [] None =
    FrOk (encode_frame (mkFrame fin rsv op (key_at c ks nk) pl)) (nk_step c nk).
Proof.
  intros Ham Hks Hr Ho Hl. unfold build_frame, key_at, nk_step.
  cbn [truthy orb negb andb]. rewrite b0_code by assumption. rewrite Ham.
  destruct (Hks nk) as [Hk4 _].
  rewrite encode_len_field by exact Hl.
  unfold encode_frame, encode_header, mask_payload. cbn [f_fin f_rsv f_opcode f_mask f_payload].
  pose proof (len_field_lt (lenN pl)) as Hlt.
  destruct (len_field (lenN pl)) as [l7 el]. cbn [fst] in Hlt.
  rewrite b1_code by exact Hlt.
  destruct (masks c); cbn [andb negb].
  - rewrite Hk4. cbn [Nat.eqb negb]. rewrite andb_false_r.
    rewrite andb_true_r.
    destruct (0 <? lenN pl) eqn:E.
    + rewrite factory_process_spec. cbn [fst]. rewrite <- !app_comm_cons, <- app_assoc. reflexivity.
    + apply N.ltb_ge in E. assert (pl = []) as -> by (destruct pl; [reflexivity|unfold lenN in E; cbn in E; lia]).
      cbn [xor_spec]. rewrite <- !app_comm_cons, <- app_assoc. reflexivity.
  - reflexivity.
Qed.
(* ---------- judging data / control frames ---------- *)
Definition mask_ok (rc : rcfg) (m : option (list N)) : Prop :=
  match rc_mask rc, m with
  | MustMask, None => False
  | MustNotMask, Some _ => False
  | _, _ => True
  end.

Definition is_some {A} (o : option A) : bool := match o with Some _ => true | None => false end.

Lemma header_check_data rc fin op m n : op = 0 \/ op = 1 \/ op = 2 -> mask_ok rc m ->
  header_check rc fin 0 op (is_some m) n = None.
Proof.
  intros Hop Hm. unfold header_check, mask_ok in *. destruct rc as [pm ro rules]; cbn in *.
  destruct Hop as [->|[->| ->]]; destruct rules, fin, pm, m; cbn; try reflexivity; try contradiction.
Qed.

Lemma header_check_ctrl rc op m n : op = 9 \/ op = 10 -> mask_ok rc m -> n <= 125 ->
  header_check rc true 0 op (is_some m) n = None.
Proof.
  intros Hop Hm Hn. unfold header_check, mask_ok in *.
  replace (125 <? n) with false by (symmetry; apply N.ltb_ge; exact Hn).
  destruct rc as [pm ro rules]; cbn in *.
  destruct Hop as [->| ->]; destruct rules, pm, m; cbn; try reflexivity; try contradiction.
Qed.

Lemma frame_check_is_some rc f :
  frame_header_check rc f = header_check rc (f_fin f) (f_rsv f) (f_opcode f) (is_some (f_mask f)) (lenN (f_payload f)).
Proof. unfold frame_header_check, is_some. destruct (f_mask f); reflexivity. Qed.

Definition mkey_ok (m : option (list N)) : Prop := match m with Some k => key_ok k | None => True end.

Lemma data_frame_pass rc fin op m p : op = 0 \/ op = 1 \/ op = 2 -> mask_ok rc m -> mkey_ok m -> lenN p <= max_len ->
  frame_ok (mkFrame fin 0 op m p) /\ frame_header_check rc (mkFrame fin 0 op m p) = None.
Proof.
  intros Hop Hm Hk Hl. split.
  - unfold frame_ok. cbn. split; [lia|split; [lia|split; [exact Hk|exact Hl]]].
  - rewrite frame_check_is_some. cbn. now apply header_check_data.
Qed.

Lemma ctrl_frame_pass rc op m p : op = 9 \/ op = 10 -> mask_ok rc m -> mkey_ok m -> lenN p <= 125 ->
  frame_ok (mkFrame true 0 op m p) /\ frame_header_check rc (mkFrame true 0 op m p) = None.
Proof.
  intros Hop Hm Hk Hl. split.
  - unfold frame_ok. cbn. split; [lia|split; [lia|split; [exact Hk|unfold max_len; lia]]].
  - rewrite frame_check_is_some. cbn. now apply header_check_ctrl.
Qed.

(* ---------- the frames of one message ---------- *)
Lemma message_frames_ext (mk mk' : nat -> option (list N)) first op chunks : forall a b,
  (forall i, mk (a + i)%nat = mk' (b + i)%nat) ->
  message_frames mk a first op chunks = message_frames mk' b first op chunks.
Proof.
  revert first; induction chunks as [|ch rest IH]; intros first a b H; cbn [message_frames]; [reflexivity|].
  f_equal.
  - f_equal. specialize (H O). now rewrite !Nat.add_0_r in H.
  - apply IH. intros i. specialize (H (S i)). now rewrite !Nat.add_succ_r in H.
Qed.

Lemma message_frames_pass rc (mk : nat -> option (list N)) op chunks : (op = 1 \/ op = 2) ->
  (forall i, mask_ok rc (mk i) /\ mkey_ok (mk i)) -> Forall (fun ch => lenN ch <= max_len) chunks ->
  forall j first, frames_pass rc (message_frames mk j first op chunks).
Proof.
  intros Hop Hmk. induction 1 as [|ch rest Hl _ IH]; intros j first; cbn [message_frames]; constructor.
  - apply data_frame_pass; try apply Hmk; [|exact Hl]. destruct first; [right; exact Hop|left; reflexivity].
  - apply IH.
Qed.

Lemma assemble_message_frames (mk : nat -> option (list N)) op b : (op = 1 \/ op = 2) -> b = (op =? 2) ->
  forall chunks, chunks <> [] -> forall j (first : bool) acc,
  assemble (mkAstate (if first then None else Some (b, acc)) false) (message_frames mk j first op chunks) =
    AOk astate0 [EvMessage b ((if first then [] else acc) ++ concat chunks)].
Proof.
  intros Hop Hb. induction chunks as [|ch rest IH]; intros Hne j first acc; [congruence|].
  cbn [message_frames assemble]. unfold assemble_step at 1. cbn [a_closed f_opcode f_fin f_payload a_open].
  destruct rest as [|ch2 rest].
  - (* last frame *)
    cbn [message_frames assemble concat]. rewrite app_nil_r.
    destruct first.
    + assert (op =? 0 = false) as -> by (destruct Hop as [->| ->]; reflexivity).
      assert ((op =? 1) || (op =? 2) = true) as -> by (destruct Hop as [->| ->]; reflexivity).
      subst b. reflexivity.
    + cbn [N.eqb]. reflexivity.
  - assert (Hne' : ch2 :: rest <> []) by discriminate.
    destruct first.
    + assert (op =? 0 = false) as -> by (destruct Hop as [->| ->]; reflexivity).
      assert ((op =? 1) || (op =? 2) = true) as -> by (destruct Hop as [->| ->]; reflexivity).
      rewrite <- Hb. specialize (IH Hne' (S j) false ch). cbv iota in IH. rewrite IH. reflexivity.
    + cbn [N.eqb]. specialize (IH Hne' (S j) false (acc ++ ch)). cbv iota in IH. rewrite IH.
      cbn [concat app]. now rewrite <- app_assoc.
Qed.

Lemma encode_frames_app a b : encode_frames (a ++ b) = encode_frames a ++ encode_frames b.
Proof. unfold encode_frames. now rewrite map_app, concat_app. Qed.

(* ---------- sendMessage: the fragmentation loop ---------- *)
Fixpoint frag_chunks (fuel : nat) (payload : list N) (pfs n i : N) : option (list (list N)) :=
  match fuel with
  | O => None
  | S fuel' =>
      let j0 := i + pfs in
      if n <? j0 then Some [slice payload i n]
      else match frag_chunks fuel' payload pfs n (i + pfs) with
           | Some r => Some (slice payload i j0 :: r)
           | None => None
           end
  end.

Lemma slice_len d i j : lenN (slice d i j) <= lenN d.
Proof.
  rewrite slice_firstn_skipn. unfold lenN. rewrite firstn_length, skipn_length. lia.
Qed.

Lemma frag_chunks_spec payload pfs : 0 < pfs -> forall fuel i, i <= lenN payload ->
  (N.to_nat (lenN payload - i) < fuel)%nat ->
  exists ch rest, frag_chunks fuel payload pfs (lenN payload) i = Some (ch :: rest) /\
    concat (ch :: rest) = skipn (N.to_nat i) payload /\
    Forall (fun x => lenN x <= lenN payload) (ch :: rest).
Proof.
  intros Hp. induction fuel as [|fuel IH]; intros i Hi Hf; [lia|].
  cbn [frag_chunks]. destruct (lenN payload <? i + pfs) eqn:E.
  - eexists _, []; split; [reflexivity|]. split.
    + cbn [concat]. rewrite app_nil_r. apply slice_to_end.
    + constructor; [apply slice_len|constructor].
  - apply N.ltb_ge in E.
    destruct (IH (i + pfs)) as (ch & rest & Hc & Hcat & Hall); [lia|lia|].
    rewrite Hc. eexists _, _; split; [reflexivity|]. split.
    + cbn [concat] in *. rewrite Hcat. apply slice_skipn. lia.
    + constructor; [apply slice_len|exact Hall].
Qed.

Definition sd_of_frames (sync : bool) (fs : list frame) : list sdcall :=
  map (fun f => mkSd (encode_frame f) sync None) fs.

Lemma frag_loop_frames c ks op payload pfs n sync :
  apply_mask c = true -> keys_ok ks -> op < 16 ->
  forall fuel i nk first chunks,
  frag_chunks fuel payload pfs n i = Some chunks -> Forall (fun x => lenN x <= max_len) chunks ->
  frag_loop fuel c ks nk op payload pfs n i first sync =
    ((if masks c then nk + length chunks else nk)%nat,
     sd_of_frames sync (message_frames (key_at c ks) nk first op chunks), RNone).
Proof.
  intros Ham Hks Hop. induction fuel as [|fuel IH]; intros i nk first chunks Hc Hall; [discriminate|].
  cbn [frag_chunks] in Hc. cbn [frag_loop].
  destruct (n <? i + pfs) eqn:E.
  - injection Hc as <-. inversion Hall as [|? ? Hl _]; subst.
    rewrite build_frame_std; try assumption; [|lia|destruct first; lia].
    cbn [message_frames sd_of_frames map length]. unfold nk_step.
    destruct (masks c); [f_equal; f_equal; lia|reflexivity].
  - destruct (frag_chunks fuel payload pfs n (i + pfs)) as [r|] eqn:Er; [|discriminate].
    injection Hc as <-. inversion Hall as [|? ? Hl Hr]; subst.
    rewrite build_frame_std; try assumption; [|lia|destruct first; lia].
    rewrite (IH _ _ false r Er Hr).
    assert (Hr1 : exists x y, r = x :: y).
    { destruct fuel; [discriminate|]. cbn [frag_chunks] in Er.
      destruct (n <? i + pfs + pfs); [injection Er as <-; eauto|].
      destruct (frag_chunks fuel payload pfs n (i + pfs + pfs)); [injection Er as <-; eauto|discriminate]. }
    destruct Hr1 as (x & y & ->).
    replace (message_frames (key_at c ks) (nk_step c nk) false op (x :: y))
      with (message_frames (key_at c ks) (S nk) false op (x :: y)).
    2: { unfold nk_step. destruct (masks c) eqn:Em; [reflexivity|].
         apply message_frames_ext. intros k. unfold key_at. now rewrite Em. }
    change (message_frames (key_at c ks) nk first op (slice payload i (i + pfs) :: x :: y))
      with (mkFrame false 0 (if first then op else 0) (key_at c ks nk) (slice payload i (i + pfs))
            :: message_frames (key_at c ks) (S nk) false op (x :: y)).
    unfold sd_of_frames. cbn [map]. unfold nk_step.
    destruct (masks c); [|reflexivity]. f_equal. f_equal. cbn [length]. lia.
Qed.
(* ---------- API calls of legal sequences, one by one ---------- *)
Definition opc (b : bool) : N := if b then 2 else 1.

Lemma opc_cases b : opc b = 1 \/ opc b = 2.
Proof. destruct b; cbn; auto. Qed.
Lemma opc_bin b : b = (opc b =? 2).
Proof. destruct b; reflexivity. Qed.

Section Legal.
Variable rc : rcfg.
Variable c : scfg.
Variable ks : nat -> list N.
Hypothesis Ham : apply_mask c = true.
Hypothesis Hks : keys_ok ks.
Hypothesis Hpol : policy_ok rc c.

Lemma key_at_ok i : mask_ok rc (key_at c ks i) /\ mkey_ok (key_at c ks i).
Proof.
  unfold key_at, mask_ok, masks. unfold policy_ok in Hpol. split.
  - destruct (rc_mask rc).
    + destruct Hpol as [H1 H2]. rewrite H1, H2. cbn. exact I.
    + destruct Hpol as [H1 H2]. rewrite H1, H2. cbn. exact I.
    + destruct (negb (is_server c) && mask_client_frames c || is_server c && mask_server_frames c); exact I.
  - destruct (negb (is_server c) && mask_client_frames c || is_server c && mask_server_frames c); [apply Hks|exact I].
Qed.

(* sendMessage *)
Definition eff_pfs (fs : option Z) : option Z :=
  match fs with
  | Some f => Some f
  | None => if (0 <? auto_fragment_size c)%Z then Some (auto_fragment_size c) else None
  end.

Lemma send_message_calls a p b fs sync :
  is_open a = true ->
  (match eff_pfs fs with None => true | Some f => (Z.of_N (lenN p) <=? f)%Z || (1 <=? f)%Z end) = true ->
  ((max_message_payload_size c =? 0) || (lenN p <=? max_message_payload_size c)) = true ->
  lenN p <= max_len ->
  exists chunks, chunks <> [] /\ concat chunks = p /\ Forall (fun x => lenN x <= max_len) chunks /\
    api_step c ks a (OSendMessage p b fs sync) =
      (set_nk a (if masks c then next_key a + length chunks else next_key a)%nat,
       sd_of_frames sync (message_frames (key_at c ks) (next_key a) true (opc b) chunks), RNone).
Proof.
  intros Hopen Hfrag Hsize Hlen. cbn [api_step]. rewrite Hopen. cbn [negb].
  assert (Hs : (0 <? max_message_payload_size c) && (max_message_payload_size c <? lenN p) = false).
  { apply orb_prop in Hsize. destruct Hsize as [H|H].
    - apply N.eqb_eq in H. rewrite H. reflexivity.
    - apply N.leb_le in H. replace (max_message_payload_size c <? lenN p) with false
        by (symmetry; apply N.ltb_ge; exact H). apply andb_false_r. }
  rewrite Hs. fold (eff_pfs fs). fold (opc b).
  destruct (match eff_pfs fs with None => true | Some f => (Z.of_N (lenN p) <=? f)%Z end) eqn:Eu.
  - (* one frame *)
    exists [p]. split; [discriminate|]. split; [cbn; apply app_nil_r|]. split; [constructor; [exact Hlen|constructor]|].
    unfold do_send_frame. rewrite build_frame_std; try assumption; [|lia|destruct b; cbn; lia].
    cbn [message_frames sd_of_frames map length]. unfold nk_step.
    destruct (masks c); [replace (next_key a + 1)%nat with (S (next_key a)) by lia|]; reflexivity.
  - destruct (eff_pfs fs) as [f|] eqn:Ef; [|discriminate].
    rewrite Eu in Hfrag. cbn [orb] in Hfrag. apply Z.leb_le in Hfrag.
    replace (f <? 1)%Z with false by (symmetry; apply Z.ltb_ge; lia).
    destruct (frag_chunks_spec p (Z.to_N f) ltac:(lia) (S (length p)) 0 ltac:(lia) ltac:(unfold lenN; lia))
      as (ch & rest & Hc & Hcat & Hall).
    exists (ch :: rest). split; [discriminate|]. split; [exact Hcat|].
    assert (Hall' : Forall (fun x => lenN x <= max_len) (ch :: rest)).
    { eapply Forall_impl; [|exact Hall]. cbv beta. intros x Hx. lia. }
    split; [exact Hall'|].
    rewrite (frag_loop_frames c ks (opc b) p (Z.to_N f) (lenN p) sync Ham Hks ltac:(destruct b; cbn; lia)
               _ _ _ _ _ Hc Hall'). reflexivity.
Qed.

(* prepared messages *)
Definition prep_key (nk : nat) : option (list N) := if is_server c then None else Some (ks nk).

Lemma prep_key_ok nk : mask_ok rc (prep_key nk) /\ mkey_ok (prep_key nk).
Proof.
  unfold prep_key, mask_ok. unfold policy_ok in Hpol. split.
  - destruct (rc_mask rc).
    + destruct Hpol as [H1 _]. rewrite H1. exact I.
    + destruct Hpol as [H1 _]. rewrite H1. exact I.
    + destruct (is_server c); exact I.
  - destruct (is_server c); [exact I|apply Hks].
Qed.

Lemma prepare_message_spec nk p b : lenN p <= max_len ->
  prepare_message c ks nk p b =
    (Some (mkPmsg p b (encode_frame (mkFrame true 0 (opc b) (prep_key nk) p))),
     if is_server c then nk else S nk).
Proof.
  intros Hl. unfold prepare_message, prep_key. rewrite encode_len_field by exact Hl.
  unfold encode_frame, encode_header, mask_payload. cbn [f_fin f_rsv f_opcode f_mask f_payload].
  pose proof (len_field_lt (lenN p)) as Hlt. destruct (len_field (lenN p)) as [l7 el]. cbn [fst] in Hlt.
  rewrite b1_code by exact Hlt.
  assert (Hb0 : (if b then N.lor 128 2 else N.lor 128 1) = byte0 true 0 (opc b)) by (destruct b; reflexivity).
  rewrite Hb0. destruct (is_server c); cbn [negb].
  - reflexivity.
  - destruct (lenN p =? 0) eqn:E.
    + apply N.eqb_eq in E. assert (p = []) as -> by (destruct p; [reflexivity|unfold lenN in E; cbn in E; lia]).
      cbn [xor_spec]. rewrite <- !app_comm_cons, <- app_assoc. reflexivity.
    + rewrite factory_process_spec. cbn [fst]. rewrite <- !app_comm_cons, <- app_assoc. reflexivity.
Qed.

(* the generic single-frame send used by sendMessage (1 frame), endMessage, sendPing, sendPong *)
Lemma do_send_frame_std a op pl fin chop sync : op < 16 -> lenN pl <= max_len ->
  do_send_frame c ks a op pl fin 0 [] None chop sync =
    (set_nk a (nk_step c (next_key a)),
     [mkSd (encode_frame (mkFrame fin 0 op (key_at c ks (next_key a)) pl)) sync chop], RNone).
Proof.
  intros Ho Hl. unfold do_send_frame. rewrite build_frame_std; try assumption; [reflexivity|lia].
Qed.

Definition frame_masker (fm : option (list N)) (flen ptr : N) : masker :=
  match fm with
  | Some k => if 0 <? flen then MXor k flen ptr else MNull ptr
  | None => MNull ptr
  end.

Lemma begin_frame_std a z :
  is_open a = true -> s_state a = SMessageBegin \/ s_state a = SInsideMessage -> s_opcode a < 16 ->
  (0 <= z <= Z.of_N max_len)%Z ->
  begin_message_frame c ks a z =
    (mkAst (p_state a) SInsideMessageFrame (s_opcode a) (Z.to_N z) (key_at c ks (next_key a))
           (frame_masker (key_at c ks (next_key a)) (Z.to_N z) 0) (s_compressed_set a)
           (nk_step c (next_key a)) (prepared a),
     [mkSd (encode_header false 0 (if sendstate_eqb (s_state a) SMessageBegin then s_opcode a else 0)
                          (key_at c ks (next_key a)) (Z.to_N z)) false None], RNone).
Proof.
  intros Hopen Hst Hop Hz. unfold begin_message_frame. rewrite Hopen. cbn [negb].
  assert (sendstate_eqb (s_state a) SMessageBegin || sendstate_eqb (s_state a) SInsideMessage = true) as ->
    by (destruct Hst as [-> | ->]; reflexivity).
  cbn [negb].
  replace (z <? 0)%Z with false by (symmetry; apply Z.ltb_ge; lia).
  replace (Z.of_N max_len <? z)%Z with false by (symmetry; apply Z.ltb_ge; lia).
  cbn [orb].
  rewrite encode_len_field by lia.
  unfold encode_header, key_at, nk_step, frame_masker.
  pose proof (len_field_lt (Z.to_N z)) as Hlt. destruct (len_field (Z.to_N z)) as [l7 el]. cbn [fst] in Hlt.
  assert (Hb0 : (if sendstate_eqb (s_state a) SMessageBegin then N.lor 0 (s_opcode a mod 128) else 0) =
                byte0 false 0 (if sendstate_eqb (s_state a) SMessageBegin then s_opcode a else 0)).
  { unfold byte0. destruct (sendstate_eqb (s_state a) SMessageBegin); [|reflexivity].
    rewrite N.lor_0_l, N.mod_small by lia. lia. }
  rewrite Hb0.
  pose proof (b1_code true l7 Hlt) as B1. pose proof (b1_code false l7 Hlt) as B0. cbv iota in B1, B0.
  destruct (masks c).
  - destruct (Hks (next_key a)) as [Hk4 _]. rewrite (truthy_key _ Hk4), Ham.
    cbv iota. rewrite B1. cbn [andb]. rewrite andb_true_r. reflexivity.
  - cbv iota. rewrite B0. rewrite app_nil_r. reflexivity.
Qed.

Lemma take_all p n : lenN p <= n -> take n p = p.
Proof. intros H. rewrite take_firstn. apply firstn_all2. unfold lenN in H. lia. Qed.

Lemma take_len p n : n <= lenN p -> lenN (take n p) = n.
Proof. intros H. rewrite take_firstn. unfold lenN in *. rewrite firstn_length. lia. Qed.

Lemma lenN_zero_nil (p : list N) : lenN p = 0 -> p = [].
Proof. destruct p; [reflexivity|]. unfold lenN. cbn. lia. Qed.

Lemma frame_data_std a p sync fm flen sent rem :
  is_open a = true -> s_compressed_set a = true -> s_state a = SInsideMessageFrame ->
  s_fmask a = fm -> s_flen a = flen -> mkey_ok fm ->
  flen = lenN sent + rem -> s_masker a = frame_masker fm flen (lenN sent) ->
  (rem = 0 -> flen = 0) ->
  let pl := take rem p in
  exists out z,
    send_message_frame_data c a p sync =
      (mkAst (p_state a) (if rem <=? lenN p then SInsideMessage else SInsideMessageFrame) (s_opcode a) flen fm
             (frame_masker fm flen (lenN (sent ++ pl))) (s_compressed_set a) (next_key a) (prepared a),
       [mkSd out sync None], RInt z) /\
    mask_payload fm (sent ++ pl) = mask_payload fm sent ++ out.
Proof.
  intros Hopen Hcs Hst Hfm Hfl Hk Hflen Hmk Hrem pl.
  unfold send_message_frame_data. rewrite Hopen, Hcs, Hst. cbn [negb sendstate_eqb].
  rewrite Hfl, Hmk, Hfm.
  assert (Hptr : masker_ptr (frame_masker fm flen (lenN sent)) = lenN sent).
  { unfold frame_masker. destruct fm; [destruct (0 <? flen)|]; reflexivity. }
  rewrite Hptr.
  (* the accepted part of the payload is [take rem p] in both branches *)
  assert (Hpl : (if flen <? lenN sent + lenN p
                 then ((- (Z.of_N (lenN p) - (Z.of_N flen - Z.of_N (lenN sent))))%Z,
                       take (Z.to_N (Z.of_N flen - Z.of_N (lenN sent))) p)
                 else ((Z.of_N flen - Z.of_N (lenN sent) - Z.of_N (lenN p))%Z, p)) =
                (if flen <? lenN sent + lenN p
                 then (- (Z.of_N (lenN p) - (Z.of_N flen - Z.of_N (lenN sent))))%Z
                 else (Z.of_N flen - Z.of_N (lenN sent) - Z.of_N (lenN p))%Z, pl)).
  { unfold pl. destruct (flen <? lenN sent + lenN p) eqn:E.
    - replace (Z.to_N (Z.of_N flen - Z.of_N (lenN sent))) with rem by lia. reflexivity.
    - apply N.ltb_ge in E. rewrite take_all by lia. reflexivity. }
  rewrite Hpl. clear Hpl.
  set (z := if flen <? lenN sent + lenN p then _ else _).
  assert (Hlpl : lenN pl = if rem <=? lenN p then rem else lenN p).
  { unfold pl. destruct (rem <=? lenN p) eqn:E.
    - apply N.leb_le in E. now apply take_len.
    - apply N.leb_gt in E. rewrite take_all by lia. reflexivity. }
  unfold masker_process, frame_masker at 1.
  destruct fm as [k|].
  - destruct (0 <? flen) eqn:E0.
    + rewrite factory_process_spec.
      exists (xor_spec k (lenN sent) pl), z. split.
      * cbn [masker_ptr]. rewrite lenN_app. unfold frame_masker. rewrite E0.
        replace (flen <=? lenN sent + lenN pl) with (rem <=? lenN p); [reflexivity|].
        rewrite Hlpl. destruct (rem <=? lenN p) eqn:E; symmetry; [apply N.leb_le; lia|].
        apply N.leb_gt in E. apply N.leb_gt. lia.
      * cbn [mask_payload]. rewrite xor_spec_app, N.add_0_l. reflexivity.
    + apply N.ltb_ge in E0. assert (flen = 0) by lia. assert (rem = 0) by lia. assert (Hs0 : lenN sent = 0) by lia.
      apply lenN_zero_nil in Hs0. subst sent.
      assert (pl = []) as Hple.
      { apply lenN_zero_nil. rewrite Hlpl. destruct (rem <=? lenN p) eqn:E; [lia|]. apply N.leb_gt in E. lia. }
      exists [], z. split.
      * rewrite Hple. cbn [masker_ptr app lenN length N.of_nat N.add]. unfold frame_masker.
        replace (0 <? flen) with false by (symmetry; apply N.ltb_ge; lia).
        replace (flen <=? 0) with true by (symmetry; apply N.leb_le; lia).
        replace (rem <=? lenN p) with true by (symmetry; apply N.leb_le; lia). reflexivity.
      * rewrite Hple. reflexivity.
  - exists pl, z. split.
    + cbn [masker_ptr]. rewrite lenN_app.
      replace (flen <=? lenN sent + lenN pl) with (rem <=? lenN p); [reflexivity|].
      rewrite Hlpl. destruct (rem <=? lenN p) eqn:E; symmetry; [apply N.leb_le; lia|].
      apply N.leb_gt in E. apply N.leb_gt. lia.
    + reflexivity.
Qed.
(* ---------- the simulation invariant between the specification and the API model ---------- *)
Definition prep_rel (pm : pmsg) (pb : list N * bool) : Prop :=
  exists nk, pm_hybi pm = encode_frame (mkFrame true 0 (opc (snd pb)) (prep_key nk) (fst pb)) /\
             lenN (fst pb) <= max_len /\ pm_payload pm = fst pb.

Definition sstate_of (sp : spst) : sendstate :=
  match sp with
  | SpGround => SGround
  | SpBegun _ => SMessageBegin
  | SpInMsg _ _ => SInsideMessage
  | SpInFrame _ _ _ => SInsideMessageFrame
  end.

Definition inv (sp : spst) (prep : list (list N * bool)) (a : ast) (stream : list N) (evs : list event) : Prop :=
  p_state a = POpen /\ Forall2 prep_rel (prepared a) prep /\ s_state a = sstate_of sp /\
  (match sp with SpGround => True | _ => s_compressed_set a = true end) /\
  (match sp with SpBegun b => s_opcode a = opc b | _ => True end) /\
  exists fs, frames_pass rc fs /\
    match sp with
    | SpInFrame b acc rem =>
        exists sent opn o,
          stream = encode_frames fs ++ encode_header false 0 o (s_fmask a) (s_flen a)
                   ++ mask_payload (s_fmask a) sent /\
          assemble astate0 fs = AOk (mkAstate opn false) evs /\
          ((opn = None /\ o = opc b /\ acc = sent) \/
           (exists acc0, opn = Some (b, acc0) /\ o = 0 /\ acc = acc0 ++ sent)) /\
          s_flen a = lenN sent + rem /\ s_flen a <= max_len /\
          mask_ok rc (s_fmask a) /\ mkey_ok (s_fmask a) /\
          s_masker a = frame_masker (s_fmask a) (s_flen a) (lenN sent) /\
          (rem = 0 -> s_flen a = 0)
    | _ => stream = encode_frames fs /\ assemble astate0 fs = AOk (mkAstate (spec_open sp) false) evs
    end.

Lemma open_is_open a : p_state a = POpen -> is_open a = true.
Proof. unfold is_open. now intros ->. Qed.

(* appending one complete frame at a frame boundary *)
Lemma boundary_append fs f st st' e evs :
  frames_pass rc fs -> frame_ok f /\ frame_header_check rc f = None ->
  assemble astate0 fs = AOk st evs -> assemble_step st f = AOk st' e ->
  frames_pass rc (fs ++ [f]) /\ assemble astate0 (fs ++ [f]) = AOk st' (evs ++ e) /\
  encode_frames (fs ++ [f]) = encode_frames fs ++ encode_frame f.
Proof.
  intros Hp Hf Ha Hs. split; [|split].
  - apply Forall_app. split; [exact Hp|]. constructor; [exact Hf|constructor].
  - eapply assemble_snoc; eassumption.
  - rewrite encode_frames_app. unfold encode_frames at 2. cbn. now rewrite app_nil_r.
Qed.

Lemma Forall2_nth_error {A B} (R : A -> B -> Prop) l l' : Forall2 R l l' ->
  forall i y, nth_error l' i = Some y -> exists x, nth_error l i = Some x /\ R x y.
Proof.
  induction 1 as [|x y0 l l' Hxy _ IH]; intros i y Hi.
  - destruct i; discriminate.
  - destruct i as [|i]; cbn in *.
    + injection Hi as <-. eauto.
    + eauto.
Qed.

Definition ret_ok (r : ret) : Prop := r = RNone \/ exists z, r = RInt z.

(* a control frame (ping / pong) or a complete single-frame message at a boundary state *)
Lemma inv_boundary_frame sp prep a stream evs f e a' :
  spec_at_boundary sp = true ->
  inv sp prep a stream evs ->
  frame_ok f /\ frame_header_check rc f = None ->
  assemble_step (mkAstate (spec_open sp) false) f = AOk (mkAstate (spec_open sp) false) e ->
  p_state a' = p_state a -> prepared a' = prepared a -> s_state a' = s_state a ->
  s_compressed_set a' = s_compressed_set a -> s_opcode a' = s_opcode a ->
  inv sp prep a' (stream ++ encode_frame f) (evs ++ e).
Proof.
  intros Hb (I1 & I2 & I3 & I4 & I5 & fs & Hp & Hrest) Hf Hstep E1 E2 E3 E4 E5.
  unfold inv. rewrite E1, E2, E3, E4, E5.
  repeat (split; [assumption|]).
  exists (fs ++ [f]).
  destruct sp; try discriminate; destruct Hrest as [Hs Ha];
    destruct (boundary_append _ _ _ _ _ _ Hp Hf Ha Hstep) as (P1 & P2 & P3);
    (split; [exact P1|]); (split; [rewrite P3, Hs; reflexivity|exact P2]).
Qed.
Lemma sd_frames_stream sync fs : concat (map sd_data (sd_of_frames sync fs)) = encode_frames fs.
Proof. unfold sd_of_frames, encode_frames. rewrite map_map. reflexivity. Qed.

Lemma inv_fields sp prep a a' stream evs :
  inv sp prep a stream evs ->
  p_state a' = p_state a -> prepared a' = prepared a -> s_state a' = s_state a ->
  s_compressed_set a' = s_compressed_set a -> s_opcode a' = s_opcode a ->
  s_fmask a' = s_fmask a -> s_flen a' = s_flen a -> s_masker a' = s_masker a ->
  inv sp prep a' stream evs.
Proof.
  intros H E1 E2 E3 E4 E5 E6 E7 E8. unfold inv in *. rewrite E1, E2, E3, E4, E5, E6, E7, E8. exact H.
Qed.

(* sendMessage at ground state *)
Lemma step_send_message prep a stream evs p b fs sync :
  inv SpGround prep a stream evs ->
  (match eff_pfs fs with None => true | Some f => (Z.of_N (lenN p) <=? f)%Z || (1 <=? f)%Z end) = true ->
  ((max_message_payload_size c =? 0) || (lenN p <=? max_message_payload_size c)) = true ->
  lenN p <= max_len ->
  exists a' calls, api_step c ks a (OSendMessage p b fs sync) = (a', calls, RNone) /\
    inv SpGround prep a' (stream ++ concat (map sd_data calls)) (evs ++ [EvMessage b p]).
Proof.
  intros Hinv Hf Hsz Hl.
  pose proof Hinv as (I1 & I2 & I3 & I4 & I5 & fs0 & Hp & Hs & Ha).
  destruct (send_message_calls a p b fs sync (open_is_open _ I1) Hf Hsz Hl) as (chunks & Hne & Hcat & Hall & Hstep).
  eexists _, _. split; [exact Hstep|].
  rewrite sd_frames_stream.
  set (mf := message_frames (key_at c ks) (next_key a) true (opc b) chunks).
  unfold inv. cbn [set_nk p_state prepared s_state s_compressed_set s_opcode sstate_of].
  repeat (split; [assumption|]).
  exists (fs0 ++ mf). split; [|split].
  - apply Forall_app. split; [exact Hp|].
    apply message_frames_pass; [apply opc_cases|apply key_at_ok|exact Hall].
  - rewrite encode_frames_app, Hs. reflexivity.
  - rewrite assemble_app, Ha. cbn [spec_open].
    pose proof (assemble_message_frames (key_at c ks) (opc b) b (opc_cases b) (opc_bin b) chunks Hne
                  (next_key a) true []) as Hm.
    cbv iota in Hm. fold mf in Hm. change (mkAstate None false) with astate0 in *.
    rewrite Hm. cbn [app]. rewrite Hcat. reflexivity.
Qed.

(* one complete frame built by sendFrame at a boundary state: control frames and endMessage *)
Lemma step_ctrl sp prep a stream evs op p (mkev : list N -> event) :
  spec_at_boundary sp = true -> inv sp prep a stream evs ->
  (op = 9 /\ mkev = EvPing) \/ (op = 10 /\ mkev = EvPong) -> lenN p <= 125 ->
  inv sp prep (set_nk a (nk_step c (next_key a)))
      (stream ++ encode_frame (mkFrame true 0 op (key_at c ks (next_key a)) p)) (evs ++ [mkev p]).
Proof.
  intros Hb Hinv Hop Hl.
  eapply inv_boundary_frame; try eassumption; try reflexivity.
  - apply ctrl_frame_pass; [destruct Hop as [[-> _]|[-> _]]; auto|apply key_at_ok|apply key_at_ok|exact Hl].
  - unfold assemble_step. cbn [a_closed f_opcode f_payload].
    destruct Hop as [[-> ->]|[-> ->]]; reflexivity.
Qed.
Lemma step_begin_frame sp prep a stream evs z b acc :
  (sp = SpBegun b /\ acc = []) \/ sp = SpInMsg b acc ->
  inv sp prep a stream evs -> (0 <= z <= Z.of_N max_len)%Z ->
  exists a' calls, begin_message_frame c ks a z = (a', calls, RNone) /\
    inv (SpInFrame b acc (Z.to_N z)) prep a' (stream ++ concat (map sd_data calls)) evs.
Proof.
  intros Hsp (I1 & I2 & I3 & I4 & I5 & fs & Hp & Hrest) Hz.
  assert (Hcs : s_compressed_set a = true) by (destruct Hsp as [[-> _]| ->]; exact I4).
  assert (Hst : s_state a = SMessageBegin \/ s_state a = SInsideMessage)
    by (destruct Hsp as [[-> _]| ->]; cbn in I3; auto).
  assert (Hrest' : stream = encode_frames fs /\ assemble astate0 fs = AOk (mkAstate (spec_open sp) false) evs)
    by (destruct Hsp as [[-> _]| ->]; exact Hrest).
  destruct Hrest' as [Hs Ha].
  assert (Hop : s_opcode a < 16 \/ sendstate_eqb (s_state a) SMessageBegin = false).
  { destruct Hsp as [[-> _]| ->]; cbn in I3, I5.
    - left. rewrite I5. destruct b; cbn; lia.
    - right. rewrite I3. reflexivity. }
  (* the opcode field is only read in state MESSAGE_BEGIN; normalise it otherwise *)
  destruct Hsp as [[-> ->]| ->]; cbn in I3, I5.
  - rewrite begin_frame_std; try assumption; [|apply open_is_open; exact I1|rewrite I5; destruct b; cbn; lia].
    eexists _, _. split; [reflexivity|].
    unfold inv. cbn [p_state prepared s_state s_compressed_set s_opcode s_fmask s_flen s_masker sstate_of].
    repeat (split; [first [assumption|reflexivity|exact I]|]).
    exists fs. split; [exact Hp|]. exists [], None, (opc b).
    rewrite I3. cbn [sendstate_eqb map concat sd_data]. rewrite I5, app_nil_r.
    destruct (key_at_ok (next_key a)) as [K1 K2].
    split; [rewrite Hs; f_equal; unfold mask_payload; destruct (key_at c ks (next_key a)); cbn; now rewrite app_nil_r|].
    split; [exact Ha|]. split; [left; auto|].
    split; [cbn; lia|]. split; [lia|]. split; [exact K1|]. split; [exact K2|]. split; [reflexivity|lia].
  - (* continuation frame: opcode field of the state is irrelevant *)
    unfold begin_message_frame. rewrite (open_is_open _ I1), I3. cbn [negb sendstate_eqb orb].
    replace (z <? 0)%Z with false by (symmetry; apply Z.ltb_ge; lia).
    replace (Z.of_N max_len <? z)%Z with false by (symmetry; apply Z.ltb_ge; lia).
    cbn [orb]. rewrite encode_len_field by lia.
    pose proof (len_field_lt (Z.to_N z)) as Hlt.
    destruct (key_at_ok (next_key a)) as [K1 K2].
    assert (Hhdr : forall l7 el, len_field (Z.to_N z) = (l7, el) ->
      (0 :: N.lor (if match (if masks c then Some (ks (next_key a)) else None) with
                        | Some k => truthy k | None => false end then 128 else 0) l7
         :: el ++ match (if masks c then Some (ks (next_key a)) else None) with
                  | Some k => if truthy k then k else [] | None => [] end) =
      encode_header false 0 0 (key_at c ks (next_key a)) (Z.to_N z)).
    { intros l7 el E. unfold encode_header, key_at. rewrite E. rewrite E in Hlt. cbn [fst] in Hlt.
      pose proof (b1_code true l7 Hlt) as B1. pose proof (b1_code false l7 Hlt) as B0. cbv iota in B1, B0.
      destruct (masks c).
      - destruct (Hks (next_key a)) as [Hk4 _]. rewrite (truthy_key _ Hk4). cbv iota. rewrite B1. reflexivity.
      - cbv iota. rewrite B0, app_nil_r. reflexivity. }
    destruct (len_field (Z.to_N z)) as [l7 el] eqn:El.
    eexists _, _. split; [reflexivity|].
    unfold inv. cbn [p_state prepared s_state s_compressed_set s_opcode s_fmask s_flen s_masker sstate_of].
    repeat (split; [first [assumption|reflexivity|exact I]|]).
    exists fs. split; [exact Hp|]. exists [], (Some (b, acc)), 0.
    cbn [map concat sd_data]. rewrite app_nil_r, (Hhdr l7 el eq_refl).
    fold (key_at c ks (next_key a)).
    split; [rewrite Hs; f_equal; unfold mask_payload; destruct (key_at c ks (next_key a)); cbn; now rewrite app_nil_r|].
    split; [exact Ha|]. split; [right; exists acc; rewrite app_nil_r; auto|].
    split; [cbn; lia|]. split; [lia|]. split; [exact K1|]. split; [exact K2|]. split; [|lia].
    unfold frame_masker, key_at. destruct (masks c); [|reflexivity].
    destruct (Hks (next_key a)) as [Hk4 _]. rewrite (truthy_key _ Hk4), Ham. cbn [andb].
    rewrite andb_true_r. reflexivity.
Qed.
Lemma step_frame_data prep a stream evs b acc rem p sync :
  inv (SpInFrame b acc rem) prep a stream evs ->
  exists a' calls z, send_message_frame_data c a p sync = (a', calls, RInt z) /\
    inv (if rem <=? lenN p then SpInMsg b (acc ++ take rem p) else SpInFrame b (acc ++ take rem p) (rem - lenN p))
        prep a' (stream ++ concat (map sd_data calls)) evs.
Proof.
  intros (I1 & I2 & I3 & I4 & I5 & fs & Hp & sent & opn & o & Hs & Ha & Hopn & Hfl & Hmax & K1 & K2 & Hmk & Hrem).
  cbn [sstate_of] in I3.
  destruct (frame_data_std a p sync (s_fmask a) (s_flen a) sent rem (open_is_open _ I1) I4 I3 eq_refl eq_refl K2
              Hfl Hmk Hrem) as (out & z & Hstep & Hmask).
  set (pl := take rem p) in *.
  eexists _, _, z. split; [exact Hstep|].
  cbn [map concat sd_data]. rewrite app_nil_r.
  assert (Ho : o = 0 \/ o = 1 \/ o = 2).
  { destruct Hopn as [(_ & -> & _)|(acc0 & _ & -> & _)]; [destruct b; cbn; auto|auto]. }
  destruct (rem <=? lenN p) eqn:E.
  - (* the frame is complete *)
    apply N.leb_le in E.
    assert (Hlen : lenN (sent ++ pl) = s_flen a) by (rewrite lenN_app; unfold pl; rewrite take_len by exact E; lia).
    set (f := mkFrame false 0 o (s_fmask a) (sent ++ pl)).
    assert (Hf : frame_ok f /\ frame_header_check rc f = None)
      by (apply data_frame_pass; try assumption; rewrite Hlen; exact Hmax).
    assert (Henc : encode_frame f = encode_header false 0 o (s_fmask a) (s_flen a) ++ mask_payload (s_fmask a) sent ++ out).
    { unfold encode_frame, f. cbn [f_fin f_rsv f_opcode f_mask f_payload]. rewrite Hlen, Hmask. reflexivity. }
    assert (Hstepf : assemble_step (mkAstate opn false) f = AOk (mkAstate (Some (b, acc ++ pl)) false) []).
    { unfold assemble_step, f. cbn [a_closed f_opcode f_fin f_payload a_open].
      destruct Hopn as [(-> & -> & ->)|(acc0 & -> & -> & ->)].
      - assert (opc b =? 0 = false) as -> by (destruct b; reflexivity).
        assert ((opc b =? 1) || (opc b =? 2) = true) as -> by (destruct b; reflexivity).
        rewrite <- opc_bin. reflexivity.
      - cbn [N.eqb]. now rewrite app_assoc. }
    destruct (boundary_append _ _ _ _ _ _ Hp Hf Ha Hstepf) as (P1 & P2 & P3).
    unfold inv. cbn [p_state prepared s_state s_compressed_set s_opcode s_fmask s_flen s_masker sstate_of].
    repeat (split; [first [assumption|reflexivity|exact I]|]).
    exists (fs ++ [f]). split; [exact P1|]. split.
    + rewrite P3, Henc, Hs, <- !app_assoc. reflexivity.
    + rewrite app_nil_r in P2. exact P2.
  - apply N.leb_gt in E.
    assert (Hpl : pl = p) by (unfold pl; apply take_all; lia).
    unfold inv. cbn [p_state prepared s_state s_compressed_set s_opcode s_fmask s_flen s_masker sstate_of].
    repeat (split; [first [assumption|reflexivity|exact I]|]).
    exists fs. split; [exact Hp|]. exists (sent ++ pl), opn, o.
    split; [rewrite Hs, Hmask, <- !app_assoc; reflexivity|].
    split; [exact Ha|].
    split; [destruct Hopn as [(-> & -> & ->)|(acc0 & -> & -> & ->)]; [left; auto|right; exists acc0; rewrite app_assoc; auto]|].
    split; [rewrite lenN_app, Hpl; lia|].
    split; [exact Hmax|]. split; [exact K1|]. split; [exact K2|]. split; [reflexivity|lia].
Qed.
(* ---------- every legal call preserves the invariant and does not raise ---------- *)
Lemma step_inv sp prep a stream evs o sp' prep' e1 :
  inv sp prep a stream evs -> spec_step c prep sp o = Some (sp', prep', e1) ->
  exists a' calls r, api_step c ks a o = (a', calls, r) /\ ret_ok r /\
    inv sp' prep' a' (stream ++ concat (map sd_data calls)) (evs ++ e1).
Proof.
  intros Hinv Hs.
  pose proof Hinv as (I1 & I2 & I3 & I4 & I5 & fs & Hp & Hrest).
  pose proof (open_is_open _ I1) as Hopen.
  destruct o; cbn [spec_step] in Hs; try discriminate.
  - (* sendMessage *)
    destruct sp; try discriminate.
    fold (eff_pfs fragment_size) in Hs.
    destruct (_ && _ && _) eqn:E in Hs; [|discriminate]. injection Hs as <- <- <-.
    apply andb_prop in E. destruct E as [E E3]. apply andb_prop in E. destruct E as [E1 E2].
    apply N.leb_le in E3.
    destruct (step_send_message prep a stream evs payload is_binary fragment_size sync Hinv E1 E2 E3)
      as (a' & calls & Hst & Hi).
    exists a', calls, RNone. split; [exact Hst|]. split; [left; reflexivity|exact Hi].
  - (* prepareMessage *)
    destruct (lenN payload <=? max_len) eqn:E; [|discriminate]. injection Hs as <- <- <-.
    apply N.leb_le in E. cbn [api_step]. rewrite (prepare_message_spec (next_key a) payload is_binary E).
    eexists _, _, _. split; [reflexivity|]. split; [left; reflexivity|].
    cbn [map concat]. rewrite !app_nil_r.
    unfold inv in *. cbn [p_state prepared s_state s_compressed_set s_opcode s_fmask s_flen s_masker].
    repeat (split; [first [assumption|reflexivity|exact I]|]).
    split.
    + apply Forall2_app; [exact I2|]. constructor; [|constructor].
      exists (next_key a). cbn [pm_hybi pm_payload fst snd]. split; [reflexivity|]. split; [exact E|reflexivity].
    + repeat (split; [first [assumption|reflexivity|exact I]|]). exists fs. split; [exact Hp|exact Hrest].
  - (* sendPreparedMessage *)
    destruct sp; try discriminate.
    destruct (nth_error prep i) as [[p b]|] eqn:En; [|discriminate].
    destruct ((max_message_payload_size c =? 0) || (lenN p <=? max_message_payload_size c)) eqn:Esz; [|discriminate].
    injection Hs as <- <- <-.
    destruct (Forall2_nth_error _ _ _ I2 _ _ En) as (pm & Hn & nk & Hh & Hl & Hpp). cbn [fst snd] in Hh, Hl, Hpp.
    cbn [api_step]. rewrite Hn, Hpp, Hopen. cbn [negb].
    assert (Hs0 : (0 <? max_message_payload_size c) && (max_message_payload_size c <? lenN p) = false).
    { apply orb_prop in Esz. destruct Esz as [H|H].
      - apply N.eqb_eq in H. rewrite H. reflexivity.
      - apply N.leb_le in H. replace (max_message_payload_size c <? lenN p) with false
          by (symmetry; apply N.ltb_ge; exact H). apply andb_false_r. }
    rewrite Hs0. eexists _, _, _. split; [reflexivity|]. split; [left; reflexivity|].
    cbn [map concat sd_data]. rewrite app_nil_r, Hh.
    eapply inv_boundary_frame; try eassumption; try reflexivity.
    + apply data_frame_pass; [right; apply opc_cases|apply prep_key_ok|apply prep_key_ok|exact Hl].
    + unfold assemble_step. cbn [a_closed f_opcode f_fin f_payload a_open spec_open].
      assert (opc b =? 0 = false) as -> by (destruct b; reflexivity).
      assert ((opc b =? 1) || (opc b =? 2) = true) as -> by (destruct b; reflexivity).
      rewrite <- opc_bin. reflexivity.
  - (* beginMessage *)
    destruct sp; try discriminate. injection Hs as <- <- <-.
    cbn [api_step]. rewrite Hopen. cbn [sstate_of] in I3. rewrite I3. cbn [negb sendstate_eqb].
    eexists _, _, _. split; [reflexivity|]. split; [left; reflexivity|].
    cbn [map concat]. rewrite !app_nil_r.
    unfold inv. cbn [p_state prepared s_state s_compressed_set s_opcode s_fmask s_flen s_masker sstate_of].
    repeat (split; [first [assumption|reflexivity|exact I]|]).
    exists fs. split; [exact Hp|exact Hrest].
  - (* beginMessageFrame *)
    destruct ((0 <=? length)%Z && (length <=? Z.of_N max_len)%Z) eqn:E; [|discriminate].
    apply andb_prop in E. destruct E as [E1 E2]. apply Z.leb_le in E1, E2.
    destruct sp; try discriminate; injection Hs as <- <- <-.
    + destruct (step_begin_frame (SpBegun b) prep a stream evs length b [] ltac:(left; auto) Hinv ltac:(lia))
        as (a' & calls & Hst & Hi).
      exists a', calls, RNone. split; [exact Hst|]. split; [left; reflexivity|]. rewrite app_nil_r. exact Hi.
    + destruct (step_begin_frame (SpInMsg b acc) prep a stream evs length b acc ltac:(right; auto) Hinv ltac:(lia))
        as (a' & calls & Hst & Hi).
      exists a', calls, RNone. split; [exact Hst|]. split; [left; reflexivity|]. rewrite app_nil_r. exact Hi.
  - (* sendMessageFrameData *)
    destruct sp; try discriminate.
    destruct (step_frame_data prep a stream evs b acc rem payload sync Hinv) as (a' & calls & z & Hst & Hi).
    exists a', calls, (RInt z). split; [exact Hst|]. split; [right; eauto|].
    destruct (rem <=? lenN payload); injection Hs as <- <- <-; rewrite app_nil_r; exact Hi.
  - (* endMessage *)
    destruct sp; try discriminate. injection Hs as <- <- <-.
    cbn [api_step]. rewrite Hopen, I4. cbn [negb].
    rewrite do_send_frame_std by (unfold max_len, lenN; cbn; lia).
    eexists _, _, _. split; [reflexivity|]. split; [left; reflexivity|].
    cbn [map concat sd_data]. rewrite app_nil_r.
    destruct Hrest as [Hstream Ha].
    set (f := mkFrame true 0 0 (key_at c ks (next_key a)) []).
    assert (Hf : frame_ok f /\ frame_header_check rc f = None)
      by (apply data_frame_pass; [auto|apply key_at_ok|apply key_at_ok|unfold max_len, lenN; cbn; lia]).
    assert (Hst : assemble_step (mkAstate (spec_open (SpInMsg b acc)) false) f = AOk astate0 [EvMessage b acc])
      by (unfold assemble_step, f; cbn; now rewrite app_nil_r).
    destruct (boundary_append _ _ _ _ _ _ Hp Hf Ha Hst) as (P1 & P2 & P3).
    unfold inv. cbn [set_sstate set_nk p_state prepared s_state s_compressed_set s_opcode sstate_of].
    repeat (split; [first [assumption|reflexivity|exact I]|]).
    exists (fs ++ [f]). split; [exact P1|]. split; [rewrite P3, Hstream; reflexivity|exact P2].
  - (* sendMessageFrame = beginMessageFrame(len(payload)) ; sendMessageFrameData(payload) *)
    destruct (lenN payload <=? max_len) eqn:E; [|discriminate]. apply N.leb_le in E.
    assert (Hb : exists b acc, ((sp = SpBegun b /\ acc = []) \/ sp = SpInMsg b acc) /\
                   sp' = SpInMsg b (acc ++ payload) /\ prep' = prep /\ e1 = []).
    { destruct sp; try discriminate; injection Hs as <- <- <-.
      - exists b, []. split; [left; auto|]. cbn. auto.
      - exists b, acc. split; [right; auto|]. auto. }
    destruct Hb as (b & acc & Hsp & -> & -> & ->).
    assert (Hcs : s_compressed_set a = true) by (destruct Hsp as [[-> _]| ->]; exact I4).
    cbn [api_step]. rewrite Hopen, Hcs. cbn [negb].
    destruct (step_begin_frame sp prep a stream evs (Z.of_N (lenN payload)) b acc Hsp Hinv ltac:(lia))
      as (a1 & c1 & Hst1 & Hi1).
    rewrite Hst1. rewrite N2Z.id in Hi1.
    destruct (step_frame_data prep a1 _ evs b acc (lenN payload) payload sync Hi1) as (a2 & c2 & z & Hst2 & Hi2).
    rewrite Hst2. eexists _, _, _. split; [reflexivity|]. split; [left; reflexivity|].
    rewrite N.leb_refl, take_all in Hi2 by lia.
    rewrite map_app, concat_app, app_assoc, app_nil_r. exact Hi2.
  - (* sendPing *)
    assert (Hb : spec_at_boundary sp = true /\ lenN payload <= 125 /\ sp' = sp /\ prep' = prep /\ e1 = [EvPing payload]).
    { destruct sp; try discriminate; destruct (lenN payload <=? 125) eqn:E; try discriminate;
        apply N.leb_le in E; injection Hs as <- <- <-; auto. }
    destruct Hb as (Hb & Hl & -> & -> & ->).
    cbn [api_step]. rewrite Hopen. cbn [negb].
    replace (125 <? lenN payload) with false by (symmetry; apply N.ltb_ge; exact Hl).
    rewrite do_send_frame_std by (unfold max_len; lia).
    eexists _, _, _. split; [reflexivity|]. split; [left; reflexivity|].
    cbn [map concat sd_data]. rewrite app_nil_r.
    apply (step_ctrl sp prep a stream evs 9 payload EvPing Hb Hinv ltac:(left; auto) Hl).
  - (* sendPong *)
    assert (Hb : spec_at_boundary sp = true /\ lenN payload <= 125 /\ sp' = sp /\ prep' = prep /\ e1 = [EvPong payload]).
    { destruct sp; try discriminate; destruct (lenN payload <=? 125) eqn:E; try discriminate;
        apply N.leb_le in E; injection Hs as <- <- <-; auto. }
    destruct Hb as (Hb & Hl & -> & -> & ->).
    cbn [api_step]. rewrite Hopen. cbn [negb].
    replace (125 <? lenN payload) with false by (symmetry; apply N.ltb_ge; exact Hl).
    rewrite do_send_frame_std by (unfold max_len; lia).
    eexists _, _, _. split; [reflexivity|]. split; [left; reflexivity|].
    cbn [map concat sd_data]. rewrite app_nil_r.
    apply (step_ctrl sp prep a stream evs 10 payload EvPong Hb Hinv ltac:(right; auto) Hl).
  - (* the peer's ping answered at a frame boundary *)
    assert (Hb : spec_at_boundary sp = true /\ lenN payload <= 125 /\ sp' = sp /\ prep' = prep /\ e1 = [EvPong payload]).
    { destruct sp; try discriminate; destruct (lenN payload <=? 125) eqn:E; try discriminate;
        apply N.leb_le in E; injection Hs as <- <- <-; auto. }
    destruct Hb as (Hb & Hl & -> & -> & ->).
    cbn [api_step]. rewrite Hopen. cbn [negb].
    replace (125 <? lenN payload) with false by (symmetry; apply N.ltb_ge; exact Hl).
    rewrite do_send_frame_std by (unfold max_len; lia).
    eexists _, _, _. split; [reflexivity|]. split; [left; reflexivity|].
    cbn [map concat sd_data]. rewrite app_nil_r.
    apply (step_ctrl sp prep a stream evs 10 payload EvPong Hb Hinv ltac:(right; auto) Hl).
  - (* tick *)
    injection Hs as <- <- <-. cbn [api_step]. eexists _, _, _. split; [reflexivity|]. split; [left; reflexivity|].
    cbn [map concat]. rewrite !app_nil_r. exact Hinv.
Qed.
(* ---------- whole runs ---------- *)
Fixpoint api_run (a : ast) (ops : list op) : ast * list sdcall * list ret :=
  match ops with
  | [] => (a, [], [])
  | o :: r => let '(a1, c1, r1) := api_step c ks a o in
              let '(a2, c2, rs) := api_run a1 r in (a2, c1 ++ c2, r1 :: rs)
  end.

Lemma step_not_tick a q o : o <> OTick ->
  step c ks (a, q) o =
    let '(a', calls, r) := api_step c ks a o in
    match send_all (p_state a') q calls with
    | Some (q', w) => ((a', q'), w, r)
    | None => ((a', q), [], ROutOfFuel)
    end.
Proof. intros H. destruct o; try reflexivity. congruence. Qed.

Lemma op_eq_tick (o : op) : o = OTick \/ o <> OTick.
Proof. destruct o; (left; reflexivity) || (right; discriminate). Qed.

Lemma POpen_not_closed : POpen <> PClosed.
Proof. discriminate. Qed.

Lemma run_legal ops : forall sp prep a q stream evs sp' prep' es,
  inv sp prep a stream evs -> qwf q -> spec_run c prep sp ops = Some (sp', prep', es) ->
  exists a' q' outs calls,
    run c ks (a, q) ops = ((a', q'), outs) /\
    api_run a ops = (a', calls, rets_of outs) /\
    Forall ret_ok (rets_of outs) /\
    inv sp' prep' a' (stream ++ concat (map sd_data calls)) (evs ++ es) /\
    qwf q' /\
    concat (writes_of outs) ++ qcontent q' = qcontent q ++ concat (map sd_data calls).
Proof.
  induction ops as [|o ops IH]; intros sp prep a q stream evs sp' prep' es Hinv Hq Hs.
  - cbn in Hs. injection Hs as <- <- <-. exists a, q, [], [].
    split; [reflexivity|]. split; [reflexivity|]. split; [constructor|].
    split; [cbn [map concat]; rewrite !app_nil_r; exact Hinv|]. split; [exact Hq|].
    cbn. now rewrite app_nil_r.
  - cbn [spec_run] in Hs.
    destruct (spec_step c prep sp o) as [[[sp1 prep1] e1]|] eqn:E1; [|discriminate].
    destruct (spec_run c prep1 sp1 ops) as [[[sp2 prep2] e2]|] eqn:E2; [|discriminate].
    injection Hs as <- <- <-.
    destruct (step_inv _ _ _ _ _ _ _ _ _ Hinv E1) as (a1 & c1 & r1 & Hst & Hr1 & Hinv1).
    pose proof Hinv1 as (Hop1 & _).
    (* one step of the whole sender *)
    assert (Hstep : exists q1 w1, step c ks (a, q) o = ((a1, q1), w1, r1) /\ qwf q1 /\
                      concat w1 ++ qcontent q1 = qcontent q ++ concat (map sd_data c1)).
    { destruct (op_eq_tick o) as [->|Hnt].
      - cbn [api_step] in Hst. injection Hst as <- <- <-. cbn [step].
        destruct (triggered q) eqn:Et.
        + destruct (q_send (p_state a) q) as [q1 w1] eqn:Eq. exists q1, w1. split; [reflexivity|].
          pose proof (q_send_wf_true _ _ _ _ Et Eq) as W.
          destruct Hinv as (Hop & _). rewrite Hop in Eq.
          destruct (q_send_spec _ _ _ _ POpen_not_closed Eq) as [C _].
          split; [exact W|]. cbn. rewrite app_nil_r. exact C.
        + exists q, []. split; [reflexivity|]. split; [exact Hq|]. cbn. now rewrite app_nil_r.
      - rewrite (step_not_tick a q o Hnt), Hst, Hop1.
        destruct (send_all_spec POpen POpen_not_closed c1 q Hq) as (q1 & w1 & Hsa & C & W).
        rewrite Hsa. exists q1, w1. auto. }
    destruct Hstep as (q1 & w1 & Hstep & W1 & C1).
    destruct (IH _ _ _ _ _ _ _ _ _ Hinv1 W1 E2) as (a2 & q2 & outs & c2 & Hrun & Hapi & Hrets & Hinv2 & W2 & C2).
    exists a2, q2, ((w1, r1) :: outs), (c1 ++ c2).
    split; [cbn [run]; rewrite Hstep, Hrun; reflexivity|].
    split; [cbn [api_run]; rewrite Hst, Hapi; reflexivity|].
    split; [constructor; assumption|].
    split; [rewrite map_app, concat_app, !app_assoc in *; exact Hinv2|].
    split; [exact W2|].
    unfold writes_of in *. cbn [map concat fst]. rewrite map_app, concat_app, concat_app.
    rewrite <- app_assoc, C2, app_assoc, C1, <- app_assoc. reflexivity.
Qed.
End Legal.
(* ================= closed statements ================= *)
Lemma inv_init rc c ks : inv rc c ks SpGround [] ast0 [] [].
Proof.
  unfold inv. cbn. repeat (split; [first [reflexivity|exact I|constructor]|]).
  exists []. split; [constructor|]. split; reflexivity.
Qed.

Lemma qwf0 : qwf qst0.
Proof. intros _. reflexivity. Qed.

Lemma wire_of_run c ks ops a q outs :
  run c ks sst0 ops = ((a, q), outs) -> p_state a = POpen -> qwf q ->
  wire c ks ops = concat (writes_of outs) ++ qcontent q.
Proof.
  intros Hr Hp Hq. unfold wire. rewrite Hr, concat_app, Hp.
  destruct (drain_spec POpen q POpen_not_closed Hq) as (D & _). now rewrite D.
Qed.

(* C01_sequence_delivery *)
Theorem sequence_delivery rc c ks ops sp' prep' evs :
  apply_mask c = true -> keys_ok ks -> policy_ok rc c ->
  spec_run c [] SpGround ops = Some (sp', prep', evs) ->
  Forall ret_ok (rets_of (snd (run c ks sst0 ops))) /\
  (spec_at_boundary sp' = true ->
   exists fs, rfc_parse rc (wire c ks ops) = WellFormed fs evs (spec_open sp') [] /\ frames_pass rc fs).
Proof.
  intros Ham Hks Hpol Hs.
  destruct (run_legal rc c ks Ham Hks Hpol ops _ _ _ _ _ _ _ _ _ (inv_init rc c ks) qwf0 Hs)
    as (a' & q' & outs & calls & Hrun & Hapi & Hrets & Hinv & Hq & Hc).
  unfold sst0. rewrite Hrun. cbn [snd]. split; [exact Hrets|]. intros Hb.
  pose proof Hinv as (Hop & _ & _ & _ & _ & fs & Hp & Hrest).
  rewrite (wire_of_run c ks ops a' q' outs Hrun Hop Hq), Hc. cbn [qcontent qst0 queue map concat app].
  exists fs. split; [|exact Hp].
  destruct sp'; try discriminate; destruct Hrest as [Hstr Ha]; cbn [app] in Hstr; rewrite Hstr;
    apply (rfc_parse_encoded rc fs _ evs Hp Ha).
Qed.

Corollary sequence_messages rc c ks ops prep' evs :
  apply_mask c = true -> keys_ok ks -> policy_ok rc c ->
  spec_run c [] SpGround ops = Some (SpGround, prep', evs) ->
  exists fs evs', rfc_parse rc (wire c ks ops) = WellFormed fs evs' None [] /\
                  messages_of evs' = messages_of evs.
Proof.
  intros Ham Hks Hpol Hs.
  destruct (sequence_delivery rc c ks ops _ _ _ Ham Hks Hpol Hs) as [_ H].
  destruct (H eq_refl) as (fs & Hp & _). exists fs, evs. split; [exact Hp|reflexivity].
Qed.

(* C01_sendmessage_wellformed / delivery: one sendMessage call, frames spelled out *)
Definition send_message_legal (c : scfg) (p : list N) (fs : option Z) : Prop :=
  (match eff_pfs c fs with None => true | Some f => (Z.of_N (lenN p) <=? f)%Z || (1 <=? f)%Z end) = true /\
  ((max_message_payload_size c =? 0) || (lenN p <=? max_message_payload_size c)) = true /\
  lenN p <= max_len.

Theorem sendmessage_frames c ks p (b : bool) fs sync :
  apply_mask c = true -> keys_ok ks -> send_message_legal c p fs ->
  exists chunks, chunks <> [] /\ concat chunks = p /\
    let frames := message_frames (key_at c ks) 0 true (if b then 2 else 1) chunks in
    rets_of (snd (run c ks sst0 [OSendMessage p b fs sync])) = [RNone] /\
    wire c ks [OSendMessage p b fs sync] = encode_frames frames /\
    forall rc, policy_ok rc c -> rfc_parse rc (encode_frames frames) = WellFormed frames [EvMessage b p] None [].
Proof.
  intros Ham Hks (L1 & L2 & L3).
  destruct (send_message_calls c ks Ham Hks ast0 p b fs sync eq_refl L1 L2 L3) as (chunks & Hne & Hcat & Hall & Hstep).
  exists chunks. split; [exact Hne|]. split; [exact Hcat|]. cbv zeta.
  fold (opc b). change O with (next_key ast0) at 1 2 3.
  set (frames := message_frames (key_at c ks) (next_key ast0) true (opc b) chunks) in *.
  assert (Hspec : spec_run c [] SpGround [OSendMessage p b fs sync] = Some (SpGround, [], [EvMessage b p])).
  { cbn [spec_run spec_step]. fold (eff_pfs c fs). rewrite L1, L2. replace (lenN p <=? max_len) with true
      by (symmetry; apply N.leb_le; exact L3). reflexivity. }
  assert (Hpol : policy_ok rc_any c) by exact I.
  destruct (run_legal rc_any c ks Ham Hks Hpol _ _ _ _ _ _ _ _ _ _ (inv_init rc_any c ks) qwf0 Hspec)
    as (a' & q' & outs & calls & Hrun & Hapi & Hrets & Hinv & Hq & Hc).
  cbn [api_run] in Hapi. rewrite Hstep in Hapi. injection Hapi as Ha' Hcalls Hr.
  unfold sst0. rewrite Hrun. cbn [snd]. split; [symmetry; exact Hr|].
  pose proof Hinv as (Hop & _).
  split.
  - rewrite (wire_of_run c ks _ a' q' outs Hrun Hop Hq), Hc. cbn [qcontent qst0 queue map concat app].
    rewrite <- Hcalls, app_nil_r. apply sd_frames_stream.
  - intros rc Hp. apply rfc_parse_encoded with (st := astate0).
    + apply message_frames_pass; [apply opc_cases|intros i; now apply key_at_ok|exact Hall].
    + pose proof (assemble_message_frames (key_at c ks) (opc b) b (opc_cases b) (opc_bin b) chunks Hne
                    (next_key ast0) true []) as Hm.
      cbv iota in Hm. cbn [app] in Hm. rewrite Hcat in Hm. exact Hm.
Qed.

(* ---------- FIFO of sendData / _trigger / _send ---------- *)
Definition sd_or_tick (o : op) : bool := match o with OSendData _ _ _ | OTick => true | _ => false end.
Definition sd_datas (ops : list op) : list N :=
  concat (flat_map (fun o => match o with OSendData d _ _ => [d] | _ => [] end) ops).

Lemma fifo_run c ks a0 ops : p_state a0 <> PClosed -> forallb sd_or_tick ops = true -> forall q, qwf q ->
  exists q' outs, run c ks (a0, q) ops = ((a0, q'), outs) /\
    Forall (eq RNone) (rets_of outs) /\ qwf q' /\
    concat (writes_of outs) ++ qcontent q' = qcontent q ++ sd_datas ops.
Proof.
  intros Hps. induction ops as [|o ops IH]; intros Hall q Hq.
  - exists q, []. split; [reflexivity|]. split; [constructor|]. split; [exact Hq|].
    unfold sd_datas. cbn. now rewrite app_nil_r.
  - cbn [forallb] in Hall. apply andb_prop in Hall. destruct Hall as [Ho Hall].
    assert (Hstep : exists q1 w1 d, step c ks (a0, q) o = ((a0, q1), w1, RNone) /\ qwf q1 /\
              concat w1 ++ qcontent q1 = qcontent q ++ d /\ sd_datas (o :: ops) = d ++ sd_datas ops).
    { destruct o; try discriminate.
      - cbn [step api_step].
        destruct (send_all_spec (p_state a0) Hps [mkSd data sync chopsize] q Hq) as (q1 & w1 & Hsa & C & W).
        rewrite Hsa. exists q1, w1, data. split; [reflexivity|]. split; [exact W|]. split.
        + rewrite C. cbn. now rewrite app_nil_r.
        + unfold sd_datas. cbn. reflexivity.
      - cbn [step]. destruct (triggered q) eqn:Et.
        + destruct (q_send (p_state a0) q) as [q1 w1] eqn:Eq. exists q1, w1, []. split; [reflexivity|].
          split; [eapply q_send_wf_true; eassumption|].
          destruct (q_send_spec _ _ _ _ Hps Eq) as [C _]. split; [rewrite C; now rewrite app_nil_r|reflexivity].
        + exists q, [], []. split; [reflexivity|]. split; [exact Hq|]. split; [cbn; now rewrite app_nil_r|reflexivity]. }
    destruct Hstep as (q1 & w1 & d & Hstep & W1 & C1 & Hd).
    destruct (IH Hall q1 W1) as (q2 & outs & Hrun & Hr & W2 & C2).
    exists q2, ((w1, RNone) :: outs). split; [cbn [run]; rewrite Hstep, Hrun; reflexivity|].
    split; [constructor; [reflexivity|exact Hr]|]. split; [exact W2|].
    unfold writes_of in *. cbn [map concat fst]. rewrite concat_app, Hd, <- app_assoc, C2, !app_assoc, C1. reflexivity.
Qed.

(* C01_fifo *)
Theorem fifo c ks a0 ops : p_state a0 <> PClosed -> forallb sd_or_tick ops = true ->
  exists q outs, run c ks (a0, qst0) ops = ((a0, q), outs) /\
    Forall (eq RNone) (rets_of outs) /\
    concat (writes_of outs) ++ concat (map fst (queue q)) = sd_datas ops /\
    concat (writes_of outs ++ snd (drain (p_state a0) q)) = sd_datas ops /\
    queue (fst (drain (p_state a0) q)) = [] /\ triggered (fst (drain (p_state a0) q)) = false.
Proof.
  intros Hps Hall.
  destruct (fifo_run c ks a0 ops Hps Hall qst0 qwf0) as (q & outs & Hrun & Hr & W & C).
  exists q, outs. split; [exact Hrun|]. split; [exact Hr|]. cbn [qcontent qst0 queue map concat app] in C.
  split; [exact C|].
  destruct (drain_spec (p_state a0) q Hps W) as (D1 & D2 & D3).
  split; [rewrite concat_app, D1; exact C|]. split; assumption.
Qed.
(* ---------- streaming API: which call orders are rejected ---------- *)
Definition in_message (s : sendstate) : bool := sendstate_eqb s SMessageBegin || sendstate_eqb s SInsideMessage.

(* exactly the guards of the source, for an OPEN connection (compression off) *)
Definition streaming_rejects (a : ast) (o : op) : option exn :=
  match o with
  | OBeginMessage _ => if sendstate_eqb (s_state a) SGround then None else Some ExException
  | OBeginMessageFrame z =>
      if negb (in_message (s_state a)) then Some ExException
      else if (z <? 0)%Z || (Z.of_N max_len <? z)%Z then Some ExException else None
  | OSendMessageFrameData _ _ =>
      if negb (s_compressed_set a) then Some ExAttribute
      else if sendstate_eqb (s_state a) SInsideMessageFrame then None else Some ExException
  | OEndMessage => if s_compressed_set a then None else Some ExAttribute      (* the send state is NOT checked *)
  | OSendMessageFrame p _ =>
      if negb (s_compressed_set a) then Some ExAttribute
      else if negb (in_message (s_state a)) then Some ExException
      else if max_len <? lenN p then Some ExException else None
  | _ => None
  end.

Definition is_streaming_op (o : op) : bool :=
  match o with
  | OBeginMessage _ | OBeginMessageFrame _ | OSendMessageFrameData _ _ | OEndMessage | OSendMessageFrame _ _ => true
  | _ => false
  end.

Lemma begin_frame_ret c ks a z : keys_ok ks -> is_open a = true ->
  let '(a', calls, r) := begin_message_frame c ks a z in
  match streaming_rejects a (OBeginMessageFrame z) with
  | Some e => r = RRaise e /\ calls = [] /\ a' = a
  | None => r = RNone /\ is_open a' = true /\ s_state a' = SInsideMessageFrame /\
            s_compressed_set a' = s_compressed_set a
  end.
Proof.
  intros Hks Hopen. unfold begin_message_frame, streaming_rejects, in_message. rewrite Hopen. cbn [negb].
  destruct (sendstate_eqb (s_state a) SMessageBegin || sendstate_eqb (s_state a) SInsideMessage); cbn [negb]; [|auto].
  destruct ((z <? 0)%Z || (Z.of_N max_len <? z)%Z) eqn:E; [auto|].
  apply orb_false_elim in E. destruct E as [E1 E2]. apply Z.ltb_ge in E1, E2.
  rewrite encode_len_field by lia. destruct (len_field (Z.to_N z)) as [l7 el].
  unfold is_open in *. cbn [p_state s_state s_compressed_set]. auto.
Qed.

Lemma frame_data_ret c a p sync : is_open a = true ->
  let '(a', calls, r) := send_message_frame_data c a p sync in
  match streaming_rejects a (OSendMessageFrameData p sync) with
  | Some e => r = RRaise e /\ calls = [] /\ a' = a
  | None => exists z, r = RInt z
  end.
Proof.
  intros Hopen. unfold send_message_frame_data, streaming_rejects. rewrite Hopen. cbn [negb].
  destruct (s_compressed_set a); cbn [negb]; [|auto].
  destruct (sendstate_eqb (s_state a) SInsideMessageFrame); cbn [negb]; [|auto].
  destruct (if s_flen a <? masker_ptr (s_masker a) + lenN p then _ else _) as [rest pl].
  destruct (masker_process (masker_flavour c) (s_masker a) pl). eauto.
Qed.

(* C01_streaming_rejects *)
Theorem streaming_guards c ks a o :
  apply_mask c = true -> keys_ok ks -> is_open a = true -> is_streaming_op o = true ->
  let '(a', calls, r) := api_step c ks a o in
  match streaming_rejects a o with
  | Some e => r = RRaise e /\ calls = [] /\ a' = a
  | None => ret_ok r
  end.
Proof.
  intros Ham Hks Hopen Hso. destruct o; try discriminate; cbn [api_step].
  - (* beginMessage *)
    rewrite Hopen. cbn [negb streaming_rejects]. destruct (sendstate_eqb (s_state a) SGround); cbn [negb];
      [left; reflexivity|auto].
  - pose proof (begin_frame_ret c ks a length Hks Hopen) as H.
    destruct (begin_message_frame c ks a length) as [[a' calls] r].
    destruct (streaming_rejects a (OBeginMessageFrame length)); [exact H|]. left. exact (proj1 H).
  - pose proof (frame_data_ret c a payload sync Hopen) as H.
    destruct (send_message_frame_data c a payload sync) as [[a' calls] r].
    destruct (streaming_rejects a (OSendMessageFrameData payload sync)); [exact H|]. right. exact H.
  - (* endMessage *)
    rewrite Hopen. cbn [negb streaming_rejects]. destruct (s_compressed_set a); cbn [negb]; [|auto].
    rewrite do_send_frame_std by (assumption || (unfold max_len, lenN; cbn; lia)). left. reflexivity.
  - (* sendMessageFrame *)
    rewrite Hopen. cbn [negb streaming_rejects]. destruct (s_compressed_set a) eqn:Ecs; cbn [negb]; [|auto].
    pose proof (begin_frame_ret c ks a (Z.of_N (lenN payload)) Hks Hopen) as H.
    destruct (begin_message_frame c ks a (Z.of_N (lenN payload))) as [[a1 c1] r1].
    unfold streaming_rejects in H.
    destruct (negb (in_message (s_state a))); [destruct H as (-> & -> & ->); auto|].
    replace ((Z.of_N (lenN payload) <? 0)%Z || (Z.of_N max_len <? Z.of_N (lenN payload))%Z)
      with (max_len <? lenN payload) in H.
    2: { replace (Z.of_N (lenN payload) <? 0)%Z with false by (symmetry; apply Z.ltb_ge; lia). cbn [orb].
         destruct (max_len <? lenN payload) eqn:E; symmetry;
           [apply N.ltb_lt in E; apply Z.ltb_lt; lia|apply N.ltb_ge in E; apply Z.ltb_ge; lia]. }
    destruct (max_len <? lenN payload); [destruct H as (-> & -> & ->); auto|].
    destruct H as (-> & Ho1 & Hs1 & Hc1).
    pose proof (frame_data_ret c a1 payload sync Ho1) as H2.
    destruct (send_message_frame_data c a1 payload sync) as [[a2 c2] r2].
    unfold streaming_rejects in H2. rewrite Hc1, Ecs, Hs1 in H2. cbn in H2. destruct H2 as [z ->].
    left. reflexivity.
Qed.

(* on a connection that is not OPEN the streaming calls do nothing at all *)
Lemma streaming_not_open c ks a o : is_open a = false -> is_streaming_op o = true ->
  api_step c ks a o = (a, [], RNone).
Proof.
  intros Hopen Hso. destruct o; try discriminate; cbn [api_step]; unfold begin_message_frame, send_message_frame_data;
    rewrite Hopen; reflexivity.
Qed.

(* ---------- role policy (cited by Props/C15.v) ---------- *)
(* client with default options: MASK bit set, the next key of the stream follows the length, exactly one key is
   consumed, the payload on the wire is xor_spec key 0 payload *)
Lemma role_policy_client c ks nk op pl fin rsv :
  is_server c = false -> mask_client_frames c = true -> apply_mask c = true -> keys_ok ks ->
  rsv < 8 -> op < 16 -> lenN pl <= max_len ->
  build_frame c ks nk op pl fin rsv [] None =
    FrOk (encode_header fin rsv op (Some (ks nk)) (lenN pl) ++ xor_spec (ks nk) 0 pl) (S nk).
Proof.
  intros Hs Hm Ham Hks Hr Ho Hl. rewrite build_frame_std by assumption.
  unfold key_at, nk_step, masks. rewrite Hs, Hm. reflexivity.
Qed.

(* server with default options: no MASK bit, no key, payload unchanged, no key consumed *)
Lemma role_policy_server c ks nk op pl fin rsv :
  is_server c = true -> mask_server_frames c = false -> apply_mask c = true -> keys_ok ks ->
  rsv < 8 -> op < 16 -> lenN pl <= max_len ->
  build_frame c ks nk op pl fin rsv [] None = FrOk (encode_header fin rsv op None (lenN pl) ++ pl) nk.
Proof.
  intros Hs Hm Ham Hks Hr Ho Hl. rewrite build_frame_std by assumption.
  unfold key_at, nk_step, masks. rewrite Hs, Hm. reflexivity.
Qed.

Lemma header_mask_bit fin rsv op k n : exists b0 l7 rest,
  encode_header fin rsv op (Some k) n = b0 :: (128 + l7) :: rest ++ k /\ l7 < 128.
Proof.
  unfold encode_header. pose proof (len_field_lt n) as H. destruct (len_field n) as [l7 el]. cbn [fst] in H.
  eexists _, l7, el. split; [reflexivity|exact H].
Qed.

Lemma header_no_mask_bit fin rsv op n : exists b0 l7 rest,
  encode_header fin rsv op None n = b0 :: l7 :: rest /\ l7 < 128.
Proof.
  unfold encode_header. pose proof (len_field_lt n) as H. destruct (len_field n) as [l7 el]. cbn [fst] in H.
  eexists _, l7, el. split; [reflexivity|exact H].
Qed.

(* streaming API: beginMessageFrame draws exactly one key (client) / none (server) and writes it in the header *)
Lemma role_policy_begin_frame c ks a z :
  apply_mask c = true -> keys_ok ks -> is_open a = true ->
  s_state a = SMessageBegin \/ s_state a = SInsideMessage -> s_opcode a < 16 -> (0 <= z <= Z.of_N max_len)%Z ->
  exists a' hdr o, begin_message_frame c ks a z = (a', [mkSd hdr false None], RNone) /\
    hdr = encode_header false 0 o (key_at c ks (next_key a)) (Z.to_N z) /\
    s_fmask a' = key_at c ks (next_key a) /\ next_key a' = (if masks c then S (next_key a) else next_key a).
Proof.
  intros Ham Hks Hopen Hst Hop Hz. rewrite begin_frame_std by assumption.
  eexists _, _, _. split; [reflexivity|]. split; [reflexivity|]. split; reflexivity.
Qed.

(* ---------- F-C01-1: sendFrame(mask=<4 octets>) ---------- *)
(* with an explicit mask the MASK bit is set and the payload is masked, but the key octets are NOT written
   (mv = b"") and no key is drawn *)
Lemma explicit_mask_omits_key c ks nk op pl fin rsv mask :
  apply_mask c = true -> length mask = 4%nat -> rsv < 8 -> op < 16 -> lenN pl <= max_len ->
  build_frame c ks nk op pl fin rsv mask None =
    FrOk (byte0 fin rsv op :: (128 + fst (len_field (lenN pl))) :: snd (len_field (lenN pl)) ++ xor_spec mask 0 pl) nk.
Proof.
  intros Ham Hm Hr Ho Hl. unfold build_frame. rewrite (truthy_key _ Hm). cbn [orb negb andb].
  rewrite b0_code by assumption. rewrite Ham, Hm. cbn [Nat.eqb negb]. rewrite andb_false_r.
  rewrite encode_len_field by exact Hl.
  pose proof (len_field_lt (lenN pl)) as Hlt. destruct (len_field (lenN pl)) as [l7 el]. cbn [fst snd] in *.
  pose proof (b1_code true l7 Hlt) as B1. cbv iota in B1. rewrite B1. rewrite andb_true_r.
  destruct (0 <? lenN pl) eqn:E.
  - rewrite factory_process_spec. reflexivity.
  - apply N.ltb_ge in E. assert (pl = []) as -> by (apply lenN_zero_nil; lia). reflexivity.
Qed.
(* ================= concrete inputs for the non-vacuity examples of Props/C01.v ================= *)
Fixpoint ex_list_eqb (a b : list N) : bool :=
  match a, b with
  | [], [] => true
  | x :: a', y :: b' => (x =? y) && ex_list_eqb a' b'
  | _, _ => false
  end.
Fixpoint ex_gen (n : nat) (x : N) : list N :=
  match n with O => [] | S n' => N.land x 255 :: ex_gen n' (N.land (x * 5 + 17) 65535) end.
Definition ex_keys : nat -> list N := fun i => [N.of_nat i + 1; 2; 3; 250].
Definition ex_payload_70000 : list N := ex_gen 70000 1.

(* a 70000-octet binary message, fragmentSize 65536, sent by a client with default options *)
Definition ex_70000_check : bool :=
  let ops := [OSendMessage ex_payload_70000 true (Some 65536%Z) false] in
  match rfc_parse rc_strict_from_client (wire (default_cfg false) ex_keys ops) with
  | WellFormed [f1; f2] [EvMessage true q] None [] =>
      ex_list_eqb q ex_payload_70000 &&
      negb (f_fin f1) && (f_opcode f1 =? 2) && (lenN (f_payload f1) =? 65536) &&
      f_fin f2 && (f_opcode f2 =? 0) && (lenN (f_payload f2) =? 4464) &&
      match f_mask f1, f_mask f2 with
      | Some k1, Some k2 => ex_list_eqb k1 (ex_keys 0) && ex_list_eqb k2 (ex_keys 1)
      | _, _ => false
      end
  | _ => false
  end.

(* a mixed legal sequence: prepared message (sent twice), streaming message with a ping between its frames, a
   zero-length frame, an over-long last chunk, a fragmented sendMessage whose size is a multiple of the fragment size *)
Definition ex_mixed_ops : list op :=
  [ OPrepare [80; 81] false; OSendPrepared 0;
    OBeginMessage true; OBeginMessageFrame 3; OSendMessageFrameData [1; 2] true; OTick;
    OSendMessageFrameData [3; 4; 5] false;               (* only [3] fits: the call reports -2 *)
    OSendPing [9]; OBeginMessageFrame 0; OSendMessageFrameData [] false;
    OSendMessageFrame [6; 7] false; OEndMessage;
    OSendPrepared 0;
    OSendMessage [10; 11; 12; 13] false (Some 2%Z) true; OSendPong [] ].
Definition ex_mixed_events : list event :=
  [ EvMessage false [80; 81]; EvPing [9]; EvMessage true [1; 2; 3; 6; 7]; EvMessage false [80; 81];
    EvMessage false [10; 11; 12; 13]; EvPong [] ].
Fixpoint ex_ev_eqb (a b : list event) : bool :=
  match a, b with
  | [], [] => true
  | EvMessage x p :: a', EvMessage y q :: b' => Bool.eqb x y && ex_list_eqb p q && ex_ev_eqb a' b'
  | EvPing p :: a', EvPing q :: b' => ex_list_eqb p q && ex_ev_eqb a' b'
  | EvPong p :: a', EvPong q :: b' => ex_list_eqb p q && ex_ev_eqb a' b'
  | _, _ => false
  end.
Definition ex_mixed_check (server : bool) : bool :=
  match spec_run (default_cfg server) [] SpGround ex_mixed_ops with
  | Some (SpGround, _, evs) =>
      ex_ev_eqb evs ex_mixed_events &&
      match rfc_parse (if server then rc_strict_from_server else rc_strict_from_client)
                      (wire (default_cfg server) ex_keys ex_mixed_ops) with
      | WellFormed fs evs' None [] => ex_ev_eqb evs' ex_mixed_events && Nat.eqb (length fs) 11
      | _ => false
      end
  | _ => false
  end.

(* illegal call orders that the code does NOT reject (endMessage has its state check commented out; sendMessage and
   sendPing never look at send_state) and that put a malformed frame sequence on the wire *)
Definition ex_no_raise (c : scfg) (ops : list op) : bool :=
  forallb (fun r => match r with RNone | RInt _ => true | _ => false end) (rets_of (snd (run c ex_keys sst0 ops))).
Definition ex_malformed (c : scfg) (ops : list op) (e : perr) : bool :=
  ex_no_raise c ops &&
  match rfc_parse rc_strict_from_server (wire c ex_keys ops), e with
  | Malformed EUnexpectedContinuation, EUnexpectedContinuation => true
  | Malformed EExpectedContinuation, EExpectedContinuation => true
  | Malformed EReservedOpcode, EReservedOpcode => true
  | _, _ => false
  end.
Definition ex_double_end : list op := [OBeginMessage true; OSendMessageFrame [1] false; OEndMessage; OEndMessage].
Definition ex_message_inside : list op :=
  [OBeginMessage true; OSendMessageFrame [1] false; OSendMessage [2] true None false; OEndMessage].
Definition ex_ping_inside_frame : list op :=
  [OBeginMessage true; OBeginMessageFrame 4; OSendMessageFrameData [1; 2] false; OSendPing [];
   OSendMessageFrameData [3; 4] false; OEndMessage].

(* F-C01-1 on a concrete call: sendFrame(opcode=2, payload=b"abcd", mask=b"\x01\x02\x03\x04") *)
Definition ex_explicit_mask_wire : list N :=
  wire (default_cfg true) ex_keys [OSendFrame 2 [97; 98; 99; 100] true 0 [1; 2; 3; 4] None None false].

(* applyMask = False on a client: the key is announced but the payload is not masked, so a conforming reader
   recovers different octets *)
Definition ex_noapply_cfg : scfg := mkScfg false true false false 0%Z 0 PurePython.
Definition ex_noapply_check : bool :=
  match rfc_parse rc_strict_from_client (wire ex_noapply_cfg ex_keys [OSendMessage [1; 1; 1; 1] true None false]) with
  | WellFormed _ [EvMessage true q] None [] => negb (ex_list_eqb q [1; 1; 1; 1])
  | _ => false
  end.

(* a queued write is dropped (not written) once the state is CLOSED *)
Definition ex_closed_drop : bool :=
  let '(_, outs) := run (default_cfg true) ex_keys sst0
                        [OSendData [1] true None; OSendData [2] true None; OSetState PClosed; OTick; OTick] in
  ex_list_eqb (concat (writes_of outs)) [1].

Lemma streaming_unchecked_refutation :
  exists c ks ops, Forall ret_ok (rets_of (snd (run c ks sst0 ops))) /\
                   exists e, rfc_parse rc_strict_from_server (wire c ks ops) = Malformed e.
Proof.
  exists (default_cfg true), ex_keys, ex_double_end. split.
  - assert (H : rets_of (snd (run (default_cfg true) ex_keys sst0 ex_double_end)) = [RNone; RNone; RNone; RNone])
      by (vm_compute; reflexivity).
    rewrite H. repeat constructor; left; reflexivity.
  - exists EUnexpectedContinuation. vm_compute. reflexivity.
Qed.

Lemma delivery_default_client ks ops prep' evs : keys_ok ks ->
  spec_run (default_cfg false) [] SpGround ops = Some (SpGround, prep', evs) ->
  exists fs evs', rfc_parse rc_strict_from_client (wire (default_cfg false) ks ops) = WellFormed fs evs' None [] /\
                  messages_of evs' = messages_of evs.
Proof.
  intros Hk. exact (sequence_messages rc_strict_from_client (default_cfg false) ks ops prep' evs eq_refl Hk
                      (conj eq_refl eq_refl)).
Qed.

Lemma delivery_default_server ks ops prep' evs : keys_ok ks ->
  spec_run (default_cfg true) [] SpGround ops = Some (SpGround, prep', evs) ->
  exists fs evs', rfc_parse rc_strict_from_server (wire (default_cfg true) ks ops) = WellFormed fs evs' None [] /\
                  messages_of evs' = messages_of evs.
Proof.
  intros Hk. exact (sequence_messages rc_strict_from_server (default_cfg true) ks ops prep' evs eq_refl Hk
                      (conj eq_refl eq_refl)).
Qed.


(* the peer's ping arrives while the application is in the middle of a frame of the streaming API (every call of the
   application is legal): the automatic pong is written into the payload of the unfinished frame *)
Definition ex_keys_const : nat -> list N := fun _ => [1; 2; 3; 4].
Definition ex_peer_ping_midframe : list op :=
  [OBeginMessage true; OBeginMessageFrame 4; OSendMessageFrameData [1; 2] false; OPeerPing [112];
   OSendMessageFrameData [3; 4] false; OEndMessage].

Lemma ex_keys_const_ok : keys_ok ex_keys_const.
Proof. intros i. split; [reflexivity|]. unfold ex_keys_const. repeat constructor; reflexivity. Qed.

Lemma delivery_full_refutation :
  exists c ks ops prep' evs,
    apply_mask c = true /\ keys_ok ks /\ policy_ok rc_strict_from_server c /\
    spec_run_full c [] SpGround ops = Some (SpGround, prep', evs) /\
    Forall ret_ok (rets_of (snd (run c ks sst0 ops))) /\
    exists e, rfc_parse rc_strict_from_server (wire c ks ops) = Malformed e.
Proof.
  exists (default_cfg true), ex_keys_const, ex_peer_ping_midframe, [], [EvPong [112]; EvMessage true [1; 2; 3; 4]].
  split; [reflexivity|]. split; [exact ex_keys_const_ok|]. split; [split; reflexivity|].
  split; [vm_compute; reflexivity|]. split.
  - assert (H : rets_of (snd (run (default_cfg true) ex_keys_const sst0 ex_peer_ping_midframe)) =
                [RNone; RNone; RInt 2%Z; RNone; RInt 0%Z; RNone]) by (vm_compute; reflexivity).
    rewrite H. repeat (apply Forall_cons; [first [left; reflexivity | right; eexists; reflexivity]|]). apply Forall_nil.
  - exists EReservedBits. vm_compute. reflexivity.
Qed.

(* ---------- a sequence that stops in the middle of a frame ---------- *)
Lemma parse_partial_frame rc fin rsv op m n sent :
  rsv < 8 -> op < 16 -> mkey_ok m -> n <= max_len -> lenN sent < n ->
  header_check rc fin rsv op (is_some m) n = None ->
  parse_frame rc (encode_header fin rsv op m n ++ mask_payload m sent) = FIncomplete.
Proof.
  intros Hr Ho Hk Hn Hs Hc. unfold encode_header, mask_payload.
  pose proof (decode_len_field n) as Hd. pose proof (len_field_lt n) as Hlt.
  destruct (len_field n) as [l7 el]. cbn [fst snd] in Hd, Hlt.
  destruct (byte0_fields fin _ _ Hr Ho) as (B1 & B2 & B3 & _).
  destruct m as [k|]; cbn [is_some] in Hc.
  - destruct Hk as [Hk4 _]. rewrite <- !app_comm_cons, <- !app_assoc. cbn [app parse_frame].
    rewrite B1, B2, B3.
    replace (128 <=? 128 + l7) with true by (symmetry; apply N.leb_le; lia).
    replace ((128 + l7) mod 128) with l7 by lia.
    rewrite Hd by exact Hn. rewrite Hc.
    rewrite app_length, Hk4. replace (Nat.ltb (4 + _) 4) with false by (symmetry; apply Nat.ltb_ge; lia).
    rewrite skipn_app_exact by exact Hk4.
    replace (lenN (xor_spec k 0 sent) <? n) with true; [reflexivity|].
    symmetry. apply N.ltb_lt. unfold lenN. rewrite xor_spec_length. exact Hs.
  - rewrite <- !app_comm_cons, <- ?app_assoc. cbn [app parse_frame]. rewrite B1, B2, B3.
    replace (128 <=? l7) with false by (symmetry; apply N.leb_gt; lia).
    replace (l7 mod 128) with l7 by lia.
    rewrite Hd by exact Hn. rewrite Hc.
    replace (lenN sent <? n) with true by (symmetry; apply N.ltb_lt; exact Hs). reflexivity.
Qed.

Lemma split_incomplete rc bs : parse_frame rc bs = FIncomplete -> split rc bs = SOk [] bs.
Proof. intros H. rewrite split_step, H. reflexivity. Qed.

(* C01_midframe: a legal sequence that stops inside a frame (at least one octet of it still to come): everything
   written so far is a well-formed frame sequence followed by the beginning of one more frame *)
Theorem sequence_midframe rc c ks ops b acc rem prep' evs :
  apply_mask c = true -> keys_ok ks -> policy_ok rc c ->
  spec_run c [] SpGround ops = Some (SpInFrame b acc rem, prep', evs) -> 0 < rem ->
  exists fs o tail, rfc_parse rc (wire c ks ops) = WellFormed fs evs o tail /\ tail <> [] /\
                    (o = None \/ exists acc0, o = Some (b, acc0)).
Proof.
  intros Ham Hks Hpol Hs Hrem.
  destruct (run_legal rc c ks Ham Hks Hpol ops _ _ _ _ _ _ _ _ _ (inv_init rc c ks) qwf0 Hs)
    as (a' & q' & outs & calls & Hrun & Hapi & Hrets & Hinv & Hq & Hc).
  pose proof Hinv as (Hop & _ & _ & _ & _ & fs & Hp & sent & opn & o & Hstr & Ha & Hopn & Hfl & Hmax & K1 & K2 & _ & _).
  rewrite (wire_of_run c ks ops a' q' outs Hrun Hop Hq), Hc. cbn [qcontent qst0 queue map concat app].
  cbn [app] in Hstr. rewrite Hstr.
  set (tail := encode_header false 0 o (s_fmask a') (s_flen a') ++ mask_payload (s_fmask a') sent).
  assert (Ho : o = 0 \/ o = 1 \/ o = 2).
  { destruct Hopn as [(_ & -> & _)|(acc0 & _ & -> & _)]; [destruct b; cbn; auto|auto]. }
  assert (Hinc : parse_frame rc tail = FIncomplete).
  { apply parse_partial_frame; try assumption; try lia. now apply header_check_data. }
  exists fs, opn, tail. split; [|split].
  - rewrite rfc_parse_split, (split_encode_frames rc fs tail Hp), (split_incomplete rc tail Hinc), app_nil_r, Ha.
    reflexivity.
  - unfold tail, encode_header. destruct (len_field (s_flen a')), (s_fmask a'); discriminate.
  - destruct Hopn as [(-> & _)|(acc0 & -> & _)]; [left; reflexivity|right; eauto].
Qed.


(* ---------- two connections side by side: what each one writes depends on its own calls only ---------- *)
Lemma product_noninterference c1 c2 ks1 ks2 ops : forall s1 s2,
  let '((t1, t2), outs) := run2 c1 c2 ks1 ks2 s1 s2 ops in
  (t1, sel true outs) = run c1 ks1 s1 (sel true ops) /\ (t2, sel false outs) = run c2 ks2 s2 (sel false ops).
Proof.
  induction ops as [|[b o] r IH]; intros s1 s2.
  - cbn. split; reflexivity.
  - destruct b; cbn [run2].
    + destruct (step c1 ks1 s1 o) as [[s1' w] rt] eqn:E.
      specialize (IH s1' s2). destruct (run2 c1 c2 ks1 ks2 s1' s2 r) as [[t1 t2] outs]. destruct IH as [H1 H2].
      unfold sel in *. cbn [filter fst Bool.eqb map snd run]. rewrite E, <- H1. split; [reflexivity|exact H2].
    + destruct (step c2 ks2 s2 o) as [[s2' w] rt] eqn:E.
      specialize (IH s1 s2'). destruct (run2 c1 c2 ks1 ks2 s1 s2' r) as [[t1 t2] outs]. destruct IH as [H1 H2].
      unfold sel in *. cbn [filter fst Bool.eqb map snd run]. rewrite E, <- H2. split; [exact H1|reflexivity].
Qed.
