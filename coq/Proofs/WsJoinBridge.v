(* C01 join, part 3 -- the BRIDGE between the two declarative references.
   Sender side:   WsFrame.rfc_parse  (frames, then message assembly; Model/WsFrame.v)
   Receiver side: WsRecv.rfc_judge   (frame-by-frame judge with a fragment context; Model/WsRecv.v)
   On a stream of encoded frames that the former assembles without objection, the latter reads exactly the same
   deliveries and has no objection either (bridge, bridge_judge), provided the receiver accepts the sender's masking
   (recv_accepts), no extension is negotiated, the messages respect the receiver's size limits and every text message
   is well-formed UTF-8 when the receiver validates (events_fit / open_fits).  Close frames are excluded (no_close):
   the send API specification never emits one. *)
From Coq Require Import NArith ZArith List Bool Lia PeanoNat.
From AV Require Import Model.Masker Proofs.MaskerProofs Model.WsFrame Model.WsSend Proofs.WsSendProofs.
From AV Require Model.WsRecv Proofs.WsRecvLocal Proofs.WsRecvSeq.
From AV Require Import Proofs.WsJoinFrame.
Import ListNotations.
Open Scope N_scope.

#[local] Arguments WsRecv.FMore {D}.
#[local] Arguments WsRecv.FFail {D}.
#[local] Arguments WsRecv.FClose {D}.
#[local] Arguments WsRecv.FNext {D}.

(* ---------- vocabulary ---------- *)
(* the sender-side events in the receiver-side judge's vocabulary (a Close frame is not a delivery) *)
Definition conv (e : event) : list WsRecv.jev :=
  match e with
  | EvMessage b p => [WsRecv.JMsg p b]
  | EvPing p => [WsRecv.JPing p]
  | EvPong p => [WsRecv.JPong p]
  | EvClose _ => []
  end.
Definition conv_events (evs : list event) : list WsRecv.jev := flat_map conv evs.

Definition no_close (evs : list event) : Prop := forall p, ~ In (EvClose p) evs.

(* which receivers accept the frames a reference-parser configuration lets through *)
Definition accepts_masked (cf : WsRecv.cfg) : Prop :=
  WsRecv.isServer cf || WsRecv.acceptMasked cf = true /\ WsRecv.applyMask cf = true.
Definition accepts_unmasked (cf : WsRecv.cfg) : Prop :=
  negb (WsRecv.isServer cf && WsRecv.requireMasked cf) = true.
Definition recv_accepts (rc : rcfg) (cf : WsRecv.cfg) : Prop :=
  WsRecv.pmc cf = false /\ rc_opcode_rules rc = true /\ (forall v, rc_rsv_ok rc v = false) /\
  match rc_mask rc with
  | MustMask => accepts_masked cf
  | MustNotMask => accepts_unmasked cf
  | AnyMask => accepts_masked cf /\ accepts_unmasked cf
  end.

Lemma header_check_inv rc fin rsv op masked n :
  rc_opcode_rules rc = true -> (forall v, rc_rsv_ok rc v = false) -> op < 16 ->
  header_check rc fin rsv op masked n = None ->
  rsv = 0 /\ (op = 0 \/ op = 1 \/ op = 2 \/ op = 8 \/ op = 9 \/ op = 10) /\
  (8 <= op -> fin = true /\ n <= 125) /\
  match rc_mask rc with MustMask => masked = true | MustNotMask => masked = false | AnyMask => True end.
Proof.
  intros Ho Hr Hlt. unfold header_check. rewrite Ho, Hr. cbn [negb andb]. rewrite andb_true_r.
  destruct (rsv =? 0) eqn:E0; [|discriminate]. apply N.eqb_eq in E0. cbn [negb].
  destruct (opcode_known op) eqn:Ek; [|discriminate]. cbn [negb].
  unfold is_control.
  destruct (8 <=? op) eqn:E8; cbn [andb].
  - apply N.leb_le in E8. destruct fin; [|discriminate]. cbn [negb].
    destruct (125 <? n) eqn:En; [discriminate|]. apply N.ltb_ge in En.
    intros H. split; [exact E0|]. split.
    { unfold opcode_known in Ek. repeat (apply orb_true_iff in Ek; destruct Ek as [Ek|Ek]); apply N.eqb_eq in Ek; tauto. }
    split; [auto|]. destruct (rc_mask rc), masked; try discriminate; auto.
  - apply N.leb_gt in E8. intros H. split; [exact E0|]. split.
    { unfold opcode_known in Ek. repeat (apply orb_true_iff in Ek; destruct Ek as [Ek|Ek]); apply N.eqb_eq in Ek; tauto. }
    split; [lia|]. destruct (rc_mask rc), masked; try discriminate; auto.
Qed.

(* ---------- UTF-8 helpers ---------- *)
Lemma u_prefix s a b : fst (WsRecv.u_loop s (a ++ b)) = true ->
  fst (WsRecv.u_loop s a) = true /\ WsRecv.u_loop (snd (WsRecv.u_loop s a)) b = WsRecv.u_loop s (a ++ b).
Proof.
  rewrite WsRecvLocal.u_loop_app. destruct (WsRecv.u_loop s a) as [v s1]. cbn [fst snd].
  destruct v; [auto|discriminate].
Qed.
Lemma utf8_complete_loop p : WsRecv.utf8_complete p = true <-> WsRecv.u_loop 0 p = (true, 0).
Proof.
  unfold WsRecv.utf8_complete, WsRecv.u_validate. destruct (WsRecv.u_loop 0 p) as [v s].
  split.
  - intros H. apply andb_true_iff in H. destruct H as [-> H]. cbn in H. apply N.eqb_eq in H. now subst.
  - intros [= -> ->]. reflexivity.
Qed.

(* ---------- assembly: the fate of an open message ---------- *)
(* a message that is open either is completed later or is still open at the end, with more payload *)
Lemma open_fate fs : forall st st' evs b acc,
  assemble st fs = AOk st' evs -> a_open st = Some (b, acc) ->
  (exists more, In (EvMessage b (acc ++ more)) evs) \/ (exists more, a_open st' = Some (b, acc ++ more)).
Proof.
  induction fs as [|f fs IH]; intros st st' evs b acc Ha Ho.
  - cbn in Ha. injection Ha as <- <-. right. exists []. now rewrite app_nil_r.
  - cbn [assemble] in Ha. destruct (assemble_step st f) as [st1 e1|] eqn:Es; [|discriminate].
    destruct (assemble st1 fs) as [st2 e2|] eqn:Ea; [|discriminate]. injection Ha as <- <-.
    unfold assemble_step in Es. destruct (a_closed st); [discriminate|]. rewrite Ho in Es.
    assert (Keep : forall e, AOk st e = AOk st1 e1 ->
              (exists more, In (EvMessage b (acc ++ more)) (e1 ++ e2)) \/ (exists more, a_open st2 = Some (b, acc ++ more))).
    { intros e HH. injection HH as <- <-. destruct (IH _ _ _ _ _ Ea Ho) as [[m Hm]|[m Hm]]; [left|right]; exists m; auto; try (apply in_or_app; now right). }
    destruct (f_opcode f =? 0).
    + destruct (f_fin f).
      * injection Es as <- <-. left. exists (f_payload f). apply in_or_app. left. left. reflexivity.
      * injection Es as <- <-. destruct (IH _ _ _ b (acc ++ f_payload f) Ea eq_refl) as [[m Hm]|[m Hm]]; [left|right];
          exists (f_payload f ++ m); rewrite app_assoc; auto; try (apply in_or_app; now right).
    + destruct ((f_opcode f =? 1) || (f_opcode f =? 2)); [discriminate|].
      destruct (f_opcode f =? 8).
      * injection Es as <- <-. destruct (IH _ _ _ b acc Ea eq_refl) as [[m Hm]|[m Hm]]; [left|right]; exists m; auto; try (apply in_or_app; now right).
      * destruct (f_opcode f =? 9); [eapply Keep; exact Es|]. destruct (f_opcode f =? 10); [eapply Keep; exact Es|discriminate].
Qed.


Section Bridge.
Variable D : Type.
Variable cd : WsRecv.codec D.
Variable cf : WsRecv.cfg.
Variable d0 : D.
Variable rc : rcfg.
Hypothesis Hacc : recv_accepts rc cf.
Notation jstate := (WsRecv.jstate D).

Definition is_text (b : bool) : bool := negb b && WsRecv.utf8validate cf.

(* the judge's fragment context that corresponds to the reference parser's assembly state *)
Definition jinv (st : astate) (js : jstate) : Prop :=
  a_closed st = false /\
  match a_open st with
  | None => js = WsRecv.j_init D d0
  | Some (b, acc) =>
      js = WsRecv.mkJ D true (is_text b) false b acc (if is_text b then snd (WsRecv.u_loop 0 acc) else 0) (lenN acc) d0 /\
      (is_text b = true -> fst (WsRecv.u_loop 0 acc) = true)
  end.

(* what the receiver's configuration demands of the message a data frame belongs to: [full] = payload so far *)
Definition part_fits (b : bool) (full : list N) (n : N) (fin : bool) : Prop :=
  WsRecv.rfc_too_big cf (lenN full) n = false /\
  (is_text b = true -> fst (WsRecv.u_loop 0 full) = true /\ (fin = true -> snd (WsRecv.u_loop 0 full) = 0)).
Definition frame_fits (st : astate) (f : frame) : Prop :=
  f_opcode f < 8 ->
  match a_open st with
  | Some (b, acc) => part_fits b (acc ++ f_payload f) (lenN (f_payload f)) (f_fin f)
  | None => part_fits (f_opcode f =? 2) (f_payload f) (lenN (f_payload f)) (f_fin f)
  end.

Lemma judge_step st f st1 e1 js rest :
  frame_ok f -> frame_header_check rc f = None -> f_opcode f <> 8 ->
  assemble_step st f = AOk st1 e1 -> jinv st js -> frame_fits st f ->
  exists js1, WsRecv.judge_frame D cd cf js (encode_frame f ++ rest) = WsRecv.FNext (conv_events e1) js1 rest /\
              jinv st1 js1.
Proof.
  intros (Hrsv & Hop16 & Hk & Hlen) Hc Hn8 Hs [Hcl Hj] Hfit.
  destruct Hacc as (Hpmc & Hor & Hrr & Hmask).
  destruct f as [fin rsv op mk pl]. unfold frame_header_check in Hc. unfold frame_fits in Hfit.
  cbn [f_fin f_rsv f_opcode f_mask f_payload] in *.
  destruct (header_check_inv rc fin rsv op _ _ Hor Hrr Hop16 Hc) as (-> & Hop & Hctl & Hm).
  assert (Hop5 : op = 0 \/ op = 1 \/ op = 2 \/ op = 9 \/ op = 10) by tauto.
  pose proof (len_field_lt (lenN pl)) as Hl7.
  (* masking accepted by the receiver *)
  assert (Hmk : match mk with Some k => length k = 4%nat /\ WsRecv.applyMask cf = true | None => True end).
  { destruct mk as [k|]; [|exact I]. destruct Hk as [Hk4 _]. split; [exact Hk4|].
    destruct (rc_mask rc); try discriminate; unfold accepts_masked in Hmask; tauto. }
  assert (Hmb : (if is_some mk then WsRecv.isServer cf || WsRecv.acceptMasked cf
                 else negb (WsRecv.isServer cf && WsRecv.requireMasked cf)) = true).
  { destruct mk as [k|]; cbn [is_some] in *; destruct (rc_mask rc); try discriminate;
      unfold accepts_masked, accepts_unmasked in Hmask; tauto. }
  assert (Hctl' : 8 <= op -> fin = true /\ fst (len_field (lenN pl)) <= 125).
  { intros H8. destruct (Hctl H8) as [-> Hle]. split; [reflexivity|]. unfold len_field.
    replace (lenN pl <=? 125) with true by (symmetry; apply N.leb_le; exact Hle). exact Hle. }
  unfold assemble_step in Hs. rewrite Hcl in Hs. cbn [f_fin f_opcode f_payload] in Hs.
  assert (Hhdr : forall in_frag, (op = 0 -> in_frag = true) -> (op = 1 \/ op = 2 -> in_frag = false) ->
            WsRecv.rfc_header_bad cf in_frag (byte0 fin 0 op)
              (if is_some mk then 128 + fst (len_field (lenN pl)) else fst (len_field (lenN pl))) = false).
  { intros in_frag A B. apply header_good; assumption. }
  destruct Hop5 as [ -> | [ -> | [ -> | [ -> | -> ] ] ] ].
  - (* continuation *)
    cbn in Hs. destruct (a_open st) as [[b acc]|] eqn:Eo; [|discriminate].
    destruct Hj as [Ej Hval].
    specialize (Hfit ltac:(lia)). cbn [f_payload f_fin] in Hfit. destruct Hfit as [Hbig Htxt].
    rewrite (judge_encoded D cd cf js fin 0 mk pl rest ltac:(tauto) Hmk Hlen
               (Hhdr (WsRecv.j_open D js) ltac:(intros _; subst js; reflexivity) ltac:(intros [?|?]; discriminate))).
    subst js.
    unfold frame_core. cbn [WsRecv.j_open WsRecv.j_comp WsRecv.j_text WsRecv.j_bin WsRecv.j_total WsRecv.j_dec WsRecv.j_u WsRecv.j_acc negb andb].
    change (8 <=? 0) with false. cbv iota.
    rewrite lenN_app in Hbig. rewrite Hbig.
    unfold WsRecv.u_validate.
    destruct (is_text b) eqn:Et.
    + destruct (Htxt eq_refl) as [Hv Hfin]. destruct (u_prefix 0 acc pl Hv) as [_ Hu]. rewrite Hu.
      destruct (WsRecv.u_loop 0 (acc ++ pl)) as [v s1] eqn:El. cbn [fst snd] in *. subst v. cbn [negb andb].
      destruct fin.
      * rewrite (Hfin eq_refl). cbn. injection Hs as <- <-. eexists. split; [reflexivity|].
        split; [reflexivity|]. reflexivity.
      * injection Hs as <- <-. eexists. split; [reflexivity|]. split; [reflexivity|].
        cbn [a_open]. rewrite Et, El. cbn [snd fst]. rewrite lenN_app. auto.
    + destruct (WsRecv.u_loop 0 pl) as [v s1]. cbn [andb].
      destruct fin.
      * injection Hs as <- <-. eexists. split; [reflexivity|]. split; reflexivity.
      * injection Hs as <- <-. eexists. split; [reflexivity|]. split; [reflexivity|].
        cbn [a_open]. rewrite Et, lenN_app. split; [reflexivity|discriminate].
  - (* text *)
    cbn in Hs. destruct (a_open st) as [[b acc]|] eqn:Eo; [discriminate|].
    specialize (Hfit ltac:(lia)). cbn [f_payload f_fin f_opcode] in Hfit. change (1 =? 2) with false in Hfit.
    destruct Hfit as [Hbig Htxt].
    rewrite (judge_encoded D cd cf js fin 1 mk pl rest ltac:(tauto) Hmk Hlen
               (Hhdr (WsRecv.j_open D js) ltac:(discriminate) ltac:(intros _; subst js; reflexivity))).
    subst js.
    unfold frame_core, WsRecv.j_init. cbn [WsRecv.j_open WsRecv.j_comp WsRecv.j_text WsRecv.j_bin WsRecv.j_total WsRecv.j_dec WsRecv.j_u WsRecv.j_acc negb andb].
    change (8 <=? 1) with false. cbv iota. rewrite Hpmc. cbn [andb]. cbn [N.add]. rewrite Hbig.
    unfold WsRecv.u_validate. change (1 =? 1) with true. change (1 =? 2) with false. cbn [andb app].
    unfold is_text in Htxt. cbn [negb andb] in Htxt.
    destruct (WsRecv.utf8validate cf) eqn:Et.
    + destruct (Htxt eq_refl) as [Hv Hfin].
      destruct (WsRecv.u_loop 0 pl) as [v s1] eqn:El. cbn [fst snd] in *. subst v. cbn [negb andb].
      destruct fin.
      * rewrite (Hfin eq_refl). cbn. injection Hs as <- <-. eexists. split; [reflexivity|]. split; [exact Hcl|rewrite Eo; reflexivity].
      * injection Hs as <- <-. eexists. split; [reflexivity|]. split; [reflexivity|].
        cbn [a_open]. unfold is_text. rewrite Et, El. cbn. auto.
    + destruct (WsRecv.u_loop 0 pl) as [v s1]. cbn [andb].
      destruct fin.
      * injection Hs as <- <-. eexists. split; [reflexivity|]. split; [exact Hcl|rewrite Eo; reflexivity].
      * injection Hs as <- <-. eexists. split; [reflexivity|]. split; [reflexivity|].
        cbn [a_open]. unfold is_text. rewrite Et. cbn. split; [reflexivity|discriminate].
  - (* binary *)
    cbn in Hs. destruct (a_open st) as [[b acc]|] eqn:Eo; [discriminate|].
    specialize (Hfit ltac:(lia)). cbn [f_payload f_fin f_opcode] in Hfit. change (2 =? 2) with true in Hfit.
    destruct Hfit as [Hbig _].
    rewrite (judge_encoded D cd cf js fin 2 mk pl rest ltac:(tauto) Hmk Hlen
               (Hhdr (WsRecv.j_open D js) ltac:(discriminate) ltac:(intros _; subst js; reflexivity))).
    subst js.
    unfold frame_core, WsRecv.j_init. cbn [WsRecv.j_open WsRecv.j_comp WsRecv.j_text WsRecv.j_bin WsRecv.j_total WsRecv.j_dec WsRecv.j_u WsRecv.j_acc negb andb].
    change (8 <=? 2) with false. cbv iota. rewrite Hpmc. cbn [andb]. cbn [N.add]. rewrite Hbig.
    unfold WsRecv.u_validate. change (2 =? 1) with false. change (2 =? 2) with true. cbn [andb app].
    destruct (WsRecv.u_loop 0 pl) as [v s1].
    destruct fin.
    + injection Hs as <- <-. eexists. split; [reflexivity|]. split; [exact Hcl|rewrite Eo; reflexivity].
    + injection Hs as <- <-. eexists. split; [reflexivity|]. split; [reflexivity|].
      cbn [a_open]. unfold is_text. cbn. split; [reflexivity|discriminate].
  - (* ping *)
    cbn in Hs. injection Hs as <- <-.
    rewrite (judge_encoded D cd cf js fin 9 mk pl rest ltac:(tauto) Hmk Hlen
               (Hhdr (WsRecv.j_open D js) ltac:(discriminate) ltac:(intros [?|?]; discriminate))).
    unfold frame_core. cbn. exists js. split; [reflexivity|]. split; assumption.
  - (* pong *)
    cbn in Hs. injection Hs as <- <-.
    rewrite (judge_encoded D cd cf js fin 10 mk pl rest ltac:(tauto) Hmk Hlen
               (Hhdr (WsRecv.j_open D js) ltac:(discriminate) ltac:(intros [?|?]; discriminate))).
    unfold frame_core. cbn. exists js. split; [reflexivity|]. split; assumption.
Qed.

(* ---------- a stream that the judge reads as complete frames, to the last octet ---------- *)
Inductive Judges : jstate -> list N -> list WsRecv.jev -> jstate -> Prop :=
| Judges_nil js : Judges js [] [] js
| Judges_cons js bs e1 js1 rest e2 js2 :
    WsRecv.judge_frame D cd cf js bs = WsRecv.FNext e1 js1 rest -> Judges js1 rest e2 js2 ->
    Judges js bs (e1 ++ e2) js2.

Lemma Judges_judge js bs evs js' : Judges js bs evs js' ->
  forall n, (length bs < n)%nat -> WsRecv.judge D cd n cf js bs = Some (evs, WsRecv.VMore).
Proof.
  induction 1 as [js|js bs e1 js1 rest e2 js2 Hf _ IH]; intros n Hn.
  - destruct n; [lia|]. reflexivity.
  - destruct n; [lia|]. cbn [WsRecv.judge]. rewrite Hf.
    destruct (WsRecvSeq.judge_frame_rest D cd cf _ _ _ _ _ Hf) as [k Hk].
    rewrite IH; [reflexivity|].
    rewrite Hk, skipn_length. destruct bs as [|b0 [|b1 r]]; cbn [WsRecv.judge_frame] in Hf; try discriminate.
    cbn [length] in *. lia.
Qed.

Lemma step_close st f st1 e1 : assemble_step st f = AOk st1 e1 -> f_opcode f = 8 -> e1 = [EvClose (f_payload f)].
Proof.
  unfold assemble_step. intros H E. rewrite E in H. cbn in H.
  destruct (a_closed st); [discriminate|]. now injection H as _ <-.
Qed.

Fixpoint frames_fit (st : astate) (fs : list frame) : Prop :=
  match fs with
  | [] => True
  | f :: r => frame_fits st f /\ match assemble_step st f with AOk st1 _ => frames_fit st1 r | ABad _ => True end
  end.

Lemma bridge_frames fs : forall st st' evs js,
  frames_pass rc fs -> assemble st fs = AOk st' evs -> no_close evs -> jinv st js -> frames_fit st fs ->
  exists js', Judges js (encode_frames fs) (conv_events evs) js' /\ jinv st' js'.
Proof.
  induction fs as [|f fs IH]; intros st st' evs js Hp Ha Hnc Hj Hfit.
  - cbn in Ha. injection Ha as <- <-. exists js. split; [constructor|exact Hj].
  - cbn [assemble] in Ha. destruct (assemble_step st f) as [st1 e1|] eqn:Es; [|discriminate].
    destruct (assemble st1 fs) as [st2 e2|] eqn:Ea; [|discriminate]. injection Ha as <- <-.
    inversion Hp as [|? ? [Hok Hc] Hp']; subst.
    cbn [frames_fit] in Hfit. rewrite Es in Hfit. destruct Hfit as [Hf1 Hf2].
    assert (Hn8 : f_opcode f <> 8).
    { intros E. pose proof (step_close _ _ _ _ Es E) as ->. apply (Hnc (f_payload f)). left. reflexivity. }
    destruct (judge_step st f st1 e1 js (encode_frames fs) Hok Hc Hn8 Es Hj Hf1) as [js1 [Hjf Hj1]].
    assert (Hnc2 : no_close e2) by (intros p Hin; apply (Hnc p); apply in_or_app; now right).
    destruct (IH st1 st2 e2 js1 Hp' Ea Hnc2 Hj1 Hf2) as [js2 [HJ Hj2]].
    exists js2. split; [|exact Hj2].
    unfold conv_events. rewrite flat_map_app. unfold encode_frames. cbn [map concat].
    econstructor; [exact Hjf|exact HJ].
Qed.

(* ---------- application-level conditions: sizes and UTF-8 of whole messages ---------- *)
Definition size_ok (p : list N) : Prop := WsRecv.rfc_too_big cf (lenN p) (lenN p) = false.
Definition msg_ok (b : bool) (p : list N) : Prop :=
  size_ok p /\ (is_text b = true -> WsRecv.utf8_complete p = true).
Definition events_fit (evs : list event) : Prop := forall b p, In (EvMessage b p) evs -> msg_ok b p.
Definition open_fits (o : option (bool * list N)) : Prop :=
  match o with
  | None => True
  | Some (b, acc) => size_ok acc /\ (is_text b = true -> fst (WsRecv.u_loop 0 acc) = true)
  end.

Lemma too_big_mono t n t' n' : t <= t' -> n <= n' ->
  WsRecv.rfc_too_big cf t' n' = false -> WsRecv.rfc_too_big cf t n = false.
Proof.
  unfold WsRecv.rfc_too_big. intros Ht Hn H. apply orb_false_iff in H. destruct H as [H1 H2].
  apply orb_false_iff. split.
  - destruct (0 <? WsRecv.maxMsg cf); [|reflexivity]. cbn [andb] in *. apply N.ltb_ge in H1. apply N.ltb_ge. lia.
  - destruct (0 <? WsRecv.maxFrame cf); [|reflexivity]. cbn [andb] in *. apply N.ltb_ge in H2. apply N.ltb_ge. lia.
Qed.

Lemma fits_prefix b full more : open_fits (Some (b, full ++ more)) -> open_fits (Some (b, full)).
Proof.
  intros [Hs Hu]. split.
  - unfold size_ok in *. eapply too_big_mono; [| |exact Hs]; rewrite lenN_app; lia.
  - intros Ht. apply (u_prefix 0 full more (Hu Ht)).
Qed.
Lemma msg_open b p : msg_ok b p -> open_fits (Some (b, p)).
Proof.
  intros [Hs Hu]. split; [exact Hs|]. intros Ht. apply utf8_complete_loop in Hu; [|exact Ht]. now rewrite Hu.
Qed.

Lemma part_of_open b acc pl fin : open_fits (Some (b, acc ++ pl)) -> (fin = true -> msg_ok b (acc ++ pl)) ->
  part_fits b (acc ++ pl) (lenN pl) fin.
Proof.
  intros [Hs Hu] Hm. split.
  - unfold size_ok in Hs. eapply too_big_mono; [| |exact Hs]; rewrite ?lenN_app; lia.
  - intros Ht. split; [exact (Hu Ht)|]. intros Hf. destruct (Hm Hf) as [_ Hc].
    apply utf8_complete_loop in Hc; [|exact Ht]. now rewrite Hc.
Qed.

Lemma fits fs : forall st st' evs, assemble st fs = AOk st' evs -> events_fit evs -> open_fits (a_open st') ->
  frames_fit st fs.
Proof.
  induction fs as [|f fs IH]; intros st st' evs Ha He Ho; [exact I|].
  cbn [assemble] in Ha. destruct (assemble_step st f) as [st1 e1|] eqn:Es; [|discriminate].
  destruct (assemble st1 fs) as [st2 e2|] eqn:Ea; [|discriminate]. injection Ha as <- <-.
  cbn [frames_fit]. rewrite Es.
  assert (He2 : events_fit e2) by (intros b p Hin; apply He; apply in_or_app; now right).
  split; [|exact (IH _ _ _ Ea He2 Ho)].
  intros H8. unfold assemble_step in Es. destruct (a_closed st); [discriminate|].
  (* where the message this frame belongs to ends up *)
  assert (Fate : forall b full, (f_fin f = true -> e1 = [EvMessage b full]) ->
                   (f_fin f = false -> a_open st1 = Some (b, full)) ->
                   open_fits (Some (b, full)) /\ (f_fin f = true -> msg_ok b full)).
  { intros b full H1 H2. destruct (f_fin f) eqn:Ef.
    - assert (Hm : msg_ok b full) by (apply He; rewrite (H1 eq_refl); left; reflexivity).
      split; [now apply msg_open|auto].
    - split; [|discriminate].
      destruct (open_fate fs st1 st2 e2 b full Ea (H2 eq_refl)) as [[m Hm]|[m Hm]].
      + apply (fits_prefix b full m). apply msg_open. apply He2. exact Hm.
      + apply (fits_prefix b full m). rewrite Hm in Ho. exact Ho. }
  destruct (f_opcode f =? 0) eqn:E0.
  - destruct (a_open st) as [[b acc]|]; [|discriminate].
    destruct (Fate b (acc ++ f_payload f)) as [F1 F2].
    + intros Ef. rewrite Ef in Es. now injection Es as _ <-.
    + intros Ef. rewrite Ef in Es. now injection Es as <- _.
    + now apply part_of_open.
  - destruct ((f_opcode f =? 1) || (f_opcode f =? 2)) eqn:E12.
    + destruct (a_open st) as [[b acc]|]; [discriminate|].
      destruct (Fate (f_opcode f =? 2) (f_payload f)) as [F1 F2].
      * intros Ef. rewrite Ef in Es. now injection Es as _ <-.
      * intros Ef. rewrite Ef in Es. now injection Es as <- _.
      * apply (part_of_open _ [] (f_payload f) (f_fin f)); assumption.
    + exfalso. apply N.eqb_neq in E0. apply orb_false_iff in E12. destruct E12 as [E1 E2].
      apply N.eqb_neq in E1. apply N.eqb_neq in E2.
      destruct (f_opcode f =? 8) eqn:E8; [apply N.eqb_eq in E8; lia|].
      destruct (f_opcode f =? 9) eqn:E9; [apply N.eqb_eq in E9; lia|].
      destruct (f_opcode f =? 10) eqn:E10; [apply N.eqb_eq in E10; lia|discriminate].
Qed.

(* ---------- the bridge: on a stream of encoded frames the two declarative references agree ---------- *)
Theorem bridge fs st' evs :
  frames_pass rc fs -> assemble astate0 fs = AOk st' evs -> no_close evs ->
  events_fit evs -> open_fits (a_open st') ->
  exists js', Judges (WsRecv.j_init D d0) (encode_frames fs) (conv_events evs) js' /\ jinv st' js'.
Proof.
  intros Hp Ha Hnc He Ho.
  apply (bridge_frames fs astate0 st' evs); try assumption.
  - split; reflexivity.
  - eapply fits; eassumption.
Qed.

Corollary bridge_judge fs st' evs :
  frames_pass rc fs -> assemble astate0 fs = AOk st' evs -> no_close evs ->
  events_fit evs -> open_fits (a_open st') ->
  WsRecv.rfc_judge D cd cf d0 (encode_frames fs) = Some (conv_events evs, WsRecv.VMore).
Proof.
  intros Hp Ha Hnc He Ho. destruct (bridge fs st' evs Hp Ha Hnc He Ho) as [js' [HJ _]].
  unfold WsRecv.rfc_judge. apply (Judges_judge _ _ _ _ HJ). lia.
Qed.
End Bridge.
