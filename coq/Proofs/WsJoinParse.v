(* C01 join, part 2 -- the sender-side reference parser read BACKWARDS: whatever octets rfc_parse accepts as complete
   frames are exactly the encoding of the frames it returns (parse_frame_inv, rfc_parse_inv).  With WsSendProofs'
   parse_encode_frame this makes parse_frame / encode_frame mutually inverse on octet streams. *)
From Coq Require Import NArith ZArith List Bool Lia PeanoNat.
From AV Require Import Model.Masker Proofs.MaskerProofs Model.WsFrame Model.WsSend Proofs.WsSendProofs.
Import ListNotations.
Open Scope N_scope.
Ltac Zify.zify_post_hook ::= Z.to_euclidean_division_equations.

(* ---------- big endian: encode after decode ---------- *)
Lemma be_fold_acc l : forall acc,
  fold_left (fun a b => a * 256 + b) l acc = acc * 256 ^ N.of_nat (length l) + fold_left (fun a b => a * 256 + b) l 0.
Proof.
  induction l as [|x l IH]; intros acc.
  - cbn. lia.
  - cbn [fold_left length]. rewrite IH, (IH (0 * 256 + x)).
    replace (N.of_nat (S (length l))) with (N.succ (N.of_nat (length l))) by lia.
    rewrite N.pow_succ_r'. lia.
Qed.
Lemma be_decode_cons x l : be_decode (x :: l) = x * 256 ^ N.of_nat (length l) + be_decode l.
Proof. unfold be_decode. cbn [fold_left]. rewrite be_fold_acc. lia. Qed.
Lemma be_decode_lt l : octets l -> be_decode l < 256 ^ N.of_nat (length l).
Proof.
  induction 1 as [|x l Hx _ IH]; [cbn; lia|]. rewrite be_decode_cons. cbn [length].
  replace (N.of_nat (S (length l))) with (N.succ (N.of_nat (length l))) by lia.
  rewrite N.pow_succ_r'. nia.
Qed.
Lemma be_encode_add k : forall a v w, (k <= w)%nat -> be_encode k (a * 256 ^ N.of_nat w + v) = be_encode k v.
Proof.
  induction k as [|k IH]; intros a v w Hk; [reflexivity|]. cbn [be_encode]. rewrite IH by lia. f_equal.
  replace (N.of_nat w) with (N.succ (N.of_nat (w - S k)) + N.of_nat k) by lia.
  rewrite N.pow_add_r, N.pow_succ_r'.
  set (q := 256 ^ N.of_nat (w - S k)). set (p := 256 ^ N.of_nat k).
  assert (Hp : p <> 0) by (apply N.pow_nonzero; lia).
  replace (a * (256 * q * p) + v) with ((a * q * 256) * p + v) by lia.
  rewrite N.div_add_l by exact Hp.
  rewrite N.add_comm, N.mod_add by lia. reflexivity.
Qed.
Lemma be_encode_decode l : octets l -> be_encode (length l) (be_decode l) = l.
Proof.
  induction 1 as [|x l Hx Hl IH]; [reflexivity|]. cbn [length be_encode]. rewrite be_decode_cons.
  pose proof (be_decode_lt l Hl) as Hd.
  rewrite (be_encode_add (length l) x (be_decode l) (length l)) by lia. rewrite IH. f_equal.
  set (p := 256 ^ N.of_nat (length l)) in *.
  assert (Hp : p <> 0) by (apply N.pow_nonzero; lia).
  rewrite N.div_add_l by exact Hp. rewrite (N.div_small (be_decode l) p) by exact Hd.
  rewrite N.add_0_r. apply N.mod_small. exact Hx.
Qed.

Lemma octets_firstn k (l : list N) : octets l -> octets (firstn k l).
Proof.
  revert l; induction k as [|k IH]; intros l H; [constructor|]. destruct l as [|x l]; [constructor|].
  inversion H; subst. cbn [firstn]. constructor; [assumption|]. apply IH. assumption.
Qed.
Lemma octets_skipn k (l : list N) : octets l -> octets (skipn k l).
Proof.
  revert l; induction k as [|k IH]; intros l H; [exact H|]. destruct l as [|x l]; [exact H|].
  inversion H; subst. cbn [skipn]. apply IH. assumption.
Qed.

(* ---------- the length field read back ---------- *)
Lemma decode_len_inv l7 r n r1 : octets r -> l7 < 128 -> decode_len l7 r = DLOk n r1 ->
  fst (len_field n) = l7 /\ r = snd (len_field n) ++ r1 /\ n <= max_len.
Proof.
  intros Ho Hl. unfold decode_len.
  destruct (l7 <=? 125) eqn:E1.
  - intros HH; injection HH as <- <-. unfold len_field. rewrite E1. apply N.leb_le in E1. unfold max_len. cbn. repeat split. lia.
  - apply N.leb_gt in E1. destruct (l7 =? 126) eqn:E2.
    + apply N.eqb_eq in E2. subst l7.
      destruct (Nat.ltb (length r) 2) eqn:EL; [discriminate|]. apply Nat.ltb_ge in EL.
      pose proof (firstn_skipn 2 r) as Hfs.
      assert (Hlen : length (firstn 2 r) = 2%nat) by (rewrite firstn_length; lia).
      pose proof (octets_firstn 2 r Ho) as Hof.
      set (fr := firstn 2 r) in *. set (sr := skipn 2 r) in *.
      destruct (be_decode fr <? 126) eqn:E3; [discriminate|]. apply N.ltb_ge in E3.
      intros HH; injection HH as <- <-.
      pose proof (be_decode_lt fr Hof) as Hlt. rewrite Hlen in Hlt.
      change (256 ^ N.of_nat 2) with 65536 in Hlt.
      unfold len_field.
      replace (be_decode fr <=? 125) with false by (symmetry; apply N.leb_gt; lia).
      replace (be_decode fr <=? 65535) with true by (symmetry; apply N.leb_le; lia).
      cbn [fst snd]. split; [reflexivity|]. split; [|unfold max_len; lia].
      pose proof (be_encode_decode fr Hof) as Hed. rewrite Hlen in Hed.
      rewrite Hed. symmetry. exact Hfs.
    + apply N.eqb_neq in E2. assert (l7 = 127) by lia. subst l7.
      destruct (Nat.ltb (length r) 8) eqn:EL; [discriminate|]. apply Nat.ltb_ge in EL.
      pose proof (firstn_skipn 8 r) as Hfs.
      assert (Hlen : length (firstn 8 r) = 8%nat) by (rewrite firstn_length; lia).
      pose proof (octets_firstn 8 r Ho) as Hof.
      set (fr := firstn 8 r) in *. set (sr := skipn 8 r) in *.
      destruct (be_decode fr <? 65536) eqn:E3; [discriminate|]. apply N.ltb_ge in E3.
      destruct (max_len <? be_decode fr) eqn:E4; [discriminate|]. apply N.ltb_ge in E4.
      intros HH; injection HH as <- <-.
      unfold len_field.
      replace (be_decode fr <=? 125) with false by (symmetry; apply N.leb_gt; lia).
      replace (be_decode fr <=? 65535) with false by (symmetry; apply N.leb_gt; lia).
      cbn [fst snd]. split; [reflexivity|]. split; [|exact E4].
      pose proof (be_encode_decode fr Hof) as Hed. rewrite Hlen in Hed.
      rewrite Hed. symmetry. exact Hfs.
Qed.

Lemma byte0_inv b0 : b0 < 256 -> byte0 (128 <=? b0) ((b0 / 16) mod 8) (b0 mod 16) = b0.
Proof. intros H. unfold byte0. destruct (N.leb_spec 128 b0); lia. Qed.

(* ---------- one frame read back: the octets are exactly the encoding of the frame the parser returns ---------- *)
Lemma parse_frame_inv rc bs f rest : octets bs -> parse_frame rc bs = FOk f rest ->
  bs = encode_frame f ++ rest /\ frame_ok f /\ frame_header_check rc f = None.
Proof.
  intros Ho. unfold parse_frame. destruct bs as [|b0 [|b1 r]]; try discriminate.
  inversion Ho as [|? ? H0 Ho1]; subst. inversion Ho1 as [|? ? H1 Hor]; subst.
  destruct (decode_len (b1 mod 128) r) as [n r1| |e] eqn:Ed; try discriminate.
  assert (Hb1 : b1 mod 128 < 128) by lia. destruct (decode_len_inv _ _ _ _ Hor Hb1 Ed) as (L1 & L2 & L3).
  assert (Hor1 : octets r1) by (rewrite L2 in Hor; now apply Forall_app in Hor).
  destruct (header_check rc (128 <=? b0) ((b0 / 16) mod 8) (b0 mod 16) (128 <=? b1) n) eqn:Eh; [discriminate|].
  destruct (128 <=? b1) eqn:Em.
  - apply N.leb_le in Em.
    destruct (Nat.ltb (length r1) 4) eqn:E4; [discriminate|]. apply Nat.ltb_ge in E4.
    change (match r1 with | _ :: _ :: _ :: _ :: l2 => l2 | _ => [] end) with (skipn 4 r1).
    pose proof (firstn_skipn 4 r1) as Hfs.
    assert (Hk4 : length (firstn 4 r1) = 4%nat) by (rewrite firstn_length; lia).
    pose proof (octets_firstn 4 r1 Hor1) as Hko.
    set (k := firstn 4 r1) in *. set (r2 := skipn 4 r1) in *.
    destruct (lenN r2 <? n) eqn:En; [discriminate|]. apply N.ltb_ge in En.
    intros HH; injection HH as <- <-.
    assert (Hpl : length (firstn (N.to_nat n) r2) = N.to_nat n) by (rewrite firstn_length; unfold lenN in En; lia).
    assert (HlenN : lenN (xor_spec k 0 (firstn (N.to_nat n) r2)) = n)
      by (unfold lenN; rewrite xor_spec_length, Hpl; lia).
    split; [|split].
    + unfold encode_frame, encode_header. cbn [f_fin f_rsv f_opcode f_mask f_payload mask_payload].
      rewrite HlenN, xor_spec_involutive. destruct (len_field n) as [l7 el]. cbn [fst snd] in *.
      rewrite byte0_inv by exact H0. cbn [app]. f_equal. f_equal; [lia|].
      rewrite L2, <- !app_assoc, firstn_skipn, Hfs. reflexivity.
    + unfold frame_ok. cbn [f_rsv f_opcode f_mask f_payload]. rewrite HlenN.
      split; [lia|]. split; [lia|]. split; [|exact L3]. split; [exact Hk4|exact Hko].
    + unfold frame_header_check. cbn [f_fin f_rsv f_opcode f_mask f_payload]. rewrite HlenN. exact Eh.
  - apply N.leb_gt in Em.
    destruct (lenN r1 <? n) eqn:En; [discriminate|]. apply N.ltb_ge in En.
    intros HH; injection HH as <- <-.
    assert (Hpl : length (firstn (N.to_nat n) r1) = N.to_nat n) by (rewrite firstn_length; unfold lenN in En; lia).
    assert (HlenN : lenN (firstn (N.to_nat n) r1) = n) by (unfold lenN; rewrite Hpl; lia).
    split; [|split].
    + unfold encode_frame, encode_header. cbn [f_fin f_rsv f_opcode f_mask f_payload mask_payload].
      rewrite HlenN. destruct (len_field n) as [l7 el]. cbn [fst snd] in *.
      rewrite byte0_inv by exact H0. cbn [app]. f_equal. f_equal; [lia|].
      rewrite L2, <- app_assoc. f_equal. now rewrite firstn_skipn.
    + unfold frame_ok. cbn [f_rsv f_opcode f_mask f_payload]. rewrite HlenN.
      split; [lia|]. split; [lia|]. split; [exact I|exact L3].
    + unfold frame_header_check. cbn [f_fin f_rsv f_opcode f_mask f_payload]. rewrite HlenN. exact Eh.
Qed.

(* ---------- the whole stream read back ---------- *)
Lemma split_frames_inv rc fuel : forall bs fs tail, octets bs -> split_frames rc fuel bs = SOk fs tail ->
  bs = encode_frames fs ++ tail /\ frames_pass rc fs.
Proof.
  induction fuel as [|fuel IH]; intros bs fs tail Ho H; [discriminate|]. cbn [split_frames] in H.
  destruct (parse_frame rc bs) as [f rest| |e] eqn:Ep; try discriminate.
  - destruct (parse_frame_inv rc bs f rest Ho Ep) as (-> & Hok & Hc).
    destruct (split_frames rc fuel rest) as [fs' tail'|e fs'|] eqn:Es; try discriminate. injection H as <- <-.
    assert (Hor : octets rest) by now apply Forall_app in Ho.
    destruct (IH rest fs' tail' Hor Es) as [-> Hp].
    split; [unfold encode_frames; cbn [map concat]; now rewrite app_assoc|]. constructor; [split; assumption|exact Hp].
  - injection H as <- <-. split; [reflexivity|constructor].
Qed.

Lemma rfc_parse_inv rc bs fs evs o tail : octets bs -> rfc_parse rc bs = WellFormed fs evs o tail ->
  bs = encode_frames fs ++ tail /\ frames_pass rc fs /\
  exists st, assemble astate0 fs = AOk st evs /\ a_open st = o.
Proof.
  intros Ho. unfold rfc_parse.
  destruct (split_frames rc (S (length bs)) bs) as [fs' tail'|e fs'|] eqn:Es; try discriminate.
  destruct (assemble astate0 fs') as [st evs'|e] eqn:Ea; [|discriminate]. intros [= <- <- <- <-].
  destruct (split_frames_inv rc _ bs fs' tail' Ho Es) as [H1 H2]. split; [exact H1|]. split; [exact H2|].
  exists st. auto.
Qed.
