(* header sweep shard 3: isServer = false, masking option = false; compression x inside_message x 256 x 256 *)
From Coq Require Import NArith List Bool.
From AV Require Import Model.WsRecv Proofs.WsRecvHeaderBase.
Import ListNotations.
Lemma header_sweep_3 :
  forallb (fun pm => forallb (fun ins => sweep_ctx false false pm ins) bools) bools = true.
Proof. vm_compute. reflexivity. Qed.
