(* Lemmas about the connection model, part 7: the auto-ping calls (C17_ping_periodic, C17_responsive_ping).
   At most one of {ping call, ping-timeout call} is pending, the handles hPing / hPingTO point to it; while OPEN with
   autoPingInterval > 0 a ping call is pending or a ping is outstanding. *)
From Coq Require Import NArith List Bool Lia Arith.
From AV Require Import Gen.WsConnConsts Model.WsConn Proofs.WsConnProofs Proofs.WsConnProofs2 Proofs.WsConnProofs3
  Proofs.WsConnTimers Proofs.WsConnLive Proofs.WsConnResp.
Import ListNotations.
Open Scope N_scope.

(* the list-level facts of Proofs/WsConnResp.v, for an arbitrary kind of call *)
Module PK.
Section Kind.
Variable K : tkind.
Definition isK (c : tkind * N) : bool := tkind_eqb (fst c) K.
Definition nk_entry (e : tentry) : nat := length (filter isK (te_calls e)).
Fixpoint nk (l : list tentry) : nat := match l with [] => 0 | e :: r => nk_entry e + nk r end%nat.
Definition ids_ok (h : option N) (l : list tentry) : Prop :=
  forall e id, In e l -> In (K, id) (te_calls e) -> h = Some id.

Lemma nk_app : forall a b, nk (a ++ b) = (nk a + nk b)%nat.
Proof. induction a; simpl; intros; [reflexivity|]. rewrite IHa. lia. Qed.

Lemma filter_isK_app : forall a b, filter isK (a ++ b) = filter isK a ++ filter isK b.
Proof. intros. apply filter_app. Qed.

Lemma nk_bucket_add : forall rt n call l,
  nk (bucket_add rt n call l) = (nk l + (if isK call then 1 else 0))%nat.
Proof.
  intros rt n call l. induction l as [|e r IH]; simpl.
  - unfold nk_entry. simpl. destruct (isK call); simpl; lia.
  - destruct (key_is rt e); simpl.
    + unfold nk_entry. simpl. rewrite filter_isK_app, app_length. simpl. destruct (isK call); simpl; lia.
    + rewrite IH. lia.
Qed.

Lemma ids_bucket_add : forall h rt n k id l, ids_ok h l -> (k = K -> h = Some id) -> ids_ok h (bucket_add rt n (k, id) l).
Proof.
  intros h rt n k id l. induction l as [|e r IH]; intros H Hk x i Hx Hi; simpl in Hx.
  - destruct Hx as [Hx|[]]. subst x. simpl in Hi. destruct Hi as [Hi|[]]. inversion Hi; subst. auto.
  - destruct (key_is rt e).
    + destruct Hx as [Hx|Hx].
      * subst x. simpl in Hi. apply in_app_or in Hi. destruct Hi as [Hi|[Hi|[]]].
        { apply (H e i); [left; reflexivity|exact Hi]. }
        { inversion Hi; subst. auto. }
      * apply (H x i); [right; exact Hx|exact Hi].
    + destruct Hx as [Hx|Hx].
      * subst x. apply (H e i); [left; reflexivity|exact Hi].
      * apply (IH (fun e0 i0 He0 Hi0 => H e0 i0 (or_intror He0) Hi0) Hk x i Hx Hi).
Qed.

Lemma isK_call_is : forall k id c, call_is k id c = true -> k <> K -> isK c = false.
Proof.
  intros k id c H Hne. unfold isK. destruct (tkind_eqb (fst c) K) eqn:E; [|reflexivity].
  apply call_is_kind in H. apply tkind_eqb_eq in E. congruence.
Qed.

Lemma filter_isK_remove_other : forall k id cs, k <> K ->
  filter isK (filter (fun c => negb (call_is k id c)) cs) = filter isK cs.
Proof.
  intros k id cs Hne. induction cs as [|c cs IH]; simpl; [reflexivity|].
  destruct (call_is k id c) eqn:E; simpl.
  - rewrite (isK_call_is k id c E Hne). exact IH.
  - destruct (isK c); simpl; rewrite IH; reflexivity.
Qed.

Lemma nk_remove_other : forall k id l, k <> K -> nk (remove_call k id l) = nk l.
Proof.
  intros k id l Hne. induction l as [|e r IH]; simpl; [reflexivity|].
  destruct (existsb (call_is k id) (te_calls e)) eqn:E.
  - pose proof (filter_isK_remove_other k id (te_calls e) Hne) as HF.
    destruct (filter (fun c => negb (call_is k id c)) (te_calls e)) as [|c cs] eqn:Ef.
    + unfold nk_entry. rewrite <- HF. simpl. reflexivity.
    + simpl. unfold nk_entry. simpl te_calls. rewrite HF. reflexivity.
  - simpl. rewrite IH. reflexivity.
Qed.

Lemma in_filter_neg : forall (f : tkind * N -> bool) x cs, In x (filter (fun c => negb (f c)) cs) -> In x cs.
Proof. intros f x cs H. apply filter_In in H. tauto. Qed.

Lemma ids_remove : forall h k id l, ids_ok h l -> ids_ok h (remove_call k id l).
Proof.
  intros h k id l. induction l as [|e r IH]; intros H x i Hx Hi; simpl in Hx; [destruct Hx|].
  destruct (existsb (call_is k id) (te_calls e)).
  - destruct (filter (fun c => negb (call_is k id c)) (te_calls e)) as [|c cs] eqn:Ef.
    + apply (H x i); [right; exact Hx|exact Hi].
    + destruct Hx as [Hx|Hx].
      * subst x. cbn [te_calls] in Hi. rewrite <- Ef in Hi. apply in_filter_neg in Hi. apply (H e i); [left; reflexivity|exact Hi].
      * apply (H x i); [right; exact Hx|exact Hi].
  - destruct Hx as [Hx|Hx].
    + subst x. apply (H e i); [left; reflexivity|exact Hi].
    + apply (IH (fun e0 i0 He0 Hi0 => H e0 i0 (or_intror He0) Hi0) x i Hx Hi).
Qed.

Lemma nk_entry_pos : forall e id, In (K, id) (te_calls e) -> (1 <= nk_entry e)%nat.
Proof.
  intros e id H. unfold nk_entry. assert (In (K, id) (filter isK (te_calls e))) by (apply filter_In; split; [exact H|unfold isK; simpl; apply tkind_eqb_refl]).
  destruct (filter isK (te_calls e)); [destruct H0|simpl; lia].
Qed.

Lemma nk_entry_zero_no : forall e, nk_entry e = 0%nat -> forall id, ~ In (K, id) (te_calls e).
Proof. intros e H id Hin. pose proof (nk_entry_pos e id Hin). lia. Qed.

(* cancelling the handle's call removes the only pending one *)
Lemma filter_isK_all_id : forall id cs, (forall i, In (K, i) cs -> i = id) ->
  filter isK (filter (fun c => negb (call_is K id c)) cs) = [].
Proof.
  intros id cs H. induction cs as [|[k i] cs IH]; simpl; [reflexivity|].
  destruct (call_is K id (k, i)) eqn:E; simpl.
  - apply IH. intros j Hj. apply H. right. exact Hj.
  - destruct (isK (k, i)) eqn:Ek.
    + exfalso. unfold isK in Ek. simpl in Ek. apply tkind_eqb_eq in Ek. subst k.
      assert (i = id) by (apply H; left; reflexivity). subst i.
      unfold call_is in E. simpl in E. rewrite tkind_eqb_refl, N.eqb_refl in E. discriminate.
    + apply IH. intros j Hj. apply H. right. exact Hj.
Qed.

Lemma nk_remove_same : forall id l, (nk l <= 1)%nat -> ids_ok (Some id) l -> nk (remove_call K id l) = 0%nat.
Proof.
  intros id l. induction l as [|e r IH]; intros Hn Hi; simpl; [reflexivity|]. simpl in Hn.
  assert (Hall : forall i, In (K, i) (te_calls e) -> i = id).
  { intros i Hin. assert (Some id = Some i) by (apply (Hi e i); [left; reflexivity|exact Hin]). congruence. }
  assert (Hr : ids_ok (Some id) r) by (intros x i Hx Hxi; apply (Hi x i); [right; exact Hx|exact Hxi]).
  destruct (existsb (call_is K id) (te_calls e)) eqn:E.
  - apply existsb_exists in E. destruct E as ([k i] & Hin & Hc).
    pose proof (call_is_kind K id (k, i) Hc) as Hk. simpl in Hk. subst k.
    pose proof (nk_entry_pos e i Hin) as Hp.
    assert (Hr0 : nk r = 0%nat) by lia.
    pose proof (filter_isK_all_id id (te_calls e) Hall) as HF.
    destruct (filter (fun c => negb (call_is K id c)) (te_calls e)) as [|c cs] eqn:Ef; [exact Hr0|].
    simpl. unfold nk_entry. simpl te_calls. rewrite HF. simpl. exact Hr0.
  - simpl.
    assert (He : nk_entry e = 0%nat).
    { unfold nk_entry. destruct (filter isK (te_calls e)) as [|[k i] cs] eqn:Ef; [reflexivity|]. exfalso.
      assert (Hin : In (k, i) (filter isK (te_calls e))) by (rewrite Ef; left; reflexivity).
      apply filter_In in Hin. destruct Hin as [Hin Hk]. unfold isK in Hk. simpl in Hk. apply tkind_eqb_eq in Hk. subst k.
      pose proof (Hall i Hin). subst i.
      assert (existsb (call_is K id) (te_calls e) = true).
      { apply existsb_exists. exists (K, id). split; [exact Hin|]. unfold call_is. simpl. rewrite tkind_eqb_refl, N.eqb_refl. reflexivity. }
      congruence. }
    rewrite He. simpl. apply IH; [lia|exact Hr].
Qed.

Lemma nk_pop : forall m l e rest, pop_at m l = Some (e, rest) -> nk l = (nk_entry e + nk rest)%nat.
Proof.
  intros m l. induction l as [|e0 r IH]; intros e rest H; simpl in H; [discriminate|].
  destruct (te_time e0 =? m).
  - inversion H; subst. reflexivity.
  - destruct (pop_at m r) as [[x r']|] eqn:Ep; [|discriminate]. inversion H; subst. simpl. rewrite (IH _ _ eq_refl). lia.
Qed.
Lemma nk_pick : forall t l e rest, pick_due t l = Some (e, rest) -> nk l = (nk_entry e + nk rest)%nat.
Proof.
  intros t l e rest H. unfold pick_due in H. destruct (min_time l); [|discriminate]. destruct (n <=? t); [|discriminate].
  eapply nk_pop; eauto.
Qed.

End Kind.
End PK.

(* more list facts *)
Lemma nk_pos_ex : forall K l, PK.nk K l <> 0%nat -> exists e id, In e l /\ In (K, id) (te_calls e).
Proof.
  intros K l. induction l as [|x r IH]; simpl; intro H; [congruence|].
  destruct (PK.nk_entry K x) eqn:Ex.
  - destruct IH as (e & id & He & Hi); [simpl in H; exact H|]. exists e, id. split; [right; exact He|exact Hi].
  - unfold PK.nk_entry in Ex. destruct (filter (PK.isK K) (te_calls x)) as [|[k i] cs] eqn:Ef; [discriminate|].
    assert (Hin : In (k, i) (filter (PK.isK K) (te_calls x))) by (rewrite Ef; left; reflexivity).
    apply filter_In in Hin. destruct Hin as [Hin Hk]. unfold PK.isK in Hk. simpl in Hk. apply tkind_eqb_eq in Hk. subst k.
    exists x, i. split; [left; reflexivity|exact Hin].
Qed.

Lemma nk0_ids : forall K h l, PK.nk K l = 0%nat -> PK.ids_ok K h l.
Proof.
  intros K h l H e id He Hi. exfalso. induction l as [|x r IH]; [destruct He|]. simpl in H.
  destruct He as [He|He]; [subst x; pose proof (PK.nk_entry_pos K e id Hi); lia | apply IH; [lia|exact He]].
Qed.

Lemma ids_none_nk0 : forall K l, PK.ids_ok K None l -> PK.nk K l = 0%nat.
Proof.
  intros K l H. destruct (PK.nk K l) eqn:E; [reflexivity|]. exfalso.
  destruct (nk_pos_ex K l) as (e & id & He & Hi); [congruence|]. specialize (H e id He Hi). discriminate.
Qed.

Lemma isK_other : forall K k id, k <> K -> PK.isK K (k, id) = false.
Proof. intros K k id H. unfold PK.isK. simpl. destruct (tkind_eqb k K) eqn:E; [|reflexivity]. apply tkind_eqb_eq in E. congruence. Qed.
Lemma isK_same : forall K id, PK.isK K (K, id) = true.
Proof. intros. unfold PK.isK. simpl. apply tkind_eqb_refl. Qed.

Lemma sub_ids : forall K h l l', (forall x, In x l' -> In x l) -> PK.ids_ok K h l -> PK.ids_ok K h l'.
Proof. intros K h l l' Hs H e id He Hi. apply (H e id); auto. Qed.

(* exactly one call of the kind in an entry: it splits the entry's calls *)
Lemma split_one : forall K cs, length (filter (PK.isK K) cs) = 1%nat ->
  exists pre id post, cs = pre ++ (K, id) :: post /\ (forall i, ~ In (K, i) pre) /\ (forall i, ~ In (K, i) post).
Proof.
  intros K cs. induction cs as [|[k i] cs IH]; simpl; intro H; [discriminate|].
  destruct (PK.isK K (k, i)) eqn:E.
  - unfold PK.isK in E. simpl in E. apply tkind_eqb_eq in E. subst k. simpl in H.
    exists [], i, cs. split; [reflexivity|]. split; [intros j []|].
    intros j Hj. assert (In (K, j) (filter (PK.isK K) cs)) by (apply filter_In; split; [exact Hj|apply isK_same]).
    destruct (filter (PK.isK K) cs); [destruct H0|simpl in H; discriminate].
  - destruct (IH H) as (pre & id & post & E1 & E2 & E3). exists ((k, i) :: pre), id, post.
    split; [rewrite E1; reflexivity|]. split; [|exact E3].
    intros j [Hj|Hj]; [inversion Hj; subst; rewrite isK_same in E; discriminate | apply (E2 j Hj)].
Qed.

Lemma no_call_filter : forall K cs, length (filter (PK.isK K) cs) = 0%nat -> forall i, ~ In (K, i) cs.
Proof.
  intros K cs H i Hi. assert (In (K, i) (filter (PK.isK K) cs)) by (apply filter_In; split; [exact Hi|apply isK_same]).
  destruct (filter (PK.isK K) cs); [destruct H0|discriminate].
Qed.

Lemma run_calls_app_fst : forall c a b s, fst (run_calls c (a ++ b) s) = fst (run_calls c b (fst (run_calls c a s))).
Proof.
  intros c a. induction a as [|[k id] r IH]; intros b s; simpl.
  - reflexivity.
  - rewrite !fst_seq. apply IH.
Qed.

(* ================================================================================================ *)
Definition A := TAutoPing.
Definition T := TAutoPingTO.
Definition nA (s : cstate) : nat := PK.nk A (timers s).
Definition nT (s : cstate) : nat := PK.nk T (timers s).

Section Ping.
Variable c : cfg.

(* P: uniqueness and handles;  PP: the ping cycle never stalls while OPEN *)
Definition P (s : cstate) : Prop :=
  (nA s + nT s <= 1)%nat /\ PK.ids_ok A (hPing s) (timers s) /\ PK.ids_ok T (hPingTO s) (timers s) /\
  (pingPending s <> None -> nA s = 0%nat) /\
  (st s = CONNECTING -> nA s = 0%nat /\ nT s = 0%nat /\ pingPending s = None /\ hPing s = None /\ hPingTO s = None).
Definition PP (s : cstate) : Prop :=
  st s = OPEN ->
  (0 < autoPingInterval c -> nA s = 1%nat \/ pingPending s <> None) /\
  (pingPending s <> None -> 0 < autoPingTimeout c -> nT s = 1%nat).
Definition I_P (log : list out) (s : cstate) : Prop := P s /\ PP s.

Lemma core_pp : forall s s', same_core s s' -> pingPending s' = pingPending s.
Proof. intros s s' H. destruct H as (_&_&_&_&_&_&_&_&_&_&_&_&_&_&_&H&_). exact H. Qed.

Lemma slot_other_hPing : forall k v s, k <> A -> hPing (set_slot k v s) = hPing s.
Proof. intros k v s H. destruct k; try reflexivity. exfalso. apply H. reflexivity. Qed.
Lemma slot_other_hPingTO : forall k v s, k <> T -> hPingTO (set_slot k v s) = hPingTO s.
Proof. intros k v s H. destruct k; try reflexivity. exfalso. apply H. reflexivity. Qed.

(* a state transformer that leaves the core fields, the two handles and the numbers / ids of ping calls alone *)
Lemma P_transfer : forall s s', same_core s s' -> hPing s' = hPing s -> hPingTO s' = hPingTO s ->
  nA s' = nA s -> nT s' = nT s ->
  PK.ids_ok A (hPing s) (timers s') -> PK.ids_ok T (hPingTO s) (timers s') ->
  P s /\ PP s -> P s' /\ PP s'.
Proof.
  intros s s' Hc H1 H2 H3 H4 H5 H6 [(P1 & P2 & P3 & P4 & P5) Hpp].
  unfold P, PP. rewrite H1, H2, H3, H4, (core_st _ _ Hc), (core_pp _ _ Hc).
  split; [repeat split; auto; try (apply P5; assumption) | unfold PP in Hpp; exact Hpp].
Qed.

Lemma arm_batched_P : forall k d, k <> A -> k <> T -> presL I_P (arm_batched k d).
Proof.
  intros k d HkA HkT log s H. destruct (arm_batched_eff k d s) as (Et & Ec & _). unfold I_P.
  apply (P_transfer s); auto.
  - unfold arm_batched. simpl. rewrite slot_other_hPing by exact HkA. reflexivity.
  - unfold arm_batched. simpl. rewrite slot_other_hPingTO by exact HkT. reflexivity.
  - unfold nA. rewrite Et, PK.nk_bucket_add, (isK_other A k _ HkA). lia.
  - unfold nT. rewrite Et, PK.nk_bucket_add, (isK_other T k _ HkT). lia.
  - rewrite Et. apply PK.ids_bucket_add; [apply H|]. intro. congruence.
  - rewrite Et. apply PK.ids_bucket_add; [apply H|]. intro. congruence.
Qed.

Lemma arm_exact_P : forall k d, k <> A -> k <> T -> presL I_P (arm_exact k d).
Proof.
  intros k d HkA HkT log s H. destruct (arm_exact_eff k d s) as (Et & Ec & _). unfold I_P.
  assert (Hn : forall K, k <> K -> PK.nk K (timers s ++ [mkT (now s + d) None [(k, nextId s)]]) = PK.nk K (timers s)).
  { intros K0 Hk. rewrite PK.nk_app. simpl. unfold PK.nk_entry. simpl. rewrite (isK_other K0 k _ Hk). simpl. lia. }
  assert (Hi : forall K h, k <> K -> PK.ids_ok K h (timers s) -> PK.ids_ok K h (timers s ++ [mkT (now s + d) None [(k, nextId s)]])).
  { intros K0 h Hk H0 e id He Hid. apply in_app_or in He. destruct He as [He|[He|[]]]; [apply (H0 e id He Hid)|].
    subst e. simpl in Hid. destruct Hid as [Hid|[]]. inversion Hid. congruence. }
  apply (P_transfer s); auto.
  - unfold arm_exact. simpl. rewrite slot_other_hPing by exact HkA. reflexivity.
  - unfold arm_exact. simpl. rewrite slot_other_hPingTO by exact HkT. reflexivity.
  - unfold nA. rewrite Et. apply Hn. exact HkA.
  - unfold nT. rewrite Et. apply Hn. exact HkT.
  - rewrite Et. apply Hi; [exact HkA|apply H].
  - rewrite Et. apply Hi; [exact HkT|apply H].
Qed.

Lemma cancel_slot_P : forall k, k <> A -> k <> T -> presL I_P (cancel_slot k).
Proof.
  intros k HkA HkT log s H. destruct (cancel_slot_eff k s) as (Et & Ec & _). unfold I_P.
  assert (H1 : hPing (fst (cancel_slot k s)) = hPing s).
  { unfold cancel_slot. destruct (slot_of k s); simpl; [rewrite slot_other_hPing by exact HkA|]; reflexivity. }
  assert (H2 : hPingTO (fst (cancel_slot k s)) = hPingTO s).
  { unfold cancel_slot. destruct (slot_of k s); simpl; [rewrite slot_other_hPingTO by exact HkT|]; reflexivity. }
  destruct Et as [Et|[id Et]].
  - apply (P_transfer s); auto; unfold nA, nT; rewrite Et; auto; apply H.
  - apply (P_transfer s); auto.
    + unfold nA. rewrite Et. apply PK.nk_remove_other. exact HkA.
    + unfold nT. rewrite Et. apply PK.nk_remove_other. exact HkT.
    + rewrite Et. apply PK.ids_remove. apply H.
    + rewrite Et. apply PK.ids_remove. apply H.
Qed.

Lemma A_ne_T : A <> T. Proof. discriminate. Qed.
Lemma T_ne_A : T <> A. Proof. discriminate. Qed.

(* effects of cancelling / arming the two ping calls *)
Lemma cancel_A_eff : forall s, (nA s <= 1)%nat -> PK.ids_ok A (hPing s) (timers s) ->
  let s' := fst (cancel_slot A s) in
  nA s' = 0%nat /\ nT s' = nT s /\ hPing s' = None /\ hPingTO s' = hPingTO s /\ same_core s s' /\
  (forall h, PK.ids_ok T h (timers s) -> PK.ids_ok T h (timers s')).
Proof.
  intros s H1 H2. cbv zeta. destruct (cancel_slot_eff A s) as (_ & Ec & _).
  unfold cancel_slot. simpl slot_of. destruct (hPing s) as [id|] eqn:E; simpl.
  - unfold nA, nT. simpl. rewrite (PK.nk_remove_same A id _ H1 H2), (PK.nk_remove_other T A id _ A_ne_T).
    repeat split; auto; try (intros h Hh; apply PK.ids_remove; exact Hh).
  - repeat split; auto; try apply same_core_refl. unfold nA. apply ids_none_nk0. exact H2.
Qed.
Lemma cancel_T_eff : forall s, (nT s <= 1)%nat -> PK.ids_ok T (hPingTO s) (timers s) ->
  let s' := fst (cancel_slot T s) in
  nT s' = 0%nat /\ nA s' = nA s /\ hPingTO s' = None /\ hPing s' = hPing s /\ same_core s s' /\
  (forall h, PK.ids_ok A h (timers s) -> PK.ids_ok A h (timers s')).
Proof.
  intros s H1 H2. cbv zeta. destruct (cancel_slot_eff T s) as (_ & Ec & _).
  unfold cancel_slot. simpl slot_of. destruct (hPingTO s) as [id|] eqn:E; simpl.
  - unfold nA, nT. simpl. rewrite (PK.nk_remove_same T id _ H1 H2), (PK.nk_remove_other A T id _ T_ne_A).
    repeat split; auto; try (intros h Hh; apply PK.ids_remove; exact Hh).
  - repeat split; auto; try apply same_core_refl. unfold nT. apply ids_none_nk0. exact H2.
Qed.

Lemma arm_A_eff : forall d s, let s' := fst (arm_batched A d s) in
  nA s' = S (nA s) /\ nT s' = nT s /\ hPing s' = Some (nextId s) /\ hPingTO s' = hPingTO s /\ same_core s s' /\
  (nA s = 0%nat -> PK.ids_ok A (Some (nextId s)) (timers s')) /\
  (forall h, PK.ids_ok T h (timers s) -> PK.ids_ok T h (timers s')).
Proof.
  intros d s. cbv zeta. destruct (arm_batched_eff A d s) as (Et & Ec & _).
  unfold nA, nT. rewrite Et, !PK.nk_bucket_add, (isK_same A), (isK_other T A _ A_ne_T).
  repeat split; auto; try lia.
  - intro H0. apply PK.ids_bucket_add; [apply nk0_ids; exact H0|reflexivity].
  - intros h Hh. apply PK.ids_bucket_add; [exact Hh|]. intro. discriminate.
Qed.
Lemma arm_T_eff : forall d s, let s' := fst (arm_batched T d s) in
  nT s' = S (nT s) /\ nA s' = nA s /\ hPingTO s' = Some (nextId s) /\ hPing s' = hPing s /\ same_core s s' /\
  (nT s = 0%nat -> PK.ids_ok T (Some (nextId s)) (timers s')) /\
  (forall h, PK.ids_ok A h (timers s) -> PK.ids_ok A h (timers s')).
Proof.
  intros d s. cbv zeta. destruct (arm_batched_eff T d s) as (Et & Ec & _).
  unfold nA, nT. rewrite Et, !PK.nk_bucket_add, (isK_same T), (isK_other A T _ T_ne_A).
  repeat split; auto; try lia.
  - intro H0. apply PK.ids_bucket_add; [apply nk0_ids; exact H0|reflexivity].
  - intros h Hh. apply PK.ids_bucket_add; [exact Hh|]. intro. discriminate.
Qed.

Lemma say_fst : forall o x, fst (say o x) = x. Proof. reflexivity. Qed.

(* re-arming the ping with nothing of the two kinds pending *)
Lemma rearm_tail : forall sb, nA sb = 0%nat -> nT sb = 0%nat -> pingPending sb = None -> st sb <> CONNECTING ->
  let s' := fst (whenM (0 <? autoPingInterval c) (arm_batched A (autoPingInterval c)) sb) in
  P s' /\ PP s' /\ st s' = st sb.
Proof.
  intros sb HA HT Hp Hs. cbv zeta. unfold whenM. destruct (0 <? autoPingInterval c) eqn:Ei.
  - destruct (arm_A_eff (autoPingInterval c) sb) as (E1 & E2 & E3 & E4 & Ec & E6 & E7).
    set (s' := fst (arm_batched A (autoPingInterval c) sb)) in *.
    assert (Hp' : pingPending s' = None) by (rewrite (core_pp _ _ Ec); exact Hp).
    assert (Hs' : st s' = st sb) by (apply (core_st _ _ Ec)).
    split; [|split; [|exact Hs']].
    + unfold P. rewrite E1, E2, HA, HT, E3, Hp', Hs'. repeat split; try lia; try congruence.
      * apply E6. exact HA.
      * apply E7. apply nk0_ids. exact HT.
    + unfold PP. intros _. split; [intros _; left; rewrite E1, HA; reflexivity | intro Hc; congruence].
  - unfold ret. cbn [fst]. split; [|split; [|reflexivity]].
    + unfold P. rewrite HA, HT, Hp. repeat split; try lia; try congruence; apply nk0_ids; assumption.
    + unfold PP. intros _. split; [intro Hi; apply N.ltb_lt in Hi; congruence | intro Hc; congruence].
Qed.

(* processControlFrame, pong *)
Lemma on_pong_P : forall m, presL I_P (on_pong c m).
Proof.
  intros m log s [(P1 & P2 & P3 & P4 & P5) Hpp]. unfold I_P, on_pong. rewrite fst_seq, say_fst. unfold ifS.
  destruct (isSome (pingPending s) && m) eqn:E.
  - apply andb_prop in E. destruct E as [E _]. destruct (pingPending s) as [q|] eqn:Eq; [|discriminate].
    assert (HA : nA s = 0%nat) by (apply P4; discriminate).
    assert (Hs : st s <> CONNECTING) by (intro Hc; destruct (P5 Hc) as (_ & _ & Hn & _); congruence).
    rewrite !fst_seq. unfold upd. cbn [fst].
    assert (HT1 : (nT s <= 1)%nat) by lia.
    destruct (cancel_T_eff s HT1 P3) as (C1 & C2 & C3 & C4 & Cc & C6).
    set (sa := fst (cancel_slot T s)) in *.
    assert (Q1 : nA (set_pingPending None sa) = 0%nat) by (unfold nA; simpl; fold (nA sa); rewrite C2; exact HA).
    assert (Q2 : nT (set_pingPending None sa) = 0%nat) by (unfold nT; simpl; exact C1).
    assert (Q4 : st (set_pingPending None sa) <> CONNECTING) by (simpl; rewrite (core_st _ _ Cc); exact Hs).
    destruct (rearm_tail (set_pingPending None sa) Q1 Q2 eq_refl Q4) as (R1 & R2 & _). split; assumption.
  - unfold ret. cbn [fst]. split; [unfold P; repeat split; auto; apply P5; assumption | exact Hpp].
Qed.

(* onFrameEnd: _cancelAutoPingTimeoutCall *)
Lemma restart_P : presL I_P (restart_on_traffic c).
Proof.
  intros log s [(P1 & P2 & P3 & P4 & P5) Hpp]. unfold I_P, restart_on_traffic, ifS.
  destruct (isSome (hPingTO s) && autoPingRestartOnAnyTraffic c) eqn:E.
  - apply andb_prop in E. destruct E as [E _].
    assert (Hs : st s <> CONNECTING).
    { intro Hc. destruct (P5 Hc) as (_ & _ & _ & _ & Hn). rewrite Hn in E. discriminate. }
    unfold cancel_auto_ping_timeout. rewrite !fst_seq. unfold upd. cbn [fst].
    assert (HT1 : (nT s <= 1)%nat) by lia.
    destruct (cancel_T_eff s HT1 P3) as (C1 & C2 & C3 & C4 & Cc & C6).
    set (sa := fst (cancel_slot T s)) in *.
    set (sb := set_pingPending None sa).
    assert (HA1 : (nA sb <= 1)%nat) by (unfold nA, sb; simpl; fold (nA sa); rewrite C2; lia).
    assert (HA2 : PK.ids_ok A (hPing sb) (timers sb)) by (unfold sb; simpl; rewrite C4; apply C6; exact P2).
    destruct (cancel_A_eff sb HA1 HA2) as (D1 & D2 & D3 & D4 & Dc & D6).
    set (sc := fst (cancel_slot A sb)) in *.
    assert (Q2 : nT sc = 0%nat) by (rewrite D2; unfold nT, sb; simpl; exact C1).
    assert (Q3 : pingPending sc = None) by (rewrite (core_pp _ _ Dc); reflexivity).
    assert (Q4 : st sc <> CONNECTING) by (rewrite (core_st _ _ Dc); unfold sb; simpl; rewrite (core_st _ _ Cc); exact Hs).
    destruct (rearm_tail sc D1 Q2 Q3 Q4) as (R1 & R2 & _). split; assumption.
  - unfold ret. cbn [fst]. split; [unfold P; repeat split; auto; apply P5; assumption | exact Hpp].
Qed.

Lemma cancel_other_eff : forall k s, k <> A -> k <> T -> let s' := fst (cancel_slot k s) in
  nA s' = nA s /\ nT s' = nT s /\ same_core s s'.
Proof.
  intros k s HA HT. cbv zeta. destruct (cancel_slot_eff k s) as (Et & Ec & _). unfold nA, nT.
  destruct Et as [Et|[id Et]]; rewrite Et; [auto|]. rewrite !PK.nk_remove_other by assumption. auto.
Qed.

(* succeedHandshake / processHandshake tail: OPEN, first ping armed *)
Lemma handshake_ok_P : presG (fun s => connecting s = true) I_P (handshake_ok c).
Proof.
  intros log s HG [(P1 & P2 & P3 & P4 & P5) Hpp]. unfold I_P.
  unfold connecting in HG. apply andb_prop in HG. destruct HG as [HG _]. apply andb_prop in HG. destruct HG as [_ HG].
  apply (in_state_true CONNECTING s) in HG. destruct (P5 HG) as (Z1 & Z2 & Z3 & Z4 & Z5).
  unfold handshake_ok. rewrite !fst_seq, !say_fst. unfold upd. cbn [fst].
  assert (Hw : forall b x, fst (whenM b (say WHttp) x) = x) by (intros b x; destruct b; reflexivity). rewrite Hw.
  set (s1 := set_st OPEN s).
  destruct (cancel_other_eff TOpenHS s1) as (C1 & C2 & Cc); [discriminate|discriminate|].
  set (s2 := fst (cancel_slot TOpenHS s1)) in *.
  assert (Q1 : nA s2 = 0%nat) by (rewrite C1; exact Z1).
  assert (Q2 : nT s2 = 0%nat) by (rewrite C2; exact Z2).
  assert (Q3 : pingPending s2 = None) by (rewrite (core_pp _ _ Cc); exact Z3).
  assert (Q4 : st s2 <> CONNECTING) by (rewrite (core_st _ _ Cc); simpl; discriminate).
  destruct (rearm_tail s2 Q1 Q2 Q3 Q4) as (R1 & R2 & _). split; assumption.
Qed.

(* _connectionLost cancels both ping calls while the state may still be OPEN: a weaker invariant carries through it *)
Definition Wd (s : cstate) : Prop :=
  (nA s + nT s <= 1)%nat /\ PK.ids_ok A (hPing s) (timers s) /\ PK.ids_ok T (hPingTO s) (timers s) /\
  (pingPending s <> None -> nA s = 0%nat).
Definition I_Wd (log : list out) (s : cstate) : Prop := Wd s.

Lemma cancel_slot_Wd : forall k, presL I_Wd (cancel_slot k).
Proof.
  intros k log s (W1 & W2 & W3 & W4). unfold I_Wd, Wd.
  assert (Hpp : forall s', same_core s s' -> pingPending s' = pingPending s) by (intros; apply core_pp; assumption).
  destruct k.
  - destruct (cancel_other_eff TOpenHS s) as (C1 & C2 & Cc); try discriminate.
    destruct (cancel_slot_eff TOpenHS s) as (Et & _ & _).
    assert (H1 : hPing (fst (cancel_slot TOpenHS s)) = hPing s) by (unfold cancel_slot; destruct (slot_of TOpenHS s); reflexivity).
    assert (H2 : hPingTO (fst (cancel_slot TOpenHS s)) = hPingTO s) by (unfold cancel_slot; destruct (slot_of TOpenHS s); reflexivity).
    rewrite C1, C2, H1, H2, (Hpp _ Cc). repeat split; auto; destruct Et as [Et|[id Et]]; rewrite Et; auto; apply PK.ids_remove; assumption.
  - destruct (cancel_other_eff TCloseHS s) as (C1 & C2 & Cc); try discriminate.
    destruct (cancel_slot_eff TCloseHS s) as (Et & _ & _).
    assert (H1 : hPing (fst (cancel_slot TCloseHS s)) = hPing s) by (unfold cancel_slot; destruct (slot_of TCloseHS s); reflexivity).
    assert (H2 : hPingTO (fst (cancel_slot TCloseHS s)) = hPingTO s) by (unfold cancel_slot; destruct (slot_of TCloseHS s); reflexivity).
    rewrite C1, C2, H1, H2, (Hpp _ Cc). repeat split; auto; destruct Et as [Et|[id Et]]; rewrite Et; auto; apply PK.ids_remove; assumption.
  - destruct (cancel_other_eff TServerDrop s) as (C1 & C2 & Cc); try discriminate.
    destruct (cancel_slot_eff TServerDrop s) as (Et & _ & _).
    assert (H1 : hPing (fst (cancel_slot TServerDrop s)) = hPing s) by (unfold cancel_slot; destruct (slot_of TServerDrop s); reflexivity).
    assert (H2 : hPingTO (fst (cancel_slot TServerDrop s)) = hPingTO s) by (unfold cancel_slot; destruct (slot_of TServerDrop s); reflexivity).
    rewrite C1, C2, H1, H2, (Hpp _ Cc). repeat split; auto; destruct Et as [Et|[id Et]]; rewrite Et; auto; apply PK.ids_remove; assumption.
  - assert (HA1 : (nA s <= 1)%nat) by lia.
    destruct (cancel_A_eff s HA1 W2) as (D1 & D2 & D3 & D4 & Dc & D6).
    change TAutoPing with A. rewrite D1, D2, D3, D4, (Hpp _ Dc). repeat split; auto; try lia. apply nk0_ids. exact D1.
  - assert (HT1 : (nT s <= 1)%nat) by lia.
    destruct (cancel_T_eff s HT1 W3) as (D1 & D2 & D3 & D4 & Dc & D6).
    change TAutoPingTO with T. rewrite D1, D2, D3, D4, (Hpp _ Dc). repeat split; auto; try lia. apply nk0_ids. exact D1.
Qed.

Ltac leaf_Wd := intros log s HG HI; unfold I_Wd, Wd, nA, nT in *; guard_facts; simpl in *; auto.
Ltac blocks_Wd := idtac;
  match goal with
  | |- presG _ _ (cancel_slot _) => apply presG_weaken; apply cancel_slot_Wd
  end.

Lemma conn_lost_Wd : presL I_Wd (conn_lost c).
Proof. unfold conn_lost. pres_go leaf_Wd blocks_Wd. Qed.

Lemma conn_lost_P : presL I_P (conn_lost c).
Proof.
  intros log s [(P1 & P2 & P3 & P4 & P5) Hpp]. unfold I_P.
  assert (Hst : st (fst (conn_lost c s)) = CLOSED) by apply conn_lost_st.
  destruct (conn_lost_Wd log s (conj P1 (conj P2 (conj P3 P4)))) as (W1 & W2 & W3 & W4).
  split; [|unfold PP; rewrite Hst; discriminate].
  unfold P. rewrite Hst. repeat split; auto; discriminate.
Qed.

Ltac leaf_P :=
  intros log s HG HI; unfold I_P, P, PP, nA, nT in *; guard_facts; simpl in *;
  repeat match goal with H : st ?x = _ |- _ => rewrite H in * end; simpl in *;
  try solve [ intuition (try lia; try discriminate; try congruence) ].
Ltac blocks_P := idtac;
  match goal with
  | |- presG _ _ (on_pong _ _) => apply presG_weaken; apply on_pong_P
  | |- presG _ _ (restart_on_traffic _) => apply presG_weaken; apply restart_P
  | |- presG _ _ (conn_lost _) => apply presG_weaken; apply conn_lost_P
  | |- presG _ _ (handshake_ok _) => eapply presG_imp; [|apply handshake_ok_P]; cbv beta; intros; guard_facts;
                                     unfold connecting; repeat (apply andb_true_intro; split); auto;
                                     try (apply negb_true_iff; assumption);
                                     match goal with H : st ?x = CONNECTING |- wstate_eqb (st ?x) CONNECTING = true => rewrite H; reflexivity end
  | |- presG _ _ (arm_batched _ _) => apply presG_weaken; apply arm_batched_P; discriminate
  | |- presG _ _ (arm_exact _ _) => apply presG_weaken; apply arm_exact_P; discriminate
  | |- presG _ _ (cancel_slot _) => apply presG_weaken; apply cancel_slot_P; discriminate
  end.

(* the client's onConnect raises: OPEN and first ping armed as in handshake_ok, then the connection is failed *)
Lemma fail_connection_P : forall code txt, presL I_P (fail_connection c code txt).
Proof. intros code txt. unfold fail_connection. pres_go leaf_P blocks_P. Qed.

Lemma client_connect_raises_P : forall txt, presG (fun s => connecting s = true) I_P (client_connect_raises c txt).
Proof.
  intros txt log s HG [(P1 & P2 & P3 & P4 & P5) Hpp]. unfold I_P.
  unfold connecting in HG. apply andb_prop in HG. destruct HG as [HG _]. apply andb_prop in HG. destruct HG as [_ HG].
  apply (in_state_true CONNECTING s) in HG. destruct (P5 HG) as (Z1 & Z2 & Z3 & Z4 & Z5).
  unfold client_connect_raises. rewrite !fst_seq. unfold upd. cbn [fst].
  set (s1 := set_st OPEN s).
  destruct (cancel_other_eff TOpenHS s1) as (C1 & C2 & Cc); [discriminate|discriminate|].
  set (s2 := fst (cancel_slot TOpenHS s1)) in *.
  assert (Q1 : nA s2 = 0%nat) by (rewrite C1; exact Z1).
  assert (Q2 : nT s2 = 0%nat) by (rewrite C2; exact Z2).
  assert (Q3 : pingPending s2 = None) by (rewrite (core_pp _ _ Cc); exact Z3).
  assert (Q4 : st s2 <> CONNECTING) by (rewrite (core_st _ _ Cc); simpl; discriminate).
  destruct (rearm_tail s2 Q1 Q2 Q3 Q4) as (R1 & R2 & _).
  exact (fail_connection_P code_onconnect_failed txt [] _ (conj R1 R2)).
Qed.

Ltac blocks_P2 := idtac;
  first [ blocks_P |
  match goal with
  | |- presG _ _ (client_connect_raises _ _) =>
      eapply presG_imp; [|apply client_connect_raises_P]; cbv beta; intros; guard_facts;
      unfold connecting; repeat (apply andb_true_intro; split); auto;
      try (apply negb_true_iff; assumption);
      match goal with H : st ?x = CONNECTING |- wstate_eqb (st ?x) CONNECTING = true => rewrite H; reflexivity end
  end ].

Lemma on_timer_P : forall k, k <> A -> k <> T -> presL I_P (on_timer c k).
Proof.
  intros k HA HT. destruct k; try (exfalso; apply HA; reflexivity); try (exfalso; apply HT; reflexivity);
    unfold on_timer; pres_go leaf_P blocks_P.
Qed.

(* nothing of the two kinds pending (the state right after the reactor has taken the one pending call) *)
Definition W0 (s : cstate) : Prop := nA s = 0%nat /\ nT s = 0%nat /\ st s <> CONNECTING.
Definition I_W0 (log : list out) (s : cstate) : Prop := W0 s.
Ltac leaf_W0 :=
  intros log s HG HI; unfold I_W0, W0, nA, nT in *; guard_facts; simpl in *;
  repeat match goal with H : st ?x = _ |- _ => rewrite H in * end; simpl in *;
  try solve [ intuition (try lia; try discriminate; try congruence) ].
Lemma on_timer_W0 : forall k, k <> A -> k <> T -> presL I_W0 (on_timer c k).
Proof.
  intros k HA HT. destruct k; try (exfalso; apply HA; reflexivity); try (exfalso; apply HT; reflexivity);
    unfold on_timer; pres_go leaf_W0 fail.
Qed.

Lemma send_ping_fst : forall a x, fst (send_ping a x) = x.
Proof. intros. unfold send_ping, ifS, say, ret. destruct (in_state OPEN x); reflexivity. Qed.

(* _sendAutoPing with no ping call and no timeout call pending *)
Lemma auto_ping_from_W0 : forall s, W0 s -> P (fst (on_timer c A s)) /\ PP (fst (on_timer c A s)).
Proof.
  intros s (HA & HT & Hs). unfold on_timer, A at 1 2. fold A. unfold send_auto_ping. rewrite !fst_seq. unfold upd, bindS. cbn [fst].
  rewrite send_ping_fst.
  set (s1 := (let seq := pingSeq s + 1 in set_pingPending (Some seq) (set_pingSeq seq (set_hPing None s)))).
  assert (A1 : nA s1 = 0%nat) by exact HA. assert (T1 : nT s1 = 0%nat) by exact HT.
  assert (S1 : st s1 = st s) by reflexivity. assert (Pn : pingPending s1 <> None) by (unfold s1; simpl; discriminate).
  assert (H1 : hPing s1 = None) by reflexivity.
  unfold whenM. change TAutoPingTO with T. destruct (0 <? autoPingTimeout c) eqn:Eto.
  - destruct (arm_T_eff (autoPingTimeout c) s1) as (E1 & E2 & E3 & E4 & Ec & E6 & E7).
    set (s2 := fst (arm_batched T (autoPingTimeout c) s1)) in *.
    split.
    + unfold P. rewrite E1, E2, A1, T1, E3, E4, H1, (core_st _ _ Ec), S1, (core_pp _ _ Ec). repeat split; try lia; try congruence.
      * apply E7. apply nk0_ids. exact A1.
      * apply E6. exact T1.
    + unfold PP. intros _. split; [intros _; right; rewrite (core_pp _ _ Ec); exact Pn | intros _ _; rewrite E1, T1; reflexivity].
  - unfold ret. cbn [fst]. split.
    + unfold P. rewrite A1, T1, S1. repeat split; try lia; try congruence; apply nk0_ids; assumption.
    + unfold PP. intros _. split; [intros _; right; exact Pn | intros _ Hi; apply N.ltb_lt in Hi; congruence].
Qed.

Lemma P_of_zero : forall s, nA s = 0%nat -> nT s = 0%nat -> st s <> CONNECTING -> P s.
Proof.
  intros s HA HT Hs. unfold P. rewrite HA, HT. repeat split; auto; try (apply nk0_ids; assumption); congruence.
Qed.

(* onAutoPingTimeout with nothing else of the two kinds pending: CLOSED *)
Lemma ping_timeout_from_W0 : forall s0, W0 s0 -> P (fst (on_timer c T s0)) /\ PP (fst (on_timer c T s0)).
Proof.
  intros s0 (HA & HT & Hs).
  assert (Ht : timers (fst (on_timer c T s0)) = timers s0).
  { assert (Q : presL (I_tm (timers s0)) (on_timer c T)) by (unfold on_timer, T; pres_go leaf_tm fail).
    apply (Q [] s0). reflexivity. }
  assert (Hc : st (fst (on_timer c T s0)) = CLOSED) by (apply on_timer_closes3; right; right; reflexivity).
  split.
  - apply P_of_zero; [unfold nA; rewrite Ht; exact HA | unfold nT; rewrite Ht; exact HT | rewrite Hc; discriminate].
  - unfold PP. rewrite Hc. discriminate.
Qed.

Lemma presL_run_calls_nonAT : forall (I : list out -> cstate -> Prop),
  (forall k, k <> A -> k <> T -> presL I (on_timer c k)) ->
  forall calls, (forall id, ~ In (A, id) calls) -> (forall id, ~ In (T, id) calls) -> presL I (run_calls c calls).
Proof.
  intros I H calls. induction calls as [|[k id] r IH]; intros HA HT; simpl.
  - apply presL_ret.
  - apply presL_seq.
    + apply H; intro Hk; subst k; [apply (HA id)|apply (HT id)]; left; reflexivity.
    + apply IH; intros i Hi; [apply (HA i)|apply (HT i)]; right; exact Hi.
Qed.

Lemma not_in_app : forall (x : tkind * N) a b, ~ In x (a ++ b) -> ~ In x a /\ ~ In x b.
Proof. intros x a b H. split; intro Hi; apply H; apply in_or_app; auto. Qed.

(* one iteration of the reactor loop *)
Lemma iter_P : forall t s e rest, P s /\ PP s -> pick_due t (timers s) = Some (e, rest) ->
  let s2 := fst (run_calls c (te_calls e) (set_now (N.max (now s) (te_time e)) (set_timers rest s))) in
  P s2 /\ PP s2.
Proof.
  intros t s e rest [(P1 & P2 & P3 & P4 & P5) Hpp] Hp. cbv zeta.
  pose proof (PK.nk_pick A t _ e rest Hp) as HnA. pose proof (PK.nk_pick T t _ e rest Hp) as HnT.
  destruct (pick_due_spec t _ e rest Hp) as (_ & _ & _ & Hsub).
  set (s1 := set_now (N.max (now s) (te_time e)) (set_timers rest s)).
  assert (N1 : nA s1 = PK.nk A rest) by reflexivity. assert (N2 : nT s1 = PK.nk T rest) by reflexivity.
  unfold nA, nT in P1, P4, P5. rewrite HnA, HnT in P1.
  destruct (PK.nk_entry A e) as [|[|a]] eqn:Ea; destruct (PK.nk_entry T e) as [|[|b]] eqn:Eb; try lia.
  - (* neither kind in this entry *)
    assert (H1 : I_P [] s1).
    { unfold I_P. split.
      - unfold P. rewrite N1, N2. simpl. rewrite HnA, HnT in *. simpl in *.
        repeat split; auto; try (eapply sub_ids; eauto); try (apply P5; assumption).
      - unfold PP. rewrite N1, N2. simpl. unfold PP, nA, nT in Hpp. rewrite HnA, HnT in Hpp. simpl in Hpp. exact Hpp. }
    apply (presL_run_calls_nonAT I_P on_timer_P (te_calls e) (no_call_filter A _ Ea) (no_call_filter T _ Eb) [] s1 H1).
  - (* the ping-timeout call fires *)
    destruct (split_one T (te_calls e) Eb) as (pre & id & post & Ec & Hpre & Hpost).
    assert (HnoA : forall i, ~ In (A, i) (te_calls e)) by (apply no_call_filter; exact Ea).
    rewrite Ec in HnoA.
    assert (HApre : forall i, ~ In (A, i) pre) by (intro i; apply (not_in_app _ _ _ (HnoA i))).
    assert (HApost : forall i, ~ In (A, i) post).
    { intros i Hi. apply (HnoA i). apply in_or_app. right. right. exact Hi. }
    assert (W : I_W0 [] s1).
    { unfold I_W0, W0. rewrite N1, N2. simpl. repeat split; try lia.
      intro Hc. destruct (P5 Hc) as (_ & Z & _). rewrite HnT in Z. lia. }
    pose proof (presL_run_calls_nonAT I_W0 on_timer_W0 pre HApre Hpre [] s1 W) as W1. unfold I_W0 in W1.
    rewrite Ec, run_calls_app_fst. simpl run_calls. rewrite fst_seq.
    pose proof (ping_timeout_from_W0 _ W1) as Q.
    apply (presL_run_calls_nonAT I_P on_timer_P post HApost Hpost [] _ Q).
  - (* the ping call fires: _sendAutoPing *)
    destruct (split_one A (te_calls e) Ea) as (pre & id & post & Ec & Hpre & Hpost).
    assert (HnoT : forall i, ~ In (T, i) (te_calls e)) by (apply no_call_filter; exact Eb).
    rewrite Ec in HnoT.
    assert (HTpre : forall i, ~ In (T, i) pre) by (intro i; apply (not_in_app _ _ _ (HnoT i))).
    assert (HTpost : forall i, ~ In (T, i) post).
    { intros i Hi. apply (HnoT i). apply in_or_app. right. right. exact Hi. }
    assert (W : I_W0 [] s1).
    { unfold I_W0, W0. rewrite N1, N2. simpl. repeat split; try lia.
      intro Hc. destruct (P5 Hc) as (Z & _). rewrite HnA in Z. lia. }
    pose proof (presL_run_calls_nonAT I_W0 on_timer_W0 pre Hpre HTpre [] s1 W) as W1. unfold I_W0 in W1.
    rewrite Ec, run_calls_app_fst. simpl run_calls. rewrite fst_seq.
    pose proof (auto_ping_from_W0 _ W1) as Q.
    apply (presL_run_calls_nonAT I_P on_timer_P post Hpost HTpost [] _ Q).
Qed.

Lemma fire_loop_P : forall t fuel s, P s /\ PP s -> P (fst (fire_loop fuel c t s)) /\ PP (fst (fire_loop fuel c t s)).
Proof.
  intros t fuel. induction fuel as [|f IH]; intros s H; simpl; [exact H|].
  unfold bindS. destruct (pick_due t (timers s)) as [[e rest]|] eqn:E; [|exact H].
  rewrite !fst_seq. unfold upd. cbn [fst]. apply IH. apply (iter_P t s e rest H E).
Qed.

Lemma tick_P : forall t, presL I_P (tick c t).
Proof.
  intros t log s H. unfold I_P, tick. rewrite fst_seq. unfold bindS, upd. cbn [fst].
  pose proof (fire_loop_P t (timers_weight (timers s)) s H) as H1.
  set (s1 := fst (fire_loop (timers_weight (timers s)) c t s)) in *.
  unfold P, PP, nA, nT in *. simpl.
  replace (timers (set_now (N.max (now s1) t) s1)) with (timers s1) by (destruct s1; reflexivity).
  replace (hPing (set_now (N.max (now s1) t) s1)) with (hPing s1) by (destruct s1; reflexivity).
  replace (hPingTO (set_now (N.max (now s1) t) s1)) with (hPingTO s1) by (destruct s1; reflexivity).
  exact H1.
Qed.

Lemma step_P : forall e, presL I_P (handle c e).
Proof.
  intros e. destruct e; unfold handle; try apply tick_P; pres_go leaf_P blocks_P2.
Qed.
End Ping.

(* ================================================================================================ *)
(* over whole runs *)
Lemma I_P_init : forall c, I_P c (init_out c) (init c).
Proof.
  intros c. unfold init, whenM.
  assert (H0 : I_P c (init_out c) (init0 c)).
  { unfold I_P, P, PP, nA, nT, init0. simpl. repeat split; auto; try discriminate;
      try (intros e id He; destruct He). }
  destruct (0 <? openHandshakeTimeout c); [|exact H0].
  exact (arm_batched_P c TOpenHS (openHandshakeTimeout c) ltac:(discriminate) ltac:(discriminate) (init_out c) (init0 c) H0).
Qed.

Lemma ping_inv_run : forall c evs, P (fst (run c evs)) /\ PP c (fst (run c evs)).
Proof. intros c evs. apply (presL_run (I_P c) c); [apply I_P_init | apply step_P]. Qed.

(* uniqueness: at most one auto-ping call or ping-timeout call is pending, ever; the handles name it *)
Lemma ping_unique_run : forall c evs, let s := fst (run c evs) in
  (nA s + nT s <= 1)%nat /\ PK.ids_ok A (hPing s) (timers s) /\ PK.ids_ok T (hPingTO s) (timers s) /\
  (pingPending s <> None -> nA s = 0%nat).
Proof. intros c evs. destruct (ping_inv_run c evs) as [(H1 & H2 & H3 & H4 & _) _]. cbv zeta. auto. Qed.

(* the cycle never stalls: while OPEN with autoPingInterval > 0 either exactly one ping call is pending or a ping is
   outstanding; and an outstanding ping with autoPingTimeout > 0 has exactly one timeout call pending *)
Lemma ping_periodic_run : forall c evs, let s := fst (run c evs) in st s = OPEN ->
  (0 < autoPingInterval c -> (nA s = 1%nat /\ pingPending s = None) \/ (nA s = 0%nat /\ pingPending s <> None)) /\
  (pingPending s <> None -> 0 < autoPingTimeout c -> nT s = 1%nat).
Proof.
  intros c evs. destruct (ping_inv_run c evs) as [(H1 & H2 & H3 & H4 & _) Hpp]. cbv zeta. intros Ho.
  destruct (Hpp Ho) as [Ha Hb]. split; [|exact Hb]. intros Hi.
  destruct (pingPending (fst (run c evs))) eqn:E.
  - right. split; [apply H4|]; discriminate.
  - left. split; [|reflexivity]. destruct (Ha Hi) as [H|H]; [exact H|congruence].
Qed.

Lemma run_snoc_fst : forall c evs e, fst (run c (evs ++ [e])) = fst (handle c e (fst (run c evs))).
Proof.
  intros c evs e. rewrite run_app. unfold run_from. cbn [fold_left]. unfold step.
  destruct (handle c e (fst (run c evs))). reflexivity.
Qed.

(* a responsive peer: a matching pong at ANY reachable state in which frames flow and a ping is outstanding leaves no
   ping-timeout call pending at all (the cancelled handle was the only one), and -- interval > 0 -- exactly one ping call,
   armed with a fire time <= now + autoPingInterval *)
Lemma responsive_ping_run : forall c evs q, let s := fst (run c evs) in
  frames_ready s = true -> pingPending s = Some q ->
  let s' := fst (run c (evs ++ [EPeerPong true])) in
  pingPending s' = None /\ hPingTO s' = None /\ nT s' = 0%nat /\ st s' = st s /\
  (0 < autoPingInterval c -> st s = OPEN -> nA s' = 1%nat /\ pendLe TAutoPing (now s + autoPingInterval c) (timers s')).
Proof.
  intros c evs q. cbv zeta. intros Hf Hq.
  pose proof (responsive_ping_step c _ q Hf Hq (ti1_run c evs)) as Hs. cbv zeta in Hs. unfold step in Hs.
  destruct (ping_inv_run c (evs ++ [EPeerPong true])) as [(_ & _ & H3 & _) Hpp].
  rewrite run_snoc_fst in *.
  set (s := fst (run c evs)) in *. set (s' := fst (handle c (EPeerPong true) s)) in *.
  destruct Hs as (S1 & S2 & S3 & S4). repeat split; auto.
  - unfold nT. apply ids_none_nk0. rewrite <- S2. exact H3.
  - rewrite <- S3 in H0. destruct (Hpp H0) as [Ha _]. destruct (Ha H) as [Hx|Hx]; [exact Hx|congruence].
Qed.
