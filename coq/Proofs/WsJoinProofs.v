(* C01 join, part 4 -- THE JOIN: the model of the real receive loop (WsRecv.feed / feed_all), fed the octets that the
   model of the real send path writes (WsSend.wire), under every segmentation, delivers exactly the sent messages.
     sender model  --C01-->  rfc_parse says WellFormed  --bridge-->  rfc_judge says (deliveries, VMore)
                   --C02 simulation (frame_sim)-->  one read of the receive loop produces exactly these deliveries
                   --C02 split independence (failByDrop = true)-->  so does every segmentation
                   --a run without failure does not read the failure policy (run_same)-->  also for failByDrop = false. *)
From Coq Require Import NArith ZArith List Bool Lia PeanoNat.
From AV Require Import Model.Masker Proofs.MaskerProofs Model.WsFrame Model.WsSend Proofs.WsSendProofs.
From AV Require Model.WsRecv Proofs.WsRecvLocal Proofs.WsRecvSplit Proofs.WsRecvSeq Proofs.WsRecvSeqAll.
From AV Require Import Proofs.WsJoinFrame Proofs.WsJoinParse Proofs.WsJoinBridge.
Import ListNotations.
Open Scope N_scope.

#[local] Arguments WsRecv.FMore {D}.
#[local] Arguments WsRecv.FFail {D}.
#[local] Arguments WsRecv.FClose {D}.
#[local] Arguments WsRecv.FNext {D}.

(* ---------- sender side: the wire of a legal call sequence IS an encoded frame list ---------- *)
Lemma sequence_wire_frames rc c ks ops sp' prep' evs :
  apply_mask c = true -> keys_ok ks -> policy_ok rc c ->
  spec_run c [] SpGround ops = Some (sp', prep', evs) -> spec_at_boundary sp' = true ->
  exists fs, wire c ks ops = encode_frames fs /\ frames_pass rc fs /\
             assemble astate0 fs = AOk (mkAstate (spec_open sp') false) evs.
Proof.
  intros Ham Hks Hpol Hs Hb.
  destruct (run_legal rc c ks Ham Hks Hpol ops _ _ _ _ _ _ _ _ _ (inv_init rc c ks) qwf0 Hs)
    as (a' & q' & outs & calls & Hrun & Hapi & Hrets & Hinv & Hq & Hc).
  pose proof Hinv as (Hop & _ & _ & _ & _ & fs & Hp & Hrest).
  rewrite (wire_of_run c ks ops a' q' outs Hrun Hop Hq), Hc. cbn [qcontent qst0 queue map concat app].
  exists fs. destruct sp'; try discriminate; destruct Hrest as [Hstr Ha]; cbn [app] in Hstr; rewrite Hstr; auto.
Qed.

(* the specification never announces a Close frame *)
Lemma spec_step_no_close c prep s o s1 prep1 e1 : spec_step c prep s o = Some (s1, prep1, e1) -> no_close e1.
Proof.
  intros H p Hin. destruct o; cbn in H;
    repeat match type of H with
           | (if ?x then _ else _) = _ => destruct x
           | match ?x with _ => _ end = _ => destruct x
           end; try discriminate; injection H as <- <- <-; cbn in Hin; intuition discriminate.
Qed.
Lemma spec_run_no_close c ops : forall prep s s' prep' evs,
  spec_run c prep s ops = Some (s', prep', evs) -> no_close evs.
Proof.
  induction ops as [|o ops IH]; intros prep s s' prep' evs H.
  - cbn in H. injection H as <- <- <-. intros p [].
  - cbn [spec_run] in H. destruct (spec_step c prep s o) as [[[s1 prep1] e1]|] eqn:E1; [|discriminate].
    destruct (spec_run c prep1 s1 ops) as [[[s2 prep2] e2]|] eqn:E2; [|discriminate]. injection H as <- <- <-.
    intros p Hin. apply in_app_or in Hin. destruct Hin as [Hin|Hin].
    + exact (spec_step_no_close _ _ _ _ _ _ _ E1 p Hin).
    + exact (IH _ _ _ _ _ E2 p Hin).
Qed.

(* ---------- octets ---------- *)
Definition ev_payload (e : event) : list N :=
  match e with EvMessage _ p | EvPing p | EvPong p | EvClose p => p end.
Definition events_octets (evs : list event) : Prop := Forall (fun e => octets (ev_payload e)) evs.
Definition open_octets (o : option (bool * list N)) : Prop :=
  match o with Some (_, acc) => octets acc | None => True end.

Lemma octets_app a b : octets (a ++ b) <-> octets a /\ octets b.
Proof. apply Forall_app. Qed.

Lemma encode_frame_octets f : frame_ok f -> octets (f_payload f) -> octets (encode_frame f).
Proof.
  intros (Hr & Ho & Hk & Hl) Hp. unfold encode_frame, encode_header.
  pose proof (len_field_lt (lenN (f_payload f))) as Hlt.
  assert (Hel : octets (snd (len_field (lenN (f_payload f))))).
  { unfold len_field. destruct (_ <=? 125); [constructor|]. destruct (_ <=? 65535); apply be_encode_octets. }
  destruct (len_field (lenN (f_payload f))) as [l7 el]. cbn [fst snd] in *.
  destruct (byte0_fields (f_fin f) _ _ Hr Ho) as (_ & _ & _ & B).
  destruct (f_mask f) as [k|]; cbn [mask_payload].
  - destruct Hk as [_ Hko]. apply octets_app. split.
    + constructor; [exact B|]. constructor; [lia|]. apply octets_app. split; assumption.
    + apply xor_spec_bytes_ok; assumption.
  - apply octets_app. split; [|exact Hp]. constructor; [exact B|]. constructor; [lia|exact Hel].
Qed.

Lemma encode_frames_octets fs : Forall frame_ok fs -> Forall (fun f => octets (f_payload f)) fs ->
  octets (encode_frames fs).
Proof.
  induction fs as [|f fs IH]; intros H1 H2; [constructor|].
  inversion H1; inversion H2; subst. unfold encode_frames. cbn [map concat].
  apply octets_app. split; [now apply encode_frame_octets|now apply IH].
Qed.

Lemma frames_octets fs : forall st st' evs, assemble st fs = AOk st' evs ->
  events_octets evs -> open_octets (a_open st') -> Forall (fun f => octets (f_payload f)) fs.
Proof.
  induction fs as [|f fs IH]; intros st st' evs Ha He Ho; [constructor|].
  cbn [assemble] in Ha. destruct (assemble_step st f) as [st1 e1|] eqn:Es; [|discriminate].
  destruct (assemble st1 fs) as [st2 e2|] eqn:Ea; [|discriminate]. injection Ha as <- <-.
  apply Forall_app in He. destruct He as [He1 He2].
  constructor; [|exact (IH _ _ _ Ea He2 Ho)].
  unfold assemble_step in Es. destruct (a_closed st); [discriminate|].
  assert (Fate : forall b full, (f_fin f = true -> e1 = [EvMessage b full]) ->
                   (f_fin f = false -> a_open st1 = Some (b, full)) -> octets full).
  { intros b full H1 H2. destruct (f_fin f) eqn:Ef.
    - rewrite (H1 eq_refl) in He1. now inversion He1.
    - destruct (open_fate fs st1 st2 e2 b full Ea (H2 eq_refl)) as [[m Hm]|[m Hm]].
      + unfold events_octets in He2. rewrite Forall_forall in He2. specialize (He2 _ Hm). cbn in He2.
        now apply octets_app in He2.
      + rewrite Hm in Ho. cbn in Ho. now apply octets_app in Ho. }
  destruct (f_opcode f =? 0).
  - destruct (a_open st) as [[b acc]|]; [|discriminate].
    assert (H : octets (acc ++ f_payload f)).
    { apply (Fate b); intros Ef; rewrite Ef in Es; [now injection Es as _ <-|now injection Es as <- _]. }
    now apply octets_app in H.
  - destruct ((f_opcode f =? 1) || (f_opcode f =? 2)).
    + destruct (a_open st) as [[b acc]|]; [discriminate|].
      apply (Fate (f_opcode f =? 2)); intros Ef; rewrite Ef in Es; [now injection Es as _ <-|now injection Es as <- _].
    + destruct (f_opcode f =? 8); [injection Es as _ <-; now inversion He1|].
      destruct (f_opcode f =? 9); [injection Es as _ <-; now inversion He1|].
      destruct (f_opcode f =? 10); [injection Es as _ <-; now inversion He1|discriminate].
Qed.

(* ---------- what a receiver event list delivers ---------- *)
Definition deliveries (evs : list WsRecv.event) : list (list N * bool) :=
  flat_map (fun e => match e with WsRecv.EMsg p b => [(p, b)] | _ => [] end) evs.
Definition jmessages (l : list WsRecv.jev) : list (list N * bool) :=
  flat_map (fun e => match e with WsRecv.JMsg p b => [(p, b)] | _ => [] end) l.
Definition quiet_event (e : WsRecv.event) : Prop :=
  match e with WsRecv.EFail _ | WsRecv.ECloseOk _ _ => False | _ => True end.

Lemma judged_more evs l : WsRecv.judged evs = (l, WsRecv.VMore) ->
  deliveries evs = jmessages l /\ Forall quiet_event evs.
Proof.
  revert l; induction evs as [|e evs IH]; intros l H.
  - cbn in H. injection H as <-. split; [reflexivity|constructor].
  - destruct e; cbn [WsRecv.judged] in H;
      try (destruct (IH l H) as [I1 I2]; split; [exact I1|constructor; [exact I|exact I2]]);
      try discriminate;
      destruct (WsRecv.judged evs) as [l0 v]; injection H as <- ->;
      destruct (IH l0 eq_refl) as [I1 I2]; (split; [unfold deliveries, jmessages in *; cbn [flat_map app]; now rewrite I1|constructor; [exact I|exact I2]]).
Qed.

Lemma jmessages_conv evs : jmessages (conv_events evs) = messages_of evs.
Proof.
  induction evs as [|e evs IH]; [reflexivity|]. unfold conv_events, jmessages, messages_of in *. cbn [flat_map].
  rewrite flat_map_app, IH. destruct e; reflexivity.
Qed.

Section Join.
Variable D : Type.
Variable cd : WsRecv.codec D.
Hypothesis d_nil : forall d, WsRecv.d_data cd d [] = (d, []).
Variable cf : WsRecv.cfg.
Variable rc : rcfg.
Hypothesis Hacc : recv_accepts rc cf.

Lemma frames_bytes fs st' evs : frames_pass rc fs -> assemble astate0 fs = AOk st' evs ->
  events_octets evs -> open_octets (a_open st') -> WsRecvSeq.bytes_ok (encode_frames fs).
Proof.
  intros Hp Ha He Ho. apply encode_frames_octets.
  - eapply Forall_impl; [|exact Hp]. intros f [H _]. exact H.
  - eapply frames_octets; eassumption.
Qed.

(* one read of the whole stream, either failure policy *)
Theorem join_frames_whole d0 p fs st' evs :
  frames_pass rc fs -> assemble astate0 fs = AOk st' evs -> no_close evs ->
  events_fit cf evs -> open_fits cf (a_open st') -> WsRecvSeq.bytes_ok (encode_frames fs) ->
  p <> WsRecv.CLOSED ->
  exists s' revs, WsRecv.feed D cd cf (WsRecv.init_state D p d0) (encode_frames fs) = WsRecv.Done D s' revs /\
                  WsRecv.judged revs = (conv_events evs, WsRecv.VMore).
Proof.
  intros Hp Ha Hnc Hf Hof Hb Hcl.
  destruct (WsRecvSeqAll.sequence_any_policy D cd cf d_nil p d0 _ Hcl Hb) as [s' [revs [res [F [J HJ]]]]].
  rewrite (bridge_judge D cd cf d0 rc Hacc fs st' evs Hp Ha Hnc Hf Hof) in J. injection J as <-.
  exists s', revs. split; assumption.
Qed.

(* failByDrop = true: also the state the read ends in *)
Hypothesis FBD : WsRecv.failByDrop cf = true.

Lemma runs_judges js bs evs js' : Judges D cd cf js bs evs js' ->
  forall s, WsRecvSeq.Sim D s js -> WsRecv.data D s = bs -> WsRecvSeq.bytes_ok bs ->
  exists s' e, WsRecvSplit.Runs D cd cf s s' e /\ WsRecv.judged e = (evs, WsRecv.VMore) /\
               WsRecvSeq.Sim D s' js' /\ WsRecv.data D s' = [].
Proof.
  induction 1 as [js|js bs e1 js1 rest e2 js2 Hf HJ IH]; intros s HS Hd Hb.
  - exists s, []. split; [|split; [reflexivity|split; assumption]].
    destruct HS as [Hcur _].
    eapply WsRecvSplit.runs_stop; [apply WsRecvSplit.step_empty_outside; assumption|left; discriminate].
  - pose proof (WsRecvSeq.frame_sim D cd cf FBD d_nil s js bs HS Hd Hb) as F.
    unfold WsRecvSeq.frame_ok in F. rewrite Hf in F.
    destruct F as [s2 [e [T1 [T2 [HS2 [Hd2 HJ1]]]]]].
    destruct (WsRecvSeq.judge_frame_rest D cd cf _ _ _ _ _ Hf) as [k Hk].
    assert (Hb2 : WsRecvSeq.bytes_ok rest) by (rewrite Hk; now apply WsRecvSeq.bytes_ok_skipn).
    destruct (IH s2 HS2 Hd2 Hb2) as [s' [e' [R' [J' [HS' Hd']]]]].
    destruct rest as [|x xr] eqn:Er.
    + inversion HJ; subst; [|cbn in *; discriminate].
      exists s2, e. rewrite app_nil_r. split; [now apply T2|]. split; [exact HJ1|]. split; assumption.
    + exists s', (e ++ e'). split; [apply T1; [exact R'|discriminate]|].
      split; [|split; assumption].
      rewrite WsRecvSeq.judged_app, HJ1, J'. reflexivity.
Qed.

(* the receiver between frames, with exactly the message [o] in reassembly and nothing buffered *)
Definition recv_at (s : WsRecv.rstate D) (o : option (bool * list N)) : Prop :=
  WsRecv.data D s = [] /\ WsRecv.cur D s = None /\
  WsRecv.failed (WsRecv.cn D s) = false /\ WsRecv.st (WsRecv.cn D s) <> WsRecv.CLOSED /\
  match o with
  | None => WsRecv.inside D (WsRecv.ms D s) = false
  | Some (b, acc) => WsRecv.inside D (WsRecv.ms D s) = true /\ WsRecv.mbin D (WsRecv.ms D s) = b /\
                     WsRecv.mdata D (WsRecv.ms D s) = acc
  end.

Lemma sim_recv_at d0 s js st : WsRecvSeq.Sim D s js -> jinv D cf d0 st js -> WsRecv.data D s = [] -> recv_at s (a_open st).
Proof.
  intros (Hcur & Hst & Hnf & _ & _ & Hins & Hfr) [_ Hj] Hd.
  unfold recv_at. repeat (split; [assumption|]).
  destruct (a_open st) as [[b acc]|].
  - destruct Hj as [-> _]. cbn in *. destruct (Hfr eq_refl) as (_ & _ & Hb & Hm & _). auto.
  - subst js. exact Hins.
Qed.

Theorem join_frames_state d0 p fs st' evs :
  frames_pass rc fs -> assemble astate0 fs = AOk st' evs -> no_close evs ->
  events_fit cf evs -> open_fits cf (a_open st') -> WsRecvSeq.bytes_ok (encode_frames fs) ->
  p <> WsRecv.CLOSED ->
  exists s' revs, WsRecv.feed D cd cf (WsRecv.init_state D p d0) (encode_frames fs) = WsRecv.Done D s' revs /\
                  WsRecv.judged revs = (conv_events evs, WsRecv.VMore) /\ recv_at s' (a_open st').
Proof.
  intros Hp Ha Hnc Hf Hof Hb Hcl.
  destruct (bridge D cd cf d0 rc Hacc fs st' evs Hp Ha Hnc Hf Hof) as [js' [HJ Hj']].
  set (s0 := WsRecvSplit.push D (WsRecv.init_state D p d0) (encode_frames fs)).
  assert (HS : WsRecvSeq.Sim D s0 (WsRecv.j_init D d0))
    by (apply (WsRecvSeq.Sim_same D (WsRecv.init_state D p d0)); [reflexivity|reflexivity|reflexivity|now apply WsRecvSeq.Sim_init]).
  destruct (runs_judges _ _ _ _ HJ s0 HS eq_refl Hb) as [s' [e [R [J [HS' Hd']]]]].
  exists s', e. split; [|split; [exact J|]].
  - apply (WsRecvSplit.feed_of_runs D cd d_nil cf FBD); [apply WsRecvSplit.Wf_init|cbn; exact Hcl|exact R].
  - eapply sim_recv_at; eassumption.
Qed.
End Join.

(* ---------- a run that meets no failure does not depend on the failure policy ---------- *)
Section Policy.
Variable D : Type.
Variable cd : WsRecv.codec D.
Variable cf : WsRecv.cfg.
Notation fbd := WsRecvSeqAll.fbd.
Notation has_fail := WsRecvProofs.has_fail.

Lemma has_fail_mid pre k t : has_fail (pre ++ WsRecv.EFail k :: t) = true.
Proof. rewrite WsRecvProofs.has_fail_app. cbn. now rewrite orb_true_r. Qed.

Lemma run_same n : forall (s s1 : WsRecv.rstate D) e1, WsRecv.st (WsRecv.cn D s) <> WsRecv.CLOSED ->
  WsRecv.run D cd n (fbd cf) s = WsRecv.Done D s1 e1 -> has_fail e1 = false ->
  WsRecv.run D cd n cf s = WsRecv.Done D s1 e1.
Proof.
  induction n as [|n IH]; intros s s1 e1 H R Q; [discriminate|]. cbn [WsRecv.run] in *.
  destruct (WsRecvSeqAll.step_agree D cd cf s H) as [[Qs E]|[pre [k [t [t' [P [E1 E2]]]]]]].
  - rewrite <- E in R. destruct (WsRecv.step D cd cf s) as [[sa ea] c]. destruct c; try exact R.
    destruct (WsRecv.st (WsRecv.cn D sa)) eqn:Hs; try exact R.
    + destruct (WsRecv.run D cd n (fbd cf) sa) as [s2 e2|] eqn:Ra; [|discriminate]. injection R as <- <-.
      rewrite WsRecvProofs.has_fail_app in Q. apply orb_false_iff in Q. destruct Q as [_ Q2].
      rewrite (IH sa _ _ ltac:(congruence) Ra Q2). reflexivity.
    + destruct (WsRecv.run D cd n (fbd cf) sa) as [s2 e2|] eqn:Ra; [|discriminate]. injection R as <- <-.
      rewrite WsRecvProofs.has_fail_app in Q. apply orb_false_iff in Q. destruct Q as [_ Q2].
      rewrite (IH sa _ _ ltac:(congruence) Ra Q2). reflexivity.
  - exfalso. destruct (WsRecv.step D cd (fbd cf) s) as [[sa' ea'] c']. cbn [fst snd] in E2. subst ea'.
    assert (X : exists ty, e1 = pre ++ WsRecv.EFail k :: ty).
    { destruct c'; try (injection R as _ <-; eexists; reflexivity).
      destruct (WsRecv.st (WsRecv.cn D sa')); try (injection R as _ <-; eexists; reflexivity);
        (destruct (WsRecv.run D cd n (fbd cf) sa') as [s2 e2|]; [|discriminate]; injection R as _ <-;
         exists (t' ++ e2); now rewrite <- app_assoc). }
    destruct X as [ty ->]. rewrite has_fail_mid in Q. discriminate.
Qed.

Lemma feed_same (s s1 : WsRecv.rstate D) d e1 :
  WsRecv.feed D cd (fbd cf) s d = WsRecv.Done D s1 e1 -> has_fail e1 = false ->
  WsRecv.feed D cd cf s d = WsRecv.Done D s1 e1.
Proof.
  unfold WsRecv.feed. intros R Q.
  destruct (WsRecv.st (WsRecv.cn D (WsRecv.r_data D s (WsRecv.data D s ++ d)))) eqn:Hs; try exact R;
    (apply run_same; [congruence|exact R|exact Q]).
Qed.

Lemma feed_all_same chunks : forall (s s1 : WsRecv.rstate D) e1,
  WsRecv.feed_all D cd (fbd cf) s chunks = WsRecv.Done D s1 e1 -> has_fail e1 = false ->
  WsRecv.feed_all D cd cf s chunks = WsRecv.Done D s1 e1.
Proof.
  induction chunks as [|c r IH]; intros s s1 e1 R Q; [exact R|]. cbn [WsRecv.feed_all] in *.
  destruct (WsRecv.feed D cd (fbd cf) s c) as [sa ea|] eqn:Fa; [|discriminate].
  destruct (WsRecv.feed_all D cd (fbd cf) sa r) as [sb eb|] eqn:Fb; [|discriminate]. injection R as <- <-.
  rewrite WsRecvProofs.has_fail_app in Q. apply orb_false_iff in Q. destruct Q as [Q1 Q2].
  rewrite (feed_same _ _ _ _ Fa Q1), (IH _ _ _ Fb Q2). reflexivity.
Qed.
End Policy.

Lemma quiet_no_fail evs : Forall quiet_event evs -> WsRecvProofs.has_fail evs = false.
Proof.
  induction 1 as [|e evs He _ IH]; [reflexivity|]. unfold WsRecvProofs.has_fail in *. cbn [existsb]. rewrite IH.
  destruct e; try reflexivity; destruct He.
Qed.

(* ---------- the join for a stream of encoded frames / for any octet stream the sender-side reference accepts ---------- *)
Section Stream.
Variable D : Type.
Variable cd : WsRecv.codec D.
Variable cf : WsRecv.cfg.
Variable rc : rcfg.
Hypothesis Hacc : recv_accepts rc cf.
Notation fbd := WsRecvSeqAll.fbd.

(* one read, either failure policy; only "no octets in, no octets out" is asked of the (unused) decompressor *)
Theorem join_frames_one_read d0 p fs st' evs :
  (forall d, WsRecv.d_data cd d [] = (d, [])) ->
  frames_pass rc fs -> assemble astate0 fs = AOk st' evs -> no_close evs ->
  events_fit cf evs -> open_fits cf (a_open st') -> WsRecvSeq.bytes_ok (encode_frames fs) -> p <> WsRecv.CLOSED ->
  exists s' revs,
    WsRecv.feed D cd cf (WsRecv.init_state D p d0) (encode_frames fs) = WsRecv.Done D s' revs /\
    WsRecv.judged revs = (conv_events evs, WsRecv.VMore) /\ recv_at D s' (a_open st').
Proof.
  intros d_nil Hpass Ha Hnc Hf Hof Hb Hp.
  assert (Hacc' : recv_accepts rc (fbd cf)) by exact Hacc.
  destruct (join_frames_state D cd d_nil (fbd cf) rc Hacc' eq_refl d0 p fs st' evs Hpass Ha Hnc Hf Hof Hb Hp)
    as [s' [revs [F [J R]]]].
  exists s', revs. split; [|split; assumption].
  apply feed_same; [exact F|]. apply quiet_no_fail. exact (proj2 (judged_more _ _ J)).
Qed.

(* every segmentation, either failure policy *)
Theorem join_frames_segmented d0 p fs st' evs chunks :
  WsRecvSplit.codec_law cd ->
  frames_pass rc fs -> assemble astate0 fs = AOk st' evs -> no_close evs ->
  events_fit cf evs -> open_fits cf (a_open st') -> WsRecvSeq.bytes_ok (encode_frames fs) -> p <> WsRecv.CLOSED ->
  concat chunks = encode_frames fs ->
  exists s' revs,
    WsRecv.feed_all D cd cf (WsRecv.init_state D p d0) chunks = WsRecv.Done D s' revs /\
    WsRecv.feed D cd cf (WsRecv.init_state D p d0) (encode_frames fs) = WsRecv.Done D s' revs /\
    WsRecv.judged revs = (conv_events evs, WsRecv.VMore) /\ recv_at D s' (a_open st').
Proof.
  intros Hlaw Hpass Ha Hnc Hf Hof Hb Hp Hcat. pose proof Hlaw as [d_nil _].
  assert (Hacc' : recv_accepts rc (fbd cf)) by exact Hacc.
  destruct (join_frames_state D cd d_nil (fbd cf) rc Hacc' eq_refl d0 p fs st' evs Hpass Ha Hnc Hf Hof Hb Hp)
    as [s' [revs [F [J R]]]].
  destruct (WsRecvSplit.split_independent_failbydrop D cd Hlaw (fbd cf) eq_refl p d0 chunks)
    as [s_split [evs2 [s_whole [A [B O]]]]].
  rewrite Hcat, F in B. injection B as <- <-.
  assert (Hq : WsRecvProofs.has_fail revs = false) by (apply quiet_no_fail; exact (proj2 (judged_more _ _ J))).
  destruct O as [O1 O2].
  assert (Hst : WsRecv.st (WsRecv.cn D s_split) <> WsRecv.CLOSED).
  { rewrite <- O1. destruct R as (_ & _ & _ & Hst & _). exact Hst. }
  rewrite <- (O2 Hst) in A.
  exists s', revs. split; [now apply feed_all_same|]. split; [now apply feed_same|]. split; assumption.
Qed.

(* the two declarative references agree on every octet stream that the sender-side one reads as complete frames *)
Theorem references_agree d0 bs fs evs o :
  octets bs -> rfc_parse rc bs = WellFormed fs evs o [] -> no_close evs -> events_fit cf evs -> open_fits cf o ->
  WsRecv.rfc_judge D cd cf d0 bs = Some (conv_events evs, WsRecv.VMore).
Proof.
  intros Ho Hparse Hnc Hf Hof.
  destruct (rfc_parse_inv rc bs fs evs o [] Ho Hparse) as (Hbs & Hpass & st' & Ha & <-).
  rewrite app_nil_r in Hbs. subst bs.
  apply (bridge_judge D cd cf d0 rc Hacc fs st' evs); assumption.
Qed.

Theorem join_stream d0 p bs fs evs o chunks :
  WsRecvSplit.codec_law cd ->
  octets bs -> rfc_parse rc bs = WellFormed fs evs o [] -> no_close evs -> events_fit cf evs -> open_fits cf o ->
  p <> WsRecv.CLOSED -> concat chunks = bs ->
  exists s' revs,
    WsRecv.feed_all D cd cf (WsRecv.init_state D p d0) chunks = WsRecv.Done D s' revs /\
    WsRecv.feed D cd cf (WsRecv.init_state D p d0) bs = WsRecv.Done D s' revs /\
    WsRecv.judged revs = (conv_events evs, WsRecv.VMore) /\ recv_at D s' o.
Proof.
  intros Hlaw Ho Hparse Hnc Hf Hof Hp Hcat.
  destruct (rfc_parse_inv rc bs fs evs o [] Ho Hparse) as (Hbs & Hpass & st' & Ha & <-).
  rewrite app_nil_r in Hbs. rewrite Hbs in Hcat, Ho |- *.
  apply (join_frames_segmented d0 p fs st' evs chunks); assumption.
Qed.
End Stream.

(* ---------- the join at the level of the send API specification ---------- *)
Section Spec.
Variable D : Type.
Variable cd : WsRecv.codec D.
Variable cf : WsRecv.cfg.
Variable rc : rcfg.
Variable c : scfg.
Variable ks : nat -> list N.
Hypothesis Hacc : recv_accepts rc cf.
Hypothesis Ham : apply_mask c = true.
Hypothesis Hks : keys_ok ks.
Hypothesis Hpol : policy_ok rc c.

(* what the sender model writes is a list of octets whenever the payloads are *)
Lemma wire_octets ops sp' prep' evs :
  spec_run c [] SpGround ops = Some (sp', prep', evs) -> spec_at_boundary sp' = true ->
  events_octets evs -> open_octets (spec_open sp') -> octets (wire c ks ops).
Proof.
  intros Hs Hb He Ho.
  destruct (sequence_wire_frames rc c ks ops sp' prep' evs Ham Hks Hpol Hs Hb) as (fs & Hw & Hpass & Ha).
  rewrite Hw. apply (frames_bytes rc fs _ evs Hpass Ha He Ho).
Qed.

Theorem join_whole d0 p ops sp' prep' evs :
  (forall d, WsRecv.d_data cd d [] = (d, [])) ->
  spec_run c [] SpGround ops = Some (sp', prep', evs) -> spec_at_boundary sp' = true ->
  events_octets evs -> open_octets (spec_open sp') -> events_fit cf evs -> open_fits cf (spec_open sp') ->
  p <> WsRecv.CLOSED ->
  exists s' revs,
    WsRecv.feed D cd cf (WsRecv.init_state D p d0) (wire c ks ops) = WsRecv.Done D s' revs /\
    WsRecv.judged revs = (conv_events evs, WsRecv.VMore) /\ recv_at D s' (spec_open sp').
Proof.
  intros d_nil Hs Hb He Ho Hf Hof Hp.
  destruct (sequence_wire_frames rc c ks ops sp' prep' evs Ham Hks Hpol Hs Hb) as (fs & Hw & Hpass & Ha).
  pose proof (spec_run_no_close _ _ _ _ _ _ _ Hs) as Hnc.
  pose proof (frames_bytes rc fs _ evs Hpass Ha He Ho) as Hbytes.
  rewrite Hw.
  exact (join_frames_one_read D cd cf rc Hacc d0 p fs _ evs d_nil Hpass Ha Hnc Hf Hof Hbytes Hp).
Qed.

Theorem join_segmented d0 p ops sp' prep' evs chunks :
  WsRecvSplit.codec_law cd ->
  spec_run c [] SpGround ops = Some (sp', prep', evs) -> spec_at_boundary sp' = true ->
  events_octets evs -> open_octets (spec_open sp') -> events_fit cf evs -> open_fits cf (spec_open sp') ->
  p <> WsRecv.CLOSED -> concat chunks = wire c ks ops ->
  exists s' revs,
    WsRecv.feed_all D cd cf (WsRecv.init_state D p d0) chunks = WsRecv.Done D s' revs /\
    WsRecv.feed D cd cf (WsRecv.init_state D p d0) (wire c ks ops) = WsRecv.Done D s' revs /\
    WsRecv.judged revs = (conv_events evs, WsRecv.VMore) /\ recv_at D s' (spec_open sp').
Proof.
  intros Hlaw Hs Hb He Ho Hf Hof Hp Hcat.
  destruct (sequence_wire_frames rc c ks ops sp' prep' evs Ham Hks Hpol Hs Hb) as (fs & Hw & Hpass & Ha).
  pose proof (spec_run_no_close _ _ _ _ _ _ _ Hs) as Hnc.
  pose proof (frames_bytes rc fs _ evs Hpass Ha He Ho) as Hbytes.
  rewrite Hw in *.
  exact (join_frames_segmented D cd cf rc Hacc d0 p fs _ evs chunks Hlaw Hpass Ha Hnc Hf Hof Hbytes Hp Hcat).
Qed.
End Spec.

(* ---------- what "judged revs = (conv_events evs, VMore)" says about deliveries ---------- *)
Lemma join_meaning revs evs : WsRecv.judged revs = (conv_events evs, WsRecv.VMore) ->
  deliveries revs = messages_of evs /\ Forall quiet_event revs.
Proof. intros H. destruct (judged_more _ _ H) as [H1 H2]. split; [now rewrite H1, jmessages_conv|exact H2]. Qed.

(* ---------- the default configurations of both roles ---------- *)
(* WebSocketServerFactory / WebSocketClientFactory.resetProtocolOptions: utf8validateIncoming = True,
   requireMaskedClientFrames = True (server), acceptMaskedServerFrames = False (client), applyMask = True,
   maxFramePayloadSize = maxMessagePayloadSize = 0, failByDrop = True, echoCloseCodeReason = False; no extension *)
Definition default_recv (server : bool) : WsRecv.cfg := WsRecv.mkCfg server true false true true true 0 0 false false.
Definition rc_from (sender_is_server : bool) : rcfg :=
  if sender_is_server then rc_strict_from_server else rc_strict_from_client.

Lemma default_policy r : policy_ok (rc_from r) (default_cfg r).
Proof. destruct r; cbn; auto. Qed.
Lemma default_accepts r : recv_accepts (rc_from r) (default_recv (negb r)).
Proof.
  destruct r; unfold recv_accepts, accepts_masked, accepts_unmasked; cbn; repeat split; reflexivity.
Qed.

(* every text message is complete well-formed UTF-8 *)
Definition texts_valid (evs : list event) : Prop := forall p, In (EvMessage false p) evs -> WsRecv.utf8_complete p = true.

Lemma default_fit server evs : texts_valid evs -> events_fit (default_recv server) evs.
Proof.
  intros H b p Hin. split; [reflexivity|]. unfold is_text. cbn. rewrite andb_true_r. intros Hb.
  apply negb_true_iff in Hb. subst b. now apply H.
Qed.

Theorem join_default (sender_is_server : bool) ks ops prep' evs chunks :
  keys_ok ks -> spec_run (default_cfg sender_is_server) [] SpGround ops = Some (SpGround, prep', evs) ->
  events_octets evs -> texts_valid evs -> concat chunks = wire (default_cfg sender_is_server) ks ops ->
  exists s' revs,
    WsRecv.feed_all unit WsRecv.id_codec (default_recv (negb sender_is_server)) (WsRecv.init_state unit WsRecv.OPEN tt) chunks
      = WsRecv.Done unit s' revs /\
    WsRecv.judged revs = (conv_events evs, WsRecv.VMore) /\
    deliveries revs = messages_of evs /\ Forall quiet_event revs /\ recv_at unit s' None.
Proof.
  intros Hks Hs Ho Ht Hcat.
  destruct (join_segmented unit WsRecv.id_codec (default_recv (negb sender_is_server)) (rc_from sender_is_server)
              (default_cfg sender_is_server) ks (default_accepts _) eq_refl Hks (default_policy _)
              tt WsRecv.OPEN ops SpGround prep' evs chunks WsRecvSplit.id_codec_law Hs eq_refl Ho I
              (default_fit _ _ Ht) I ltac:(discriminate) Hcat) as [s' [revs [F [_ [J R]]]]].
  exists s', revs. destruct (join_meaning _ _ J) as [M Q]. auto.
Qed.

(* ---------- non-vacuity witness ---------- *)
Definition ex_join_keys : nat -> list N := fun i => [N.of_nat i mod 256; 2; 3; 250].
Lemma ex_join_keys_ok : keys_ok ex_join_keys.
Proof.
  intros i. split; [reflexivity|]. unfold ex_join_keys. repeat constructor; first [lia | apply N.mod_lt; lia].
Qed.
(* text "hé!" streamed in two fragments cut INSIDE the code point of é (C3 | A9), a ping between the fragments,
   then a 5-octet binary message sent with fragmentSize 2 (three frames), then a pong *)
Definition ex_join_ops : list op :=
  [OBeginMessage false; OSendMessageFrame [0x68; 0xC3] false; OSendPing [1; 2]; OSendMessageFrame [0xA9; 0x21] false;
   OEndMessage; OSendMessage [0; 255; 7; 8; 9] true (Some 2%Z) false; OSendPong [5]].
Definition ex_join_events : list event :=
  [EvPing [1; 2]; EvMessage false [0x68; 0xC3; 0xA9; 0x21]; EvMessage true [0; 255; 7; 8; 9]; EvPong [5]].
Lemma ex_join_octets : events_octets ex_join_events.
Proof. unfold events_octets, ex_join_events. repeat constructor. Qed.
Lemma ex_join_texts : texts_valid ex_join_events.
Proof.
  intros p Hin. cbn in Hin. repeat (destruct Hin as [Hin|Hin]; try discriminate); [|destruct Hin].
  injection Hin as <-. reflexivity.
Qed.
Definition octet_by_octet (bs : list N) : list (list N) := map (fun b => [b]) bs.
Lemma octet_by_octet_concat bs : concat (octet_by_octet bs) = bs.
Proof. induction bs as [|b r IH]; [reflexivity|]. unfold octet_by_octet in *. cbn [map concat app]. now rewrite IH. Qed.


(* the UTF-8 hypothesis is needed: sendMessage does not validate outgoing text, the receiver does *)
Definition ex_join_bad_text : list op := [OSendMessage [0x68; 0xFF] false None false].

Lemma defaults_compatible r :
  policy_ok (rc_from r) (default_cfg r) /\ recv_accepts (rc_from r) (default_recv (negb r)) /\
  apply_mask (default_cfg r) = true /\
  forall evs, texts_valid evs -> events_fit (default_recv (negb r)) evs.
Proof. exact (conj (default_policy r) (conj (default_accepts r) (conj eq_refl (default_fit (negb r))))). Qed.

Lemma ex_join_hypotheses :
  keys_ok ex_join_keys /\
  spec_run (default_cfg false) [] SpGround ex_join_ops = Some (SpGround, [], ex_join_events) /\
  spec_run (default_cfg true) [] SpGround ex_join_ops = Some (SpGround, [], ex_join_events) /\
  events_octets ex_join_events /\ texts_valid ex_join_events /\
  forall bs, concat (octet_by_octet bs) = bs.
Proof.
  exact (conj ex_join_keys_ok (conj eq_refl (conj eq_refl (conj ex_join_octets (conj ex_join_texts octet_by_octet_concat))))).
Qed.
