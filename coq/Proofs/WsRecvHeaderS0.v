(* header sweep shard 0: isServer = true, masking option = true; compression x inside_message x 256 x 256 *)
From Coq Require Import NArith List Bool.
From AV Require Import Model.WsRecv Proofs.WsRecvHeaderBase.
Import ListNotations.
Lemma header_sweep_0 :
  forallb (fun pm => forallb (fun ins => sweep_ctx true true pm ins) bools) bools = true.
Proof. vm_compute. reflexivity. Qed.
