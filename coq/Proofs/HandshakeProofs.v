(* Proofs about Model/Handshake.v (C07). *)
From Coq Require Import NArith ZArith List Bool Lia DecimalN.
From Coq Require String.
Import String.StringSyntax.
From AV Require Import Gen.Latin1Tables Gen.HandshakeConsts Model.Handshake Model.HandshakeRun.
Import ListNotations.
Open Scope N_scope.

(* ========================================================================================== *)
(* basic reflection lemmas                                                                    *)

Lemma str_eqb_refl s : str_eqb s s = true.
Proof. induction s as [|x s IH]; cbn; [reflexivity|]. now rewrite N.eqb_refl, IH. Qed.

Lemma str_eqb_eq a b : str_eqb a b = true <-> a = b.
Proof.
  split.
  - revert b; induction a as [|x a IH]; intros [|y b] H; cbn in H; try discriminate; [reflexivity|].
    apply andb_true_iff in H as [H1 H2]. apply N.eqb_eq in H1. apply IH in H2. now subst.
  - intros ->. apply str_eqb_refl.
Qed.

Lemma str_eqb_neq a b : str_eqb a b = false <-> a <> b.
Proof.
  split.
  - intros H E. apply str_eqb_eq in E. congruence.
  - intros H. destruct (str_eqb a b) eqn:E; [|reflexivity]. apply str_eqb_eq in E. contradiction.
Qed.

Lemma memN_In c l : memN c l = true <-> In c l.
Proof.
  unfold memN. rewrite existsb_exists. split.
  - intros [x [Hx E]]. apply N.eqb_eq in E. now subst.
  - intros H. exists c. split; [assumption|apply N.eqb_refl].
Qed.

Lemma mem_str_In x l : mem_str x l = true <-> In x l.
Proof.
  unfold mem_str. rewrite existsb_exists. split.
  - intros [y [Hy E]]. apply str_eqb_eq in E. now subst.
  - intros H. exists x. split; [assumption|apply str_eqb_refl].
Qed.

Lemma memZ_In x l : memZ x l = true <-> In x l.
Proof.
  unfold memZ. rewrite existsb_exists. split.
  - intros [y [Hy E]]. apply Z.eqb_eq in E. now subst.
  - intros H. exists x. split; [assumption|apply Z.eqb_refl].
Qed.

(* ========================================================================================== *)
(* wildcard origin matching is whole-string matching                                          *)


Definition star_loop (p' : str) : str -> bool :=
  fix star (s : str) : bool :=
    wild_body p' s || match s with
                      | x :: r => if x =? 10 then false else star r
                      | [] => false
                      end.

Lemma wild_body_star p' s : wild_body (42 :: p') s = star_loop p' s.
Proof. reflexivity. Qed.

Lemma wild_body_lit c p' s : c <> 42 ->
  wild_body (c :: p') s = match s with x :: r => (x =? c) && wild_body p' r | [] => false end.
Proof. intros H. cbn [wild_body]. apply N.eqb_neq in H. now rewrite H. Qed.

Lemma star_loop_spec p' s :
  star_loop p' s = true <->
  exists s1 s2, s = s1 ++ s2 /\ Forall (fun x => x <> 10) s1 /\ wild_body p' s2 = true.
Proof.
  induction s as [|x r IH].
  - cbn. rewrite orb_false_r. split.
    + intros H. exists [], []. repeat split; [constructor|assumption].
    + intros (s1 & s2 & E & _ & H). symmetry in E. apply app_eq_nil in E as [-> ->]. assumption.
  - cbn [star_loop]. fold (star_loop p'). rewrite orb_true_iff. split.
    + intros [H|H].
      * exists [], (x :: r). repeat split; [constructor|assumption].
      * destruct (x =? 10) eqn:E; [discriminate|]. apply N.eqb_neq in E.
        apply IH in H as (s1 & s2 & -> & F & H). exists (x :: s1), s2. repeat split; [constructor; assumption|assumption].
    + intros (s1 & s2 & E & F & H). destruct s1 as [|y s1].
      * cbn in E. subst s2. now left.
      * cbn in E. injection E as -> ->. inversion F as [|? ? Hx F']; subst. right.
        apply N.eqb_neq in Hx. rewrite Hx. apply IH. exists s1, s2. repeat split; assumption.
Qed.

Lemma wild_body_spec p : forall s, wild_body p s = true <-> wild_spec_nl p s.
Proof.
  induction p as [|c p IH]; intros s.
  - cbn. split.
    + intros H. destruct s as [|x [|y r]]; try discriminate.
      * left. constructor.
      * apply N.eqb_eq in H. subst x. right. exists []. split; [reflexivity|constructor].
    + intros [H|(s' & -> & H)]; inversion H; subst; reflexivity.
  - destruct (N.eq_dec c 42) as [->|Hc].
    + rewrite wild_body_star, star_loop_spec. split.
      * intros (s1 & s2 & -> & F & H). apply IH in H as [H|(s' & -> & H)].
        -- left. now constructor.
        -- right. exists (s1 ++ s'). split; [now rewrite app_assoc|now constructor].
      * intros [H|(s' & -> & H)].
        -- inversion H as [| |? s1 s2 F H']; subst; [contradiction|].
           exists s1, s2. repeat split; [assumption|]. apply IH. now left.
        -- inversion H as [| |? s1 s2 F H']; subst; [contradiction|].
           exists s1, (s2 ++ [10]). repeat split; [now rewrite app_assoc|assumption|]. apply IH. right. now exists s2.
    + rewrite wild_body_lit by assumption. split.
      * intros H. destruct s as [|x r]; [discriminate|]. apply andb_true_iff in H as [E H]. apply N.eqb_eq in E. subst x.
        apply IH in H as [H|(s' & -> & H)].
        -- left. now constructor.
        -- right. exists (c :: s'). split; [reflexivity|now constructor].
      * intros [H|(s' & -> & H)].
        -- inversion H; subst; [|contradiction]. rewrite N.eqb_refl. cbn. apply IH. now left.
        -- inversion H; subst; [|contradiction]. cbn. rewrite N.eqb_refl. cbn. apply IH. right. eexists. split; [reflexivity|eassumption].
Qed.

Theorem wild_match_spec p s : wild_match p s = true <-> wild_spec_nl p s.
Proof. apply wild_body_spec. Qed.

Lemma not_app_nl s : ~ In 10 s -> forall s', s <> s' ++ [10].
Proof. intros H s' E. apply H. rewrite E. apply in_or_app. right. now left. Qed.

Theorem wild_match_whole p s : ~ In 10 s -> (wild_match p s = true <-> wild_spec p s).
Proof.
  intros H. rewrite wild_match_spec. split; [|now left].
  intros [W|(s' & E & _)]; [assumption|]. exfalso. eapply not_app_nl; eassumption.
Qed.

(* a pattern without '*' accepts only itself: never a proper prefix, suffix or superstring *)
Lemma wild_spec_no_star p s : ~ In 42 p -> wild_spec p s -> s = p.
Proof.
  intros H W. induction W as [|c p s Hc W IH|p s1 s2 F W IH].
  - reflexivity.
  - f_equal. apply IH. intros I. apply H. now right.
  - exfalso. apply H. now left.
Qed.

Theorem wild_match_literal p s : ~ In 42 p -> wild_match p s = true -> s = p \/ s = p ++ [10].
Proof.
  intros H M. apply wild_match_spec in M as [W|(s' & -> & W)].
  - left. now apply wild_spec_no_star.
  - right. f_equal. now apply wild_spec_no_star.
Qed.

(* what a match implies about the ends of the string: the text before the first '*' is a prefix
   of the origin and the text after the last '*' is a suffix of it *)
Lemma wild_spec_prefix p q s : ~ In 42 p -> wild_spec (p ++ q) s -> exists t, s = p ++ t /\ wild_spec q t.
Proof.
  revert s. induction p as [|c p IH]; intros s H W.
  - now exists s.
  - cbn in W. inversion W as [|c' p' s' Hc W'|p' s1 s2 F W']; subst.
    + destruct (IH s') as (t & -> & Wt); [intros I; apply H; now right|assumption|]. now exists t.
    + exfalso. apply H. now left.
Qed.

Lemma wild_spec_suffix p q s : ~ In 42 q -> wild_spec (p ++ q) s -> exists t, s = t ++ q.
Proof.
  intros H. revert s. induction p as [|c p IH]; intros s W.
  - cbn in W. exists []. now apply wild_spec_no_star.
  - cbn in W. inversion W as [|c' p' s' Hc W'|p' s1 s2 F W']; subst.
    + destruct (IH _ W') as (t & ->). now exists (c :: t).
    + destruct (IH _ W') as (t & ->). exists (s1 ++ t). now rewrite app_assoc.
Qed.

(* the string the patterns are matched against never ends in LF, so "$" is the end of the string *)
Lemma uint_digits_no_nl d : Forall (fun c => c <> 10) (uint_digits d).
Proof. induction d; cbn; constructor; (discriminate || assumption). Qed.

Lemma dec_of_Z_no_nl z : Forall (fun c => c <> 10) (dec_of_Z z).
Proof.
  unfold dec_of_Z, dec_of_N. destruct z; try apply uint_digits_no_nl.
  constructor; [discriminate|apply uint_digits_no_nl].
Qed.

Lemma no_trailing_nl (X P : str) : Forall (fun c => c <> 10) P -> forall s', X ++ [58] ++ P <> s' ++ [10].
Proof.
  intros F s' E. apply (f_equal (@rev N)) in E. rewrite !rev_app_distr in E. cbn in E.
  destruct (rev P) as [|y r] eqn:R.
  - cbn in E. discriminate.
  - cbn in E. injection E as -> _.
    assert (In 10 P) by (apply in_rev; rewrite R; now left).
    rewrite Forall_forall in F. now apply (F 10).
Qed.

Lemma origin_header_no_trailing_nl sc h p s' : origin_header sc h p <> s' ++ [10].
Proof.
  unfold origin_header. replace (sc ++ [58; 47; 47] ++ h ++ [58] ++ match p with Some p0 => dec_of_Z p0 | None => NONE_S end)
    with ((sc ++ [58; 47; 47] ++ h) ++ [58] ++ match p with Some p0 => dec_of_Z p0 | None => NONE_S end)
    by (now rewrite <- !app_assoc).
  apply no_trailing_nl. destruct p; [apply dec_of_Z_no_nl|]. unfold NONE_S. repeat constructor; discriminate.
Qed.

Theorem is_same_origin_spec sc h p allowed :
  is_same_origin (OTriple sc h p) allowed = true <->
  exists pat, In pat allowed /\ wild_spec pat (origin_header sc h p).
Proof.
  cbn. rewrite existsb_exists. split.
  - intros (pat & I & M). exists pat. split; [assumption|].
    apply wild_match_spec in M as [W|(s' & E & _)]; [assumption|]. exfalso. eapply origin_header_no_trailing_nl; eassumption.
  - intros (pat & I & W). exists pat. split; [assumption|]. apply wild_match_spec. now left.
Qed.

(* ========================================================================================== *)
(* end of header detection and read segmentation                                              *)

Lemma starts_with_app p s t : starts_with p s = true -> starts_with p (s ++ t) = true.
Proof.
  revert s; induction p as [|x p IH]; intros s H; [reflexivity|].
  destruct s as [|y s]; [discriminate|]. cbn in *. apply andb_true_iff in H as [H1 H2]. rewrite H1. cbn. now apply IH.
Qed.

Lemma starts_with_length p s : starts_with p s = true -> (length p <= length s)%nat.
Proof.
  revert s; induction p as [|x p IH]; intros s H; cbn; [lia|].
  destruct s as [|y s]; [discriminate|]. cbn in *. apply andb_true_iff in H as [_ H2]. apply IH in H2. lia.
Qed.

Lemma skipn_app_le {A} n (s t : list A) : (n <= length s)%nat -> skipn n (s ++ t) = skipn n s ++ t.
Proof. revert s; induction n as [|n IH]; intros s H; [reflexivity|]. destruct s; cbn in *; [lia|]. apply IH. lia. Qed.

Lemma split_eoh_aux_len acc s h r : split_eoh_aux acc s = Some (h, r) -> (4 <= length s)%nat.
Proof.
  revert acc; induction s as [|c s IH]; intros acc H; [discriminate|].
  cbn [split_eoh_aux] in H. destruct (starts_with EOH (c :: s)) eqn:E.
  - apply starts_with_length in E. exact E.
  - apply IH in H. cbn. lia.
Qed.

Lemma split_eoh_aux_app acc s h r t :
  split_eoh_aux acc s = Some (h, r) -> split_eoh_aux acc (s ++ t) = Some (h, r ++ t).
Proof.
  revert acc; induction s as [|c s IH]; intros acc H; [discriminate|].
  cbn [split_eoh_aux] in H. cbn [app split_eoh_aux].
  destruct (starts_with EOH (c :: s)) eqn:E.
  - change (c :: s ++ t) with ((c :: s) ++ t). rewrite (starts_with_app _ _ t E).
    assert (h = rev acc ++ EOH /\ r = skipn 4 (c :: s)) as [-> ->] by (split; congruence).
    f_equal. f_equal. apply (skipn_app_le 4 (c :: s) t). apply starts_with_length in E. exact E.
  - destruct (starts_with EOH (c :: s ++ t)) eqn:E2.
    + (* a terminator at offset 0 of the longer string lies inside c :: s, because s is at least 4 long *)
      exfalso. apply split_eoh_aux_len in H.
      assert (starts_with EOH (c :: s) = true); [|congruence].
      clear - E2 H. unfold EOH in *.
      destruct s as [|a [|b [|d s]]]; cbn in H; try lia. cbn in *. exact E2.
    + now apply IH.
Qed.

Lemma split_eoh_app s h r t : split_eoh s = Some (h, r) -> split_eoh (s ++ t) = Some (h, r ++ t).
Proof. apply split_eoh_aux_app. Qed.


Lemma s_succeed_rest c e rq key rest p h t :
  s_succeed c e rq key (rest ++ t) p h = extend_rest (s_succeed c e rq key rest p h) t.
Proof.
  unfold s_succeed.
  destruct (match p with Some p0 => negb (mem_str p0 (rq_protocols rq)) | None => false end).
  - destruct (s_flavour c); reflexivity.
  - destruct (pmce_offers e (rq_extensions rq)); reflexivity.
Qed.

Ltac break_match_hyp H :=
  match type of H with context [match ?x with _ => _ end] => destruct x eqn:? end.

(* the validation chain never produces SOpen or SNeedMore by itself *)
Lemma s_validate_out_shape c e h o : s_validate c e h = VOut o ->
  match o with SOpen _ _ _ | SNeedMore | SStuck | SFlashPolicy | SEscaped _ => False | _ => True end.
Proof.
  unfold s_validate, no_upgrade, fail400. cbv zeta. intros H.
  repeat break_match_hyp H; try discriminate; injection H as <-; exact I.
Qed.

Lemma s_process_app c e d h r t :
  split_eoh d = Some (h, r) -> s_process c e (d ++ t) = extend_rest (s_process c e d) t.
Proof.
  intros H. unfold s_process. rewrite (split_eoh_app _ _ _ t H), H.
  destruct (s_validate c e h) as [rq key|o] eqn:V.
  - destruct (on_connect e rq); try reflexivity; apply s_succeed_rest.
  - apply s_validate_out_shape in V. destruct o; try reflexivity. contradiction.
Qed.

Lemma s_process_some_not_needmore c e d h r : split_eoh d = Some (h, r) -> s_process c e d <> SNeedMore.
Proof.
  intros H. unfold s_process. rewrite H.
  destruct (s_validate c e h) as [rq key|o] eqn:V.
  - unfold s_succeed. destruct (on_connect e rq); try discriminate;
      repeat match goal with |- context [match ?x with _ => _ end] => destruct x end; discriminate.
  - apply s_validate_out_shape in V. destruct o; try discriminate; contradiction.
Qed.

Definition s_inv (c : scfg) (e : env) (st : s_state) : Prop :=
  match st with SConnecting buf => s_process c e buf = SNeedMore | SDone _ => True end.

Lemma s_feed_inv c e st chunk : s_inv c e st -> s_inv c e (s_feed c e st chunk).
Proof.
  destruct st as [buf|o]; cbn; intros H.
  - destruct (s_process c e (buf ++ chunk)) eqn:P; cbn; trivial.
  - destruct o; exact I.
Qed.

Lemma s_feed_feed c e st a b : s_serve_flash c = false -> s_inv c e st ->
  s_feed c e (s_feed c e st a) b = s_feed c e st (a ++ b).
Proof.
  intros F I. destruct st as [buf|o].
  - cbn [s_feed]. rewrite (app_assoc buf a b).
    destruct (split_eoh (buf ++ a)) as [[h r]|] eqn:S.
    + rewrite (s_process_app c e _ h r b S).
      pose proof (s_process_some_not_needmore c e _ h r S) as NN.
      destruct (s_process c e (buf ++ a)) eqn:P; try contradiction; cbn; reflexivity.
    + assert (P : s_process c e (buf ++ a) = SNeedMore) by (unfold s_process; now rewrite S, F).
      rewrite P. reflexivity.
  - destruct o; cbn; try reflexivity. now rewrite app_assoc.
Qed.

Theorem s_run_from c e st chunks : s_serve_flash c = false -> s_inv c e st ->
  fold_left (s_feed c e) chunks st = s_feed c e st (concat chunks).
Proof.
  intros F. revert st. induction chunks as [|a chunks IH]; intros st I.
  - cbn. destruct st as [buf|o]; cbn in *.
    + now rewrite app_nil_r, I.
    + destruct o; try reflexivity. now rewrite app_nil_r.
  - cbn [fold_left concat]. rewrite IH by now apply s_feed_inv.
    now apply s_feed_feed.
Qed.

Lemma s_init_inv c e : s_inv c e (SConnecting []).
Proof. cbn. unfold s_process. cbn. now rewrite andb_false_r. Qed.

(* every segmentation of the same octets gives the same result (flash policy serving off) *)
Theorem s_run_segmentation c e chunks : s_serve_flash c = false ->
  s_run c e chunks = s_run c e [concat chunks].
Proof.
  intros F. unfold s_run. rewrite (s_run_from c e _ chunks F (s_init_inv c e)). reflexivity.
Qed.


Lemma c_process_app c e key d h r t :
  split_eoh d = Some (h, r) -> c_process c e key (d ++ t) = c_extend_rest (c_process c e key d) t.
Proof.
  intros H. unfold c_process. rewrite (split_eoh_app _ _ _ t H), H.
  repeat match goal with |- context [match ?x with _ => _ end] => destruct x end; reflexivity.
Qed.

Lemma c_process_some_not_needmore c e key d h r : split_eoh d = Some (h, r) -> c_process c e key d <> CNeedMore.
Proof.
  intros H. unfold c_process. rewrite H.
  repeat match goal with |- context [match ?x with _ => _ end] => destruct x end; discriminate.
Qed.

Definition c_inv (c : ccfg) (e : env) (key : str) (st : c_state) : Prop :=
  match st with CConnecting buf => c_process c e key buf = CNeedMore | CDone _ => True end.

Lemma c_feed_inv c e key st chunk : c_inv c e key st -> c_inv c e key (c_feed c e key st chunk).
Proof.
  destruct st as [buf|o]; cbn; intros H.
  - destruct (c_process c e key (buf ++ chunk)) eqn:P; cbn; trivial.
  - destruct o; exact I.
Qed.

Lemma c_feed_feed c e key st a b : c_inv c e key st ->
  c_feed c e key (c_feed c e key st a) b = c_feed c e key st (a ++ b).
Proof.
  intros I. destruct st as [buf|o].
  - cbn [c_feed]. rewrite (app_assoc buf a b).
    destruct (split_eoh (buf ++ a)) as [[h r]|] eqn:S.
    + rewrite (c_process_app c e key _ h r b S).
      pose proof (c_process_some_not_needmore c e key _ h r S) as NN.
      destruct (c_process c e key (buf ++ a)) eqn:P; try contradiction; cbn; reflexivity.
    + assert (P : c_process c e key (buf ++ a) = CNeedMore) by (unfold c_process; now rewrite S).
      rewrite P. reflexivity.
  - destruct o; cbn; try reflexivity. now rewrite app_assoc.
Qed.

Theorem c_run_from c e key st chunks : c_inv c e key st ->
  fold_left (c_feed c e key) chunks st = c_feed c e key st (concat chunks).
Proof.
  revert st. induction chunks as [|a chunks IH]; intros st I.
  - cbn. destruct st as [buf|o]; cbn in *.
    + now rewrite app_nil_r, I.
    + destruct o; try reflexivity. now rewrite app_nil_r.
  - cbn [fold_left concat]. rewrite IH by now apply c_feed_inv.
    now apply c_feed_feed.
Qed.

Theorem c_run_segmentation c e key chunks : c_run c e key chunks = c_run c e key [concat chunks].
Proof. unfold c_run. rewrite (c_run_from c e key _ chunks); [reflexivity|reflexivity]. Qed.

(* ========================================================================================== *)
(* which inputs make an exception escape                                                      *)

(* server: no input, no segmentation, no oracle behaviour makes an exception escape *)
Theorem s_process_never_escapes c e data x : s_process c e data <> SEscaped x.
Proof.
  unfold s_process. destruct (split_eoh data) as [[h r]|]; [|destruct (_ && _); discriminate].
  destruct (s_validate c e h) as [rq key|o] eqn:V.
  - unfold s_succeed. intros H.
    destruct (on_connect e rq); try discriminate;
      repeat (break_match_hyp H; try discriminate).
  - apply s_validate_out_shape in V. intros ->. exact V.
Qed.

Lemma s_run_escaped_aux c e chunks : forall st x,
  s_result (fold_left (s_feed c e) chunks st) = SEscaped x ->
  s_result st = SEscaped x \/ exists d, s_process c e d = SEscaped x.
Proof.
  induction chunks as [|a chunks IH]; intros st x H; [now left|].
  cbn [fold_left] in H. apply IH in H as [H|H]; [|now right].
  destruct st as [buf|o].
  - cbn in H. destruct (s_process c e (buf ++ a)) eqn:P; cbn in H; try discriminate.
    right. exists (buf ++ a). congruence.
  - left. destruct o; cbn in *; congruence.
Qed.

Theorem s_run_never_escapes c e chunks x : s_result (s_run c e chunks) <> SEscaped x.
Proof.
  intros H. apply s_run_escaped_aux in H as [H|[d H]]; [discriminate|].
  now apply s_process_never_escapes in H.
Qed.

Lemma starts_with_split p s : starts_with p s = true -> s = p ++ skipn (length p) s.
Proof.
  revert s; induction p as [|x p IH]; intros s H; [reflexivity|].
  destruct s as [|y s]; [discriminate|]. cbn in H. apply andb_true_iff in H as [E H]. apply N.eqb_eq in E. subst y.
  cbn. f_equal. now apply IH.
Qed.

Lemma split_eoh_aux_shape acc s h r : split_eoh_aux acc s = Some (h, r) ->
  exists pre, h = rev acc ++ pre ++ EOH /\ s = pre ++ EOH ++ r.
Proof.
  revert acc; induction s as [|c s IH]; intros acc H; [discriminate|].
  cbn [split_eoh_aux] in H. destruct (starts_with EOH (c :: s)) eqn:E.
  - assert (h = rev acc ++ EOH /\ r = skipn 4 (c :: s)) as [-> ->] by (split; congruence).
    exists []. split; [reflexivity|]. cbn [app]. apply (starts_with_split EOH (c :: s) E).
  - apply IH in H as (pre & -> & ->). exists (c :: pre). split; [|reflexivity].
    cbn [rev]. now rewrite <- app_assoc.
Qed.

Lemma split_eoh_shape s h r : split_eoh s = Some (h, r) -> exists pre, h = pre ++ EOH /\ s = pre ++ EOH ++ r.
Proof. intros H. apply split_eoh_aux_shape in H as (pre & -> & ->). now exists pre. Qed.

Lemma splitlines_aux_nil cur f s : splitlines_aux cur f s = [] -> cur = [] /\ (s = [] \/ f = true).
Proof.
  revert cur f; induction s as [|c s IH]; intros cur f H.
  - cbn in H. destruct cur; [now split; [|left]|discriminate].
  - cbn [splitlines_aux] in H. destruct (f && (c =? 10)) eqn:E.
    + apply IH in H as [-> _]. apply andb_true_iff in E as [-> _]. now split; [|right].
    + destruct (is_linebreak c); [discriminate|]. apply IH in H as [H _]. discriminate.
Qed.

Lemma parse_http_header_some h : h <> [] -> parse_http_header h <> None.
Proof.
  intros N. unfold parse_http_header. destruct (splitlines h) eqn:S; [|discriminate].
  apply splitlines_aux_nil in S as [_ [S|S]]; [contradiction|discriminate].
Qed.

Lemma split_eoh_header_nonempty s h r : split_eoh s = Some (h, r) -> h <> [].
Proof. intros H. apply split_eoh_shape in H as (pre & -> & _). unfold EOH. destruct pre; discriminate. Qed.

(* client: never *)
Theorem c_process_never_escapes c e key data x : c_process c e key data <> CEscaped x.
Proof.
  unfold c_process. destruct (split_eoh data) as [[h r]|] eqn:S; [|discriminate].
  pose proof (parse_http_header_some h (split_eoh_header_nonempty _ _ _ S)) as NN.
  destruct (parse_http_header h) as [[sl hs]|]; [|contradiction]. intros H.
  repeat (break_match_hyp H; try discriminate).
Qed.

Lemma c_run_escaped_aux c e key chunks : forall st x,
  c_result (fold_left (c_feed c e key) chunks st) = CEscaped x ->
  c_result st = CEscaped x \/ exists d, c_process c e key d = CEscaped x.
Proof.
  induction chunks as [|a chunks IH]; intros st x H; [now left|].
  cbn [fold_left] in H. apply IH in H as [H|H]; [|now right].
  destruct st as [buf|o].
  - cbn in H. destruct (c_process c e key (buf ++ a)) eqn:P; cbn in H; try discriminate.
    right. exists (buf ++ a). congruence.
  - left. destruct o; cbn in *; congruence.
Qed.

Theorem c_run_never_escapes c e key chunks x : c_result (c_run c e key chunks) <> CEscaped x.
Proof.
  intros H. apply c_run_escaped_aux in H as [H|[d H]]; [discriminate|].
  now apply c_process_never_escapes in H.
Qed.

(* ========================================================================================== *)
(* the validation chain = a conjunction of conditions (on the parsed header dictionary)        *)

Definition origin_allowed (c : scfg) (o : origin) : bool :=
  match o with
  | ONull => if s_allow_null_origin c then true else is_same_origin o (s_allowed_origins c)
  | _ => is_same_origin o (s_allowed_origins c)
  end.

Definition origin_cond (c : scfg) (e : env) (hs : hdrs) (version : Z) (origin_s : str) : Prop :=
  match hget (origin_key version) hs with
  | None => origin_s = []
  | Some (ov, oc) => oc <= 1 /\ origin_s = strip ov /\
                     exists o, url_to_origin (urlsplit_o e) (strip ov) = Some o /\ origin_allowed c o = true
  end.

Definition exts_cond (hs : hdrs) (exts : list extension) : Prop :=
  match hget K_EXTENSIONS hs with
  | None => exts = []
  | Some (xv, xc) => xc <= 1 /\ exts = parse_extensions_header xv
  end.

Definition protocols_of (hs : hdrs) : list str :=
  match hget K_PROTOCOL hs with Some (pv, _) => map strip (split_on 44 pv) | None => [] end.


Definition valid_request (c : scfg) (e : env) (header : str) (rq : s_request) (key : str) : Prop :=
  exists sl hs m u v b query hostv hostc upv upc cov coc vv vc kv kc,
    parse_http_header header = Some (sl, hs) /\
    split_ws sl = [m; u; v] /\ strip m = GET_S /\ split_on 47 (strip v) = [HTTP_U; b] /\ In b http_versions /\
    urlparse_o e (strip u) = UriOk (rq_path rq) query [] /\ parse_qs_o e query = Some (rq_params rq) /\
    hget K_HOST hs = Some (hostv, hostc) /\ hostc <= 1 /\ host_check (s_external_port c) hostv = Some (rq_host rq) /\
    hget K_UPGRADE hs = Some (upv, upc) /\ has_token WEBSOCKET_S upv = true /\
    hget K_CONNECTION hs = Some (cov, coc) /\ has_token UPGRADE_S cov = true /\
    hget K_VERSION hs = Some (vv, vc) /\ vc <= 1 /\ py_int vv = Some (rq_version rq) /\ In (rq_version rq) (s_versions c) /\
    rq_protocols rq = protocols_of hs /\ has_dup (rq_protocols rq) = false /\
    origin_cond c e hs (rq_version rq) (rq_origin rq) /\
    hget K_KEY hs = Some (kv, kc) /\ kc <= 1 /\ key = strip kv /\ key_ok key = true /\
    exts_cond hs (rq_extensions rq) /\
    limit_ok c.

Lemma ltb_false_le a b : (a <? b) = false <-> b <= a.
Proof. rewrite N.ltb_ge. reflexivity. Qed.

Lemma limit_ok_iff c :
  (0 <? s_max_connections c) && (s_max_connections c <? s_count_connections c) = false <-> limit_ok c.
Proof.
  unfold limit_ok. rewrite andb_false_iff, !N.ltb_ge. split; intros [H|H]; [left; lia|now right|left; lia|now right].
Qed.

Lemma s_validate_ok_inv c e h rq key : s_validate c e h = VOk rq key -> valid_request c e h rq key.
Proof.
  unfold s_validate, fail400. cbv zeta. intros H.
  repeat (break_match_hyp H; try discriminate).
  all: injection H as <- <-.
  all: repeat match goal with
         | H : negb _ = false |- _ => apply negb_false_iff in H
         | H : (_ && _) = true |- _ => apply andb_true_iff in H as [? ?]
         | H : str_eqb _ _ = true |- _ => apply str_eqb_eq in H
         | H : mem_str _ _ = true |- _ => apply mem_str_In in H
         | H : memZ _ _ = true |- _ => apply memZ_In in H
         | H : (1 <? _) = false |- _ => apply ltb_false_le in H
         | H : is_nil ?f = true |- _ => destruct f; [clear H|discriminate H]
         | H : context [match split_on ?a ?b with _ => _ end] |- _ => destruct (split_on a b) as [|? [|? [|? ?]]] eqn:?; try discriminate H
         | H : match ?x with _ => _ end = Some _ |- _ => destruct x eqn:?; try discriminate H
         | H : (if ?x then _ else _) = Some _ |- _ => destruct x eqn:?; try discriminate H
         | H : Some _ = Some _ |- _ => injection H as H
         end.
  all: subst.
  all: unfold valid_request; do 17 eexists.
  all: repeat match goal with |- _ /\ _ => split end.
  all: cbn [rq_host rq_path rq_params rq_version rq_origin rq_protocols rq_extensions].
  all: try eassumption; try reflexivity.
  all: try (unfold protocols_of; match goal with H : hget K_PROTOCOL _ = _ |- _ => rewrite H end; try reflexivity; assumption).
  all: try (unfold origin_cond; match goal with H : hget (origin_key _) _ = _ |- _ => rewrite H end;
            first [reflexivity | (split; [assumption|]; split; [reflexivity|]; eexists; split; [eassumption|]; unfold origin_allowed; assumption)]).
  all: try (unfold exts_cond; match goal with H : hget K_EXTENSIONS _ = _ |- _ => rewrite H end; first [reflexivity | (split; [assumption|reflexivity])]).
  all: try (apply limit_ok_iff; assumption).
Qed.

Lemma s_validate_ok_intro c e h rq key : valid_request c e h rq key -> s_validate c e h = VOk rq key.
Proof.
  intros (sl & hs & m & u & v & b & query & hostv & hostc & upv & upc & cov & coc & vv & vc & kv & kc &
          Hp & Hsl & Hm & Hv & Hb & Hu & Hq & Hh & Hhc & Hhk & Hup & Hupt & Hco & Hcot & Hve & Hvc & Hvi & Hvin &
          Hpr & Hdup & Hor & Hk & Hkc & Hkey & Hkok & Hex & Hlim).
  destruct rq as [rhost rpath rparams rversion rorigin rprotocols rexts].
  cbn [rq_host rq_path rq_params rq_version rq_origin rq_protocols rq_extensions] in *.
  unfold s_validate. cbv zeta.
  rewrite Hp, Hsl, Hm, str_eqb_refl. cbn [negb].
  rewrite Hv, str_eqb_refl, (proj2 (mem_str_In _ _) Hb). cbn [andb negb].
  rewrite Hu. cbn [is_nil negb]. rewrite Hq, Hh, (proj2 (ltb_false_le _ _) Hhc), Hhk, Hup, Hupt. cbn [negb].
  rewrite Hco, Hcot. cbn [negb]. rewrite Hve, (proj2 (ltb_false_le _ _) Hvc), Hvi, (proj2 (memZ_In _ _) Hvin). cbn [negb].
  fold (protocols_of hs). rewrite <- Hpr, Hdup.
  assert (T : match hget K_KEY hs with
              | Some (kv0, kc0) =>
                  if 1 <? kc0 then VOut fail400
                  else if negb (key_ok (strip kv0)) then VOut fail400
                  else match match hget K_EXTENSIONS hs with
                             | Some (xv, xc) => if 1 <? xc then None else Some (parse_extensions_header xv)
                             | None => Some []
                             end with
                       | Some exts =>
                           if (0 <? s_max_connections c) && (s_max_connections c <? s_count_connections c)
                           then VOut (SHttpError 503 [])
                           else VOk {| rq_host := rhost; rq_path := rpath; rq_params := rparams; rq_version := rversion;
                                       rq_origin := rorigin; rq_protocols := rprotocols; rq_extensions := exts |} (strip kv0)
                       | None => VOut fail400
                       end
              | None => VOut fail400
              end = VOk {| rq_host := rhost; rq_path := rpath; rq_params := rparams; rq_version := rversion;
                           rq_origin := rorigin; rq_protocols := rprotocols; rq_extensions := rexts |} key).
  { rewrite Hk, (proj2 (ltb_false_le _ _) Hkc), <- Hkey, Hkok. cbn [negb].
    unfold exts_cond in Hex. rewrite (proj2 (limit_ok_iff c) Hlim).
    destruct (hget K_EXTENSIONS hs) as [[xv xc]|].
    - destruct Hex as [Hxc ->]. now rewrite (proj2 (ltb_false_le _ _) Hxc).
    - now subst rexts. }
  unfold origin_cond in Hor. destruct (hget (origin_key rversion) hs) as [[ov oc]|].
  - destruct Hor as (Hoc & -> & o & Ho & Hal). rewrite (proj2 (ltb_false_le _ _) Hoc), Ho.
    unfold origin_allowed in Hal. rewrite Hal. cbn [negb]. exact T.
  - subst rorigin. exact T.
Qed.

Theorem s_validate_ok_iff c e h rq key : s_validate c e h = VOk rq key <-> valid_request c e h rq key.
Proof. split; [apply s_validate_ok_inv|apply s_validate_ok_intro]. Qed.

(* ========================================================================================== *)
(* from the header dictionary (joined values + counts) back to the list of header fields       *)


Definition add_kv (acc : hdrs) (kv : str * str) : hdrs := hdr_add (fst kv) (snd kv) acc.

Lemma fold_add_line ls : forall acc, fold_left add_line ls acc = fold_left add_kv (flat_map field_of_line ls) acc.
Proof.
  induction ls as [|l ls IH]; intros acc; [reflexivity|].
  cbn [fold_left flat_map]. rewrite fold_left_app, IH. f_equal.
  unfold add_line, field_of_line. destruct (header_line l) as [[k v]|]; reflexivity.
Qed.

Definition bump (o : option (str * N)) (v : str) : option (str * N) :=
  match o with None => Some (v, 1) | Some (v0, n) => Some (v0 ++ COMMA_SP ++ v, n + 1) end.

Lemma str_eqb_sym a b : str_eqb a b = str_eqb b a.
Proof.
  destruct (str_eqb a b) eqn:E.
  - apply str_eqb_eq in E. subst. symmetry. apply str_eqb_refl.
  - symmetry. apply str_eqb_neq. apply str_eqb_neq in E. congruence.
Qed.

Lemma hget_hdr_add k k' v h :
  hget k (hdr_add k' v h) = if str_eqb k k' then bump (hget k h) v else hget k h.
Proof.
  unfold hget. induction h as [|[k0 [v0 n0]] h IH]; cbn [hdr_add assoc_str].
  - destruct (str_eqb k k'); reflexivity.
  - destruct (str_eqb k' k0) eqn:E1.
    + apply str_eqb_eq in E1. subst k0. cbn [assoc_str]. destruct (str_eqb k k'); reflexivity.
    + cbn [assoc_str]. destruct (str_eqb k k0) eqn:E2.
      * apply str_eqb_eq in E2. subst k0. rewrite str_eqb_sym, E1. reflexivity.
      * exact IH.
Qed.

Lemma hget_fold k fs : forall acc, hget k (fold_left add_kv fs acc) = fold_left bump (vals k fs) (hget k acc).
Proof.
  induction fs as [|[k' v] fs IH]; intros acc; [reflexivity|].
  cbn [fold_left]. rewrite IH. unfold add_kv. cbn [fst snd]. rewrite hget_hdr_add.
  unfold vals. cbn [filter fst]. destruct (str_eqb k k'); reflexivity.
Qed.

Definition tail_join (vs : list str) : str := flat_map (fun v => COMMA_SP ++ v) vs.

Lemma join_cons2 sep v w vs : join sep (v :: w :: vs) = v ++ sep ++ join sep (w :: vs).
Proof. reflexivity. Qed.

Lemma join_cons v vs : join COMMA_SP (v :: vs) = v ++ tail_join vs.
Proof.
  revert v; induction vs as [|w vs IH]; intros v.
  - cbn. now rewrite app_nil_r.
  - rewrite join_cons2, IH. unfold tail_join. cbn [flat_map]. now rewrite <- app_assoc.
Qed.

Lemma fold_bump_some vs : forall v0 n, fold_left bump vs (Some (v0, n)) = Some (v0 ++ tail_join vs, n + N.of_nat (length vs)).
Proof.
  induction vs as [|v vs IH]; intros v0 n; cbn [fold_left bump tail_join flat_map length].
  - now rewrite app_nil_r, N.add_0_r.
  - rewrite IH. f_equal. f_equal.
    + unfold tail_join. now rewrite <- !app_assoc.
    + lia.
Qed.

Definition summary (vs : list str) : option (str * N) :=
  match vs with [] => None | _ => Some (join COMMA_SP vs, N.of_nat (length vs)) end.

Lemma fold_bump_none vs : fold_left bump vs None = summary vs.
Proof.
  destruct vs as [|v vs]; [reflexivity|]. cbn [fold_left bump]. rewrite fold_bump_some. unfold summary. rewrite join_cons.
  f_equal. f_equal. cbn [length]. lia.
Qed.

(* http_headers[k] is the ", "-join of the values of all fields named k, http_headers_cnt[k] their number *)
Theorem hget_fields header sl hs k : parse_http_header header = Some (sl, hs) ->
  sl = status_line_of header /\ hget k hs = summary (vals k (fields_of header)).
Proof.
  unfold parse_http_header, status_line_of, fields_of. destruct (splitlines header) as [|l0 ls]; [discriminate|].
  intros H. injection H as <- <-. split; [reflexivity|]. cbn [tl].
  rewrite fold_add_line, hget_fold. apply fold_bump_none.
Qed.

Lemma summary_none vs : summary vs = None <-> vs = [].
Proof. destruct vs; cbn; split; congruence. Qed.

Lemma summary_count vs v n : summary vs = Some (v, n) -> v = join COMMA_SP vs /\ n = N.of_nat (length vs) /\ vs <> [].
Proof. destruct vs; cbn; [discriminate|]. intros H. injection H as <- <-. repeat split. discriminate. Qed.

Lemma summary_single vs v n : summary vs = Some (v, n) -> n <= 1 -> vs = [v].
Proof.
  intros H L. apply summary_count in H as (-> & -> & NE).
  destruct vs as [|a [|b vs]]; [contradiction|reflexivity|cbn [length] in L; lia].
Qed.

(* ---- comma separated lists survive the ", "-joining of repeated header fields ---- *)
Lemma split_on_nonempty c s : split_on c s <> [].
Proof. destruct s as [|x s]; cbn; [discriminate|]. destruct (x =? c); [discriminate|]. destruct (split_on c s); discriminate. Qed.

Lemma split_on_app_sep c a b : split_on c (a ++ c :: b) = split_on c a ++ split_on c b.
Proof.
  induction a as [|x a IH]; cbn [app split_on].
  - now rewrite N.eqb_refl.
  - rewrite IH. destruct (x =? c); [reflexivity|].
    pose proof (split_on_nonempty c a). destruct (split_on c a) as [|h t]; [contradiction|reflexivity].
Qed.

Lemma strip_space_cons s : strip (32 :: s) = strip s.
Proof. reflexivity. Qed.

Lemma split_on_space_cons s : exists h t, split_on 44 s = h :: t /\ split_on 44 (32 :: s) = (32 :: h) :: t.
Proof.
  pose proof (split_on_nonempty 44 s). destruct (split_on 44 s) as [|h t] eqn:E; [contradiction|].
  exists h, t. split; [reflexivity|]. cbn [split_on]. change (32 =? 44) with false. cbv iota. now rewrite E.
Qed.

Lemma tokens_space_cons s : map strip (split_on 44 (32 :: s)) = map strip (split_on 44 s).
Proof. destruct (split_on_space_cons s) as (h & t & E1 & E2). rewrite E1, E2. reflexivity. Qed.


Lemma tokens_join v vs : tokens (join COMMA_SP (v :: vs)) = flat_map tokens (v :: vs).
Proof.
  revert v; induction vs as [|w vs IH]; intros v.
  - cbn. now rewrite app_nil_r.
  - rewrite join_cons2. unfold tokens at 1. unfold COMMA_SP at 1. cbn [app].
    rewrite split_on_app_sep, map_app. change (32 :: join COMMA_SP (w :: vs)) with (32 :: join COMMA_SP (w :: vs)).
    rewrite tokens_space_cons. fold (tokens (join COMMA_SP (w :: vs))). rewrite IH. reflexivity.
Qed.

Lemma has_token_tokens t v : has_token t v = existsb (fun u => str_eqb (lower u) t) (tokens v).
Proof. unfold has_token, tokens. induction (split_on 44 v) as [|x l IH]; cbn; [reflexivity|]. now rewrite IH. Qed.

Lemma has_token_join t v vs : has_token t (join COMMA_SP (v :: vs)) = existsb (has_token t) (v :: vs).
Proof.
  rewrite has_token_tokens, tokens_join. induction (v :: vs) as [|x l IH]; [reflexivity|].
  cbn [flat_map existsb]. rewrite existsb_app, IH, has_token_tokens. reflexivity.
Qed.

Lemma has_token_spec t v : has_token t v = true <-> exists u, In u (split_on 44 v) /\ lower (strip u) = t.
Proof.
  unfold has_token. rewrite existsb_exists. split; intros (u & I & E); exists u; (split; [assumption|]); now apply str_eqb_eq.
Qed.

Lemma has_dup_NoDup l : has_dup l = false <-> NoDup l.
Proof.
  induction l as [|x l IH]; cbn; [split; [constructor|reflexivity]|].
  rewrite orb_false_iff, IH. split.
  - intros [M D]. constructor; [|assumption]. intros I. apply mem_str_In in I. congruence.
  - intros N. inversion N as [|? ? NI D]; subst. split; [|assumption].
    destruct (mem_str x l) eqn:E; [|reflexivity]. apply mem_str_In in E. contradiction.
Qed.

(* ---- Sec-WebSocket-Key ---- *)
Lemma key_ok_spec key : key_ok key = true <->
  lenN key = key_length /\ exists body, key = body ++ key_suffix /\ Forall (fun c => In c key_alphabet) body.
Proof.
  unfold key_ok. rewrite !andb_true_iff, N.eqb_eq, str_eqb_eq, forallb_forall. split.
  - intros [[L S] F]. split; [assumption|]. exists (firstn (length key - length key_suffix) key). split.
    + rewrite <- S at 2. symmetry. apply firstn_skipn.
    + apply Forall_forall. intros c I. apply memN_In. now apply F.
  - intros (L & body & -> & F). assert (E : (length (body ++ key_suffix) - length key_suffix)%nat = length body) by (rewrite app_length; lia).
    rewrite E. repeat split; [assumption| |].
    + rewrite skipn_app, Nat.sub_diag, skipn_all. reflexivity.
    + rewrite firstn_app, Nat.sub_diag, firstn_all. cbn [firstn]. rewrite app_nil_r.
      intros c I. apply memN_In. rewrite Forall_forall in F. now apply F.
Qed.

(* ---- split / join, whitespace tokens ---- *)
Lemma split_on_noc c x : ~ In c x -> split_on c x = [x].
Proof.
  induction x as [|y x IH]; intros H; [reflexivity|]. cbn [split_on].
  destruct (y =? c) eqn:E; [apply N.eqb_eq in E; subst; exfalso; apply H; now left|].
  rewrite IH; [reflexivity|]. intros I. apply H. now right.
Qed.

Lemma split_on_parts_noc c s : Forall (fun x => ~ In c x) (split_on c s).
Proof.
  induction s as [|y s IH]; cbn [split_on]; [repeat constructor; intros []|].
  destruct (y =? c) eqn:E.
  - constructor; [intros []|assumption].
  - destruct (split_on c s) as [|h t]; [repeat constructor; intros [->|[]]; now rewrite N.eqb_refl in E|].
    inversion IH; subst. constructor; [|assumption]. intros [->|I]; [now rewrite N.eqb_refl in E|contradiction].
Qed.

Lemma join_split_on c s : join [c] (split_on c s) = s.
Proof.
  induction s as [|y s IH]; [reflexivity|]. cbn [split_on]. destruct (y =? c) eqn:E.
  - apply N.eqb_eq in E. subst y. pose proof (split_on_nonempty c s).
    destruct (split_on c s) as [|h t] eqn:S; [contradiction|]. rewrite join_cons2, IH. reflexivity.
  - pose proof (split_on_nonempty c s). destruct (split_on c s) as [|h t] eqn:S; [contradiction|].
    destruct t as [|h2 t].
    + cbn in *. now subst.
    + rewrite join_cons2. rewrite join_cons2 in IH. rewrite <- IH. reflexivity.
Qed.

Lemma split_on_two c s a b : split_on c s = [a; b] <-> s = a ++ c :: b /\ ~ In c a /\ ~ In c b.
Proof.
  split.
  - intros H. pose proof (join_split_on c s) as J. pose proof (split_on_parts_noc c s) as F. rewrite H in J, F.
    inversion F as [|? ? Fa F']; subst. inversion F' as [|? ? Fb _]; subst. repeat split; try assumption; try reflexivity.
  - intros (-> & Na & Nb). rewrite split_on_app_sep, (split_on_noc c a Na), (split_on_noc c b Nb). reflexivity.
Qed.

Definition nospace (t : str) : Prop := Forall (fun c => is_space c = false) t.

Lemma rstrip_nospace t : nospace t -> rstrip_with is_space t = t.
Proof.
  induction t as [|c t IH]; intros H; [reflexivity|]. inversion H as [|? ? Hc Ht]; subst.
  cbn [rstrip_with]. rewrite (IH Ht). destruct t; [now rewrite Hc|reflexivity].
Qed.

Lemma strip_nospace t : nospace t -> strip t = t.
Proof.
  intros H. unfold strip, strip_with. destruct t as [|c t]; [reflexivity|].
  inversion H as [|? ? Hc Ht]; subst. cbn [lstrip_with]. rewrite Hc. now apply rstrip_nospace.
Qed.

Lemma split_ws_aux_tokens s : forall cur t, nospace cur -> In t (split_ws_aux cur s) -> t <> [] /\ nospace t.
Proof.
  induction s as [|c s IH]; intros cur t Hc I.
  - cbn in I. destruct cur as [|x cur]; [contradiction|]. destruct I as [<-|[]].
    split; [intros E; apply (f_equal (@length N)) in E; rewrite rev_length in E; discriminate|].
    unfold nospace. apply Forall_rev. exact Hc.
  - cbn [split_ws_aux] in I. destruct (is_space c) eqn:S.
    + destruct cur as [|x cur].
      * apply (IH [] t); [constructor|assumption].
      * destruct I as [<-|I].
        -- split; [intros E; apply (f_equal (@length N)) in E; rewrite rev_length in E; discriminate|].
           unfold nospace. apply Forall_rev. exact Hc.
        -- apply (IH [] t); [constructor|assumption].
    + apply (IH (c :: cur) t); [constructor; assumption|assumption].
Qed.

Lemma split_ws_token_strip s t : In t (split_ws s) -> strip t = t /\ t <> [].
Proof.
  intros I. apply split_ws_aux_tokens in I as [N F]; [|constructor]. split; [now apply strip_nospace|assumption].
Qed.

Lemma http_versions_no_slash : forallb (fun b => negb (memN 47 b)) http_versions = true.
Proof. vm_compute. reflexivity. Qed.

Lemma HTTP_U_no_slash : ~ In 47 HTTP_U.
Proof. intros I. apply memN_In in I. vm_compute in I. discriminate. Qed.

(* ========================================================================================== *)
(* the declarative admission predicate (RFC 6455 section 4.2.1 + configuration)                *)


Lemma summary_one v : summary [v] = Some (v, 1).
Proof. reflexivity. Qed.

Lemma single_iff vs (P : str -> Prop) :
  (exists v n, summary vs = Some (v, n) /\ n <= 1 /\ P v) <-> exists v, vs = [v] /\ P v.
Proof.
  split.
  - intros (v & n & S & L & H). exists v. split; [now apply (summary_single vs v n)|assumption].
  - intros (v & -> & H). exists v, 1. repeat split; [lia|assumption].
Qed.

Lemma token_iff vs t :
  (exists v n, summary vs = Some (v, n) /\ has_token t v = true) <->
  exists x u, In x vs /\ In u (split_on 44 x) /\ lower (strip u) = t.
Proof.
  split.
  - intros (v & n & S & H). apply summary_count in S as (-> & _ & NE). destruct vs as [|w vs]; [contradiction|].
    rewrite has_token_join in H. apply existsb_exists in H as (x & I & H). apply has_token_spec in H as (u & Iu & E). now exists x, u.
  - intros (x & u & I & Iu & E). destruct vs as [|w vs]; [contradiction|].
    exists (join COMMA_SP (w :: vs)), (N.of_nat (length (w :: vs))). split; [reflexivity|].
    rewrite has_token_join. apply existsb_exists. exists x. split; [assumption|]. apply has_token_spec. now exists u.
Qed.

Lemma protocols_fields vs o : o = summary vs ->
  match o with Some (pv, _) => map strip (split_on 44 pv) | None => [] end = flat_map tokens vs.
Proof.
  intros ->. destruct vs as [|v vs]; [reflexivity|]. cbn [summary]. apply tokens_join.
Qed.

Lemma cut_last_some c s : In c s -> exists h p, cut_last c s = Some (h, p).
Proof.
  induction s as [|x s IH]; intros I; [contradiction|]. cbn [cut_last].
  destruct (cut_last c s) as [[a b]|] eqn:E; [now exists (x :: a), b|].
  destruct I as [->|I]; [rewrite N.eqb_refl; now exists [], s|].
  apply IH in I as (h & p & ?). discriminate.
Qed.

Lemma host_check_spec ext hv : (exists rh, host_check ext hv = Some rh) <-> host_ok ext hv.
Proof.
  unfold host_check, host_ok, ext_port_matches. destruct (memN 58 (strip hv)) eqn:M.
  - apply memN_In in M. destruct (ends_with_char 93 (strip hv)) eqn:E; cbn [negb andb].
    + split; [intros _ _ ?; discriminate|intros _; eauto].
    + destruct (cut_last_some _ _ M) as (h & p & C). rewrite C. split.
      * intros [rh H] _ _. destruct (py_int (strip p)) as [port|] eqn:PI; [|discriminate]. exists h, p, port. split; [reflexivity|]. split; [exact PI|].
        destruct ext as [x|]; [|exact I]. destruct (x =? 0)%Z eqn:Z0; [left; now apply Z.eqb_eq|].
        destruct (port =? x)%Z eqn:PX; [right; now apply Z.eqb_eq|discriminate].
      * intros H. destruct (H M eq_refl) as (h' & p' & port & C' & P & X). injection C' as E1 E2. subst h' p'.
        rewrite P. destruct ext as [x|]; [|eauto]. destruct X as [->| ->]; [cbn; eauto|].
        destruct (x =? 0)%Z; [eauto|]. rewrite Z.eqb_refl. eauto.
  - cbn [andb]. split; [|eauto]. intros _ I. apply memN_In in I. congruence.
Qed.

Lemma origin_allowed_spec c o : origin_allowed c o = true <-> origin_permitted c o.
Proof.
  destruct o as [|sc h p]; cbn [origin_allowed origin_permitted].
  - destruct (s_allow_null_origin c); cbn; split; congruence.
  - apply is_same_origin_spec.
Qed.

(* ========================================================================================== *)
(* exactness: the chain admits a header block iff it satisfies the declarative predicate        *)

Lemma at_most_one (vs : list str) : (length vs <= 1)%nat -> vs = [] \/ exists v, vs = [v].
Proof. destruct vs as [|a [|b vs]]; cbn; intros H; [now left|right; now exists a|lia]. Qed.

Lemma version_token v : (exists b, split_on 47 (strip v) = [HTTP_U; b] /\ In b http_versions) ->
  strip v = v -> exists b, In b http_versions /\ v = HTTP_U ++ 47 :: b.
Proof.
  intros (b & S & I) E. rewrite E in S. apply split_on_two in S as (-> & _ & _). now exists b.
Qed.

Lemma version_token_rev b : In b http_versions -> split_on 47 (HTTP_U ++ 47 :: b) = [HTTP_U; b].
Proof.
  intros I. apply split_on_two. repeat split; [apply HTTP_U_no_slash|].
  pose proof http_versions_no_slash as F. rewrite forallb_forall in F. specialize (F b I).
  apply negb_true_iff in F. intros J. apply memN_In in J. congruence.
Qed.

Theorem valid_request_rfc4 c e header : (exists rq key, valid_request c e header rq key) -> rfc4_ok c e header.
Proof.
  intros (rq & key & sl & hs & m & u & v & b & query & hostv & hostc & upv & upc & cov & coc & vv & vc & kv & kc &
          Hp & Hsl & Hm & Hv & Hb & Hu & Hq & Hh & Hhc & Hhk & Hup & Hupt & Hco & Hcot & Hve & Hvc & Hvi & Hvin &
          Hpr & Hdup & Hor & Hk & Hkc & Hkey & Hkok & Hex & Hlim).
  assert (F : forall k, hget k hs = summary (vals k (fields_of header))) by (intros k; apply (hget_fields header sl hs k Hp)).
  destruct (hget_fields header sl hs K_HOST Hp) as [Esl _]. subst sl.
  assert (Tm : strip m = m /\ m <> []) by (apply (split_ws_token_strip (status_line_of header)); rewrite Hsl; now left).
  assert (Tu : strip u = u /\ u <> []) by (apply (split_ws_token_strip (status_line_of header)); rewrite Hsl; right; now left).
  assert (Tv : strip v = v /\ v <> []) by (apply (split_ws_token_strip (status_line_of header)); rewrite Hsl; right; right; now left).
  destruct Tm as [Tm _], Tu as [Tu _], Tv as [Tv _].
  unfold rfc4_ok. cbv zeta. exists m, u, v, (rq_version rq).
  split; [exact Hsl|]. split; [congruence|]. split; [apply version_token; [now exists b|assumption]|].
  split; [exists (rq_path rq), query; rewrite <- Tu; split; [assumption|congruence]|].
  split.
  { apply (single_iff _ (fun hv => host_ok (s_external_port c) hv)). exists hostv, hostc. rewrite <- F. repeat split; try assumption.
    apply host_check_spec. eauto. }
  split; [apply token_iff; exists upv, upc; rewrite <- F; now split|].
  split; [apply token_iff; exists cov, coc; rewrite <- F; now split|].
  split.
  { apply (single_iff _ (fun vv => py_int vv = Some (rq_version rq) /\ In (rq_version rq) (s_versions c))).
    exists vv, vc. rewrite <- F. repeat split; assumption. }
  split.
  { apply has_dup_NoDup. rewrite <- (protocols_fields _ (hget K_PROTOCOL hs) (F K_PROTOCOL)). fold (protocols_of hs). now rewrite <- Hpr. }
  split.
  { unfold origin_cond in Hor. rewrite F in Hor. destruct (summary (vals (origin_key (rq_version rq)) (fields_of header))) as [[ov oc]|] eqn:S.
    - right. destruct Hor as (Hoc & _ & o & Ho & Hal). exists ov, o. split; [now apply (summary_single _ ov oc)|]. split; [assumption|now apply origin_allowed_spec].
    - left. now apply summary_none. }
  split.
  { apply key_ok_spec in Hkok as (L & body & Eb & Fb). subst key.
    exists kv. split; [apply (summary_single _ kv kc); [now rewrite <- F|assumption]|]. split; [assumption|now exists body]. }
  split; [|assumption].
  unfold exts_cond in Hex. rewrite F in Hex. destruct (summary (vals K_EXTENSIONS (fields_of header))) as [[xv xc]|] eqn:S.
  - destruct Hex as [Hxc _]. apply summary_count in S as (_ & -> & _). lia.
  - apply summary_none in S. rewrite S. cbn. lia.
Qed.

Lemma parse_http_header_total header : splitlines header <> [] ->
  exists hs, parse_http_header header = Some (status_line_of header, hs).
Proof.
  unfold parse_http_header, status_line_of. destruct (splitlines header) as [|l0 ls]; [contradiction|]. intros _. eauto.
Qed.

Theorem rfc4_valid_request c e header : rfc4_ok c e header -> exists rq key, valid_request c e header rq key.
Proof.
  unfold rfc4_ok. cbv zeta.
  intros (m & u & v & ver & Hsl & Hm & (b & Hb & Hv) & (path & query & Hu & Hq) & (hv & Hh & Hhok) & (uv & ut & Hui & Hut & Hue) &
          (cv & ct & Hci & Hct & Hce) & (vv & Hvv & Hvi & Hvin) & Hnd & Hor & (kv & Hk & Hkl & body & Hkb & Hkf) & Hex & Hlim).
  assert (NE : splitlines header <> []).
  { intros E. unfold status_line_of in Hsl. rewrite E in Hsl. cbn in Hsl. discriminate. }
  destruct (parse_http_header_total header NE) as [hs Hp].
  assert (F : forall k, hget k hs = summary (vals k (fields_of header))) by (intros k; apply (hget_fields header _ hs k Hp)).
  assert (Tm : strip m = m /\ m <> []) by (apply (split_ws_token_strip (status_line_of header)); rewrite Hsl; now left).
  assert (Tu : strip u = u /\ u <> []) by (apply (split_ws_token_strip (status_line_of header)); rewrite Hsl; right; now left).
  assert (Tv : strip v = v /\ v <> []) by (apply (split_ws_token_strip (status_line_of header)); rewrite Hsl; right; right; now left).
  destruct Tm as [Tm _], Tu as [Tu _], Tv as [Tv _].
  destruct (parse_qs_o e query) as [params|] eqn:Hqs; [|contradiction].
  apply host_check_spec in Hhok as [rh Hrh].
  assert (Hup : exists upv upc, summary (vals K_UPGRADE (fields_of header)) = Some (upv, upc) /\ has_token WEBSOCKET_S upv = true)
    by (apply token_iff; now exists uv, ut).
  assert (Hco : exists cov coc, summary (vals K_CONNECTION (fields_of header)) = Some (cov, coc) /\ has_token UPGRADE_S cov = true)
    by (apply token_iff; now exists cv, ct).
  destruct Hup as (upv & upc & Hup & Hupt), Hco as (cov & coc & Hco & Hcot).
  set (origin_s := match vals (origin_key ver) (fields_of header) with [ov] => strip ov | _ => [] end).
  set (exts := match vals K_EXTENSIONS (fields_of header) with [xv] => parse_extensions_header xv | _ => [] end).
  exists {| rq_host := rh; rq_path := path; rq_params := params; rq_version := ver; rq_origin := origin_s;
            rq_protocols := protocols_of hs; rq_extensions := exts |}, (strip kv).
  unfold valid_request. exists (status_line_of header), hs, m, u, v, b, query, hv, 1, upv, upc, cov, coc, vv, 1, kv, 1.
  cbn [rq_host rq_path rq_params rq_version rq_origin rq_protocols rq_extensions].
  rewrite !F, Hh, Hvv, Hk, Hup, Hco, Tm, Tu, Tv. subst v. rewrite (version_token_rev b Hb).
  repeat match goal with |- _ /\ _ => split end; try assumption; try reflexivity; try lia.
  - unfold protocols_of. rewrite (protocols_fields _ (hget K_PROTOCOL hs) (F K_PROTOCOL)). now apply has_dup_NoDup.
  - unfold origin_cond. rewrite F. subst origin_s. destruct Hor as [Ho|(ov & o & Ho & Hu2 & Hperm)]; rewrite Ho.
    + reflexivity.
    + rewrite summary_one. split; [lia|]. split; [reflexivity|]. exists o. split; [assumption|now apply origin_allowed_spec].
  - apply key_ok_spec. split; [assumption|now exists body].
  - unfold exts_cond. rewrite F. subst exts. destruct (at_most_one _ Hex) as [E|[xv E]]; rewrite E; [reflexivity|].
    rewrite summary_one. split; [lia|reflexivity].
Qed.

Theorem s_validate_exact c e header : (exists rq key, s_validate c e header = VOk rq key) <-> rfc4_ok c e header.
Proof.
  split.
  - intros (rq & key & H). apply valid_request_rfc4. exists rq, key. now apply s_validate_ok_inv.
  - intros H. apply rfc4_valid_request in H as (rq & key & H). exists rq, key. now apply s_validate_ok_intro.
Qed.

(* ========================================================================================== *)
(* the 101 reply                                                                              *)

Lemma crlf_lines_app a b : crlf_lines (a ++ b) = crlf_lines a ++ crlf_lines b.
Proof. unfold crlf_lines. apply flat_map_app. Qed.

Lemma render_headers_lines hs : render_headers hs = crlf_lines (header_lines hs).
Proof.
  unfold render_headers, header_lines, crlf_lines. induction hs as [|[k vs] hs IH]; [reflexivity|].
  cbn [flat_map fst snd]. rewrite flat_map_app, <- IH. f_equal.
  induction vs as [|v vs IHv]; [reflexivity|]. cbn [flat_map map]. rewrite IHv. now rewrite <- !app_assoc.
Qed.

Lemma render_response_lines c e key proto uh xr :
  render_response c e key proto uh xr = crlf_lines (response_lines c e key proto uh xr) ++ CRLF.
Proof.
  unfold render_response, response_lines. rewrite !crlf_lines_app, !render_headers_lines.
  destruct (is_nil (s_server c)), proto, (is_nil xr); cbn [crlf_lines flat_map app]; rewrite <- ?app_assoc; reflexivity.
Qed.

Lemma pmce_offers_incl e exts offers : pmce_offers e exts = Some offers ->
  incl offers exts /\ Forall (fun x => In (fst x) pmce_names /\ pmce_offer_ok e (fst x) (snd x) = true) offers.
Proof.
  revert offers; induction exts as [|[n p] exts IH]; intros offers H; cbn [pmce_offers] in H.
  - injection H as <-. split; [intros ? []|constructor].
  - destruct (mem_str n pmce_names) eqn:M.
    + destruct (pmce_offer_ok e n p) eqn:O; [|discriminate]. destruct (pmce_offers e exts) as [l|]; [|discriminate].
      injection H as <-. destruct (IH l eq_refl) as [I F]. split.
      * intros x [<-|Hx]; [now left|right; now apply I].
      * constructor; [split; [now apply mem_str_In|assumption]|assumption].
    + destruct (IH offers H) as [I F]. split; [|assumption]. intros x Hx. right. now apply I.
Qed.

Theorem s_open_reply c e data resp proto rest : s_process c e data = SOpen resp proto rest ->
  exists h rq key uh xr,
    split_eoh data = Some (h, rest) /\ s_validate c e h = VOk rq key /\
    resp = utf8_encode (crlf_lines (response_lines c e key proto uh xr) ++ CRLF) /\
    (forall q, proto = Some q -> In q (rq_protocols rq)) /\
    (xr = [] \/ exists offers s, xr = [s] /\ offers <> [] /\ pmce_offers e (rq_extensions rq) = Some offers /\ pmce_accept e offers = Some s) /\
    ((on_connect e rq = CrPlain proto /\ uh = []) \/ on_connect e rq = CrTuple proto uh).
Proof.
  unfold s_process. destruct (split_eoh data) as [[h r]|]; [|destruct (_ && _); discriminate].
  destruct (s_validate c e h) as [rq key|o] eqn:V.
  2:{ intros ->. apply s_validate_out_shape in V. contradiction. }
  assert (G : forall p uh, s_succeed c e rq key r p uh = SOpen resp proto rest ->
           exists xr, rest = r /\ proto = p /\ resp = utf8_encode (crlf_lines (response_lines c e key proto uh xr) ++ CRLF) /\
             (forall q, proto = Some q -> In q (rq_protocols rq)) /\
             (xr = [] \/ exists offers s, xr = [s] /\ offers <> [] /\ pmce_offers e (rq_extensions rq) = Some offers /\ pmce_accept e offers = Some s)).
  { intros p uh H. unfold s_succeed in H.
    destruct (match p with Some p0 => negb (mem_str p0 (rq_protocols rq)) | None => false end) eqn:B; [destruct (s_flavour c); discriminate|].
    destruct (pmce_offers e (rq_extensions rq)) as [offers|] eqn:O; [|discriminate].
    match type of H with SOpen ?a ?b ?c0 = _ => assert (E3 : resp = a /\ proto = b /\ rest = c0) by (repeat split; congruence) end.
    destruct E3 as (-> & -> & ->). clear H.
    eexists. split; [reflexivity|]. split; [reflexivity|]. split; [rewrite render_response_lines; reflexivity|]. split.
    - intros q ->. apply negb_false_iff in B. now apply mem_str_In.
    - destruct offers as [|o1 offers]; [now left|]. destruct (pmce_accept e (o1 :: offers)) as [s|] eqn:A; [|now left].
      right. exists (o1 :: offers), s. repeat split; [discriminate|assumption]. }
  destruct (on_connect e rq) as [p|p uh|code|] eqn:OC; try discriminate; intros H; apply G in H as (xr & -> & -> & H1 & H2 & H3).
  - exists h, rq, key, [], xr. repeat split; try assumption. now left.
  - exists h, rq, key, uh, xr. repeat split; try assumption. now right.
Qed.

Lemma response_lines_facts c e key proto uh xr :
  hd [] (response_lines c e key proto uh xr) = L_101 /\
  In (L_ACCEPT ++ accept_of (sha1 e) key) (response_lines c e key proto uh xr) /\
  (forall p, proto = Some p -> In (L_PROTOCOL ++ p) (response_lines c e key proto uh xr)) /\
  (forall s, xr = [s] -> In (L_EXTENSIONS ++ s) (response_lines c e key proto uh xr)).
Proof.
  unfold response_lines. split; [reflexivity|]. repeat split.
  - do 6 (apply in_or_app; right). apply in_or_app. left. now left.
  - intros p ->. do 5 (apply in_or_app; right). apply in_or_app. left. now left.
  - intros s ->. do 7 (apply in_or_app; right). now left.
Qed.

Theorem s_process_open_iff c e data :
  (exists resp p rest, s_process c e data = SOpen resp p rest) <->
  exists h r rq key, split_eoh data = Some (h, r) /\ s_validate c e h = VOk rq key /\ policy_admits e rq.
Proof.
  split.
  - intros (resp & p & rest & H). pose proof H as H0. apply s_open_reply in H as (h & rq & key & uh & xr & S & V & _ & Hp & _ & _).
    exists h, rest, rq, key. split; [assumption|]. split; [assumption|].
    unfold s_process in H0. rewrite S, V in H0. unfold policy_admits.
    destruct (on_connect e rq) as [p0|p0 uh0|code|] eqn:OC; try discriminate; unfold s_succeed in H0;
      destruct (match p0 with Some p1 => negb (mem_str p1 (rq_protocols rq)) | None => false end) eqn:B;
      try (destruct (s_flavour c); discriminate);
      destruct (pmce_offers e (rq_extensions rq)) eqn:O; try discriminate;
      match type of H0 with SOpen _ ?b _ = _ => assert (Ep : b = p) by congruence end; subst p0.
    + split; [|discriminate]. exists p, []. split; [now left|assumption].
    + split; [|discriminate]. exists p, uh0. split; [now right|assumption].
  - intros (h & r & rq & key & S & V & (p & uh & OC & Hp) & O). unfold s_process. rewrite S, V.
    assert (B : match p with Some p0 => negb (mem_str p0 (rq_protocols rq)) | None => false end = false).
    { destruct p as [q|]; [|reflexivity]. apply negb_false_iff, mem_str_In. now apply Hp. }
    destruct (pmce_offers e (rq_extensions rq)) as [offers|] eqn:O2; [|contradiction].
    destruct OC as [OC|OC]; rewrite OC; unfold s_succeed; rewrite B, O2; eauto.
Qed.

(* ========================================================================================== *)
(* client: exactness                                                                          *)

Lemma c_extensions_spec e l names :
  c_extensions e false l = Some names <->
  (l = [] /\ names = []) \/ exists n p, l = [(n, p)] /\ In n pmce_names /\ pmce_response e n p = ExtAccepted /\ names = [n].
Proof.
  split.
  - destruct l as [|[n p] l]; cbn [c_extensions]; [intros H; injection H as <-; now left|].
    destruct (mem_str n pmce_names) eqn:M; [|discriminate]. destruct (pmce_response e n p) eqn:R; try discriminate.
    destruct l as [|[n2 p2] l]; cbn [c_extensions].
    + intros H. injection H as <-. right. exists n, p. repeat split; [now apply mem_str_In|assumption].
    + destruct (mem_str n2 pmce_names); discriminate.
  - intros [[-> ->]|(n & p & -> & I & R & ->)]; [reflexivity|]. cbn [c_extensions].
    apply mem_str_In in I. now rewrite I, R.
Qed.

Lemma in_lstrip c s : In c s -> is_space c = false -> In c (lstrip_with is_space s).
Proof.
  induction s as [|x s IH]; intros I N; [contradiction|]. cbn [lstrip_with]. destruct (is_space x) eqn:S; [|exact I].
  destruct I as [->|I]; [congruence|now apply IH].
Qed.

Lemma in_rstrip c s : In c s -> is_space c = false -> In c (rstrip_with is_space s).
Proof.
  induction s as [|x s IH]; intros I N; [contradiction|]. cbn [rstrip_with].
  destruct I as [->|I].
  - destruct (rstrip_with is_space s); [rewrite N|]; now left.
  - specialize (IH I N). destruct (rstrip_with is_space s) as [|y r]; [contradiction|]. now right.
Qed.

Lemma in_strip c s : In c s -> is_space c = false -> In c (strip s).
Proof. intros I N. unfold strip, strip_with. apply in_rstrip; [now apply in_lstrip|assumption]. Qed.

Lemma join_two_has_comma a b r : In 44 (join COMMA_SP (a :: b :: r)).
Proof. rewrite join_cons2. apply in_or_app. right. now left. Qed.

Lemma WEBSOCKET_no_comma : ~ In 44 WEBSOCKET_S.
Proof. intros I. apply memN_In in I. vm_compute in I. discriminate. Qed.

(* the client compares the WHOLE (joined) Upgrade value: that forces a single Upgrade field *)
Lemma upgrade_single vs v n : summary vs = Some (v, n) -> lower (strip v) = WEBSOCKET_S -> vs = [v].
Proof.
  intros S E. apply summary_count in S as (-> & _ & NE). destruct vs as [|a [|b r]]; [contradiction|reflexivity|].
  exfalso. apply WEBSOCKET_no_comma. rewrite <- E.
  assert (I : In 44 (strip (join COMMA_SP (a :: b :: r)))) by (apply in_strip; [apply join_two_has_comma|reflexivity]).
  unfold lower. change 44 with (lower_c 44). now apply in_map.
Qed.

Theorem c_process_open_iff c e key data proto exts rest :
  c_process c e key data = COpen proto exts rest <->
  exists h, split_eoh data = Some (h, rest) /\ client_ok c e key h proto exts.
Proof.
  unfold c_process. split.
  - destruct (split_eoh data) as [[h r]|] eqn:S; [|discriminate].
    destruct (parse_http_header h) as [[sl hs]|] eqn:P; [|discriminate].
    assert (F : forall k, hget k hs = summary (vals k (fields_of h))) by (intros k; apply (hget_fields h sl hs k P)).
    destruct (hget_fields h sl hs K_HOST P) as [Esl _]. subst sl.
    intros H. exists h.
    destruct (split_ws (status_line_of h)) as [|ver [|code more]] eqn:SW; try discriminate.
    assert (Tv : strip ver = ver /\ ver <> []) by (apply (split_ws_token_strip (status_line_of h)); rewrite SW; now left).
    assert (Tc : strip code = code /\ code <> []) by (apply (split_ws_token_strip (status_line_of h)); rewrite SW; right; now left).
    destruct Tv as [Tv _], Tc as [Tc _]. rewrite Tv, Tc in H.
    destruct (str_eqb ver HTTP11_S) eqn:E1; cbn [negb] in H; [|discriminate]. apply str_eqb_eq in E1.
    destruct (py_int code) as [status|] eqn:PI; [|discriminate].
    destruct (status =? 101)%Z eqn:E2; cbn [negb] in H; [|discriminate]. apply Z.eqb_eq in E2. subst status.
    rewrite !F in H.
    destruct (summary (vals K_UPGRADE (fields_of h))) as [[upv upc]|] eqn:SU; [|discriminate].
    destruct (str_eqb (lower (strip upv)) WEBSOCKET_S) eqn:E3; cbn [negb] in H; [|discriminate]. apply str_eqb_eq in E3.
    destruct (summary (vals K_CONNECTION (fields_of h))) as [[cov coc]|] eqn:SC; [|discriminate].
    destruct (has_token UPGRADE_S cov) eqn:E4; cbn [negb] in H; [|discriminate].
    destruct (summary (vals K_ACCEPT (fields_of h))) as [[av ac]|] eqn:SA; [|discriminate].
    destruct (1 <? ac) eqn:E5; [discriminate|]. apply ltb_false_le in E5.
    destruct (str_eqb (strip av) (accept_of (sha1 e) key)) eqn:E6; cbn [negb] in H; [|discriminate]. apply str_eqb_eq in E6.
    assert (G : r = rest /\
      ((vals K_EXTENSIONS (fields_of h) = [] /\ exts = []) \/
       (exists xv, vals K_EXTENSIONS (fields_of h) = [xv] /\ c_extensions e false (parse_extensions_header xv) = Some exts)) /\
      ((vals K_PROTOCOL (fields_of h) = [] /\ proto = None) \/
       (exists pv, vals K_PROTOCOL (fields_of h) = [pv] /\
          ((strip pv = [] /\ proto = None) \/ (strip pv <> [] /\ proto = Some (strip pv) /\ In (strip pv) (c_protocols c)))))).
    { destruct (summary (vals K_EXTENSIONS (fields_of h))) as [[xv xc]|] eqn:SX.
      - destruct (1 <? xc) eqn:E7; [discriminate|]. apply ltb_false_le in E7.
        destruct (c_extensions e false (parse_extensions_header xv)) as [xs|] eqn:CE; [|discriminate].
        assert (X : vals K_EXTENSIONS (fields_of h) = [xv]) by now apply (summary_single _ xv xc).
        destruct (summary (vals K_PROTOCOL (fields_of h))) as [[pv pc]|] eqn:SP.
        + destruct (1 <? pc) eqn:E8; [discriminate|]. apply ltb_false_le in E8.
          assert (Y : vals K_PROTOCOL (fields_of h) = [pv]) by now apply (summary_single _ pv pc).
          destruct (strip pv) as [|p0 pr] eqn:SPV; cbn [is_nil] in H.
          * injection H as <- <- <-. split; [reflexivity|]. split; [right; exists xv; now split|]. right. exists pv. split; [assumption|]. left. now rewrite SPV.
          * destruct (mem_str (p0 :: pr) (c_protocols c)) eqn:MP; [|discriminate]. injection H as <- <- <-.
            split; [reflexivity|]. split; [right; exists xv; now split|]. right. exists pv. split; [assumption|]. right. rewrite SPV.
            split; [discriminate|]. split; [reflexivity|now apply mem_str_In].
        + apply summary_none in SP. injection H as <- <- <-. split; [reflexivity|]. split; [right; exists xv; now split|]. now left.
      - apply summary_none in SX.
        destruct (summary (vals K_PROTOCOL (fields_of h))) as [[pv pc]|] eqn:SP.
        + destruct (1 <? pc) eqn:E8; [discriminate|]. apply ltb_false_le in E8.
          assert (Y : vals K_PROTOCOL (fields_of h) = [pv]) by now apply (summary_single _ pv pc).
          destruct (strip pv) as [|p0 pr] eqn:SPV; cbn [is_nil] in H.
          * injection H as <- <- <-. split; [reflexivity|]. split; [now left|]. right. exists pv. split; [assumption|]. left. now rewrite SPV.
          * destruct (mem_str (p0 :: pr) (c_protocols c)) eqn:MP; [|discriminate]. injection H as <- <- <-.
            split; [reflexivity|]. split; [now left|]. right. exists pv. split; [assumption|]. right. rewrite SPV.
            split; [discriminate|]. split; [reflexivity|now apply mem_str_In].
        + apply summary_none in SP. injection H as <- <- <-. split; [reflexivity|]. split; [now left|]. now left. }
    destruct G as (-> & GX & GP). split; [reflexivity|].
    unfold client_ok. cbv zeta. exists ver, code, more. split; [exact SW|]. split; [assumption|]. split; [assumption|].
    split; [exists upv; split; [now apply (upgrade_single _ upv upc)|assumption]|].
    split; [apply token_iff; now exists cov, coc|].
    split; [exists av; split; [now apply (summary_single _ av ac)|assumption]|].
    split; [|assumption].
    destruct GX as [GX|(xv & X & CE)]; [now left|]. right. exists xv. split; [assumption|]. now apply c_extensions_spec.
  - intros (h & S & ver & code & more & SW & Ev & PI & (uv & UV & EU) & CT & (av & AV & EA) & GX & GP). rewrite S.
    assert (NE : splitlines h <> []).
    { intros E. unfold status_line_of in SW. rewrite E in SW. cbn in SW. discriminate. }
    destruct (parse_http_header_total h NE) as [hs P]. rewrite P.
    assert (F : forall k, hget k hs = summary (vals k (fields_of h))) by (intros k; apply (hget_fields h _ hs k P)).
    assert (Tv : strip ver = ver /\ ver <> []) by (apply (split_ws_token_strip (status_line_of h)); rewrite SW; now left).
    assert (Tc : strip code = code /\ code <> []) by (apply (split_ws_token_strip (status_line_of h)); rewrite SW; right; now left).
    destruct Tv as [Tv _], Tc as [Tc _]. rewrite SW, Tv, Tc, Ev, str_eqb_refl, PI. cbn [negb Z.eqb Pos.eqb].
    apply token_iff in CT as (cov & coc & SC & HT).
    rewrite !F, UV, summary_one, EU, str_eqb_refl, SC, HT, AV, summary_one, EA, str_eqb_refl. cbn [negb N.ltb N.compare Pos.compare].
    change (1 <? 1) with false. cbv iota.
    assert (X : match summary (vals K_EXTENSIONS (fields_of h)) with
                | Some (xv, xc) => if 1 <? xc then None else c_extensions e false (parse_extensions_header xv)
                | None => Some []
                end = Some exts).
    { destruct GX as [[-> ->]|(xv & -> & GX)]; [reflexivity|]. rewrite summary_one. change (1 <? 1) with false. cbv iota. now apply c_extensions_spec. }
    rewrite X.
    destruct GP as [[-> ->]|(pv & -> & [[E ->]|(N & -> & I)])]; [reflexivity| |]; rewrite summary_one; change (1 <? 1) with false; cbv iota.
    + now rewrite E.
    + destruct (strip pv) eqn:SPV; [contradiction|]. cbn [is_nil]. apply mem_str_In in I. now rewrite I.
Qed.

Lemma s_validate_key c e h rq key : s_validate c e h = VOk rq key ->
  exists kv, vals K_KEY (fields_of h) = [kv] /\ key = strip kv.
Proof.
  intros H. apply s_validate_ok_inv in H.
  destruct H as (sl & hs & m & u & v & b & query & hostv & hostc & upv & upc & cov & coc & vv & vc & kv & kc &
          Hp & _ & _ & _ & _ & _ & _ & _ & _ & _ & _ & _ & _ & _ & _ & _ & _ & _ & _ & _ & _ & Hk & Hkc & Hkey & _).
  exists kv. split; [|assumption]. destruct (hget_fields h sl hs K_KEY Hp) as [_ F]. rewrite F in Hk. now apply (summary_single _ kv kc).
Qed.



(* ========================================================================================== *)
(* parsing what the library itself renders                                                    *)

Definition no_lb (l : str) : Prop := Forall (fun c => is_linebreak c = false) l.
Definition ascii (l : str) : Prop := Forall (fun c => c < 128) l.

Lemma utf8_encode_ascii s : ascii s -> utf8_encode s = s.
Proof.
  induction s as [|c s IH]; intros H; [reflexivity|]. inversion H as [|? ? Hc Hs]; subst.
  unfold utf8_encode. cbn [flat_map]. apply N.ltb_lt in Hc. rewrite Hc. cbn [app]. f_equal. now apply IH.
Qed.

Lemma splitlines_aux_line l : forall cur rest, no_lb l ->
  splitlines_aux cur false (l ++ 13 :: 10 :: rest) = (rev cur ++ l) :: splitlines_aux [] false rest.
Proof.
  induction l as [|c l IH]; intros cur rest H.
  - rewrite app_nil_r. reflexivity.
  - inversion H as [|? ? Hc Hl]; subst. cbn [app splitlines_aux andb]. rewrite Hc. rewrite IH by assumption.
    cbn [rev]. now rewrite <- app_assoc.
Qed.

Lemma splitlines_crlf_lines ls : Forall no_lb ls -> splitlines (crlf_lines ls ++ CRLF) = ls ++ [[]].
Proof.
  unfold splitlines. induction ls as [|l ls IH]; intros H.
  - reflexivity.
  - inversion H as [|? ? Hl Hls]; subst. unfold crlf_lines. cbn [flat_map]. unfold CRLF at 1. rewrite <- !app_assoc. cbn [app].
    rewrite splitlines_aux_line by assumption. cbn [rev app]. f_equal. apply IH. assumption.
Qed.

Lemma cut_first_app c a b : ~ In c a -> cut_first c (a ++ c :: b) = Some (a, b).
Proof.
  induction a as [|x a IH]; intros H; cbn [app cut_first].
  - now rewrite N.eqb_refl.
  - destruct (x =? c) eqn:E; [apply N.eqb_eq in E; subst; exfalso; apply H; now left|].
    rewrite IH; [reflexivity|]. intros I. apply H. now right.
Qed.

(* a rendered field "Name: value" *)
Definition field_line (kv : str * str) : str := fst kv ++ COLON_SP ++ snd kv.

Lemma header_line_field k v : k <> [] -> ~ In 58 k ->
  header_line (field_line (k, v)) = Some (lower (strip k), strip v).
Proof.
  intros NE NC. unfold header_line, field_line, COLON_SP. cbn [fst snd app]. rewrite cut_first_app by assumption.
  destruct k; [contradiction|]. reflexivity.
Qed.

Lemma field_of_line_field k v : k <> [] -> ~ In 58 k ->
  field_of_line (field_line (k, v)) = [(lower (strip k), strip v)].
Proof. intros NE NC. unfold field_of_line. now rewrite (header_line_field k v NE NC). Qed.

Definition norm_field (kv : str * str) : str * str := (lower (strip (fst kv)), strip (snd kv)).
Definition field_wf (kv : str * str) : Prop := fst kv <> [] /\ ~ In 58 (fst kv).

Lemma fields_of_rendered l0 fs : no_lb l0 -> Forall (fun kv => no_lb (field_line kv)) fs -> Forall field_wf fs ->
  fields_of (crlf_lines (l0 :: map field_line fs) ++ CRLF) = map norm_field fs /\
  status_line_of (crlf_lines (l0 :: map field_line fs) ++ CRLF) = strip l0.
Proof.
  intros H0 Hl Hw. unfold fields_of, status_line_of. rewrite splitlines_crlf_lines.
  2:{ constructor; [assumption|]. apply Forall_forall. intros x I. apply in_map_iff in I as (kv & <- & I). rewrite Forall_forall in Hl. now apply Hl. }
  cbn [app hd tl]. split; [|reflexivity]. rewrite flat_map_app. cbn [flat_map]. change (field_of_line []) with (@nil (str * str)). rewrite !app_nil_r.
  induction fs as [|[k v] fs IH]; [reflexivity|].
  inversion Hl as [|? ? Hl1 Hl2]; inversion Hw as [|? ? [NE NC] Hw2]; subst. cbn [map flat_map].
  cbn [fst] in NE, NC. change (norm_field (k, v) :: map norm_field fs) with ([norm_field (k, v)] ++ map norm_field fs).
  f_equal; [now apply field_of_line_field|now apply IH].
Qed.

(* ---- the client's request as a start line and a list of fields ---- *)
Definition N_UA := Eval cbv in lit "User-Agent".
Definition N_HOST := Eval cbv in lit "Host".
Definition N_UPGRADE := Eval cbv in lit "Upgrade".
Definition N_CONNECTION := Eval cbv in lit "Connection".
Definition N_PRAGMA := Eval cbv in lit "Pragma".
Definition N_CACHE := Eval cbv in lit "Cache-Control".
Definition N_KEY := Eval cbv in lit "Sec-WebSocket-Key".
Definition N_ORIGIN := Eval cbv in lit "Origin".
Definition N_WS_ORIGIN := Eval cbv in lit "Sec-WebSocket-Origin".
Definition N_PROTOCOL := Eval cbv in lit "Sec-WebSocket-Protocol".
Definition N_EXTENSIONS := Eval cbv in lit "Sec-WebSocket-Extensions".
Definition N_VERSION := Eval cbv in lit "Sec-WebSocket-Version".
Definition N_ACCEPT := Eval cbv in lit "Sec-WebSocket-Accept".
Definition N_SERVER := Eval cbv in lit "Server".
Definition V_WEBSOCKET := Eval cbv in lit "WebSocket".
Definition V_UPGRADE := Eval cbv in lit "Upgrade".
Definition V_NOCACHE := Eval cbv in lit "no-cache".

Definition c_request_fields (c : ccfg) (key : str) : list (str * str) :=
  (if is_nil (c_useragent c) then [] else [(N_UA, c_useragent c)])
  ++ [(N_HOST, c_host c ++ [58] ++ dec_of_Z (c_port c)); (N_UPGRADE, V_WEBSOCKET); (N_CONNECTION, V_UPGRADE);
      (N_PRAGMA, V_NOCACHE); (N_CACHE, V_NOCACHE)]
  ++ c_headers c
  ++ [(N_KEY, key)]
  ++ (if is_nil (c_origin c) then [] else [(if (10 <? c_version c)%Z then N_ORIGIN else N_WS_ORIGIN, c_origin c)])
  ++ (if is_nil (c_protocols c) then [] else [(N_PROTOCOL, join [44] (c_protocols c))])
  ++ (if is_nil (c_offers c) then [] else [(N_EXTENSIONS, join [44] (c_offers c))])
  ++ [(N_VERSION, dec_of_Z (proto_version (c_version c)))].

Lemma c_request_lines_fields c key :
  c_request_lines c key = (R_GET ++ c_resource c ++ R_HTTP11) :: map field_line (c_request_fields c key).
Proof.
  unfold c_request_lines, c_request_fields. rewrite !map_app.
  destruct (is_nil (c_useragent c)), (is_nil (c_origin c)), (is_nil (c_protocols c)), (is_nil (c_offers c)), (10 <? c_version c)%Z;
    cbn [app map]; repeat f_equal; try reflexivity;
    try (induction (c_headers c) as [|[k v] l IH]; [reflexivity|]; cbn [map]; f_equal; [reflexivity|exact IH]).
Qed.

(* ---- small facts used to evaluate the chain on rendered text ---- *)
Lemma vals_app k a b : vals k (a ++ b) = vals k a ++ vals k b.
Proof. unfold vals. now rewrite filter_app, map_app. Qed.

Lemma vals_single_eq k n v : str_eqb k (lower (strip n)) = true -> vals k [norm_field (n, v)] = [strip v].
Proof. intros E. unfold vals, norm_field. cbn [filter fst snd]. now rewrite E. Qed.

Lemma vals_single_neq k n v : str_eqb k (lower (strip n)) = false -> vals k [norm_field (n, v)] = [].
Proof. intros E. unfold vals, norm_field. cbn [filter fst snd]. now rewrite E. Qed.

Definition reserved : list str :=
  [K_HOST; K_UPGRADE; K_CONNECTION; K_VERSION; K_PROTOCOL; K_ORIGIN; K_WS_ORIGIN; K_KEY; K_EXTENSIONS; K_ACCEPT].

(* user supplied extra headers: well formed names that do not collide with the handshake's own *)
Definition extra_ok (hs : list (str * str)) : Prop :=
  Forall (fun kv => field_wf kv /\ no_lb (field_line kv) /\ ~ In (lower (strip (fst kv))) reserved) hs.

Lemma vals_extra k hs : In k reserved -> extra_ok hs -> vals k (map norm_field hs) = [].
Proof.
  intros I H. induction hs as [|[n v] hs IH]; [reflexivity|]. inversion H as [|? ? (_ & _ & NR) H']; subst.
  change ((n, v) :: hs) with ([(n, v)] ++ hs). rewrite map_app, vals_app, (IH H'), app_nil_r.
  apply vals_single_neq. apply str_eqb_neq. intros ->. now apply NR.
Qed.

Lemma rstrip_last m y : is_space y = false -> rstrip_with is_space (m ++ [y]) = m ++ [y].
Proof.
  intros H. induction m as [|x m IH]; cbn [app rstrip_with]; [now rewrite H|].
  rewrite IH. destruct (m ++ [y]) eqn:E; [destruct m; discriminate|reflexivity].
Qed.

Lemma strip_ends x m y : is_space x = false -> is_space y = false -> strip (x :: m ++ [y]) = x :: m ++ [y].
Proof.
  intros Hx Hy. unfold strip, strip_with. cbn [lstrip_with]. rewrite Hx. apply (rstrip_last (x :: m) y Hy).
Qed.

Lemma split_ws_aux_token t : forall cur rest, nospace t ->
  split_ws_aux cur (t ++ 32 :: rest) = match rev cur ++ t with [] => split_ws rest | w => w :: split_ws rest end.
Proof.
  induction t as [|c t IH]; intros cur rest H.
  - cbn [app split_ws_aux]. change (is_space 32) with true. cbv iota. rewrite app_nil_r.
    destruct cur as [|x cur]; [reflexivity|]. cbn [rev]. destruct (rev cur ++ [x]) eqn:E; [destruct (rev cur); discriminate|reflexivity].
  - inversion H as [|? ? Hc Ht]; subst. cbn [app split_ws_aux]. rewrite Hc, IH by assumption. cbn [rev]. now rewrite <- app_assoc.
Qed.

Lemma split_ws_aux_last t : forall cur, nospace t ->
  split_ws_aux cur t = match rev cur ++ t with [] => [] | w => [w] end.
Proof.
  induction t as [|c t IH]; intros cur H.
  - cbn [split_ws_aux]. rewrite app_nil_r. destruct cur as [|x cur]; [reflexivity|]. cbn [rev].
    destruct (rev cur ++ [x]) eqn:E; [destruct (rev cur); discriminate|reflexivity].
  - inversion H as [|? ? Hc Ht]; subst. cbn [split_ws_aux]. rewrite Hc, IH by assumption. cbn [rev]. now rewrite <- app_assoc.
Qed.

Lemma split_ws_three a b c : nospace a -> nospace b -> nospace c -> a <> [] -> b <> [] -> c <> [] ->
  split_ws (a ++ 32 :: b ++ 32 :: c) = [a; b; c].
Proof.
  intros Ha Hb Hc Na Nb Nc. unfold split_ws. rewrite split_ws_aux_token by assumption. cbn [rev app].
  destruct a as [|a0 a']; [contradiction|]. f_equal. unfold split_ws. rewrite split_ws_aux_token by assumption. cbn [rev app].
  destruct b as [|b0 b']; [contradiction|]. f_equal. unfold split_ws. rewrite split_ws_aux_last by assumption. cbn [rev app].
  destruct c; [contradiction|reflexivity].
Qed.

Lemma cut_last_app c a b : ~ In c b -> cut_last c (a ++ c :: b) = Some (a, b).
Proof.
  intros H. assert (N : cut_last c b = None).
  { induction b as [|x b IH]; [reflexivity|]. cbn [cut_last]. rewrite IH by (intros I; apply H; now right).
    destruct (x =? c) eqn:E; [apply N.eqb_eq in E; subst; exfalso; apply H; now left|reflexivity]. }
  induction a as [|x a IH]; cbn [app cut_last].
  - now rewrite N, N.eqb_refl.
  - now rewrite IH.
Qed.

Lemma split_on_join c l : l <> [] -> Forall (fun x => ~ In c x) l -> split_on c (join [c] l) = l.
Proof.
  induction l as [|x l IH]; intros NE F; [contradiction|]. inversion F as [|? ? Hx Hl]; subst.
  destruct l as [|y l]; [now apply split_on_noc|]. rewrite join_cons2.
  change (x ++ [c] ++ join [c] (y :: l)) with (x ++ c :: join [c] (y :: l)).
  rewrite split_on_app_sep, (split_on_noc c x Hx). rewrite IH; [reflexivity|discriminate|assumption].
Qed.

(* decimal rendering and int(): checked inside Coq on the ranges that occur (ports 0..65535, the generated versions) *)
Fixpoint zrange (p : positive) (lo : Z) : list Z :=
  match p with
  | xH => [lo]
  | xO q => zrange q lo ++ zrange q (lo + Zpos q)
  | xI q => lo :: zrange q (lo + 1) ++ zrange q (lo + 1 + Zpos q)
  end.

Lemma zrange_In p : forall lo z, (lo <= z < lo + Zpos p)%Z -> In z (zrange p lo).
Proof.
  induction p as [q IH|q IH|]; intros lo z H; cbn [zrange].
  - destruct (Z.eq_dec z lo) as [->|N]; [now left|]. right. apply in_or_app.
    destruct (Z_lt_dec z (lo + 1 + Zpos q)); [left; apply IH; lia|right; apply IH; lia].
  - apply in_or_app. destruct (Z_lt_dec z (lo + Zpos q)); [left; apply IH; lia|right; apply IH; lia].
  - left. lia.
Qed.

Definition int_dec_ok (z : Z) : bool :=
  match py_int (strip (dec_of_Z z)) with Some v => (v =? z)%Z | None => false end
  && forallb (fun c => negb (c =? 93) && negb (is_space c) && negb (is_linebreak c) && negb (c =? 58) && (c <? 128)) (dec_of_Z z)
  && negb (is_nil (dec_of_Z z)).

Lemma ports_roundtrip : forallb int_dec_ok (zrange 65536 0) = true.
Proof. vm_compute. reflexivity. Qed.

Lemma port_roundtrip z : (0 <= z < 65536)%Z -> int_dec_ok z = true.
Proof.
  intros H. pose proof ports_roundtrip as F. rewrite forallb_forall in F. apply F. apply zrange_In. lia.
Qed.



(* ---- base64 of a 16-octet nonce is an acceptable key; base64 text has no white space ---- *)
Lemma b64_char_in n : In (b64_char n) b64_alphabet.
Proof.
  unfold b64_char. apply nth_In. change (length b64_alphabet) with 64%nat.
  pose proof (N.mod_lt n 64). lia.
Qed.

Definition clean_char (c : N) : bool := negb (is_space c) && negb (is_linebreak c) && (c <? 128) && negb (c =? 44) && negb (c =? 58).

Lemma b64_alphabet_clean : forallb (fun c => clean_char c && memN c key_alphabet) b64_alphabet = true.
Proof. vm_compute. reflexivity. Qed.

Lemma b64_char_clean n : clean_char (b64_char n) = true /\ In (b64_char n) key_alphabet.
Proof.
  pose proof b64_alphabet_clean as F. rewrite forallb_forall in F. specialize (F _ (b64_char_in n)).
  apply andb_true_iff in F as [F1 F2]. split; [assumption|now apply memN_In].
Qed.

Lemma b64_encode_clean l : Forall (fun c => clean_char c = true) (b64_encode l).
Proof.
  assert (E : clean_char 61 = true) by reflexivity.
  assert (G : forall n, forall l', (length l' <= n)%nat -> Forall (fun c => clean_char c = true) (b64_encode l')).
  { induction n as [|n IH]; intros l' H.
    - destruct l'; [constructor|cbn in H; lia].
    - destruct l' as [|a [|b [|c0 r]]]; cbn [b64_encode].
      + apply Forall_nil.
      + repeat (apply Forall_cons; [first [exact E|apply (proj1 (b64_char_clean _))]|]). apply Forall_nil.
      + repeat (apply Forall_cons; [first [exact E|apply (proj1 (b64_char_clean _))]|]). apply Forall_nil.
      + do 4 (apply Forall_cons; [apply (proj1 (b64_char_clean _))|]). apply IH. cbn [length] in H. lia. }
  apply (G (length l)). lia.
Qed.

Lemma key_of_nonce nonce : length nonce = 16%nat ->
  lenN (client_key nonce) = key_length /\
  exists body, client_key nonce = body ++ key_suffix /\ Forall (fun ch => In ch key_alphabet) body.
Proof.
  intros H. unfold client_key.
  do 16 (destruct nonce as [|? nonce]; [discriminate H|]). destruct nonce; [|discriminate H].
  cbn [b64_encode]. split; [reflexivity|].
  match goal with |- exists b, ?l = _ /\ _ => exists (firstn 22 l) end.
  unfold key_suffix. cbn [firstn app]. split; [reflexivity|].
  repeat (apply Forall_cons; [apply (proj2 (b64_char_clean _))|]). apply Forall_nil.
Qed.

Lemma clean_forall_nospace s : Forall (fun c => clean_char c = true) s -> nospace s /\ no_lb s /\ ascii s /\ ~ In 44 s /\ ~ In 58 s.
Proof.
  intros H. unfold nospace, no_lb, ascii. rewrite !Forall_forall. rewrite Forall_forall in H.
  repeat split; try (intros c I; specialize (H c I); unfold clean_char in H; repeat (apply andb_true_iff in H as [H ?]);
    try (now apply negb_true_iff); try (now apply N.ltb_lt)).
  - intros I. specialize (H 44 I). discriminate.
  - intros I. specialize (H 58 I). discriminate.
Qed.



(* ---- text that can be put on a header line ---- *)
Definition text_ok (s : str) : Prop := no_lb s /\ ascii s.
Definition text_okb (s : str) : bool := forallb (fun c => negb (is_linebreak c) && (c <? 128)) s.
Definition clean (s : str) : Prop := Forall (fun c => clean_char c = true) s.

Lemma text_okb_ok s : text_okb s = true -> text_ok s.
Proof.
  unfold text_okb, text_ok, no_lb, ascii. rewrite forallb_forall, !Forall_forall. intros H.
  split; intros c I; specialize (H c I); apply andb_true_iff in H as [H1 H2]; [now apply negb_true_iff|now apply N.ltb_lt].
Qed.

Lemma text_ok_app a b : text_ok a -> text_ok b -> text_ok (a ++ b).
Proof. intros [A1 A2] [B1 B2]. split; apply Forall_app; now split. Qed.

Lemma clean_text_ok s : clean s -> text_ok s.
Proof. intros H. apply clean_forall_nospace in H as (_ & L & A & _). now split. Qed.

Lemma text_ok_join ps : Forall text_ok ps -> text_ok (join [44] ps).
Proof.
  induction ps as [|p ps IH]; intros H; [split; constructor|]. inversion H as [|? ? Hp Hps]; subst.
  destruct ps as [|q ps]; [exact Hp|]. rewrite join_cons2. apply text_ok_app; [assumption|]. apply text_ok_app; [|now apply IH].
  apply text_okb_ok. reflexivity.
Qed.

Lemma dec_ok z : (0 <= z < 65536)%Z ->
  py_int (strip (dec_of_Z z)) = Some z /\ nospace (dec_of_Z z) /\ text_ok (dec_of_Z z) /\ ~ In 58 (dec_of_Z z) /\ dec_of_Z z <> [].
Proof.
  intros H. apply port_roundtrip in H. unfold int_dec_ok in H. apply andb_true_iff in H as [H H3]. apply andb_true_iff in H as [H1 H2].
  split.
  { destruct (py_int (strip (dec_of_Z z))) as [v|]; [|discriminate]. apply Z.eqb_eq in H1. now subst. }
  rewrite forallb_forall in H2.
  assert (G : forall c, In c (dec_of_Z z) -> is_space c = false /\ is_linebreak c = false /\ c <> 58 /\ c < 128).
  { intros c I. specialize (H2 c I). repeat (apply andb_true_iff in H2 as [H2 ?]).
    repeat split; try (now apply negb_true_iff); [apply N.eqb_neq; now apply negb_true_iff|now apply N.ltb_lt]. }
  split; [apply Forall_forall; intros c I; now apply G|].
  split; [split; apply Forall_forall; intros c I; now apply G|].
  split; [intros I; now apply (G 58 I)|].
  destruct (dec_of_Z z); [discriminate|discriminate].
Qed.

Lemma vals_cons k n v rest :
  vals k (norm_field (n, v) :: rest) = (if str_eqb k (lower (strip n)) then [strip v] else []) ++ vals k rest.
Proof. unfold vals, norm_field. cbn [filter fst snd]. destruct (str_eqb k (lower (strip n))); reflexivity. Qed.

Lemma vals_nil k : vals k [] = [].
Proof. reflexivity. Qed.

Lemma vals_if k (b : bool) n v :
  vals k (map norm_field (if b then [] else [(n, v)])) = if b then [] else (if str_eqb k (lower (strip n)) then [strip v] else []).
Proof. destruct b; [reflexivity|]. cbn [map]. rewrite vals_cons, vals_nil. now rewrite app_nil_r. Qed.

Ltac eval_names :=
  repeat match goal with
         | |- context [str_eqb ?a (lower (strip ?b))] =>
             let r := eval vm_compute in (str_eqb a (lower (strip b))) in
             match r with true => idtac | false => idtac end;
             change (str_eqb a (lower (strip b))) with r
         end.

Lemma request_vals cc key : extra_ok (c_headers cc) ->
  let fs := map norm_field (c_request_fields cc key) in
  vals K_HOST fs = [strip (c_host cc ++ [58] ++ dec_of_Z (c_port cc))] /\
  vals K_UPGRADE fs = [strip V_WEBSOCKET] /\ vals K_CONNECTION fs = [strip V_UPGRADE] /\
  vals K_VERSION fs = [strip (dec_of_Z (proto_version (c_version cc)))] /\
  vals K_KEY fs = [strip key] /\
  vals K_PROTOCOL fs = (if is_nil (c_protocols cc) then [] else [strip (join [44] (c_protocols cc))]) /\
  vals K_EXTENSIONS fs = (if is_nil (c_offers cc) then [] else [strip (join [44] (c_offers cc))]) /\
  vals K_ORIGIN fs = (if is_nil (c_origin cc) then [] else if (10 <? c_version cc)%Z then [strip (c_origin cc)] else []) /\
  vals K_WS_ORIGIN fs = (if is_nil (c_origin cc) then [] else if (10 <? c_version cc)%Z then [] else [strip (c_origin cc)]).
Proof.
  intros Hx. cbv zeta. unfold c_request_fields.
  assert (X : forall k, In k reserved -> vals k (map norm_field (c_headers cc)) = []) by (intros k I; now apply vals_extra).
  rewrite !map_app, !vals_app.
  rewrite (X K_HOST), (X K_UPGRADE), (X K_CONNECTION), (X K_VERSION), (X K_KEY), (X K_PROTOCOL), (X K_EXTENSIONS), (X K_ORIGIN), (X K_WS_ORIGIN)
    by (unfold reserved; cbn [In]; tauto).
  destruct (10 <? c_version cc)%Z;
    rewrite !vals_if; cbn [map]; rewrite ?vals_cons, ?vals_nil; eval_names; cbv iota;
    destruct (is_nil (c_useragent cc)), (is_nil (c_origin cc)), (is_nil (c_protocols cc)), (is_nil (c_offers cc));
    cbn [app]; repeat split; reflexivity.
Qed.



(* what "compatible configurations" means *)
Definition version_facts (v : Z) : bool :=
  let pv := proto_version v in
  int_dec_ok pv && (0 <=? pv)%Z && (pv <? 65536)%Z
  && (if (10 <? v)%Z then negb (pv <? 13)%Z || (v =? 11)%Z || (v =? 12)%Z else (pv <? 13)%Z).

Lemma versions_ok : forallb version_facts supported_spec_versions = true.
Proof. vm_compute. reflexivity. Qed.

Record interop_hyps (cc : ccfg) (sc : scfg) (e : env) (nonce : list N) : Prop := {
  ih_nonce : length nonce = 16%nat;
  ih_resource : nospace (c_resource cc) /\ c_resource cc <> [] /\ text_ok (c_resource cc);
  ih_uri : exists path query, urlparse_o e (c_resource cc) = UriOk path query [] /\ parse_qs_o e query <> None;
  ih_host : clean (c_host cc) /\ c_host cc <> [];
  ih_port : (0 <= c_port cc < 65536)%Z;
  ih_extport : ext_port_matches (s_external_port sc) (c_port cc);
  ih_ua : text_ok (c_useragent cc);
  ih_headers : extra_ok (c_headers cc) /\ Forall (fun kv => ascii (field_line kv)) (c_headers cc);
  ih_version : In (c_version cc) supported_spec_versions /\ In (proto_version (c_version cc)) (s_versions sc);
  ih_protocols : Forall clean (c_protocols cc) /\ Forall (fun p => p <> []) (c_protocols cc) /\ NoDup (c_protocols cc);
  ih_origin : text_ok (c_origin cc) /\
              (c_origin cc = [] \/ (c_version cc = 11 \/ c_version cc = 12)%Z \/
               exists o, url_to_origin (urlsplit_o e) (strip (strip (c_origin cc))) = Some o /\ origin_permitted sc o);
  ih_offers : Forall text_ok (c_offers cc);
  ih_limit : limit_ok sc
}.

Lemma request_text_shape cc key :
  c_request_text cc key = crlf_lines ((R_GET ++ c_resource cc ++ R_HTTP11) :: map field_line (c_request_fields cc key)) ++ CRLF.
Proof. unfold c_request_text. now rewrite c_request_lines_fields. Qed.

Lemma lit_field_ok n v : text_okb n = true -> negb (is_nil n) && negb (memN 58 n) = true -> text_ok v ->
  no_lb (field_line (n, v)) /\ ascii (field_line (n, v)) /\ field_wf (n, v).
Proof.
  intros Hn Hw Hv. apply text_okb_ok in Hn. assert (T : text_ok (field_line (n, v))).
  { unfold field_line. cbn [fst snd]. apply text_ok_app; [assumption|]. apply text_ok_app; [apply text_okb_ok; reflexivity|assumption]. }
  destruct T as [T1 T2]. split; [assumption|]. split; [assumption|]. apply andb_true_iff in Hw as [W1 W2].
  split; cbn [fst].
  - destruct n; [discriminate|discriminate].
  - intros I. apply memN_In in I. rewrite I in W2. discriminate.
Qed.

Definition field_good (kv : str * str) : Prop := no_lb (field_line kv) /\ ascii (field_line kv) /\ field_wf kv.

Lemma request_fields_good cc sc e nonce : interop_hyps cc sc e nonce ->
  Forall field_good (c_request_fields cc (client_key nonce)).
Proof.
  intros H. destruct H as [ih_nonce0 ih_resource0 ih_uri0 ih_host0 ih_port0 ih_extport0 ih_ua0 ih_headers0 ih_version0 ih_protocols0 ih_origin0 ih_offers0 ih_limit0]. unfold c_request_fields.
  assert (Kc : text_ok (client_key nonce)) by (apply clean_text_ok; apply b64_encode_clean).
  destruct ih_host0 as [Hh _]. apply clean_text_ok in Hh.
  destruct (dec_ok _ ih_port0) as (_ & _ & Pt & _ & _).
  assert (Vf : version_facts (c_version cc) = true).
  { pose proof versions_ok as F. rewrite forallb_forall in F. apply F. apply ih_version0. }
  unfold version_facts in Vf. repeat (apply andb_true_iff in Vf as [Vf ?]).
  assert (Vr : (0 <= proto_version (c_version cc) < 65536)%Z) by lia.
  destruct (dec_ok _ Vr) as (_ & _ & Vt & _ & _).
  destruct ih_protocols0 as (Pc & _ & _).
  assert (Pj : text_ok (join [44] (c_protocols cc))).
  { apply text_ok_join. eapply Forall_impl; [|exact Pc]. intros a. apply clean_text_ok. }
  assert (Oj : text_ok (join [44] (c_offers cc))) by now apply text_ok_join.
  destruct ih_origin0 as [Ot _]. destruct ih_headers0 as [Hx Ha].
  repeat (apply Forall_app; split).
  - destruct (is_nil (c_useragent cc)); [constructor|]. apply Forall_cons; [|apply Forall_nil]. now apply lit_field_ok.
  - apply Forall_cons.
    { apply lit_field_ok; [reflexivity|reflexivity|]. apply text_ok_app; [assumption|]. apply text_ok_app; [apply text_okb_ok; reflexivity|assumption]. }
    repeat (apply Forall_cons; [apply lit_field_ok; [reflexivity|reflexivity|apply text_okb_ok; reflexivity]|]). apply Forall_nil.
  - unfold extra_ok in Hx. rewrite Forall_forall in *. intros kv I. destruct (Hx kv I) as (W & L & _). repeat split; try assumption; try apply W. now apply Ha.
  - apply Forall_cons; [|apply Forall_nil]. now apply lit_field_ok.
  - destruct (is_nil (c_origin cc)); [constructor|]. apply Forall_cons; [|apply Forall_nil]. destruct (10 <? c_version cc)%Z; now apply lit_field_ok.
  - destruct (is_nil (c_protocols cc)); [constructor|]. apply Forall_cons; [|apply Forall_nil]. now apply lit_field_ok.
  - destruct (is_nil (c_offers cc)); [constructor|]. apply Forall_cons; [|apply Forall_nil]. now apply lit_field_ok.
  - apply Forall_cons; [|apply Forall_nil]. now apply lit_field_ok.
Qed.



Lemma ascii_crlf_lines ls : Forall ascii ls -> ascii (crlf_lines ls ++ CRLF).
Proof.
  intros H. unfold ascii. apply Forall_app. split; [|repeat constructor; reflexivity].
  unfold crlf_lines. induction ls as [|l ls IH]; [constructor|]. inversion H; subst. cbn [flat_map].
  apply Forall_app. split; [apply Forall_app; split; [assumption|repeat constructor; reflexivity]|now apply IH].
Qed.

Lemma clean_nospace s : clean s -> nospace s.
Proof. intros H. now apply clean_forall_nospace in H. Qed.

Lemma nospace_app a b : nospace a -> nospace b -> nospace (a ++ b).
Proof. intros A B. apply Forall_app. now split. Qed.

Lemma nospace_join ps : Forall clean ps -> nospace (join [44] ps).
Proof.
  induction ps as [|p ps IH]; intros H; [constructor|]. inversion H as [|? ? Hp Hps]; subst.
  destruct ps as [|q ps]; [now apply clean_nospace|]. rewrite join_cons2. apply nospace_app; [now apply clean_nospace|].
  apply nospace_app; [repeat constructor|now apply IH].
Qed.

Lemma tokens_join_clean ps : ps <> [] -> Forall clean ps -> tokens (join [44] ps) = ps.
Proof.
  intros NE H. unfold tokens. rewrite split_on_join; [|assumption|].
  - induction ps as [|p ps IH]; [reflexivity|]. inversion H; subst. cbn [map]. f_equal.
    + apply strip_nospace. now apply clean_nospace.
    + destruct ps; [reflexivity|]. apply IH; [discriminate|assumption].
  - eapply Forall_impl; [|exact H]. intros a Ha. now apply clean_forall_nospace in Ha.
Qed.

Lemma request_line_tokens res : nospace res -> res <> [] ->
  split_ws (strip (R_GET ++ res ++ R_HTTP11)) = [GET_S; res; HTTP11_S].
Proof.
  intros Hn NE.
  assert (E : R_GET ++ res ++ R_HTTP11 = 71 :: ([69; 84; 32] ++ res ++ [32; 72; 84; 84; 80; 47; 49; 46]) ++ [49]).
  { unfold R_GET, R_HTTP11. cbn [app]. rewrite <- !app_assoc. reflexivity. }
  rewrite E, strip_ends by reflexivity. rewrite <- E.
  change (R_GET ++ res ++ R_HTTP11) with (GET_S ++ 32 :: res ++ 32 :: HTTP11_S).
  apply split_ws_three; try assumption; try discriminate; repeat constructor.
Qed.

Theorem interop_request_valid cc sc e nonce : interop_hyps cc sc e nonce ->
  c_request cc nonce = c_request_text cc (client_key nonce) /\
  fields_of (c_request_text cc (client_key nonce)) = map norm_field (c_request_fields cc (client_key nonce)) /\
  rfc4_ok sc e (c_request_text cc (client_key nonce)).
Proof.
  intros H. pose proof (request_fields_good cc sc e nonce H) as G. destruct H as [ih_nonce0 ih_resource0 ih_uri0 ih_host0 ih_port0 ih_extport0 ih_ua0 ih_headers0 ih_version0 ih_protocols0 ih_origin0 ih_offers0 ih_limit0].
  set (key := client_key nonce) in *.
  destruct ih_resource0 as (Rn & Rne & Rt).
  assert (L0 : text_ok (R_GET ++ c_resource cc ++ R_HTTP11)).
  { apply text_ok_app; [apply text_okb_ok; reflexivity|]. apply text_ok_app; [assumption|apply text_okb_ok; reflexivity]. }
  assert (Gl : Forall (fun kv => no_lb (field_line kv)) (c_request_fields cc key)) by (eapply Forall_impl; [|exact G]; intros a Ha; apply Ha).
  assert (Gw : Forall field_wf (c_request_fields cc key)) by (eapply Forall_impl; [|exact G]; intros a Ha; apply Ha).
  assert (Ga : Forall ascii (map field_line (c_request_fields cc key))).
  { apply Forall_forall. intros x I. apply in_map_iff in I as (kv & <- & I). rewrite Forall_forall in G. apply (G kv I). }
  destruct (fields_of_rendered (R_GET ++ c_resource cc ++ R_HTTP11) (c_request_fields cc key) (proj1 L0) Gl Gw) as [Ef Es].
  rewrite <- request_text_shape in Ef, Es.
  split.
  { unfold c_request. fold key. apply utf8_encode_ascii. rewrite request_text_shape. apply ascii_crlf_lines. constructor; [apply L0|assumption]. }
  split; [exact Ef|].
  destruct (request_vals cc key (proj1 ih_headers0)) as (Vh & Vu & Vc & Vv & Vk & Vp & Vx & Vo & Vw). cbv zeta in *.
  assert (Vf : version_facts (c_version cc) = true).
  { pose proof versions_ok as F. rewrite forallb_forall in F. apply F. apply ih_version0. }
  unfold version_facts in Vf. apply andb_true_iff in Vf as [Vf Vorig]. repeat (apply andb_true_iff in Vf as [Vf ?]).
  assert (Vr : (0 <= proto_version (c_version cc) < 65536)%Z) by lia.
  destruct (dec_ok _ Vr) as (Vint & _). destruct (dec_ok _ ih_port0) as (Pint & Pn & _ & P58 & _).
  destruct ih_host0 as [Hc Hne]. pose proof (clean_nospace _ Hc) as Hn.
  assert (HPn : nospace (c_host cc ++ [58] ++ dec_of_Z (c_port cc))) by (apply nospace_app; [assumption|apply nospace_app; [repeat constructor|assumption]]).
  destruct (key_of_nonce nonce ih_nonce0) as (Kl & body & Kb & Kf). fold key in Kl, Kb.
  assert (Kn : strip key = key) by (apply strip_nospace; apply clean_nospace; apply b64_encode_clean).
  unfold rfc4_ok. cbv zeta. rewrite Ef, Es, Vh, Vu, Vc, Vv, Vk, Vp, Vx.
  exists GET_S, (c_resource cc), HTTP11_S, (proto_version (c_version cc)).
  split; [now apply request_line_tokens|]. split; [reflexivity|].
  split; [exists [49; 46; 49]; split; [vm_compute; tauto|reflexivity]|].
  split; [exact ih_uri0|].
  split.
  { eexists. split; [reflexivity|]. unfold host_ok. rewrite !(strip_nospace _ HPn). intros _ _.
    exists (c_host cc), (dec_of_Z (c_port cc)), (c_port cc). split; [apply cut_last_app; assumption|]. split; assumption. }
  split; [exists (strip V_WEBSOCKET), (strip V_WEBSOCKET); split; [now left|split; [vm_compute; tauto|reflexivity]]|].
  split; [exists (strip V_UPGRADE), (strip V_UPGRADE); split; [now left|split; [vm_compute; tauto|reflexivity]]|].
  split; [eexists; split; [reflexivity|split; [exact Vint|apply ih_version0]]|].
  split.
  { destruct ih_protocols0 as (Pc & Pne & Pnd). destruct (c_protocols cc) as [|p ps] eqn:EP; cbn [is_nil flat_map]; [constructor|].
    rewrite app_nil_r. rewrite <- EP in *. rewrite (strip_nospace _ (nospace_join _ Pc)), tokens_join_clean; [assumption|rewrite EP; discriminate|assumption]. }
  split.
  { destruct ih_origin0 as [_ Oh]. unfold origin_key.
    destruct (is_nil (c_origin cc)) eqn:ON.
    - left. destruct (proto_version (c_version cc) <? 13)%Z; assumption.
    - destruct Oh as [Oe|[O1112|(o & Ou & Op)]]; [rewrite Oe in ON; discriminate| |].
      + left. destruct O1112 as [Ev|Ev]; rewrite Ev in *; vm_compute in Vo, Vw |- *; assumption.
      + destruct (10 <? c_version cc)%Z eqn:V10; destruct (proto_version (c_version cc) <? 13)%Z eqn:V13; cbn [negb orb] in Vorig.
        * left. assumption.
        * right. exists (strip (c_origin cc)), o. split; [assumption|]. split; assumption.
        * right. exists (strip (c_origin cc)), o. split; [assumption|]. split; assumption.
        * discriminate. }
  split.
  { exists (strip key). split; [reflexivity|]. rewrite !Kn. split; [assumption|]. now exists body. }
  split; [destruct (is_nil (c_offers cc)); cbn; lia|exact ih_limit0].
Qed.



(* ---- the only CRLF CRLF of rendered text is its end ---- *)
Lemma starts_with_eoh_not13 c r : c <> 13 -> starts_with EOH (c :: r) = false.
Proof. intros H. unfold EOH. cbn [starts_with]. apply N.eqb_neq in H. rewrite N.eqb_sym in H. now rewrite H. Qed.

Lemma no_lb_not13 c : is_linebreak c = false -> c <> 13.
Proof. intros H ->. discriminate. Qed.

Lemma scan_line l : forall acc r, no_lb l -> r <> [] -> split_eoh_aux acc (l ++ r) = split_eoh_aux (rev l ++ acc) r.
Proof.
  induction l as [|c l IH]; intros acc r H NE; [reflexivity|]. inversion H as [|? ? Hc Hl]; subst.
  cbn [app split_eoh_aux]. rewrite (starts_with_eoh_not13 c _ (no_lb_not13 c Hc)). rewrite IH by assumption.
  cbn [rev]. now rewrite <- app_assoc.
Qed.

Definition line_ok (l : str) : Prop := no_lb l /\ l <> [].

Lemma split_eoh_aux_lines ls : forall acc, ls <> [] -> Forall line_ok ls ->
  split_eoh_aux acc (crlf_lines ls ++ CRLF) = Some (rev acc ++ crlf_lines ls ++ CRLF, []).
Proof.
  induction ls as [|l ls IH]; intros acc NE H; [contradiction|]. inversion H as [|? ? [Hl Hne] Hls]; subst.
  unfold crlf_lines. cbn [flat_map]. fold (crlf_lines ls). rewrite <- !app_assoc.
  rewrite scan_line by (try assumption; destruct (crlf_lines ls); discriminate).
  destruct ls as [|l2 ls].
  - cbn [crlf_lines flat_map app]. unfold CRLF. cbn [app split_eoh_aux].
    change (starts_with EOH [13; 10; 13; 10]) with true. cbv iota. cbn [skipn]. f_equal. f_equal.
    rewrite rev_app_distr, rev_involutive. unfold EOH. now rewrite <- app_assoc.
  - destruct l2 as [|c2 l2']; [inversion Hls as [|? ? [_ X] _]; contradiction|].
    assert (C2 : c2 <> 13) by (inversion Hls as [|? ? [X _] _]; inversion X; subst; now apply no_lb_not13).
    unfold CRLF at 1. cbn [app split_eoh_aux].
    match goal with |- context [starts_with EOH (13 :: 10 :: ?x)] => assert (S1 : starts_with EOH (13 :: 10 :: x) = false) end.
    { unfold crlf_lines. cbn [flat_map app]. unfold EOH. cbn [starts_with]. apply N.eqb_neq in C2. rewrite N.eqb_sym in C2.
      change (13 =? 13) with true. change (10 =? 10) with true. cbn [andb]. now rewrite C2. }
    rewrite S1. rewrite (starts_with_eoh_not13 10) by discriminate.
    rewrite IH by (try discriminate; assumption). f_equal. f_equal. cbn [rev]. rewrite !rev_app_distr, rev_involutive. cbn [rev app].
    now rewrite <- !app_assoc.
Qed.

Lemma split_eoh_lines ls : ls <> [] -> Forall line_ok ls ->
  split_eoh (crlf_lines ls ++ CRLF) = Some (crlf_lines ls ++ CRLF, []).
Proof. intros NE H. unfold split_eoh. now rewrite split_eoh_aux_lines. Qed.



Lemma field_line_nonempty kv : field_line kv <> [].
Proof. unfold field_line, COLON_SP. destruct (fst kv); discriminate. Qed.

Lemma s_validate_protocols c e h rq key : s_validate c e h = VOk rq key ->
  rq_protocols rq = flat_map tokens (vals K_PROTOCOL (fields_of h)).
Proof.
  intros H. apply s_validate_ok_inv in H.
  destruct H as (sl & hs & m & u & v & b & query & hostv & hostc & upv & upc & cov & coc & vv & vc & kv & kc &
          Hp & _ & _ & _ & _ & _ & _ & _ & _ & _ & _ & _ & _ & _ & _ & _ & _ & _ & Hpr & _).
  rewrite Hpr. unfold protocols_of. destruct (hget_fields h sl hs K_PROTOCOL Hp) as [_ F]. now apply protocols_fields.
Qed.

Lemma s_validate_extensions c e h rq key : s_validate c e h = VOk rq key ->
  rq_extensions rq = match vals K_EXTENSIONS (fields_of h) with [xv] => parse_extensions_header xv | _ => [] end.
Proof.
  intros H. apply s_validate_ok_inv in H.
  destruct H as (sl & hs & m & u & v & b & query & hostv & hostc & upv & upc & cov & coc & vv & vc & kv & kc &
          Hp & _ & _ & _ & _ & _ & _ & _ & _ & _ & _ & _ & _ & _ & _ & _ & _ & _ & _ & _ & _ & _ & _ & _ & _ & Hex & _).
  unfold exts_cond in Hex. destruct (hget_fields h sl hs K_EXTENSIONS Hp) as [_ F]. rewrite F in Hex.
  destruct (summary (vals K_EXTENSIONS (fields_of h))) as [[xv xc]|] eqn:S.
  - destruct Hex as [Hxc ->]. now rewrite (summary_single _ xv xc S Hxc).
  - apply summary_none in S. now rewrite S.
Qed.

(* the extension offers as the server will parse them *)
Definition client_exts (cc : ccfg) : list extension :=
  if is_nil (c_offers cc) then [] else parse_extensions_header (strip (join [44] (c_offers cc))).

(* the server ends OPEN on the request its own client renders *)
Theorem interop_server cc sc e nonce :
  interop_hyps cc sc e nonce ->
  (forall rq, rq_protocols rq = c_protocols cc -> rq_extensions rq = client_exts cc -> policy_admits e rq) ->
  exists resp proto rq uh xr,
    s_process sc e (c_request cc nonce) = SOpen resp proto [] /\
    resp = utf8_encode (crlf_lines (response_lines sc e (client_key nonce) proto uh xr) ++ CRLF) /\
    (forall q, proto = Some q -> In q (c_protocols cc)) /\
    (xr = [] \/ exists offers s, xr = [s] /\ pmce_accept e offers = Some s) /\
    ((on_connect e rq = CrPlain proto /\ uh = []) \/ on_connect e rq = CrTuple proto uh).
Proof.
  intros H Hpol. pose proof (interop_request_valid cc sc e nonce H) as (Ereq & Ef & Hok).
  pose proof (request_fields_good cc sc e nonce H) as G.
  set (key := client_key nonce) in *. set (text := c_request_text cc key) in *.
  assert (S : split_eoh text = Some (text, [])).
  { unfold text. rewrite request_text_shape. apply split_eoh_lines; [discriminate|]. constructor.
    - destruct H as [_ (Rn & Rne & Rt) _ _ _ _ _ _ _ _ _ _ _]. split.
      + apply text_ok_app; [apply text_okb_ok; reflexivity|]. apply text_ok_app; [assumption|apply text_okb_ok; reflexivity].
      + discriminate.
    - apply Forall_forall. intros x I. apply in_map_iff in I as (kv & <- & I). rewrite Forall_forall in G. split; [apply (G kv I)|apply field_line_nonempty]. }
  apply s_validate_exact in Hok as (rq & key' & V).
  assert (Ek : key' = key).
  { destruct (s_validate_key _ _ _ _ _ V) as (kv & Vk & ->). fold text in Ef. rewrite Ef in Vk.
    destruct (request_vals cc key) as (_ & _ & _ & _ & Vk2 & _); [apply H|]. cbv zeta in Vk2. rewrite Vk2 in Vk. injection Vk as <-.
    assert (Kn : strip key = key) by (apply strip_nospace; apply clean_nospace; apply b64_encode_clean). now rewrite !Kn. }
  subst key'.
  assert (Ep : rq_protocols rq = c_protocols cc).
  { rewrite (s_validate_protocols _ _ _ _ _ V). fold text in Ef. rewrite Ef.
    destruct (request_vals cc key) as (_ & _ & _ & _ & _ & Vp & _); [apply H|]. cbv zeta in Vp. rewrite Vp.
    destruct H as [_ _ _ _ _ _ _ _ _ (Pc & Pne & Pnd) _ _ _].
    destruct (c_protocols cc) as [|p ps] eqn:EP; [reflexivity|]. cbn [is_nil flat_map]. rewrite app_nil_r. rewrite <- EP in *.
    rewrite (strip_nospace _ (nospace_join _ Pc)). apply tokens_join_clean; [rewrite EP; discriminate|assumption]. }
  assert (Ex : rq_extensions rq = client_exts cc).
  { rewrite (s_validate_extensions _ _ _ _ _ V). fold text in Ef. rewrite Ef.
    destruct (request_vals cc key) as (_ & _ & _ & _ & _ & _ & Vx & _); [apply H|]. cbv zeta in Vx. rewrite Vx.
    unfold client_exts. destruct (is_nil (c_offers cc)); reflexivity. }
  assert (O : exists resp p rest, s_process sc e text = SOpen resp p rest).
  { apply s_process_open_iff. exists text, [], rq, key. split; [assumption|]. split; [assumption|]. now apply Hpol. }
  destruct O as (resp & p & rest & O). pose proof O as O2.
  apply s_open_reply in O2 as (h & rq2 & key2 & uh & xr & S2 & V2 & Er & Hp & Hx & Hu).
  rewrite S in S2. injection S2 as <- <-. rewrite V in V2. injection V2 as <- <-.
  exists resp, p, rq, uh, xr. rewrite Ereq. split; [assumption|]. split; [assumption|].
  split; [intros q Hq; rewrite <- Ep; now apply Hp|]. split; [|assumption].
  destruct Hx as [Hx|(offers & s & -> & _ & _ & A)]; [now left|right; now exists offers, s].
Qed.



Definition flatten (hs : list (str * list str)) : list (str * str) :=
  flat_map (fun kv => map (fun v => (fst kv, v)) (snd kv)) hs.

Lemma header_lines_flatten hs : header_lines hs = map field_line (flatten hs).
Proof.
  unfold header_lines, flatten. induction hs as [|[k vs] hs IH]; [reflexivity|]. cbn [flat_map fst snd]. rewrite map_app, <- IH. f_equal.
  induction vs as [|v vs IHv]; [reflexivity|]. cbn [map]. now rewrite IHv.
Qed.

Definition resp_extra_ok (hs : list (str * list str)) : Prop :=
  extra_ok (flatten hs) /\ Forall (fun kv => ascii (field_line kv)) (flatten hs).

Definition resp_fields (c : scfg) (e : env) (key : str) (proto : option str) (uh : list (str * list str)) (xr : list str) : list (str * str) :=
  (if is_nil (s_server c) then [] else [(N_SERVER, s_server c)])
  ++ [(N_UPGRADE, V_WEBSOCKET); (N_CONNECTION, V_UPGRADE)]
  ++ flatten (s_headers c) ++ flatten uh
  ++ match proto with Some p => [(N_PROTOCOL, p)] | None => [] end
  ++ [(N_ACCEPT, accept_of (sha1 e) key)]
  ++ (if is_nil xr then [] else [(N_EXTENSIONS, join [44] xr)]).

Lemma response_lines_fields c e key proto uh xr :
  response_lines c e key proto uh xr = L_101 :: map field_line (resp_fields c e key proto uh xr).
Proof.
  unfold response_lines, resp_fields. rewrite !map_app, !header_lines_flatten.
  destruct (is_nil (s_server c)), proto, (is_nil xr); reflexivity.
Qed.

Lemma response_vals c e key proto uh xr : extra_ok (flatten (s_headers c)) -> extra_ok (flatten uh) ->
  let fs := map norm_field (resp_fields c e key proto uh xr) in
  vals K_UPGRADE fs = [strip V_WEBSOCKET] /\ vals K_CONNECTION fs = [strip V_UPGRADE] /\
  vals K_ACCEPT fs = [strip (accept_of (sha1 e) key)] /\
  vals K_EXTENSIONS fs = (if is_nil xr then [] else [strip (join [44] xr)]) /\
  vals K_PROTOCOL fs = match proto with Some p => [strip p] | None => [] end.
Proof.
  intros H1 H2. cbv zeta. unfold resp_fields.
  assert (X1 : forall k, In k reserved -> vals k (map norm_field (flatten (s_headers c))) = []) by (intros k I; now apply vals_extra).
  assert (X2 : forall k, In k reserved -> vals k (map norm_field (flatten uh)) = []) by (intros k I; now apply vals_extra).
  rewrite !map_app, !vals_app.
  rewrite (X1 K_UPGRADE), (X1 K_CONNECTION), (X1 K_ACCEPT), (X1 K_EXTENSIONS), (X1 K_PROTOCOL),
          (X2 K_UPGRADE), (X2 K_CONNECTION), (X2 K_ACCEPT), (X2 K_EXTENSIONS), (X2 K_PROTOCOL) by (unfold reserved; cbn [In]; tauto).
  destruct (is_nil (s_server c)), proto, (is_nil xr);
    cbn [map]; rewrite ?vals_cons, ?vals_nil; eval_names; cbv iota; cbn [app]; repeat split; reflexivity.
Qed.

Definition client_ext_ok (e : env) (xv : str) (exts : list str) : Prop :=
  (parse_extensions_header xv = [] /\ exts = []) \/
  exists n p, parse_extensions_header xv = [(n, p)] /\ In n pmce_names /\ pmce_response e n p = ExtAccepted /\ exts = [n].

(* the client ends OPEN on the reply its own server renders *)
Theorem interop_client cc sc e key proto uh xr exts :
  text_ok (s_server sc) -> resp_extra_ok (s_headers sc) -> resp_extra_ok uh ->
  (forall q, proto = Some q -> In q (c_protocols cc) /\ clean q /\ q <> []) ->
  ((xr = [] /\ exts = []) \/ exists s, xr = [s] /\ text_ok s /\ client_ext_ok e (strip s) exts) ->
  c_process cc e key (utf8_encode (crlf_lines (response_lines sc e key proto uh xr) ++ CRLF)) = COpen proto exts [].
Proof.
  intros Hs [Hh1 Hh2] [Hu1 Hu2] Hp Hx.
  assert (Ka : clean (accept_of (sha1 e) key)) by apply b64_encode_clean.
  assert (Xt : text_ok (join [44] xr)).
  { destruct Hx as [[-> _]|(s & -> & Ts & _)]; [split; constructor|exact Ts]. }
  assert (Pt : forall q, proto = Some q -> text_ok q) by (intros q Hq; apply clean_text_ok; apply (Hp q Hq)).
  assert (G : Forall field_good (resp_fields sc e key proto uh xr)).
  { unfold resp_fields. repeat (apply Forall_app; split).
    - destruct (is_nil (s_server sc)); [constructor|]. apply Forall_cons; [|apply Forall_nil]. now apply lit_field_ok.
    - repeat (apply Forall_cons; [apply lit_field_ok; [reflexivity|reflexivity|apply text_okb_ok; reflexivity]|]). apply Forall_nil.
    - unfold extra_ok in Hh1. rewrite Forall_forall in *. intros kv I. destruct (Hh1 kv I) as (W & L & _). repeat split; try assumption; try apply W. now apply Hh2.
    - unfold extra_ok in Hu1. rewrite Forall_forall in *. intros kv I. destruct (Hu1 kv I) as (W & L & _). repeat split; try assumption; try apply W. now apply Hu2.
    - destruct proto as [q|]; [|constructor]. apply Forall_cons; [|apply Forall_nil]. apply lit_field_ok; [reflexivity|reflexivity|now apply Pt].
    - apply Forall_cons; [|apply Forall_nil]. apply lit_field_ok; [reflexivity|reflexivity|now apply clean_text_ok].
    - destruct (is_nil xr); [constructor|]. apply Forall_cons; [|apply Forall_nil]. now apply lit_field_ok. }
  assert (Gl : Forall (fun kv => no_lb (field_line kv)) (resp_fields sc e key proto uh xr)) by (eapply Forall_impl; [|exact G]; intros a Ha; apply Ha).
  assert (Gw : Forall field_wf (resp_fields sc e key proto uh xr)) by (eapply Forall_impl; [|exact G]; intros a Ha; apply Ha).
  assert (L0 : text_ok L_101) by (apply text_okb_ok; reflexivity).
  set (text := crlf_lines (response_lines sc e key proto uh xr) ++ CRLF).
  assert (Et : text = crlf_lines (L_101 :: map field_line (resp_fields sc e key proto uh xr)) ++ CRLF) by (unfold text; now rewrite response_lines_fields).
  assert (At : ascii text).
  { rewrite Et. apply ascii_crlf_lines. constructor; [apply L0|]. apply Forall_forall. intros x I. apply in_map_iff in I as (kv & <- & I).
    rewrite Forall_forall in G. apply (G kv I). }
  rewrite (utf8_encode_ascii _ At).
  apply c_process_open_iff. exists text. split.
  { rewrite Et. apply split_eoh_lines; [discriminate|]. constructor; [split; [apply L0|discriminate]|].
    apply Forall_forall. intros x I. apply in_map_iff in I as (kv & <- & I). rewrite Forall_forall in G. split; [apply (G kv I)|apply field_line_nonempty]. }
  destruct (fields_of_rendered L_101 (resp_fields sc e key proto uh xr) (proj1 L0) Gl Gw) as [Ef Es].
  destruct (response_vals sc e key proto uh xr Hh1 Hu1) as (Vu & Vc & Va & Vx & Vp). cbv zeta in Vu, Vc, Va, Vx, Vp.
  unfold client_ok. cbv zeta. subst text. rewrite response_lines_fields.
  match goal with |- context [fields_of ?t] =>
    assert (Ef' : fields_of t = map norm_field (resp_fields sc e key proto uh xr)) by exact Ef;
    assert (Es' : status_line_of t = strip L_101) by exact Es end.
  rewrite Ef', Es', Vu, Vc, Va, Vx, Vp.
  exists HTTP11_S, [49; 48; 49], [lit "Switching"; lit "Protocols"].
  split; [reflexivity|]. split; [reflexivity|]. split; [reflexivity|].
  split; [exists (strip V_WEBSOCKET); split; reflexivity|].
  split; [exists (strip V_UPGRADE), (strip V_UPGRADE); split; [now left|split; [vm_compute; tauto|reflexivity]]|].
  split.
  { eexists. split; [reflexivity|]. rewrite !(strip_nospace _ (clean_nospace _ Ka)). reflexivity. }
  split.
  { destruct Hx as [[-> ->]|(s & -> & Ts & Hc)]; [now left|]. right. cbn [is_nil join]. exists (strip s). split; [reflexivity|]. exact Hc. }
  destruct proto as [q|]; [|now left]. right. destruct (Hp q eq_refl) as (Iq & Cq & Nq).
  exists (strip q). split; [reflexivity|]. right. rewrite !(strip_nospace _ (clean_nospace _ Cq)). repeat split; assumption.
Qed.



(* what the server side must satisfy for its reply to be well formed text the client can read *)
Record interop_server_hyps (sc : scfg) (e : env) : Prop := {
  sh_server : text_ok (s_server sc);
  sh_headers : resp_extra_ok (s_headers sc);
  sh_policy_headers : forall rq p uh, on_connect e rq = CrTuple p uh -> resp_extra_ok uh;
  sh_ext : forall offers s, pmce_accept e offers = Some s -> text_ok s /\ exists exts, client_ext_ok e (strip s) exts
}.

Theorem interop cc sc e nonce :
  interop_hyps cc sc e nonce -> interop_server_hyps sc e ->
  (forall rq, rq_protocols rq = c_protocols cc -> rq_extensions rq = client_exts cc -> policy_admits e rq) ->
  exists resp proto exts,
    s_process sc e (c_request cc nonce) = SOpen resp proto [] /\
    c_process cc e (client_key nonce) resp = COpen proto exts [] /\
    (forall q, proto = Some q -> In q (c_protocols cc)).
Proof.
  intros H Hs Hpol.
  destruct (interop_server cc sc e nonce H Hpol) as (resp & proto & rq & uh & xr & O & -> & Hp & Hx & Hu).
  destruct Hs as [S1 S2 S3 S4].
  assert (Uh : resp_extra_ok uh).
  { destruct Hu as [[_ ->]|Hu]; [split; constructor|]. eapply S3; eassumption. }
  assert (Pq : forall q, proto = Some q -> In q (c_protocols cc) /\ clean q /\ q <> []).
  { intros q Hq. specialize (Hp q Hq). destruct H as [_ _ _ _ _ _ _ _ _ (Pc & Pne & _) _ _ _]. rewrite Forall_forall in Pc, Pne. repeat split; auto. }
  assert (X : exists exts, (xr = [] /\ exts = []) \/ exists s, xr = [s] /\ text_ok s /\ client_ext_ok e (strip s) exts).
  { destruct Hx as [->|(offers & s & -> & A)]; [exists []; now left|]. destruct (S4 offers s A) as (Ts & exts & Hc). exists exts. right. now exists s. }
  destruct X as (exts & X).
  eexists. exists proto, exts. split; [exact O|]. split; [|assumption].
  now apply interop_client.
Qed.

Lemma s_run_single c e d : s_result (s_run c e [d]) = s_process c e d.
Proof. unfold s_run. cbn [fold_left s_feed app]. destruct (s_process c e d); reflexivity. Qed.

Lemma c_run_single c e key d : c_result (c_run c e key [d]) = c_process c e key d.
Proof. unfold c_run. cbn [fold_left c_feed app]. destruct (c_process c e key d); reflexivity. Qed.

(* whatever the read segmentation on either side *)
Theorem interop_runs cc sc e nonce :
  interop_hyps cc sc e nonce -> interop_server_hyps sc e -> s_serve_flash sc = false ->
  (forall rq, rq_protocols rq = c_protocols cc -> rq_extensions rq = client_exts cc -> policy_admits e rq) ->
  exists resp proto exts,
    (forall chunks, concat chunks = c_request cc nonce -> s_result (s_run sc e chunks) = SOpen resp proto []) /\
    (forall chunks, concat chunks = resp -> c_result (c_run cc e (client_key nonce) chunks) = COpen proto exts []) /\
    (forall q, proto = Some q -> In q (c_protocols cc)).
Proof.
  intros H Hs F Hpol. destruct (interop cc sc e nonce H Hs Hpol) as (resp & proto & exts & O1 & O2 & Hp).
  exists resp, proto, exts. split; [|split; [|assumption]].
  - intros chunks E. rewrite (s_run_segmentation sc e chunks F), E, s_run_single. exact O1.
  - intros chunks E. rewrite (c_run_segmentation cc e _ chunks), E, c_run_single. exact O2.
Qed.

(* ---- the request targets exactly the host, port and resource of the factory ---- *)
Theorem request_target_syntax cc key :
  hd [] (c_request_lines cc key) = R_GET ++ c_resource cc ++ R_HTTP11 /\
  In (R_HOST ++ c_host cc ++ [58] ++ dec_of_Z (c_port cc)) (c_request_lines cc key) /\
  (extra_ok (c_headers cc) ->
   vals K_HOST (map norm_field (c_request_fields cc key)) = [strip (c_host cc ++ [58] ++ dec_of_Z (c_port cc))]).
Proof.
  split; [reflexivity|]. split.
  - unfold c_request_lines. apply in_or_app. right. apply in_or_app. right. apply in_or_app. left. now left.
  - intros Hx. now destruct (request_vals cc key Hx).
Qed.

Lemma s_validate_target c e h rq key : s_validate c e h = VOk rq key ->
  exists m u v hv query, split_ws (status_line_of h) = [m; u; v] /\ urlparse_o e u = UriOk (rq_path rq) query [] /\
    parse_qs_o e query = Some (rq_params rq) /\ vals K_HOST (fields_of h) = [hv] /\ host_check (s_external_port c) hv = Some (rq_host rq).
Proof.
  intros H. apply s_validate_ok_inv in H.
  destruct H as (sl & hs & m & u & v & b & query & hostv & hostc & upv & upc & cov & coc & vv & vc & kv & kc &
          Hp & Hsl & _ & _ & _ & Hu & Hq & Hh & Hhc & Hhk & _).
  destruct (hget_fields h sl hs K_HOST Hp) as [-> F].
  assert (Tu : strip u = u /\ u <> []) by (apply (split_ws_token_strip (status_line_of h)); rewrite Hsl; right; now left).
  destruct Tu as [Tu _]. rewrite Tu in Hu.
  exists m, u, v, hostv, query. repeat split; try assumption. rewrite F in Hh. now apply (summary_single _ hostv hostc).
Qed.

Theorem request_target cc sc e nonce rq key : interop_hyps cc sc e nonce ->
  s_validate sc e (c_request_text cc (client_key nonce)) = VOk rq key ->
  rq_host rq = c_host cc /\
  (exists query, urlparse_o e (c_resource cc) = UriOk (rq_path rq) query [] /\ parse_qs_o e query = Some (rq_params rq)) /\
  py_int (strip (dec_of_Z (c_port cc))) = Some (c_port cc).
Proof.
  intros H V. pose proof (interop_request_valid cc sc e nonce H) as (_ & Ef & _).
  apply s_validate_target in V as (m & u & v & hv & query & Hsl & Hu & Hq & Hh & Hc).
  pose proof (request_fields_good cc sc e nonce H) as G.
  destruct H as [_ (Rn & Rne & Rt) _ (Hcl & Hne) Hport _ _ (Hx & _) _ _ _ _ _].
  assert (L0 : text_ok (R_GET ++ c_resource cc ++ R_HTTP11)).
  { apply text_ok_app; [apply text_okb_ok; reflexivity|]. apply text_ok_app; [assumption|apply text_okb_ok; reflexivity]. }
  assert (Gl : Forall (fun kv => no_lb (field_line kv)) (c_request_fields cc (client_key nonce))) by (eapply Forall_impl; [|exact G]; intros a Ha; apply Ha).
  assert (Gw : Forall field_wf (c_request_fields cc (client_key nonce))) by (eapply Forall_impl; [|exact G]; intros a Ha; apply Ha).
  destruct (fields_of_rendered _ _ (proj1 L0) Gl Gw) as [_ Es]. rewrite <- request_text_shape in Es.
  rewrite Es, (request_line_tokens _ Rn Rne) in Hsl. injection Hsl as <- <- <-.
  rewrite Ef in Hh. destruct (request_vals cc (client_key nonce) Hx) as (Vh & _). cbv zeta in Vh. rewrite Vh in Hh. injection Hh as <-.
  destruct (dec_ok _ Hport) as (Pint & Pn & _ & P58 & _).
  assert (HPn : nospace (c_host cc ++ [58] ++ dec_of_Z (c_port cc))).
  { apply nospace_app; [now apply clean_nospace|apply nospace_app; [repeat constructor|assumption]]. }
  change (c_host cc ++ [58] ++ dec_of_Z (c_port cc)) with (c_host cc ++ 58 :: dec_of_Z (c_port cc)) in HPn.
  split.
  - unfold host_check in Hc. rewrite !(strip_nospace _ HPn) in Hc.
    assert (M : memN 58 (c_host cc ++ 58 :: dec_of_Z (c_port cc)) = true) by (apply memN_In; apply in_or_app; right; now left).
    rewrite M in Hc.
    assert (E93 : ends_with_char 93 (c_host cc ++ 58 :: dec_of_Z (c_port cc)) = false).
    { unfold ends_with_char. change (c_host cc ++ 58 :: dec_of_Z (c_port cc)) with (c_host cc ++ [58] ++ dec_of_Z (c_port cc)). rewrite !rev_app_distr. destruct (rev (dec_of_Z (c_port cc))) as [|y r] eqn:R; [reflexivity|]. cbn [app].
      assert (I : In y (dec_of_Z (c_port cc))) by (apply in_rev; rewrite R; now left).
      destruct (N.eqb_spec y 93) as [->|]; [|reflexivity].
      exfalso. pose proof (port_roundtrip _ Hport) as PR. unfold int_dec_ok in PR. apply andb_true_iff in PR as [PR _]. apply andb_true_iff in PR as [_ PR].
      rewrite forallb_forall in PR. specialize (PR 93 I). vm_compute in PR. discriminate. }
    rewrite E93 in Hc. cbn [negb andb] in Hc.
    rewrite (cut_last_app 58 _ _ P58), Pint in Hc.
    destruct (s_external_port sc) as [x|]; [destruct (x =? 0)%Z; [|destruct (c_port cc =? x)%Z]|]; congruence.
  - split; [now exists query|assumption].
Qed.


Theorem parse_url_spec unquote up parts : parse_url unquote up = Some parts ->
  exists scheme host port rawpath query netloc,
    up = UpOk scheme (Some host) port rawpath query [] netloc /\ (scheme = WS_S \/ scheme = WSS_S) /\ host <> [] /\
    u_host parts = host /\ u_secure parts = str_eqb scheme WSS_S /\
    (* the resource keeps the RAW (percent-escaped) path and query, character for character *)
    u_resource parts = (match rawpath with [] => [47] | _ => rawpath end) ++ (match query with [] => [] | _ => 63 :: query end) /\
    u_path parts = unquote (match rawpath with [] => [47] | _ => rawpath end) /\
    (1 <= u_port parts <= 65535)%Z /\
    match port with PortSome p => u_port parts = p | PortNone => u_port parts = (if str_eqb scheme WS_S then 80 else 443)%Z | PortRaises => False end.
Proof.
  unfold parse_url. destruct up as [scheme hostname port path query fragment netloc|]; [|discriminate].
  destruct (mem_str scheme [WS_S; WSS_S]) eqn:M; cbn [negb]; [|discriminate].
  destruct hostname as [[|h0 host]|]; try discriminate.
  destruct fragment; cbn [is_nil negb]; [|discriminate].
  destruct (str_eqb (h0 :: host) UNIX_S); [discriminate|].
  apply mem_str_In in M. cbn [In] in M.
  assert (Sc : scheme = WS_S \/ scheme = WSS_S) by (destruct M as [M|[M|[]]]; subst; tauto).
  assert (R : forall ppath : str, (match query with [] => ppath | _ => ppath ++ [63] ++ query end) = ppath ++ match query with [] => [] | _ => 63 :: query end).
  { intros pp. destruct query; [now rewrite app_nil_r|reflexivity]. }
  destruct port as [|p|]; [| |discriminate].
  - intros H. injection H as <-. exists scheme, (h0 :: host), PortNone, path, query, netloc. cbn [u_host u_secure u_port u_resource u_path].
    repeat split; try assumption; try discriminate; try apply R.
    + destruct (str_eqb scheme WS_S); lia.
    + destruct (str_eqb scheme WS_S); lia.
  - destruct ((p <? 1) || (65535 <? p))%Z eqn:B; [discriminate|]. apply orb_false_iff in B as [B1 B2].
    apply Z.ltb_ge in B1, B2. intros H. injection H as <-. exists scheme, (h0 :: host), (PortSome p), path, query, netloc.
    cbn [u_host u_secure u_port u_resource u_path]. repeat split; try assumption; try discriminate; try apply R.
Qed.



(* ========================================================================================== *)
(* exactness against the RFC 7230 line structure                                              *)

Lemma rfc4_ok_as_lexed c e header : rfc4_ok c e header <-> rfc4_ok_on c e (splitlines header).
Proof. reflexivity. Qed.

Lemma client_ok_as_lexed c e key header proto exts :
  client_ok c e key header proto exts <-> client_ok_on c e key (splitlines header) proto exts.
Proof. reflexivity. Qed.

Lemma linebreak_cases c : is_linebreak c = true -> c = 10 \/ c = 13 \/ In c odd_breaks.
Proof.
  intros H. apply memN_In in H. destruct (N.eqb_spec c 10) as [->|N10]; [now left|]. destruct (N.eqb_spec c 13) as [->|N13]; [right; now left|].
  right. right. unfold odd_breaks. apply filter_In. split; [assumption|].
  apply N.eqb_neq in N10, N13. now rewrite N10, N13.
Qed.

Definition head_not_cr (cur : str) : Prop := match cur with c :: _ => c <> 13 | [] => True end.

Lemma splitlines_rfc_aux n : forall s cur, (length s <= n)%nat -> Forall (fun c => ~ In c odd_breaks) s -> cr_ok s = true ->
  head_not_cr cur -> splitlines_aux cur false s = rfc_lines_aux cur s.
Proof.
  induction n as [|n IH]; intros s cur L F C H.
  - destruct s; [reflexivity|cbn in L; lia].
  - destruct s as [|c r]; [reflexivity|]. inversion F as [|? ? Fc Fr]; subst. cbn [length] in L.
    cbn [splitlines_aux rfc_lines_aux andb].
    destruct (N.eqb_spec c 10) as [->|N10].
    + change (is_linebreak 10) with true. cbv iota. change (10 =? 13) with false.
      assert (D : drop_cr cur = cur).
      { destruct cur as [|x cur]; [reflexivity|]. cbn in H. cbn [drop_cr]. apply N.eqb_neq in H. now rewrite H. }
      rewrite D. f_equal. apply IH; [lia|assumption|exact C|exact I].
    + destruct (N.eqb_spec c 13) as [->|N13].
      * change (is_linebreak 13) with true. cbv iota. change (13 =? 13) with true.
        cbn [cr_ok] in C. change (13 =? 13) with true in C. cbv iota in C.
        destruct r as [|d r']; [discriminate|]. apply andb_true_iff in C as [Ed C]. apply N.eqb_eq in Ed. subst d.
        cbn [splitlines_aux andb]. change (10 =? 10) with true. cbv iota.
        cbn [rfc_lines_aux]. change (10 =? 10) with true. cbv iota. cbn [drop_cr]. change (13 =? 13) with true. cbv iota.
        f_equal. inversion Fr; subst. cbn [cr_ok] in C. change (10 =? 13) with false in C. cbv iota in C.
        apply IH; [cbn [length] in L; lia|assumption|exact C|exact I].
      * assert (NL : is_linebreak c = false).
        { destruct (is_linebreak c) eqn:E; [|reflexivity]. apply linebreak_cases in E as [E|[E|E]]; contradiction. }
        rewrite NL. cbn [cr_ok] in C. apply N.eqb_neq in N13. rewrite N13 in C.
        apply IH; [lia|assumption|exact C|]. cbn. now apply N.eqb_neq.
Qed.

Theorem splitlines_rfc s : crlf_only s -> splitlines s = rfc_lines s.
Proof. intros [F C]. unfold splitlines, rfc_lines. apply (splitlines_rfc_aux (length s)); [lia|assumption|assumption|exact I]. Qed.

Theorem server_exact_rfc_partial c e header : crlf_only header ->
  ((exists rq key, s_validate c e header = VOk rq key) <-> rfc4_ok_on c e (rfc_lines header)).
Proof. intros H. rewrite <- (splitlines_rfc header H). apply s_validate_exact. Qed.

Theorem client_exact_rfc_partial c e key data proto exts rest :
  (forall h, split_eoh data = Some (h, rest) -> crlf_only h) ->
  (c_process c e key data = COpen proto exts rest <->
   exists h, split_eoh data = Some (h, rest) /\ client_ok_on c e key (rfc_lines h) proto exts).
Proof.
  intros H. rewrite c_process_open_iff. split; intros (h & S & K); exists h; (split; [assumption|]).
  - rewrite <- (splitlines_rfc h (H h S)). exact K.
  - rewrite <- (splitlines_rfc h (H h S)) in K. exact K.
Qed.

(* ---- the full-strength statements are false: octets that RFC 7230 treats as field content end a line for the code ---- *)
Definition W_TABLES : tables :=
  {| t_uri := [(lit "/", UriOk (lit "/") [] [])]; t_qs := [([], Some [])]; t_split := []; t_hl := []; t_offer := [];
     t_accept := None; t_response := [] |}.
Definition W_SCFG : scfg :=
  {| s_flavour := Tx; s_versions := supported_protocol_versions; s_web_status := true; s_external_port := None; s_allowed_origins := [[42]];
     s_allow_null_origin := true; s_max_connections := 0; s_count_connections := 1; s_serve_flash := false; s_server := []; s_headers := [] |}.
(* no Sec-WebSocket-Key field: the key sits inside the Cookie value, after NEL (0x85) *)
Definition W_REQUEST : str :=
  lit "GET / HTTP/1.1" ++ CRLF ++ lit "Host: localhost:9000" ++ CRLF ++ lit "Upgrade: websocket" ++ CRLF ++ lit "Connection: Upgrade" ++ CRLF
  ++ lit "Cookie: a=b" ++ [133] ++ lit "Sec-WebSocket-Key: dGhlIHNhbXBsZSBub25jZQ==" ++ CRLF ++ lit "Sec-WebSocket-Version: 13" ++ CRLF ++ CRLF.

Theorem server_exact_rfc_refuted :
  exists c e header, ~ ((exists rq key, s_validate c e header = VOk rq key) <-> rfc4_ok_on c e (rfc_lines header)).
Proof.
  exists W_SCFG, (run_env W_TABLES PNone), W_REQUEST. intros [HAB _].
  assert (A : exists rq key, s_validate W_SCFG (run_env W_TABLES PNone) W_REQUEST = VOk rq key) by (vm_compute; eexists; eexists; reflexivity).
  apply HAB in A. destruct A as (m & u & v & ver & _ & _ & _ & _ & _ & _ & _ & _ & _ & _ & (kv & Hk & _) & _).
  vm_compute in Hk. discriminate.
Qed.

Definition W_CCFG : ccfg :=
  {| c_host := lit "localhost"; c_port := 9000%Z; c_resource := [47]; c_useragent := []; c_origin := []; c_protocols := []; c_headers := [];
     c_version := default_spec_version; c_offers := [] |}.
Definition W_KEY : str := lit "dGhlIHNhbXBsZSBub25jZQ==".
(* no Sec-WebSocket-Accept field: the digest sits inside another field's value, after FS (0x1c) *)
Definition W_REPLY : str :=
  lit "HTTP/1.1 101 Switching Protocols" ++ CRLF ++ lit "Upgrade: websocket" ++ CRLF ++ lit "Connection: Upgrade" ++ CRLF
  ++ lit "X-Info: a" ++ [28] ++ lit "Sec-WebSocket-Accept: s3pPLMBiTxaQ9kYGzzhZRbK+xOo=" ++ CRLF ++ CRLF.

Theorem client_exact_rfc_refuted :
  exists c e key data proto exts rest,
    ~ (c_process c e key data = COpen proto exts rest <->
       exists h, split_eoh data = Some (h, rest) /\ client_ok_on c e key (rfc_lines h) proto exts).
Proof.
  exists W_CCFG, (run_env W_TABLES PNone), W_KEY, W_REPLY, None, [], []. intros [HAB _].
  assert (A : c_process W_CCFG (run_env W_TABLES PNone) W_KEY W_REPLY = COpen None [] []) by (vm_compute; reflexivity).
  apply HAB in A. destruct A as (h & S & ver & code & more & _ & _ & _ & _ & _ & (av & Ha & _) & _).
  assert (E : h = W_REPLY) by (vm_compute in S; injection S as <-; reflexivity). subst h.
  vm_compute in Ha. discriminate.
Qed.

(* the witnesses are exactly the excluded case of the partial theorems *)
Lemma witnesses_not_crlf_only : ~ crlf_only W_REQUEST /\ ~ crlf_only W_REPLY.
Proof.
  split; intros [F _]; rewrite Forall_forall in F.
  - apply (F 133); vm_compute; tauto.
  - apply (F 28); vm_compute; tauto.
Qed.

(* ========================================================================================== *)
(* connection limit over several connections                                                  *)

Definition is_open (s : conn_status) : bool := match s with KOpen => true | KGone => false end.

Lemma n_open_app a b : n_open (a ++ b) = n_open a + n_open b.
Proof. unfold n_open. rewrite filter_app, app_length. lia. Qed.

Lemma n_open_set_gone k l : nth_error l k = Some KOpen -> n_open (set_gone k l) + 1 = n_open l.
Proof.
  revert k; induction l as [|x l IH]; intros k H; [destruct k; discriminate|].
  destruct k as [|k]; cbn [nth_error] in H.
  - injection H as ->. cbn [set_gone]. unfold n_open. cbn [filter is_open length]. lia.
  - cbn [set_gone]. specialize (IH k H). unfold n_open in *. cbn [filter]. destruct x; cbn [length]; lia.
Qed.

Theorem f_run_invariant mx ops :
  let st := f_run mx ops in
  f_count st = n_open (f_conns st) /\ (0 < mx -> n_open (f_conns st) <= mx).
Proof.
  cbv zeta. unfold f_run.
  assert (G : forall st, (f_count st = n_open (f_conns st) /\ (0 < mx -> n_open (f_conns st) <= mx)) ->
              let st' := fold_left (f_step mx) ops st in f_count st' = n_open (f_conns st') /\ (0 < mx -> n_open (f_conns st') <= mx)).
  { induction ops as [|o ops IH]; intros st H; [exact H|]. cbn [fold_left]. apply IH. destruct H as [Hc Hm].
    destruct o as [|k]; cbn [f_step].
    - destruct ((0 <? mx) && (mx <? f_count st + 1)) eqn:B; cbn [f_count f_conns]; rewrite n_open_app.
      + change (n_open [KGone]) with 0. split; [lia|]. intros P. specialize (Hm P). lia.
      + change (n_open [KOpen]) with 1. split; [lia|]. intros P. apply andb_false_iff in B as [B|B].
        * apply N.ltb_ge in B. lia.
        * apply N.ltb_ge in B. lia.
    - destruct (nth_error (f_conns st) k) as [[|]|] eqn:E; [|exact (conj Hc Hm)|exact (conj Hc Hm)].
      cbn [f_count f_conns]. pose proof (n_open_set_gone k _ E). split; [lia|]. intros P. specialize (Hm P). lia. }
  apply G. cbn. split; [reflexivity|]. intros _. apply N.le_0_l.
Qed.



(* ========================================================================================== *)
(* the origin as a triple (scheme, host, port-or-absent)                                       *)

Lemma uint_digits_inj d1 : forall d2, uint_digits d1 = uint_digits d2 -> d1 = d2.
Proof.
  induction d1; intros d2 H; destruct d2; cbn in H; try discriminate; try reflexivity;
    injection H as H; f_equal; auto.
Qed.

Lemma N_to_uint_inj a b : N.to_uint a = N.to_uint b -> a = b.
Proof. intros H. rewrite <- (Unsigned.of_to a), <- (Unsigned.of_to b). now rewrite H. Qed.

Lemma dec_of_N_inj a b : dec_of_N a = dec_of_N b -> a = b.
Proof. unfold dec_of_N. intros H. now apply N_to_uint_inj, uint_digits_inj. Qed.

Lemma uint_digits_chars d : Forall (fun c => 48 <= c <= 57) (uint_digits d).
Proof. induction d; cbn; constructor; (lia || assumption). Qed.

Lemma dec_of_N_no_minus n r : dec_of_N n <> 45 :: r.
Proof.
  intros H. pose proof (uint_digits_chars (N.to_uint n)) as F. unfold dec_of_N in H. rewrite H in F. inversion F; subst. lia.
Qed.

(* str(int) is injective: different port numbers render differently *)
Theorem dec_of_Z_inj a b : dec_of_Z a = dec_of_Z b -> a = b.
Proof.
  unfold dec_of_Z. destruct a as [|p|p], b as [|q|q]; intros H;
    try (exfalso; eapply dec_of_N_no_minus; (exact H || (symmetry; exact H)));
    try (injection H as H); apply dec_of_N_inj in H; cbn in H; congruence.
Qed.

Lemma dec_of_Z_not_None z : dec_of_Z z <> NONE_S.
Proof.
  unfold dec_of_Z, NONE_S. destruct z; intros H.
  - pose proof (uint_digits_chars (N.to_uint (Z.to_N 0))) as F. unfold dec_of_N in H. rewrite H in F. inversion F; subst. lia.
  - pose proof (uint_digits_chars (N.to_uint (Z.to_N (Z.pos p)))) as F. unfold dec_of_N in H. rewrite H in F. inversion F; subst. lia.
  - discriminate.
Qed.

Definition port_text (p : option Z) : str := match p with Some z => dec_of_Z z | None => NONE_S end.

Lemma port_text_inj p q : port_text p = port_text q -> p = q.
Proof.
  destruct p as [a|], q as [b|]; cbn; intros H.
  - f_equal. now apply dec_of_Z_inj.
  - exfalso. now apply (dec_of_Z_not_None a).
  - exfalso. now apply (dec_of_Z_not_None b).
  - reflexivity.
Qed.

Lemma port_text_no_colon p : ~ In 58 (port_text p).
Proof.
  destruct p as [z|]; cbn.
  - unfold dec_of_Z. destruct z; intros I.
    + pose proof (uint_digits_chars (N.to_uint (Z.to_N 0))) as F. rewrite Forall_forall in F. specialize (F _ I). lia.
    + pose proof (uint_digits_chars (N.to_uint (Z.to_N (Z.pos p)))) as F. rewrite Forall_forall in F. specialize (F _ I). lia.
    + destruct I as [I|I]; [discriminate|]. pose proof (uint_digits_chars (N.to_uint (N.pos p))) as F. rewrite Forall_forall in F. specialize (F _ I). lia.
  - unfold NONE_S. cbn. intuition discriminate.
Qed.

Lemma port_text_no_star p : ~ In 42 (port_text p).
Proof.
  destruct p as [z|]; cbn.
  - unfold dec_of_Z. destruct z; intros I.
    + pose proof (uint_digits_chars (N.to_uint (Z.to_N 0))) as F. rewrite Forall_forall in F. specialize (F _ I). lia.
    + pose proof (uint_digits_chars (N.to_uint (Z.to_N (Z.pos p)))) as F. rewrite Forall_forall in F. specialize (F _ I). lia.
    + destruct I as [I|I]; [discriminate|]. pose proof (uint_digits_chars (N.to_uint (N.pos p))) as F. rewrite Forall_forall in F. specialize (F _ I). lia.
  - unfold NONE_S. cbn. intuition discriminate.
Qed.

Lemma origin_header_shape sc h p : origin_header sc h p = sc ++ 58 :: [47; 47] ++ h ++ 58 :: port_text p.
Proof. unfold origin_header, port_text. destruct p; reflexivity. Qed.

(* same scheme and host: the rendered origins differ as soon as the ports differ (explicit 0, explicit default, absent ...) *)
Theorem origin_header_port_inj sc h p q : origin_header sc h p = origin_header sc h q -> p = q.
Proof.
  rewrite !origin_header_shape. intros H. apply app_inv_head in H. injection H as H.
  apply app_inv_head in H. injection H as H. now apply port_text_inj.
Qed.

(* the rendering determines the whole triple (schemes and host names without ':', i.e. not bracket-less IPv6 literals) *)
Theorem origin_header_inj sc h p sc' h' p' :
  ~ In 58 sc -> ~ In 58 sc' -> ~ In 58 h -> ~ In 58 h' ->
  origin_header sc h p = origin_header sc' h' p' -> sc = sc' /\ h = h' /\ p = p'.
Proof.
  intros N1 N2 N3 N4. rewrite !origin_header_shape. intros H.
  assert (C : cut_first 58 (sc ++ 58 :: [47; 47] ++ h ++ 58 :: port_text p) = cut_first 58 (sc' ++ 58 :: [47; 47] ++ h' ++ 58 :: port_text p')) by now rewrite H.
  rewrite !cut_first_app in C by assumption. injection C as -> C.
  assert (C2 : cut_first 58 (h ++ 58 :: port_text p) = cut_first 58 (h' ++ 58 :: port_text p')) by now rewrite C.
  rewrite !cut_first_app in C2 by assumption. injection C2 as -> C2. repeat split. now apply port_text_inj.
Qed.

(* a star-free allow-list entry that spells out (scheme', host', port') admits exactly that triple: the port is compared too,
   an explicit port never equals another one and never equals "absent" *)
Theorem same_origin_literal_triple sc h p sc' h' p' :
  ~ In 58 sc -> ~ In 58 sc' -> ~ In 58 h -> ~ In 58 h' -> ~ In 42 sc' -> ~ In 42 h' ->
  (is_same_origin (OTriple sc h p) [origin_header sc' h' p'] = true <-> sc = sc' /\ h = h' /\ p = p').
Proof.
  intros N1 N2 N3 N4 S1 S2. rewrite is_same_origin_spec. split.
  - intros (pat & [<-|[]] & W). apply wild_spec_no_star in W.
    + now apply origin_header_inj.
    + rewrite origin_header_shape. intros I. apply in_app_or in I as [I|I]; [contradiction|].
      destruct I as [I|I]; [discriminate|]. cbn [app] in I. destruct I as [I|[I|I]]; try discriminate.
      apply in_app_or in I as [I|I]; [contradiction|]. destruct I as [I|I]; [discriminate|]. now apply (port_text_no_star p').
  - intros (-> & -> & ->). exists (origin_header sc' h' p'). split; [now left|].
    assert (G : forall s, ~ In 42 s -> wild_spec s s).
    { induction s as [|c s IH]; intros Hs; [constructor|]. constructor; [intros ->; apply Hs; now left|]. apply IH. intros I. apply Hs. now right. }
    apply G. rewrite origin_header_shape. intros I. apply in_app_or in I as [I|I]; [contradiction|].
    destruct I as [I|I]; [discriminate|]. cbn [app] in I. destruct I as [I|[I|I]]; try discriminate.
    apply in_app_or in I as [I|I]; [contradiction|]. destruct I as [I|I]; [discriminate|]. now apply (port_text_no_star p').
Qed.

(* _url_to_origin as a function of what urlsplit reports: the port component is the explicit port verbatim - also 0 -,
   the scheme's default only when the port is ABSENT, and nothing at all when urlsplit refuses the port *)
Theorem url_to_origin_triple us url sc h p :
  url_to_origin us url = Some (OTriple sc h p) <->
  lower url <> NULL_S /\
  exists sc0 pr, us url = UsOk sc0 (Some h) pr /\ sc = lower sc0 /\ sc <> FILE_S /\ h <> [] /\
    ((exists q, pr = PortSome q /\ p = Some q) \/ (pr = PortNone /\ p = default_port sc)).
Proof.
  unfold url_to_origin. split.
  - destruct (str_eqb (lower url) NULL_S) eqn:E1; [discriminate|]. apply str_eqb_neq in E1.
    destruct (us url) as [sc0 hn pr|] eqn:U; [|discriminate].
    destruct (str_eqb (lower sc0) FILE_S) eqn:E2; [discriminate|]. apply str_eqb_neq in E2.
    destruct pr as [|q|]; cbn [origin_port]; try discriminate; destruct hn as [[|c hh]|]; try discriminate; intros H; injection H as <- <- <-;
      (split; [assumption|]); do 2 eexists; (split; [reflexivity|]); repeat split; try assumption; try discriminate.
    + now right.
    + left. now exists q.
  - intros (E1 & sc0 & pr & U & -> & E2 & Hh & Hp). apply str_eqb_neq in E1, E2. rewrite E1, U, E2.
    destruct Hp as [(q & -> & ->)|[-> ->]]; cbn [origin_port]; destruct h; try contradiction; reflexivity.
Qed.

Theorem url_to_origin_none_on_bad_port us url sc0 hn : lower url <> NULL_S -> us url = UsOk sc0 hn PortRaises -> lower sc0 <> FILE_S ->
  url_to_origin us url = None.
Proof. intros E1 U E2. unfold url_to_origin. apply str_eqb_neq in E1, E2. now rewrite E1, U, E2. Qed.



(* ========================================================================================== *)
(* configuration plumbing                                                                     *)

Lemma set_no_update c : set_protocol_options c no_update = c.
Proof. destruct c; reflexivity. Qed.

(* calls that name no handshake option leave the configuration - hence every verdict - unchanged *)
Theorem configure_unrelated c calls : Forall (fun u => u = no_update) calls -> configure c calls = c.
Proof.
  unfold configure. revert c; induction calls as [|u r IH]; intros c H; [reflexivity|].
  inversion H as [|? ? Hu Hr]; subst. cbn [fold_left]. rewrite set_no_update. now apply IH.
Qed.

Theorem verdict_unrelated c calls e chunks : Forall (fun u => u = no_update) calls ->
  s_run (configure c calls) e chunks = s_run c e chunks.
Proof. intros H. now rewrite configure_unrelated. Qed.

(* unrelated calls may be interleaved anywhere *)
Theorem configure_insert_unrelated c a b : configure c (a ++ no_update :: b) = configure c (a ++ b).
Proof. unfold configure. rewrite !fold_left_app. cbn [fold_left]. now rewrite set_no_update. Qed.

(* each option ends up with the value of the LAST call that names it, otherwise keeps its old value; the other options of a
   call do not matter *)
Theorem configure_fields c calls :
  s_versions (configure c calls) = last_named up_versions calls (s_versions c) /\
  s_web_status (configure c calls) = last_named up_web_status calls (s_web_status c) /\
  s_allowed_origins (configure c calls) = last_named up_allowed_origins calls (s_allowed_origins c) /\
  s_allow_null_origin (configure c calls) = last_named up_allow_null_origin calls (s_allow_null_origin c) /\
  s_max_connections (configure c calls) = last_named up_max_connections calls (s_max_connections c) /\
  s_serve_flash (configure c calls) = last_named up_serve_flash calls (s_serve_flash c) /\
  s_flavour (configure c calls) = s_flavour c /\ s_external_port (configure c calls) = s_external_port c /\
  s_count_connections (configure c calls) = s_count_connections c /\ s_server (configure c calls) = s_server c /\
  s_headers (configure c calls) = s_headers c.
Proof.
  unfold configure. revert c; induction calls as [|u r IH]; intros c; [cbn; repeat split|].
  cbn [fold_left last_named]. specialize (IH (set_protocol_options c u)). cbn [set_protocol_options s_versions s_web_status
    s_allowed_origins s_allow_null_origin s_max_connections s_serve_flash s_flavour s_external_port s_count_connections s_server s_headers] in IH.
  exact IH.
Qed.
