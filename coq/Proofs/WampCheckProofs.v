(* check (marshal m) = None  under fields_ok: every check of parse() passes on what marshal() wrote. *)
From Coq Require Import NArith ZArith List Bool String Lia.
From AV Require Import Model.WampValue Model.WampSchema Proofs.WampDictProofs Proofs.WampLayoutProofs Proofs.WampWfProofs Proofs.WampExtractProofs.
Import ListNotations.
Open Scope list_scope.

Lemma andthen_none : forall a b, a = None -> (a ;; b) = b.
Proof. intros a b ->. reflexivity. Qed.

Lemma chk_all_none : forall {A} (f : A -> chk) l, (forall x, In x l -> f x = None) -> chk_all f l = None.
Proof. induction l; simpl; intros H; auto. rewrite H by auto. simpl. apply IHl. intros; apply H; auto. Qed.

Lemma chk_ok_none : forall c, chk_ok c = true -> c = None.
Proof. destruct c; simpl; intros; [discriminate|reflexivity]. Qed.

Lemma require_true : forall b e, b = true -> require b e = None.
Proof. intros b e ->. reflexivity. Qed.

Section Main.
  Variable uri_ok : uri_fl -> str -> bool.
  Variable custom_ok : str -> bool.

  (* ---- options ---- *)
  Lemma check_opts_aux : forall all nall specs vals pre post,
    List.length vals = List.length specs ->
    NoDup (okeys specs) ->
    (forall k, In k (okeys specs) -> dget k pre = None) ->
    (forall k, In k (okeys specs) -> dget k post = None) ->
    opts_ok_aux uri_ok all nall specs vals = true ->
    chk_all (check_opt uri_ok nall (pre ++ emit_aux all specs vals ++ post)) specs = None.
  Proof.
    induction specs as [|o specs IH]; intros vals pre post Hlen Hnd Hpre Hpost Hok; [reflexivity|].
    destruct vals as [|v vals]; [discriminate|]. simpl in Hlen. injection Hlen as Hlen.
    inversion Hnd as [|? ? Hnotin Hnd']; subst.
    simpl in Hok. apply andb_true_iff in Hok. destruct Hok as [Hh Hok].
    simpl chk_all. rewrite andthen_none.
    - simpl emit_aux.
      replace (pre ++ ((if holds all o v then [(KS (s2l (o_key o)), v)] else []) ++ emit_aux all specs vals) ++ post)
        with ((pre ++ (if holds all o v then [(KS (s2l (o_key o)), v)] else [])) ++ emit_aux all specs vals ++ post)
        by (rewrite <- !app_assoc; reflexivity).
      apply IH; auto.
      + intros k Hk. rewrite dget_app. rewrite Hpre by (simpl; auto).
        destruct (holds all o v); simpl; auto.
        rewrite str_eqb_neq; auto. intros ->. contradiction.
      + intros k Hk. apply Hpost. simpl; auto.
    - unfold check_opt. rewrite dget_app. rewrite (Hpre (s2l (o_key o))) by (simpl; auto).
      simpl emit_aux. rewrite <- app_assoc. rewrite dget_app.
      destruct (holds all o v).
      + simpl. rewrite str_eqb_refl. destruct (okind_check uri_ok (o_kind o) v); [discriminate|reflexivity].
      + simpl. rewrite dget_app. rewrite dget_emit_aux_notin by exact Hnotin.
        rewrite (Hpost (s2l (o_key o))) by (simpl; auto).
        destruct (o_reqif o); [|reflexivity]. apply require_true. exact Hh.
  Qed.

  Lemma check_opts_emit : forall specs vals pre post,
    List.length vals = List.length specs ->
    NoDup (okeys specs) ->
    (forall k, In k (okeys specs) -> dget k pre = None) ->
    (forall k, In k (okeys specs) -> dget k post = None) ->
    opts_ok uri_ok specs vals = true ->
    check_opts uri_ok specs (pre ++ emit specs vals ++ post) = None.
  Proof.
    intros. unfold check_opts, ovals, emit. rewrite ovals_emit_aux by auto.
    apply check_opts_aux; auto.
  Qed.

  (* ---- positional slots ---- *)
  Lemma check_slots_marshal : forall od sl pos dv tail,
    List.length pos = nfields sl ->
    pos_ok uri_ok od sl pos = true ->
    check_extra dv = None ->
    check_slots uri_ok od sl (marshal_slots sl pos (Some dv) ++ tail) = None.
  Proof.
    induction sl as [|[a k|] sl IH]; intros pos dv tail L P E.
    - reflexivity.
    - rewrite nfields_cons_field in L. destruct pos as [|p pos]; [discriminate|].
      simpl in P. apply andb_true_iff in P. destruct P as [P1 P2].
      simpl. destruct (pkind_check uri_ok od k p); [discriminate|]. simpl.
      apply IH; auto; simpl in L; lia.
    - simpl. rewrite E. simpl. apply IH; auto.
  Qed.

  Lemma check_slots_no_opts : forall od sl pos dictv tail,
    no_opts sl = true ->
    List.length pos = nfields sl ->
    pos_ok uri_ok od sl pos = true ->
    check_slots uri_ok od sl (marshal_slots sl pos dictv ++ tail) = None.
  Proof.
    induction sl as [|[a k|] sl IH]; intros pos dictv tail N L P.
    - reflexivity.
    - rewrite nfields_cons_field in L. destruct pos as [|p pos]; [discriminate|].
      simpl in P. apply andb_true_iff in P. destruct P as [P1 P2].
      simpl. destruct (pkind_check uri_ok od k p); [discriminate|]. simpl.
      apply IH; auto; simpl in L; lia.
    - discriminate.
  Qed.

  Lemma check_slots_none_last : forall od fs pos,
    no_opts fs = true ->
    List.length pos = nfields fs ->
    pos_ok uri_ok od fs pos = true ->
    check_slots uri_ok od (fs ++ [SOpts]) (marshal_slots fs pos None) = None.
  Proof.
    induction fs as [|[a k|] fs IH]; intros pos N L P.
    - reflexivity.
    - rewrite nfields_cons_field in L. destruct pos as [|p pos]; [discriminate|].
      simpl in P. apply andb_true_iff in P. destruct P as [P1 P2].
      simpl. destruct (pkind_check uri_ok od k p); [discriminate|]. simpl.
      apply IH; auto; simpl in L; lia.
    - discriminate.
  Qed.

  Lemma pos_ok_app_opts : forall od fs pos, pos_ok uri_ok od (fs ++ [SOpts]) pos = pos_ok uri_ok od fs pos.
  Proof. induction fs as [|[a k|] fs IH]; simpl; intros; auto. rewrite IH. reflexivity. Qed.

  (* ---- the marshalled dict has string keys only ---- *)
  Lemma keys_all_str_custom : forall cs, forallb (is_custom_key custom_ok) cs = true -> keys_all_str cs = true.
  Proof.
    induction cs as [|[[k|] v] cs IH]; simpl; intros H; auto.
    apply andb_true_iff in H. destruct H. auto.
  Qed.

  Lemma keys_all_str_emit_nn : forall k v, keys_all_str (emit_nn k v) = true.
  Proof. intros. unfold emit_nn. destruct (is_null v); reflexivity. Qed.

  Lemma keys_all_str_marshal_dict : forall s m, shape_ok custom_ok s m = true ->
    keys_all_str (marshal_dict s m) = true.
  Proof.
    intros s m Hs. destruct (shape_ok_inv _ _ _ Hs) as (_ & _ & _ & _ & Hck).
    unfold marshal_dict, emit. destruct (s_special s).
    - rewrite keys_all_str_app, keys_all_str_emit_aux. simpl.
      destruct (s_payload s); [|reflexivity]. unfold emit_enc.
      destruct (truthy (p_payload (m_pl m))); [|reflexivity].
      rewrite !keys_all_str_app, !keys_all_str_emit_nn. reflexivity.
    - simpl. apply keys_all_str_emit_aux.
    - rewrite !keys_all_str_app, keys_all_str_emit_aux, (keys_all_str_custom _ Hck). reflexivity.
  Qed.

  (* ---- payload ---- *)
  Lemma check_pl_marshal : forall pc od p,
    (if truthy (p_payload p) then is_payload_type pc (p_payload p)
     else if truthy (p_kwargs p) then true
     else if truthy (p_args p) then negb (is_payload_type pc (p_args p)) else true) = true ->
    (truthy (p_payload p) = true ->
       getn "enc_algo" od = p_enc_algo p /\ getn "enc_key" od = p_enc_key p /\ getn "enc_serializer" od = p_enc_ser p) ->
    pl_fields_ok custom_ok pc p = true ->
    check_pl custom_ok pc od (marshal_tail p) = None.
  Proof.
    intros pc od p Hs He Hf. unfold pl_fields_ok in Hf. apply andb_true_iff in Hf. destruct Hf as [Hf _].
    unfold check_pl, marshal_tail.
    destruct (truthy (p_payload p)) eqn:Tp.
    - simpl payload_mode. rewrite Hs. destruct (He eq_refl) as [E1 [E2 E3]]. rewrite E1, E2, E3.
      rewrite !andb_true_iff in Hf. destruct Hf as [[H1 H2] H3].
      rewrite H1, H2, H3. reflexivity.
    - destruct (truthy (p_kwargs p)) eqn:Tk.
      + simpl. apply andb_true_iff in Hf. destruct Hf as [H1 H2].
        rewrite (chk_ok_none _ H1), (chk_ok_none _ H2). reflexivity.
      + destruct (truthy (p_args p)) eqn:Ta.
        * simpl payload_mode. apply negb_true_iff in Hs. rewrite Hs.
          rewrite (chk_ok_none _ Hf). reflexivity.
        * reflexivity.
  Qed.

  (* ---- roles ---- *)
  Lemma find_role_in : forall cfg name feats, find_role cfg name = Some feats -> exists n, In (n, feats) cfg.
  Proof.
    induction cfg as [|[n fs] cfg IH]; intros name feats E; [discriminate|].
    cbn [find_role] in E. destruct (str_eqb name (s2l n)).
    - injection E as <-. exists n. left. reflexivity.
    - destruct (IH _ _ E) as [n' Hin]. exists n'. right. exact Hin.
  Qed.

  Lemma cfg_wf_noself : forall cfg, cfg_wf cfg = true ->
    forall name feats, find_role cfg name = Some feats -> ~ In (s2l "self") (map s2l feats).
  Proof.
    intros cfg H name feats E. destruct (find_role_in _ _ _ E) as [n Hin].
    unfold cfg_wf in H. rewrite forallb_forall in H. specialize (H _ Hin). cbn [snd] in H.
    apply andb_true_iff in H. destruct H as [_ H]. apply negb_true_iff in H.
    intros Hs. assert (X : existsb (str_eqb (s2l "self")) (map s2l feats) = true).
    { apply existsb_exists. exists (s2l "self"). split; [exact Hs | apply str_eqb_refl]. }
    rewrite X in H. discriminate.
  Qed.

  Lemma check_role_marshal_role : forall cfg r, cfg_wf cfg = true ->
    role_shape_ok cfg r = true -> role_ok uri_ok cfg r = true ->
    check_role uri_ok cfg (marshal_role cfg r) = None.
  Proof.
    intros cfg [k vals] Hcfg Hs Hr. unfold role_shape_ok in Hs. unfold role_ok in Hr. simpl in Hs, Hr.
    destruct k as [name|]; [|discriminate].
    destruct (find_role cfg name) as [feats|] eqn:Ef; [|discriminate].
    apply Nat.eqb_eq in Hs.
    unfold check_role, marshal_role. simpl. rewrite Ef.
    destruct (is_nil (emit (role_specs feats) vals)) eqn:En.
    - reflexivity.
    - simpl. unfold emit at 1. rewrite keys_all_str_emit_aux. simpl.
      unfold has_key.
      assert (Hself : dget (s2l "self") (emit (role_specs feats) vals) = None).
      { apply dget_emit_aux_notin. rewrite okeys_role_specs. eapply cfg_wf_noself; eauto. }
      rewrite Hself. simpl.
      pose proof (check_opts_emit (role_specs feats) vals [] []) as C. simpl in C. rewrite app_nil_r in C.
      apply C; auto.
      + unfold role_specs. rewrite map_length. exact Hs.
      + rewrite okeys_role_specs. apply nodupb_NoDup. eapply cfg_wf_nodup; eauto.
  Qed.

  Lemma check_roles_marshal : forall s m,
    wf_schema custom_ok s = true -> shape_ok custom_ok s m = true -> s_special s <> SpNone ->
    negb (is_nil (m_roles m)) = true ->
    forallb (role_ok uri_ok (roles_cfg (s_special s))) (m_roles m) = true ->
    check_roles uri_ok (roles_cfg (s_special s)) (marshal_dict s m) = None.
  Proof.
    intros s m Hwf Hs Hsp Hne Hro.
    destruct (wf_schema_inv _ _ Hwf) as (_ & _ & _ & _ & Hcfg & _).
    destruct (shape_ok_inv _ _ _ Hs) as (_ & _ & _ & Hrs & _).
    unfold check_roles. rewrite (roles_marshal_dict custom_ok s m Hwf Hs Hsp).
    unfold marshal_roles. simpl check_extra.
    assert (Hk : keys_all_str (map (marshal_role (roles_cfg (s_special s))) (m_roles m)) = true).
    { unfold keys_all_str. rewrite forallb_forall. intros kv Hin. apply in_map_iff in Hin.
      destruct Hin as [r [<- Hin]]. rewrite forallb_forall in Hro. specialize (Hro r Hin).
      unfold role_ok in Hro. unfold marshal_role. simpl. destruct (fst r); [reflexivity|discriminate]. }
    rewrite Hk.
    assert (Hn : negb (is_nil (map (marshal_role (roles_cfg (s_special s))) (m_roles m))) = true).
    { destruct (m_roles m); [discriminate|reflexivity]. }
    rewrite Hn. simpl.
    apply chk_all_none. intros kv Hin. apply in_map_iff in Hin.
    destruct Hin as [r [<- Hin]]. rewrite forallb_forall in Hro, Hrs.
    apply check_role_marshal_role; auto.
  Qed.
End Main.
