(* C01 join, part 1 -- one ENCODED frame in front of the receiver-side declarative judge.
   WsFrame.encode_frame (sender side, Model/WsFrame.v) against WsRecv.judge_frame (receiver side, Model/WsRecv.v):
   the judge cuts header, extended length, masking key and payload out of the octets exactly as they were put in
   (judge_encoded), and a header built from RSV = 0, a known opcode and the role's mask bit breaks no header rule
   (header_good).  Nothing here is about the implementation; both sides are the declarative references. *)
From Coq Require Import NArith ZArith List Bool Lia PeanoNat.
From AV Require Import Model.Masker Proofs.MaskerProofs Model.WsFrame Model.WsSend Proofs.WsSendProofs.
From AV Require Model.WsRecv.
Import ListNotations.
Open Scope N_scope.
Ltac Zify.zify_post_hook ::= Z.to_euclidean_division_equations.

Lemma b0_bits fin op : op = 0 \/ op = 1 \/ op = 2 \/ op = 8 \/ op = 9 \/ op = 10 ->
  let b0 := byte0 fin 0 op in
  WsRecv.bit b0 7 = fin /\ WsRecv.bit b0 6 = false /\ WsRecv.bit b0 5 = false /\ WsRecv.bit b0 4 = false /\
  b0 mod 16 = op /\ b0 < 256.
Proof. intros H; destruct fin; decompose [or] H; subst; vm_compute; repeat split. Qed.

Lemma b1_bits l7 : l7 < 128 ->
  WsRecv.bit (128 + l7) 7 = true /\ (128 + l7) mod 128 = l7 /\ WsRecv.bit l7 7 = false /\ l7 mod 128 = l7.
Proof.
  intros H. unfold WsRecv.bit. split; [|split; [|split]].
  - apply N.testbit_true. change (2 ^ 7) with 128. lia.
  - lia.
  - apply N.testbit_false. change (2 ^ 7) with 128. lia.
  - lia.
Qed.

Lemma be_val_fold l : forall acc, WsRecv.be_val acc l = fold_left (fun a b => a * 256 + b) l acc.
Proof. induction l as [|x r IH]; intros acc; cbn; [reflexivity|apply IH]. Qed.
Lemma be_val_decode l : WsRecv.be_val 0 l = be_decode l.
Proof. apply be_val_fold. Qed.

Lemma rfc_length_field n rest : n <= max_len ->
  WsRecv.rfc_length (fst (len_field n)) (snd (len_field n) ++ rest) = WsRecv.LOk n rest /\
  lenN (snd (len_field n)) =
    (if fst (len_field n) <=? 125 then 0 else if fst (len_field n) =? 126 then 2 else 8).
Proof.
  intros H. unfold len_field, WsRecv.rfc_length, WsRecv.take, WsRecv.drop.
  destruct (n <=? 125) eqn:E1.
  - cbn [fst snd app]. rewrite E1. split; reflexivity.
  - apply N.leb_gt in E1. destruct (n <=? 65535) eqn:E2.
    + apply N.leb_le in E2. cbn [fst snd].
      change (126 <=? 125) with false. change (126 =? 126) with true. cbv iota.
      split; [|unfold lenN; now rewrite be_encode_length].
      rewrite lenN_app. unfold lenN at 1. rewrite be_encode_length.
      replace (N.of_nat 2 + lenN rest <? 2) with false by (symmetry; apply N.ltb_ge; lia).
      change (N.to_nat 2) with 2%nat.
      rewrite firstn_app_exact by apply be_encode_length.
      rewrite skipn_app_exact by apply be_encode_length.
      rewrite be_val_decode, be_roundtrip by (cbn; lia).
      replace (n <? 126) with false by (symmetry; apply N.ltb_ge; lia). reflexivity.
    + apply N.leb_gt in E2. cbn [fst snd].
      change (127 <=? 125) with false. change (127 =? 126) with false. cbv iota.
      split; [|unfold lenN; now rewrite be_encode_length].
      rewrite lenN_app. unfold lenN at 1. rewrite be_encode_length.
      replace (N.of_nat 8 + lenN rest <? 8) with false by (symmetry; apply N.ltb_ge; lia).
      change (N.to_nat 8) with 8%nat.
      rewrite firstn_app_exact by apply be_encode_length.
      rewrite skipn_app_exact by apply be_encode_length.
      rewrite be_val_decode, be_roundtrip by (unfold max_len in H; cbn; lia).
      replace (n <? 65536) with false by (symmetry; apply N.ltb_ge; lia).
      replace (2 ^ 63 <=? n) with false
        by (symmetry; apply N.leb_gt; change (2 ^ 63) with 9223372036854775808; unfold max_len in H; lia).
      reflexivity.
Qed.

#[local] Arguments WsRecv.FMore {D}.
#[local] Arguments WsRecv.FFail {D}.
#[local] Arguments WsRecv.FClose {D}.
#[local] Arguments WsRecv.FNext {D}.

Section Frame.
Variable D : Type.
Variable cd : WsRecv.codec D.
Variable cf : WsRecv.cfg.
Notation jstate := (WsRecv.jstate D).

(* everything judge_frame does once header, key and payload are cut out (verbatim copy of the end of the LOk branch) *)
Definition frame_core (js : jstate) (fin rsv1 : bool) (op : N) (n : N) (complete : bool) (raw rest : list N) : WsRecv.jframe D :=
      if 8 <=? op then
        if negb complete then WsRecv.FMore
        else if op =? 9 then WsRecv.FNext [WsRecv.JPing raw] js rest
        else if op =? 10 then WsRecv.FNext [WsRecv.JPong raw] js rest
        else
          match raw with
          | [] => WsRecv.FClose None None
          | c1 :: c2 :: reason =>
              let code := c1 * 256 + c2 in
              if negb (WsRecv.rfc_close_code_ok code) then WsRecv.FFail WsRecv.VProtocol
              else match reason with
                   | [] => WsRecv.FClose (Some code) None
                   | _ => if WsRecv.utf8_complete reason then WsRecv.FClose (Some code) (Some reason) else WsRecv.FFail WsRecv.VInvalidPayload
                   end
          | _ => WsRecv.FFail WsRecv.VProtocol
          end
      else
        let first := negb (WsRecv.j_open D js) in
        let comp := if first then WsRecv.pmc cf && rsv1 else WsRecv.j_comp D js in
        let text := if first then (op =? 1) && WsRecv.utf8validate cf else WsRecv.j_text D js in
        let isbin := if first then op =? 2 else WsRecv.j_bin D js in
        let total := (if first then 0 else WsRecv.j_total D js) + n in
        if WsRecv.rfc_too_big cf total n then WsRecv.FFail WsRecv.VTooBig else
        let d0 := if first && comp then WsRecv.d_start cd (WsRecv.j_dec D js) else WsRecv.j_dec D js in
        let '(d1, app) := if comp then WsRecv.d_data cd d0 raw else (d0, raw) in
        let '(uv, _, u1) := WsRecv.u_validate (if first then 0 else WsRecv.j_u D js) app in
        if text && negb uv then WsRecv.FFail WsRecv.VInvalidPayload
        else if negb complete then WsRecv.FMore
        else
          let acc := (if first then [] else WsRecv.j_acc D js) ++ app in
          if fin then
            if text && negb (u1 =? 0) then WsRecv.FFail WsRecv.VInvalidPayload
            else WsRecv.FNext [WsRecv.JMsg acc isbin]
                       (WsRecv.mkJ D false false false false [] 0 0 (if comp then WsRecv.d_end cd d1 else d1)) rest
          else WsRecv.FNext [] (WsRecv.mkJ D true text comp isbin acc (if text then u1 else 0) total d1) rest.

Definition frame_tail (js : jstate) (fin rsv1 : bool) (op : N) (masked : bool) (n : N) (r1 : list N) : WsRecv.jframe D :=
  let mlen := if masked then 4 else 0 in
  let key := WsRecv.take mlen r1 in let r2 := WsRecv.drop mlen r1 in
  let complete := n <=? lenN r2 in
  frame_core js fin rsv1 op n complete
    (WsRecv.unmask cf masked key (if complete then WsRecv.take n r2 else r2)) (WsRecv.drop n r2).

Lemma judge_frame_eq js b0 b1 r :
  WsRecv.judge_frame D cd cf js (b0 :: b1 :: r) =
    if WsRecv.rfc_header_bad cf (WsRecv.j_open D js) b0 b1 then WsRecv.FFail WsRecv.VProtocol else
    if lenN r <? (if b1 mod 128 <=? 125 then 0 else if b1 mod 128 =? 126 then 2 else 8) + (if WsRecv.bit b1 7 then 4 else 0)
    then WsRecv.FMore else
    match WsRecv.rfc_length (b1 mod 128) r with
    | WsRecv.LNeed => WsRecv.FMore
    | WsRecv.LBad => WsRecv.FFail WsRecv.VProtocol
    | WsRecv.LOk n r1 => frame_tail js (WsRecv.bit b0 7) (WsRecv.bit b0 6) (b0 mod 16) (WsRecv.bit b1 7) n r1
    end.
Proof. reflexivity. Qed.


(* an encoded frame in front of [rest]: header, extended length, key and payload are cut out exactly *)
Lemma judge_encoded js fin op mk pl rest :
  op = 0 \/ op = 1 \/ op = 2 \/ op = 8 \/ op = 9 \/ op = 10 ->
  match mk with Some k => length k = 4%nat /\ WsRecv.applyMask cf = true | None => True end ->
  lenN pl <= max_len ->
  WsRecv.rfc_header_bad cf (WsRecv.j_open D js) (byte0 fin 0 op)
    (if is_some mk then 128 + fst (len_field (lenN pl)) else fst (len_field (lenN pl))) = false ->
  WsRecv.judge_frame D cd cf js (encode_frame (mkFrame fin 0 op mk pl) ++ rest) =
    frame_core js fin false op (lenN pl) true pl rest.
Proof.
  intros Hop Hk Hl Hh.
  pose proof (rfc_length_field (lenN pl) (match mk with Some k => k ++ xor_spec k 0 pl ++ rest | None => pl ++ rest end) Hl) as [HL HE].
  pose proof (len_field_lt (lenN pl)) as Hlt.
  unfold encode_frame, encode_header, mask_payload. cbn [f_fin f_rsv f_opcode f_mask f_payload].
  destruct (len_field (lenN pl)) as [l7 el]. cbn [fst snd] in *.
  destruct (b0_bits fin op Hop) as (B7 & B6 & _ & _ & Bop & _).
  destruct (b1_bits l7 Hlt) as (M7 & Mm & U7 & Um).
  destruct mk as [k|]; cbn [is_some] in Hh.
  - destruct Hk as [Hk4 Ham].
    rewrite <- !app_comm_cons, <- !app_assoc. cbn [app].
    rewrite judge_frame_eq, Hh, M7, Mm, <- HE.
    replace (lenN (el ++ k ++ xor_spec k 0 pl ++ rest) <? lenN el + 4) with false.
    2:{ symmetry; apply N.ltb_ge. rewrite !lenN_app. unfold lenN at 3. rewrite Hk4. lia. }
    rewrite HL, B7, B6, Bop. unfold frame_tail. cbv zeta.
    unfold WsRecv.take, WsRecv.drop. change (N.to_nat 4) with 4%nat.
    rewrite firstn_app_exact, skipn_app_exact by exact Hk4.
    rewrite lenN_app.
    replace (lenN pl <=? lenN (xor_spec k 0 pl) + lenN rest) with true
      by (symmetry; apply N.leb_le; unfold lenN; rewrite xor_spec_length; lia).
    rewrite firstn_app_exact, skipn_app_exact by (rewrite xor_spec_length; symmetry; apply lenN_length).
    unfold WsRecv.unmask. rewrite Ham. cbn [andb]. rewrite xor_spec_involutive. reflexivity.
  - rewrite <- !app_comm_cons, <- !app_assoc. cbn [app].
    rewrite judge_frame_eq, Hh, U7, Um, <- HE.
    replace (lenN (el ++ pl ++ rest) <? lenN el + 0) with false.
    2:{ symmetry; apply N.ltb_ge. rewrite !lenN_app. lia. }
    rewrite HL, B7, B6, Bop. unfold frame_tail. cbv zeta.
    unfold WsRecv.take, WsRecv.drop. change (N.to_nat 0) with 0%nat. cbn [firstn skipn].
    rewrite lenN_app.
    replace (lenN pl <=? lenN pl + lenN rest) with true by (symmetry; apply N.leb_le; lia).
    rewrite firstn_app_exact, skipn_app_exact by (symmetry; apply lenN_length).
    reflexivity.
Qed.
End Frame.

Lemma header_good cf in_frag fin op (masked : bool) l7 :
  WsRecv.pmc cf = false -> l7 < 128 -> op = 0 \/ op = 1 \/ op = 2 \/ op = 9 \/ op = 10 ->
  (if masked then WsRecv.isServer cf || WsRecv.acceptMasked cf
   else negb (WsRecv.isServer cf && WsRecv.requireMasked cf)) = true ->
  (8 <= op -> fin = true /\ l7 <= 125) ->
  (op = 0 -> in_frag = true) -> (op = 1 \/ op = 2 -> in_frag = false) ->
  WsRecv.rfc_header_bad cf in_frag (byte0 fin 0 op) (if masked then 128 + l7 else l7) = false.
Proof.
  intros Hp Hl Hop Hm Hc H0 H12.
  assert (Hop' : op = 0 \/ op = 1 \/ op = 2 \/ op = 8 \/ op = 9 \/ op = 10) by tauto.
  destruct (b0_bits fin op Hop') as (B7 & B6 & B5 & B4 & Bop & _).
  destruct (b1_bits l7 Hl) as (M7 & Mm & U7 & Um).
  unfold WsRecv.rfc_header_bad, WsRecv.rfc_header_verdict. rewrite B7, B6, B5, B4, Bop.
  assert (E : WsRecv.bit (if masked then 128 + l7 else l7) 7 = masked /\ (if masked then 128 + l7 else l7) mod 128 = l7)
    by (destruct masked; auto).
  destruct E as [E1 E2]. rewrite E1, E2.
  unfold WsRecv.header_rules, WsRecv.rfc_rule_f. cbn [filter]. rewrite Hp. cbn [andb orb negb].
  assert (HU : WsRecv.isServer cf && WsRecv.requireMasked cf && negb masked = false).
  { destruct masked; [now rewrite andb_false_r|]. cbn [negb]. rewrite andb_true_r. now apply negb_true_iff in Hm. }
  assert (HM : negb (WsRecv.isServer cf) && negb (WsRecv.acceptMasked cf) && masked = false).
  { destruct masked; [|now rewrite andb_false_r]. rewrite andb_true_r.
    destruct (WsRecv.isServer cf), (WsRecv.acceptMasked cf); cbn in *; congruence. }
  rewrite HU, HM.
  destruct Hop as [ -> | [ -> | [ -> | [ -> | -> ] ] ] ].
  - rewrite (H0 eq_refl). reflexivity.
  - rewrite (H12 (or_introl eq_refl)). reflexivity.
  - rewrite (H12 (or_intror eq_refl)). reflexivity.
  - destruct (Hc ltac:(lia)) as [-> Hle]. cbn.
    replace (125 <? l7) with false by (symmetry; apply N.ltb_ge; lia). reflexivity.
  - destruct (Hc ltac:(lia)) as [-> Hle]. cbn.
    replace (125 <? l7) with false by (symmetry; apply N.ltb_ge; lia). reflexivity.
Qed.
