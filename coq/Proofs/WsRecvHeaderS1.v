(* header sweep shard 1: isServer = true, masking option = false; compression x inside_message x 256 x 256 *)
From Coq Require Import NArith List Bool.
From AV Require Import Model.WsRecv Proofs.WsRecvHeaderBase.
Import ListNotations.
Lemma header_sweep_1 :
  forallb (fun pm => forallb (fun ins => sweep_ctx true false pm ins) bools) bools = true.
Proof. vm_compute. reflexivity. Qed.
