(* Bridge between the UTF-8 validator used inside the receive model (Model/WsRecv.v: u_step / u_loop / u_validate,
   written from RFC 3629) and the model of the REAL validators (Model/Utf8.v: py_validate over the table generated
   from utf8validator.py; by C09 the NVX validators equal it), so that the C02 theorems about text messages are
   theorems about the validator the code really runs. *)
From Coq Require Import NArith List Bool Lia.
From AV Require Import Model.WsRecv Model.Utf8 Proofs.Utf8Proofs.
From AV Require Import Gen.Utf8TablePy.
Import ListNotations.
Open Scope N_scope.

(* the two hand-written RFC automata are the same function *)
Lemma u_step_is_rfc_step s b : WsRecv.u_step s b = Utf8.rfc_step s b.
Proof.
  unfold WsRecv.u_step, Utf8.rfc_step, WsRecv.inr, Utf8.inr.
  destruct s as [|p]; [reflexivity|].
  do 4 (destruct p as [p|p|]; try reflexivity).
Qed.

Lemma u_step_table s b : s < 9 -> b < 256 -> WsRecv.u_step s b = dfa_step dfa_py s b.
Proof. intros Hs Hb. rewrite u_step_is_rfc_step. symmetry. now apply transitions_py. Qed.

Definition loop_agree (r : N * option N) : bool * N :=
  match r with (_, Some _) => (false, 1) | (s', None) => (negb (s' =? 1), s') end.

(* u_loop (receive model) and py_loop (utf8validator.py over the generated table) walk together *)
Lemma u_loop_py_loop bs : forall s i, s < 9 -> Utf8.bytes_ok bs ->
  WsRecv.u_loop s bs = loop_agree (py_loop dfa_py s i bs).
Proof.
  induction bs as [|b r IH]; intros s i Hs Hb; cbn [py_loop WsRecv.u_loop]; [reflexivity|].
  inversion Hb as [|? ? Hb0 Hr]; subst.
  rewrite <- (u_step_table s b Hs Hb0).
  destruct (WsRecv.u_step s b =? 1) eqn:E; [reflexivity|].
  apply IH; [|exact Hr]. rewrite u_step_is_rfc_step. apply rfc_step_closed.
Qed.

Lemma py_loop_none_state bs : forall s i s1, s < 9 -> s <> 1 -> Utf8.bytes_ok bs ->
  py_loop dfa_py s i bs = (s1, None) -> s1 <> 1 /\ s1 < 9.
Proof.
  induction bs as [|b r IH]; intros s i s1 Hs Hn Hb E; cbn [py_loop] in E.
  - inversion E; subst. split; assumption.
  - inversion Hb as [|? ? Hb0 Hr]; subst.
    destruct (dfa_step dfa_py s b =? 1) eqn:E1; [discriminate|].
    apply (IH (dfa_step dfa_py s b) (i + 1)); [|now apply N.eqb_neq|exact Hr|exact E].
    rewrite transitions_py by assumption. apply rfc_step_closed.
Qed.

Lemma py_loop_some_state bs : forall s i s1 k, py_loop dfa_py s i bs = (s1, Some k) -> s1 = 1.
Proof.
  induction bs as [|b r IH]; intros s i s1 k E; cbn [py_loop] in E; [discriminate|].
  destruct (dfa_step dfa_py s b =? 1) eqn:E1.
  - inversion E; subst. now apply N.eqb_eq.
  - eapply IH; exact E.
Qed.

(* one validate() call from ANY state (REJECT included: an empty chunk after a rejection is reported invalid again,
   upstream a0b6310f): verdict, boundary flag and the state kept for the next fragment are those of the real
   (table-driven) validator *)
Lemma u_validate_is_py_validate s idx bs : s < 9 -> Utf8.bytes_ok bs ->
  WsRecv.u_validate s bs =
    (let '(pv, (rv, re, _, _)) := py_validate dfa_py {| py_state := s; py_index := idx |} bs in
     (rv, re, py_state pv)).
Proof.
  intros Hs Hb. unfold WsRecv.u_validate, py_validate. cbn [py_state py_index].
  rewrite (u_loop_py_loop bs s 0 Hs Hb).
  destruct (py_loop dfa_py s 0 bs) as [s' [i|]] eqn:E; cbn [loop_agree py_state].
  - rewrite (py_loop_some_state _ _ _ _ _ E). reflexivity.
  - destruct (N.eqb_spec s' 1) as [->|H1]; [reflexivity|]. cbn [negb andb]. reflexivity.
Qed.

(* a whole text message validated fragment by fragment by the receive model is accepted exactly when it is
   well-formed UTF-8 (RFC 3629): via C09's characterisation of the real validator *)
Lemma u_validate_accepts_wf bs : Utf8.bytes_ok bs ->
  (let '(v, e, _) := WsRecv.u_validate 0 bs in v && e) = wf_utf8 bs.
Proof.
  intros Hb.
  pose proof (u_validate_is_py_validate 0 0 bs) as H.
  rewrite H by (try lia; exact Hb).
  pose proof (py_accepts_exactly_wf bs Hb) as A.
  unfold py_reset in A.
  destruct (py_validate dfa_py {| py_state := 0; py_index := 0 |} bs) as [pv [[[rv re] c] t]].
  cbn in A |- *. exact A.
Qed.
