(* C02: connections served by one process do not interact.  Two receive models (each with its own configuration,
   decompressor and state) driven by ONE interleaved sequence of reads -- the way a reactor serves two sockets -- end,
   each, exactly where the connection ends when it gets its own reads alone.  In the model this is true by construction
   (the receive state is a value, nothing is shared); it is what the multi-connection correspondence runs
   (harness/props/c02.py xconn_stage) check of the implementation, where receive state is spread over objects. *)
From Coq Require Import NArith List Bool.
From AV Require Import Model.Masker Gen.WsConsts Model.WsRecv.
Import ListNotations.
Open Scope N_scope.

Section Pair.
Variables D1 D2 : Type.
Variable cd1 : codec D1.
Variable cd2 : codec D2.
Variables cf1 cf2 : cfg.

(* a schedule: which connection the next read belongs to (true = the first), and its octets *)
Definition sched := list (bool * list N).

Fixpoint feed_pair (s1 : rstate D1) (s2 : rstate D2) (sc : sched)
  : option (rstate D1 * list event * (rstate D2 * list event)) :=
  match sc with
  | [] => Some (s1, [], (s2, []))
  | (true, c) :: r =>
      match feed D1 cd1 cf1 s1 c with
      | Done _ s1' e => match feed_pair s1' s2 r with
                        | Some (a, e1, b) => Some (a, e ++ e1, b)
                        | None => None
                        end
      | OutOfFuel _ => None
      end
  | (false, c) :: r =>
      match feed D2 cd2 cf2 s2 c with
      | Done _ s2' e => match feed_pair s1 s2' r with
                        | Some (a, (b, e2)) => Some (a, (b, e ++ e2))
                        | None => None
                        end
      | OutOfFuel _ => None
      end
  end.

Definition reads_of (which : bool) (sc : sched) : list (list N) :=
  map snd (filter (fun x => Bool.eqb (fst x) which) sc).

Lemma feed_pair_independent : forall sc s1 s2 a e1 b e2,
  feed_pair s1 s2 sc = Some (a, e1, (b, e2)) <->
  feed_all D1 cd1 cf1 s1 (reads_of true sc) = Done D1 a e1 /\
  feed_all D2 cd2 cf2 s2 (reads_of false sc) = Done D2 b e2.
Proof.
  induction sc as [|[w c] r IH]; intros s1 s2 a e1 b e2.
  - cbn. split.
    + intros H. injection H as <- <- <- <-. split; reflexivity.
    + intros [H1 H2]. injection H1 as <- <-. injection H2 as <- <-. reflexivity.
  - destruct w; cbn [feed_pair reads_of filter map fst snd Bool.eqb feed_all].
    + fold (reads_of true r). fold (reads_of false r).
      destruct (feed D1 cd1 cf1 s1 c) as [s1' e|].
      * split.
        -- destruct (feed_pair s1' s2 r) as [[[a' e1'] [b' e2']]|] eqn:E; [|discriminate].
           intros H. injection H as <- <- <- <-. apply IH in E. destruct E as [E1 E2]. rewrite E1. split; [reflexivity|exact E2].
        -- intros [H1 H2]. destruct (feed_all D1 cd1 cf1 s1' (reads_of true r)) as [a' e1'|] eqn:E1; [|discriminate].
           injection H1 as <- <-. rewrite (proj2 (IH s1' s2 a' e1' b e2) (conj E1 H2)). reflexivity.
      * split; [discriminate|]. intros [H1 _]. discriminate.
    + fold (reads_of true r). fold (reads_of false r).
      destruct (feed D2 cd2 cf2 s2 c) as [s2' e|].
      * split.
        -- destruct (feed_pair s1 s2' r) as [[[a' e1'] [b' e2']]|] eqn:E; [|discriminate].
           intros H. injection H as <- <- <- <-. apply IH in E. destruct E as [E1 E2]. rewrite E2. split; [exact E1|reflexivity].
        -- intros [H1 H2]. destruct (feed_all D2 cd2 cf2 s2' (reads_of false r)) as [b' e2'|] eqn:E2; [|discriminate].
           injection H2 as <- <-. rewrite (proj2 (IH s1 s2' a e1 b' e2') (conj H1 E2)). reflexivity.
      * split; [discriminate|]. intros [_ H2]. discriminate.
Qed.

End Pair.
