(* Lemmas for C14 (Model/Component.v). *)
From Coq Require Import List NArith ZArith QArith Bool Lia Arith.
From AV Require Import Model.Component.
Import ListNotations.
Close Scope Q_scope.
Open Scope nat_scope.

(* ================================================================ _Transport *)

Lemma next_delay_first : forall t o, attempts t = 0%N -> next_delay t o = NdOk t 0%Q false.
Proof. intros t o H. unfold next_delay. rewrite H. reflexivity. Qed.

Lemma next_delay_capped : forall t o t' d u,
  (0 <= max_delay (tc t))%Q -> next_delay t o = NdOk t' d u -> (d <= max_delay (tc t))%Q.
Proof.
  intros t o t' d u Hm H. unfold next_delay in H.
  destruct (attempts t =? 0)%N.
  - inversion H; subst. exact Hm.
  - destruct (negb (max_retries (tc t) =? -1)%Z && (max_retries (tc t) + 1 <=? Z.of_N (attempts t))%Z); [discriminate|].
    inversion H; subst; clear H.
    destruct (Qle_bool _ (max_delay (tc t))) eqn:E.
    + apply Qle_bool_iff in E. exact E.
    + apply Qle_refl.
Qed.

(* only retry_delay changes *)
Definition same_counts (t t' : tstate) : Prop :=
  tc t' = tc t /\ attempts t' = attempts t /\ tfailed t' = tfailed t.

Lemma same_counts_refl : forall t, same_counts t t.
Proof. intros; repeat split. Qed.

Lemma same_counts_can : forall t t', same_counts t t' -> can_reconnect t' = can_reconnect t.
Proof. intros t t' (A & B & C). unfold can_reconnect. rewrite A, B, C. reflexivity. Qed.

Lemma next_delay_same : forall t o t' d u, next_delay t o = NdOk t' d u -> same_counts t t'.
Proof.
  intros t o t' d u H. unfold next_delay in H.
  destruct (attempts t =? 0)%N.
  - inversion H; subst; apply same_counts_refl.
  - destruct (negb _ && _); [discriminate|]. inversion H; subst. repeat split.
Qed.

Lemma next_delay_zero_or_retry : forall t o t' d u, next_delay t o = NdOk t' d u ->
  (attempts t = 0%N /\ d = 0%Q /\ u = false) \/ (attempts t <> 0%N /\ u = true).
Proof.
  intros t o t' d u H. unfold next_delay in H.
  destruct (attempts t =? 0)%N eqn:E.
  - apply N.eqb_eq in E. inversion H; subst. left; auto.
  - apply N.eqb_neq in E. destruct (negb _ && _); [discriminate|]. inversion H; subst. right; auto.
Qed.

Lemma can_reconnect_budget : forall t, can_reconnect t = true ->
  tfailed t = false /\ (max_retries (tc t) = (-1)%Z \/ (Z.of_N (attempts t) < max_retries (tc t) + 1)%Z).
Proof.
  intros t H. unfold can_reconnect in H.
  destruct (tfailed t); [discriminate|]. split; [reflexivity|].
  destruct (max_retries (tc t) =? -1)%Z eqn:E.
  - left. apply Z.eqb_eq; exact E.
  - right. apply Z.ltb_lt; exact H.
Qed.

Lemma can_reconnect_iff : forall t, can_reconnect t = true <->
  (tfailed t = false /\ (max_retries (tc t) = (-1)%Z \/ (Z.of_N (attempts t) < max_retries (tc t) + 1)%Z)).
Proof.
  intros t. split; [apply can_reconnect_budget|].
  intros [A B]. unfold can_reconnect. rewrite A.
  destruct (max_retries (tc t) =? -1)%Z eqn:E; [reflexivity|].
  destruct B as [B|B]; [apply Z.eqb_neq in E; contradiction|]. apply Z.ltb_lt; exact B.
Qed.

Lemma can_reconnect_next_delay_ok : forall t o, can_reconnect t = true -> next_delay t o <> NdRaise.
Proof.
  intros t o H. apply can_reconnect_budget in H. destruct H as [_ H]. unfold next_delay.
  destruct (attempts t =? 0)%N; [discriminate|].
  destruct (max_retries (tc t) =? -1)%Z eqn:E; simpl; [discriminate|].
  destruct H as [H|H]; [apply Z.eqb_neq in E; contradiction|].
  destruct (max_retries (tc t) + 1 <=? Z.of_N (attempts t))%Z eqn:E2; [apply Z.leb_le in E2; lia|discriminate].
Qed.

(* ================================================================ lists *)

Lemma upd_nth_length : forall A (l : list A) i f, length (upd_nth l i f) = length l.
Proof. induction l; destruct i; simpl; auto. Qed.

Lemma upd_nth_same : forall A (l : list A) i f x, nth_error l i = Some x -> nth_error (upd_nth l i f) i = Some (f x).
Proof. induction l; destruct i; simpl; intros; try discriminate; auto. inversion H; auto. Qed.

Lemma upd_nth_other : forall A (l : list A) i j f, i <> j -> nth_error (upd_nth l i f) j = nth_error l j.
Proof. induction l; destruct i, j; simpl; intros; auto; try contradiction. Qed.

Lemma upd_nth_none : forall A (l : list A) i f, nth_error l i = None -> upd_nth l i f = l.
Proof. induction l; destruct i; simpl; intros; auto; try discriminate. f_equal; auto. Qed.

Lemma upd_nth_nth : forall A (l : list A) i j f,
  nth_error (upd_nth l i f) j = if Nat.eqb i j then option_map f (nth_error l j) else nth_error l j.
Proof.
  intros. destruct (Nat.eqb i j) eqn:E.
  - apply Nat.eqb_eq in E; subst. destruct (nth_error l j) eqn:N; simpl.
    + apply upd_nth_same; auto.
    + rewrite upd_nth_none; auto.
  - apply Nat.eqb_neq in E. apply upd_nth_other; auto.
Qed.

Lemma nth_error_app_last : forall A (l : list A) x, nth_error (l ++ [x]) (length l) = Some x.
Proof. induction l; simpl; auto. Qed.

Lemma nth_error_app_l : forall A (l : list A) x k, k < length l -> nth_error (l ++ [x]) k = nth_error l k.
Proof. intros. apply nth_error_app1; auto. Qed.

(* ================================================================ trace functions over appended steps *)

(* observations that none of since_join / since_reset / after_mark / first_ok / done_count / last_scheduled see *)
Definition quiet (o : obs) : bool :=
  match o with
  | OAttempt _ _ | OJoined _ | OReset _ | OMarkFailed _ | ODone _ | OSchedule _ _ _ _ => false
  | _ => true
  end.

Definition sj_f (i : nat) := (fun acc o => match o with
                          | OAttempt j _ => if Nat.eqb j i then N.succ acc else acc
                          | OJoined j => if Nat.eqb j i then 0%N else acc
                          | _ => acc end).
Definition sr_f (i : nat) := (fun acc o => match o with
                          | OAttempt j _ => if Nat.eqb j i then N.succ acc else acc
                          | OReset j => if Nat.eqb j i then 0%N else acc
                          | _ => acc end).
Definition am_f (i : nat) := (fun (a : bool * N) o => match o with
                        | OMarkFailed j => if Nat.eqb j i then (true, snd a) else a
                        | OAttempt j _ => if Nat.eqb j i && fst a then (fst a, N.succ (snd a)) else a
                        | _ => a end).
Definition fo_f (i : nat) := (fun (a : bool * bool) o => match o with
                        | OAttempt j d => if Nat.eqb j i then (true, snd a && (fst a || Qeq_bool d 0)) else a
                        | _ => a end).
Definition ls_f := (fun (a : option nat) o => match o with OSchedule _ _ i _ => Some i | _ => a end).

Lemma since_join_app : forall tr ob i, since_join (tr ++ ob) i = fold_left (sj_f i) ob (since_join tr i).
Proof. intros. unfold since_join. rewrite fold_left_app. reflexivity. Qed.
Lemma since_reset_app : forall tr ob i, since_reset (tr ++ ob) i = fold_left (sr_f i) ob (since_reset tr i).
Proof. intros. unfold since_reset. rewrite fold_left_app. reflexivity. Qed.
Lemma after_mark_app : forall tr ob i, after_mark (tr ++ ob) i = fold_left (am_f i) ob (after_mark tr i).
Proof. intros. unfold after_mark. rewrite fold_left_app. reflexivity. Qed.
Lemma first_ok_app : forall tr ob i, first_ok (tr ++ ob) i = fold_left (fo_f i) ob (first_ok tr i).
Proof. intros. unfold first_ok. rewrite fold_left_app. reflexivity. Qed.
Lemma last_scheduled_app : forall tr ob, last_scheduled (tr ++ ob) = fold_left ls_f ob (last_scheduled tr).
Proof. intros. unfold last_scheduled. rewrite fold_left_app. reflexivity. Qed.
Lemma done_count_app : forall tr ob, done_count (tr ++ ob) = (done_count tr + done_count ob)%nat.
Proof. intros. unfold done_count. rewrite filter_app, app_length. reflexivity. Qed.

(* observations that the per-transport counters do not see (ODone / OSchedule allowed) *)
Definition tquiet (o : obs) : bool :=
  match o with
  | OAttempt _ _ | OJoined _ | OReset _ | OMarkFailed _ => false
  | _ => true
  end.

Lemma fold_sj_quiet : forall i ob a, forallb tquiet ob = true -> fold_left (sj_f i) ob a = a.
Proof. induction ob; simpl; intros; auto. apply andb_prop in H. destruct H. destruct a; simpl in *; try discriminate; auto. Qed.
Lemma fold_sr_quiet : forall i ob a, forallb tquiet ob = true -> fold_left (sr_f i) ob a = a.
Proof. induction ob; simpl; intros; auto. apply andb_prop in H. destruct H. destruct a; simpl in *; try discriminate; auto. Qed.
Lemma fold_am_quiet : forall i ob a, forallb tquiet ob = true -> fold_left (am_f i) ob a = a.
Proof. induction ob; simpl; intros; auto. apply andb_prop in H. destruct H. destruct a; simpl in *; try discriminate; auto. Qed.
Lemma fold_fo_quiet : forall i ob a, forallb tquiet ob = true -> fold_left (fo_f i) ob a = a.
Proof. induction ob; simpl; intros; auto. apply andb_prop in H. destruct H. destruct a; simpl in *; try discriminate; auto. Qed.

Lemma forallb_app_intro : forall A (p : A -> bool) a b, forallb p a = true -> forallb p b = true -> forallb p (a ++ b) = true.
Proof. intros. rewrite forallb_app, H, H0. reflexivity. Qed.

Lemma quiet_tquiet : forall ob, forallb quiet ob = true -> forallb tquiet ob = true.
Proof. induction ob; simpl; intros; auto. apply andb_prop in H. destruct H. rewrite IHob; auto. destruct a; simpl in *; auto. Qed.

Lemma done_count_quiet : forall ob, forallb quiet ob = true -> done_count ob = 0%nat.
Proof. induction ob; simpl; intros; auto. apply andb_prop in H. destruct H. unfold done_count in *. simpl.
  destruct a; simpl in *; try discriminate; auto. Qed.

Lemma fold_ls_quiet : forall ob a, forallb quiet ob = true -> fold_left ls_f ob a = a.
Proof. induction ob; simpl; intros; auto. apply andb_prop in H. destruct H. destruct a; simpl in *; try discriminate; auto. Qed.

Lemma notify_quiet : forall s k ev, forallb quiet (notify s k ev) = true.
Proof. intros. unfold notify. destruct (listeners (cfg s)); reflexivity. Qed.

(* ================================================================ the sub-operations *)

Definition frame (s s' : comp) : Prop :=
  cfg s' = cfg s /\ conns s' = conns s /\ cur_sess s' = cur_sess s /\ stopping s' = stopping s /\
  started s' = started s.

Lemma frame_refl : forall s, frame s s.
Proof. intros; repeat split. Qed.
Lemma frame_trans : forall a b c, frame a b -> frame b c -> frame a c.
Proof. unfold frame. intros a b c (A1&A2&A3&A4&A5) (B1&B2&B3&B4&B5). repeat split; congruence. Qed.

(* what firing the start() future does *)
Lemma resolve_done_spec : forall s r s' ob raised, resolve_done s r = (s', ob, raised) ->
  frame s s' /\ trs s' = trs s /\ cursor s' = cursor s /\ cand s' = cand s /\ delay_f s' = delay_f s /\
  ((raised = false /\ done_pending s = true /\ done_pending s' = false /\ ndone s' = N.succ (ndone s) /\ ob = [ODone r])
   \/ (raised = true /\ done_pending s = false /\ s' = s /\ ob = [])).
Proof.
  intros s r s' ob raised H. unfold resolve_done in H. destruct (done_pending s) eqn:E; inversion H; subst; clear H.
  - simpl. split; [repeat split|]. do 4 (split; [reflexivity|]). left. repeat split; auto.
  - split; [repeat split|]. do 4 (split; [reflexivity|]). right. repeat split; auto.
Qed.

(* pick finds the cyclically first transport that can reconnect *)
Lemma pick_cyc : forall ts cur fuel, pick ts cur fuel = cyc_first_from (map can_reconnect ts) cur fuel.
Proof.
  intros ts cur fuel. revert cur. induction fuel; simpl; intros; auto.
  rewrite map_length. rewrite nth_error_map.
  destruct (nth_error ts (cur mod length ts)) eqn:E; simpl; auto.
  destruct (can_reconnect t); auto.
Qed.

Lemma pick_sound : forall ts cur fuel i, pick ts cur fuel = Some i ->
  exists t, nth_error ts i = Some t /\ can_reconnect t = true.
Proof.
  intros ts cur fuel. revert cur. induction fuel; simpl; intros; try discriminate.
  destruct (nth_error ts (cur mod length ts)) eqn:E; try discriminate.
  destruct (can_reconnect t) eqn:C.
  - inversion H; subst. exists t; auto.
  - eapply IHfuel; eauto.
Qed.

(* scanning `fuel` consecutive positions from any start finds every index within reach *)
Lemma pick_complete_aux : forall ts fuel cur j t,
  length ts <> 0%nat -> nth_error ts j = Some t -> can_reconnect t = true ->
  (exists k, k < fuel /\ (cur mod length ts + k) mod length ts = j) ->
  pick ts cur fuel <> None.
Proof.
  intros ts fuel. induction fuel; intros cur j t Hn Hj Hc (k & Hk & Hm); [lia|].
  simpl. set (n := length ts) in *.
  assert (Hlt : (cur mod n < n)%nat) by (apply Nat.mod_upper_bound; auto).
  destruct (nth_error ts (cur mod n)) eqn:E.
  2:{ apply nth_error_None in E. fold n in E. lia. }
  destruct (can_reconnect t0) eqn:C; [discriminate|].
  destruct k.
  - rewrite Nat.add_0_r, Nat.mod_mod in Hm by auto. rewrite Hm in E. rewrite Hj in E. inversion E; subst. congruence.
  - apply (IHfuel (S (cur mod n)) j t Hn Hj Hc). exists k. split; [lia|].
    rewrite <- Hm. rewrite Nat.add_mod_idemp_l by auto. f_equal. lia.
Qed.

Lemma pick_complete : forall ts cur, existsb can_reconnect ts = true -> pick ts cur (length ts) <> None.
Proof.
  intros ts cur H. apply existsb_exists in H. destruct H as (t & Hin & Hc).
  apply In_nth_error in Hin. destruct Hin as (j & Hj).
  assert (Hlen : (j < length ts)%nat) by (apply nth_error_Some; congruence).
  assert (Hn : length ts <> 0%nat) by lia.
  eapply pick_complete_aux; eauto.
  set (n := length ts) in *. set (c := (cur mod n)%nat).
  assert (c < n)%nat by (apply Nat.mod_upper_bound; auto).
  destruct (le_lt_dec c j).
  - exists (j - c)%nat. split; [lia|]. replace (c + (j - c))%nat with j by lia. apply Nat.mod_small; auto.
  - exists (n + j - c)%nat. split; [lia|]. replace (c + (n + j - c))%nat with (j + 1 * n)%nat by lia.
    rewrite Nat.mod_add by auto. apply Nat.mod_small; auto.
Qed.

(* what a scheduling transport_check guarantees about its choice *)
Definition sched_ok (s s' : comp) (ob : list obs) : Prop :=
  forall cur elig i d, In (OSchedule cur elig i d) ob ->
    cur = cursor s /\ elig = map can_reconnect (trs s) /\ cyc_first elig cur = Some i /\
    cursor s' = Nat.modulo (S i) (length (trs s)) /\ cand s' = i /\
    exists t t', nth_error (trs s) i = Some t /\ can_reconnect t = true /\
                 nth_error (trs s') i = Some t' /\
                 ((0 <= max_delay (tc t))%Q -> (d <= max_delay (tc t))%Q) /\
                 (attempts t = 0%N -> d = 0%Q) /\
                 (delay_f s' = Some (i, d) \/ (is_tx s = true /\ qneg d = true /\ delay_f s' = delay_f s)).

Definition trs_same (s s' : comp) : Prop := Forall2 same_counts (trs s) (trs s').

Lemma Forall2_refl_sc : forall l, Forall2 same_counts l l.
Proof. induction l; constructor; auto. apply same_counts_refl. Qed.

Lemma trs_same_refl : forall s, trs_same s s.
Proof. intros. apply Forall2_refl_sc. Qed.

Lemma Forall2_upd_nth : forall l i (t : tstate) f, nth_error l i = Some t -> same_counts t (f t) ->
  Forall2 same_counts l (upd_nth l i f).
Proof.
  induction l; destruct i; simpl; intros; try discriminate.
  - inversion H; subst. constructor; auto. apply Forall2_refl_sc.
  - constructor; [apply same_counts_refl|]. eapply IHl; eauto.
Qed.

Lemma Forall2_nth_l : forall (l l' : list tstate) j t, Forall2 same_counts l l' -> nth_error l j = Some t ->
  exists t', nth_error l' j = Some t' /\ same_counts t t'.
Proof.
  intros l l' j t F. revert j t. induction F; intros j t H0; destruct j; simpl in *; try discriminate.
  - inversion H0; subst. exists y; auto.
  - apply IHF; auto.
Qed.

Lemma Forall2_nth_r : forall (l l' : list tstate) j t', Forall2 same_counts l l' -> nth_error l' j = Some t' ->
  exists t, nth_error l j = Some t /\ same_counts t t'.
Proof.
  intros l l' j t' F. revert j t'. induction F; intros j t' H0; destruct j; simpl in *; try discriminate.
  - inversion H0; subst. exists x; auto.
  - apply IHF; auto.
Qed.

Lemma Forall2_map_tc : forall l l', Forall2 same_counts l l' -> map tc l' = map tc l.
Proof. induction 1; simpl; auto. destruct H as (A & _). rewrite A, IHForall2. reflexivity. Qed.

Lemma Forall2_can : forall l l', Forall2 same_counts l l' -> map can_reconnect l' = map can_reconnect l.
Proof. induction 1; simpl; auto. rewrite (same_counts_can _ _ H), IHForall2. reflexivity. Qed.

Lemma Forall2_sc_trans : forall a b c, Forall2 same_counts a b -> Forall2 same_counts b c -> Forall2 same_counts a c.
Proof.
  intros a b c F. revert c. induction F; intros c G; inversion G; subst; constructor; auto.
  destruct H as (A1 & A2 & A3), H2 as (B1 & B2 & B3). repeat split; congruence.
Qed.

(* the observations of transport_check *)
Definition tc_obs (o : obs) : bool :=
  match o with OSchedule _ _ _ _ | ODone _ | OEscaped _ => true | _ => false end.

Lemma tc_obs_tquiet : forall ob, forallb tc_obs ob = true -> forallb tquiet ob = true.
Proof. induction ob; simpl; intros; auto. apply andb_prop in H. destruct H. rewrite IHob; auto. destruct a; simpl in *; auto; discriminate. Qed.

Definition done_effect (s s' : comp) (ob : list obs) : Prop :=
  (done_pending s' = done_pending s /\ ndone s' = ndone s /\ done_count ob = 0%nat)
  \/ (done_pending s = true /\ done_pending s' = false /\ ndone s' = N.succ (ndone s) /\ done_count ob = 1%nat /\
      delay_f s' = delay_f s).

Lemma transport_check_spec : forall s o s' ob u, transport_check s o = (s', ob, u) ->
  frame s s' /\ trs_same s s' /\ forallb tc_obs ob = true /\ done_effect s s' ob /\ sched_ok s s' ob /\
  (delay_f s' = delay_f s \/ exists i d, In (OSchedule (cursor s) (map can_reconnect (trs s)) i d) ob /\ delay_f s' = Some (i, d)) /\
  (any_can s = false -> delay_f s' = delay_f s /\ trs s' = trs s /\
                        ((done_pending s = true /\ ob = [ODone (Some EExhausted)]) \/ (done_pending s = false /\ ob = [OEscaped EAttr]))) /\
  (any_can s = true -> exists i d, In (OSchedule (cursor s) (map can_reconnect (trs s)) i d) ob /\ done_count ob = 0%nat).
Proof.
  intros s o s' ob u H. unfold transport_check in H.
  destruct (any_can s) eqn:AC; simpl in H.
  - (* some transport can reconnect *)
    destruct (pick (trs s) (cursor s) (length (trs s))) as [i|] eqn:P.
    2:{ exfalso. eapply pick_complete; eauto. }
    destruct (pick_sound _ _ _ _ P) as (t & Ht & Hc). rewrite Ht in H.
    destruct (next_delay t o) as [t' d used|] eqn:ND.
    2:{ exfalso. eapply can_reconnect_next_delay_ok; eauto. }
    assert (SC := next_delay_same _ _ _ _ _ ND).
    assert (TS : forall sx, trs sx = upd_nth (trs s) i (fun _ => t') -> trs_same s sx).
    { intros sx E. unfold trs_same. rewrite E. eapply Forall2_upd_nth; eauto. }
    assert (CAP : (0 <= max_delay (tc t))%Q -> (d <= max_delay (tc t))%Q) by (intro; eapply next_delay_capped; eauto).
    assert (Z0 : attempts t = 0%N -> d = 0%Q).
    { intro A. destruct (next_delay_zero_or_retry _ _ _ _ _ ND) as [(_ & B & _)|(B & _)]; auto. contradiction. }
    assert (NT : forall sx, trs sx = upd_nth (trs s) i (fun _ => t') -> nth_error (trs sx) i = Some t').
    { intros sx E. rewrite E. erewrite upd_nth_same; eauto. }
    destruct (is_tx s && qneg d) eqn:NEG; inversion H; subst; clear H.
    + apply andb_prop in NEG. destruct NEG as [TX QN].
      split; [repeat split|]. split; [apply TS; reflexivity|]. split; [reflexivity|].
      split; [left; repeat split|].
      split.
      { intros cur elig i0 d0 [E|[E|[]]]; inversion E; subst. repeat split; auto.
        - unfold cyc_first. rewrite map_length. rewrite <- pick_cyc. exact P.
        - exists t, t'. repeat split; auto. }
      split; [left; reflexivity|]. split; [discriminate|].
      intros _. exists i, d. split; [left; reflexivity|reflexivity].
    + split; [repeat split|]. split; [apply TS; reflexivity|]. split; [reflexivity|].
      split; [left; repeat split|].
      split.
      { intros cur elig i0 d0 [E|[]]; inversion E; subst. repeat split; auto.
        - unfold cyc_first. rewrite map_length. rewrite <- pick_cyc. exact P.
        - exists t, t'. repeat split; auto. }
      split; [right; exists i, d; split; [left; reflexivity|reflexivity]|]. split; [discriminate|].
      intros _. exists i, d. split; [left; reflexivity|reflexivity].
  - (* exhausted *)
    destruct (resolve_done s (Some EExhausted)) as [[s1 ob1] raised] eqn:R.
    destruct (resolve_done_spec _ _ _ _ _ R) as (F & T & CU & CA & DF & D).
    inversion H; subst; clear H.
    split; [exact F|]. split; [unfold trs_same; rewrite T; apply Forall2_refl_sc|].
    destruct D as [(R1 & P1 & P2 & N1 & O1)|(R1 & P1 & S1 & O1)]; subst.
    + split; [reflexivity|]. split; [right; repeat split; auto|].
      split; [intros cur elig i d [E|[]]; discriminate|].
      split; [left; auto|]. split; [|discriminate].
      intros _. split; auto.
    + split; [reflexivity|]. split; [left; repeat split; auto|].
      split; [intros cur elig i d [E|[]]; discriminate|].
      split; [left; auto|]. split; [|discriminate].
      intros _. split; auto.
Qed.

(* ================================================================ invariant, part 1: transports vs trace *)

Lemma map_tc_upd_nth : forall f l i, (forall t, tc (f t) = tc t) -> map tc (upd_nth l i f) = map tc l.
Proof. intros f l. induction l; destruct i; simpl; intros; auto. - rewrite H; auto. - rewrite IHl; auto. Qed.

Section Invariants.
Variable ts : list tcfg.
Hypothesis WF : Forall tcfg_wf ts.

Definition t_ok (tr : list obs) (i : nat) (t : tstate) : Prop :=
  since_join tr i = attempts t /\ since_reset tr i = attempts t /\
  ((max_retries (tc t) <> -1)%Z -> (Z.of_N (attempts t) <= max_retries (tc t) + 1)%Z) /\
  fst (after_mark tr i) = tfailed t /\ snd (after_mark tr i) = 0%N /\
  snd (first_ok tr i) = true /\ (attempts t <> 0%N -> fst (first_ok tr i) = true).

Definition tr_ok (s : comp) (tr : list obs) : Prop :=
  map tc (trs s) = ts /\ forall i t, nth_error (trs s) i = Some t -> t_ok tr i t.

Lemma tr_ok_wf : forall s tr i t, tr_ok s tr -> nth_error (trs s) i = Some t -> tcfg_wf (tc t).
Proof.
  intros s tr i t [M _] H. rewrite Forall_forall in WF. apply WF. rewrite <- M.
  apply in_map. eapply nth_error_In; eauto.
Qed.

Lemma first_ok_fst_mono : forall ob a i, fst a = true -> fst (fold_left (fo_f i) ob a) = true.
Proof.
  induction ob; simpl; intros; auto. apply IHob. destruct a; simpl; auto. destruct (Nat.eqb i0 i); simpl; auto.
Qed.

Lemma first_ok_mono : forall tr ob i, fst (first_ok tr i) = true -> fst (first_ok (tr ++ ob) i) = true.
Proof. intros. rewrite first_ok_app. apply first_ok_fst_mono; auto. Qed.

(* counters untouched, observations the counters do not see *)
Lemma tr_ok_same : forall s s' tr ob, tr_ok s tr -> trs_same s s' -> forallb tquiet ob = true -> tr_ok s' (tr ++ ob).
Proof.
  intros s s' tr ob [M H] TS Q. split.
  - rewrite (Forall2_map_tc _ _ TS). exact M.
  - intros i t' Hi. destruct (Forall2_nth_r _ _ _ _ TS Hi) as (t & Ht & (A & B & C)).
    destruct (H i t Ht) as (H1 & H2 & H3 & H4 & H5 & H6 & H7).
    unfold t_ok. rewrite since_join_app, since_reset_app, after_mark_app, first_ok_app.
    rewrite fold_sj_quiet, fold_sr_quiet, fold_am_quiet, fold_fo_quiet by auto.
    rewrite A, B, C. repeat split; auto.
Qed.

Lemma tr_ok_quiet : forall s tr ob, tr_ok s tr -> forallb tquiet ob = true -> tr_ok s (tr ++ ob).
Proof. intros. eapply tr_ok_same; eauto. apply trs_same_refl. Qed.

(* transport_candidate[0].failed() *)
Lemma tr_ok_mark : forall s tr c, tr_ok s tr -> tr_ok (upd_tr s c t_fail) (tr ++ [OMarkFailed c]).
Proof.
  intros s tr c [M H]. split.
  - simpl. rewrite <- M. apply map_tc_upd_nth. reflexivity.
  - intros i t' Hi. simpl in Hi. rewrite upd_nth_nth in Hi.
    unfold t_ok. rewrite since_join_app, since_reset_app, after_mark_app, first_ok_app. simpl.
    destruct (Nat.eqb c i) eqn:E.
    + destruct (nth_error (trs s) i) as [t|] eqn:Ht; simpl in Hi; inversion Hi; subst t'; clear Hi.
      destruct (H i t Ht) as (H1 & H2 & H3 & H4 & H5 & H6 & H7). simpl. repeat split; auto.
    + destruct (H i t' Hi) as (H1 & H2 & H3 & H4 & H5 & H6 & H7). repeat split; auto.
Qed.

(* _connect_once: connect_attempts += 1 *)
Lemma tr_ok_attempt : forall s tr i d t, tr_ok s tr -> nth_error (trs s) i = Some t -> can_reconnect t = true ->
  (d == 0 \/ fst (first_ok tr i) = true)%Q ->
  tr_ok (upd_tr s i t_attempt) (tr ++ [OAttempt i d]).
Proof.
  intros s tr i d t [M H] Ht Hc Hd. split.
  - simpl. rewrite <- M. apply map_tc_upd_nth. reflexivity.
  - intros j t' Hj. simpl in Hj. rewrite upd_nth_nth in Hj.
    unfold t_ok. rewrite since_join_app, since_reset_app, after_mark_app, first_ok_app. simpl.
    destruct (Nat.eqb i j) eqn:E.
    + apply Nat.eqb_eq in E; subst j. rewrite Ht in Hj. simpl in Hj. inversion Hj; subst t'; clear Hj.
      destruct (H i t Ht) as (H1 & H2 & H3 & H4 & H5 & H6 & H7).
      apply can_reconnect_budget in Hc. destruct Hc as [Hf Hb].
      rewrite H4, Hf. simpl. rewrite H1, H2. repeat split; auto.
      * intros NE. destruct Hb as [Hb|Hb]; [contradiction|]. lia.
      * rewrite H6. simpl. destruct Hd as [Hd|Hd].
        -- apply Qeq_bool_iff in Hd. rewrite Hd. apply orb_true_r.
        -- rewrite Hd. reflexivity.
    + simpl. destruct (H j t' Hj) as (H1 & H2 & H3 & H4 & H5 & H6 & H7).
      repeat split; auto.
Qed.

(* a session on transport i joins; with main= the counters are reset *)
Lemma tr_ok_joined_main : forall s tr i, tr_ok s tr -> tr_ok (upd_tr s i t_joined) (tr ++ [OJoined i; OReset i]).
Proof.
  intros s tr i [M H].
  assert (WFall : forall j t, nth_error (trs s) j = Some t -> tcfg_wf (tc t)).
  { intros j t Hj. eapply tr_ok_wf; [split; eauto|eauto]. }
  split.
  - simpl. rewrite <- M. apply map_tc_upd_nth. reflexivity.
  - intros j t' Hj. simpl in Hj. rewrite upd_nth_nth in Hj.
    unfold t_ok. rewrite since_join_app, since_reset_app, after_mark_app, first_ok_app. simpl.
    destruct (Nat.eqb i j) eqn:E.
    + destruct (nth_error (trs s) j) as [t|] eqn:Ht; simpl in Hj; inversion Hj; subst t'; clear Hj.
      destruct (H j t Ht) as (H1 & H2 & H3 & H4 & H5 & H6 & H7). simpl.
      destruct (WFall j t Ht) as [W _].
      repeat split; auto; try lia; try (intros NE; contradiction).
    + destruct (H j t' Hj) as (H1 & H2 & H3 & H4 & H5 & H6 & H7). repeat split; auto.
Qed.

End Invariants.

(* ================================================================ transport_check, explicitly *)

Definition sched_state (s : comp) (i : nat) (t' : tstate) : comp :=
  upd_tr (set_pick s (Nat.modulo (S i) (length (trs s))) i) i (fun _ => t').

Lemma transport_check_shape : forall s o s' ob u, transport_check s o = (s', ob, u) ->
  (any_can s = true /\ exists i d t t',
      nth_error (trs s) i = Some t /\ can_reconnect t = true /\ same_counts t t' /\
      cyc_first (map can_reconnect (trs s)) (cursor s) = Some i /\
      ((0 <= max_delay (tc t))%Q -> (d <= max_delay (tc t))%Q) /\ (attempts t = 0%N -> d = 0%Q) /\
      ((is_tx s && qneg d = true /\ s' = sched_state s i t' /\
        ob = [OSchedule (cursor s) (map can_reconnect (trs s)) i d; OEscaped EAssert]) \/
       (is_tx s && qneg d = false /\ s' = set_delay_f (sched_state s i t') (Some (i, d)) /\
        ob = [OSchedule (cursor s) (map can_reconnect (trs s)) i d])))
  \/ (any_can s = false /\ done_pending s = true /\ s' = fire_done s /\ ob = [ODone (Some EExhausted)])
  \/ (any_can s = false /\ done_pending s = false /\ s' = s /\ ob = [OEscaped EAttr]).
Proof.
  intros s o s' ob u H. unfold transport_check in H.
  destruct (any_can s) eqn:AC; simpl in H.
  - left. split; auto.
    destruct (pick (trs s) (cursor s) (length (trs s))) as [i|] eqn:P.
    2:{ exfalso. eapply pick_complete; eauto. }
    destruct (pick_sound _ _ _ _ P) as (t & Ht & Hc). rewrite Ht in H.
    destruct (next_delay t o) as [t' d used|] eqn:ND.
    2:{ exfalso. eapply can_reconnect_next_delay_ok; eauto. }
    exists i, d, t, t'. split; auto. split; auto. split; [eapply next_delay_same; eauto|].
    split; [unfold cyc_first; rewrite map_length, <- pick_cyc; exact P|].
    split; [intro; eapply next_delay_capped; eauto|].
    split.
    { intro A. destruct (next_delay_zero_or_retry _ _ _ _ _ ND) as [(_ & B & _)|(B & _)]; auto. contradiction. }
    destruct (is_tx s && qneg d) eqn:NEG; inversion H; subst; clear H; [left|right]; auto.
  - right. unfold resolve_done in H. destruct (done_pending s) eqn:DP; inversion H; subst; clear H; [left|right]; auto.
Qed.

Lemma ls_fold_some : forall r a, fold_left ls_f r a = match fold_left ls_f r None with None => a | Some j => Some j end.
Proof.
  induction r; simpl; intros; auto. destruct a; simpl; auto.
  rewrite (IHr (Some i)). destruct (fold_left ls_f r None); auto.
Qed.

Definition cur_after (n c : nat) (a : list obs) : nat :=
  match fold_left ls_f a None with None => c | Some i => Nat.modulo (S i) n end.

Lemma chain_cursor_app : forall n a b c, chain_cursor n c a -> chain_cursor n (cur_after n c a) b -> chain_cursor n c (a ++ b).
Proof.
  intros n a. induction a; intros b c Ha Hb.
  - exact Hb.
  - destruct a; simpl in *; try (apply IHa; auto; fail).
    destruct Ha as [E Ha]. split; auto. apply IHa; auto.
    unfold cur_after in *. simpl in Hb. rewrite ls_fold_some in Hb. destruct (fold_left ls_f a0 None); auto.
Qed.

(* observations that neither the future nor the schedule/attempt bookkeeping sees *)
Definition dquiet (o : obs) : bool :=
  match o with ODone _ | OSchedule _ _ _ _ | OAttempt _ _ => false | _ => true end.

Lemma quiet_dquiet : forall ob, forallb quiet ob = true -> forallb dquiet ob = true.
Proof. induction ob; simpl; intros; auto. apply andb_prop in H. destruct H. rewrite IHob; auto. destruct a; simpl in *; auto. Qed.

Lemma done_count_dquiet : forall ob, forallb dquiet ob = true -> done_count ob = 0%nat.
Proof. induction ob; simpl; intros; auto. apply andb_prop in H. destruct H. unfold done_count in *. simpl.
  destruct a; simpl in *; try discriminate; auto. Qed.

Lemma fold_ls_dquiet : forall ob a, forallb dquiet ob = true -> fold_left ls_f ob a = a.
Proof. induction ob; simpl; intros; auto. apply andb_prop in H. destruct H. destruct a; simpl in *; try discriminate; auto. Qed.

(* ================================================================ invariant, part 2: the chain and the future *)

Section Invariants2.
Variable ts : list tcfg.
Hypothesis WF : Forall tcfg_wf ts.

Definition conn_wf (c : conn) : Prop :=
  (c_phase c = Connecting -> c_cf c = false /\ c_sess c = false) /\ (c_main c = true -> c_sess c = true).

Definition delay_ok (s : comp) (tr : list obs) (i : nat) (d : Q) : Prop :=
  cand s = i /\ exists t, nth_error (trs s) i = Some t /\ can_reconnect t = true /\ (d <= max_delay (tc t))%Q /\
                          ((d == 0)%Q \/ fst (first_ok tr i) = true).

Definition chain_ok (s : comp) (tr : list obs) : Prop :=
  Forall conn_wf (conns s) /\
  match delay_f s with
  | Some (i, d) => (forall c, In c (conns s) -> c_cf c = true) /\ delay_ok s tr i d
  | None => forall k c, nth_error (conns s) k = Some c -> c_cf c = false -> S k = length (conns s) /\ cand s = c_tr c
  end.

Definition done_ok (s : comp) (tr : list obs) : Prop :=
  done_count tr = N.to_nat (ndone s) /\
  (started s = true -> (ndone s + (if done_pending s then 1 else 0) = 1)%N) /\
  (started s = false -> ndone s = 0%N /\ done_pending s = false /\ delay_f s = None /\ conns s = [] /\
                        last_scheduled tr = None).

Definition cursor_of (tr : list obs) : nat := cur_after (length ts) 0 tr.

Definition trace_ok (s : comp) (tr : list obs) : Prop :=
  (forall i d, In (OAttempt i d) tr -> exists c, nth_error ts i = Some c /\ (d <= max_delay c)%Q) /\
  (forall cur elig i d, In (OSchedule cur elig i d) tr ->
      cyc_first elig cur = Some i /\ exists c, nth_error ts i = Some c /\ (d <= max_delay c)%Q) /\
  chain_cursor (length ts) 0 tr /\
  (started s = true -> cursor s = cursor_of tr).

Definition Inv (s : comp) (tr : list obs) : Prop :=
  tr_ok ts s tr /\ chain_ok s tr /\ done_ok s tr /\ trace_ok s tr.

(* a state in which the reconnect chain may run: no delay pending, every per-connection future called *)
Definition ready (s : comp) (tr : list obs) : Prop :=
  tr_ok ts s tr /\ done_ok s tr /\ trace_ok s tr /\ Forall conn_wf (conns s) /\ delay_f s = None /\
  (forall c, In c (conns s) -> c_cf c = true) /\ started s = true.

Lemma nth_ts : forall s tr i t, tr_ok ts s tr -> nth_error (trs s) i = Some t -> nth_error ts i = Some (tc t).
Proof. intros s tr i t [M _] H. rewrite <- M. rewrite nth_error_map, H. reflexivity. Qed.

Lemma trace_ok_quiet : forall s tr ob, trace_ok s tr -> forallb dquiet ob = true -> trace_ok s (tr ++ ob).
Proof.
  intros s tr ob (A & B & C & D) Q.
  assert (NI : forall x, In x ob -> dquiet x = true) by (apply forallb_forall; auto).
  split; [|split; [|split]].
  - intros i d Hin. apply in_app_or in Hin. destruct Hin as [Hin|Hin]; auto. apply NI in Hin. discriminate.
  - intros cur elig i d Hin. apply in_app_or in Hin. destruct Hin as [Hin|Hin]; auto. apply NI in Hin. discriminate.
  - apply chain_cursor_app; auto. clear - Q. revert Q. generalize (cur_after (length ts) 0 tr).
    induction ob; simpl; intros; auto. apply andb_prop in Q. destruct Q. destruct a; simpl in *; try discriminate; auto.
  - intros S. rewrite (D S). unfold cursor_of, cur_after. rewrite fold_left_app, (fold_ls_dquiet ob); auto.
Qed.

Lemma done_ok_quiet : forall s tr ob, done_ok s tr -> forallb dquiet ob = true -> done_ok s (tr ++ ob).
Proof.
  intros s tr ob (A & B & C) Q. split; [|split]; auto.
  - rewrite done_count_app, (done_count_dquiet ob), Nat.add_0_r; auto.
  - intros S. destruct (C S) as (C1 & C2 & C3 & C4 & C5). repeat split; auto.
    rewrite last_scheduled_app, (fold_ls_dquiet ob); auto.
Qed.

Lemma chain_ok_app : forall s tr ob, chain_ok s tr -> chain_ok s (tr ++ ob).
Proof.
  intros s tr ob [A B]. split; auto. destruct (delay_f s) as [[i d]|]; auto.
  destruct B as [B1 (B2 & t & B3 & B4 & B5 & B6)]. split; auto. split; auto. exists t. repeat split; auto.
  destruct B6; auto. right. apply first_ok_mono; auto.
Qed.

Lemma inv_quiet : forall s tr ob, Inv s tr -> forallb quiet ob = true -> Inv s (tr ++ ob).
Proof.
  intros s tr ob (A & B & C & D) Q. split; [|split; [|split]].
  - apply tr_ok_quiet; auto. apply quiet_tquiet; auto.
  - apply chain_ok_app; auto.
  - apply done_ok_quiet; auto. apply quiet_dquiet; auto.
  - apply trace_ok_quiet; auto. apply quiet_dquiet; auto.
Qed.

Lemma ready_quiet : forall s tr ob, ready s tr -> forallb quiet ob = true -> ready s (tr ++ ob).
Proof.
  intros s tr ob (A & B & C & D) Q. split; [|split; [|split]]; auto.
  - apply tr_ok_quiet; auto. apply quiet_tquiet; auto.
  - apply done_ok_quiet; auto. apply quiet_dquiet; auto.
  - apply trace_ok_quiet; auto. apply quiet_dquiet; auto.
Qed.

(* transport_check from a ready state re-establishes the invariant *)
Lemma transport_check_inv : forall s tr o s' ob u, ready s tr -> transport_check s o = (s', ob, u) -> Inv s' (tr ++ ob).
Proof.
  intros s tr o s' ob u (TR & DN & TO & CW & DF & CF & ST) H.
  destruct (transport_check_shape _ _ _ _ _ H) as [(AC & i & d & t & t' & Ht & Hc & SC & CY & CAP & Z0 & SH)|[(AC & DP & E1 & E2)|(AC & DP & E1 & E2)]].
  - (* scheduled *)
    assert (W : tcfg_wf (tc t)) by (eapply tr_ok_wf; eauto).
    assert (CAP' : (d <= max_delay (tc t))%Q) by (apply CAP; apply W).
    assert (TSi : nth_error ts i = Some (tc t)) by (eapply nth_ts; eauto).
    assert (TS : trs_same s (sched_state s i t')).
    { unfold trs_same, sched_state. simpl. eapply Forall2_upd_nth; eauto. }
    assert (NT : nth_error (trs (sched_state s i t')) i = Some t').
    { unfold sched_state. simpl. erewrite upd_nth_same; eauto. }
    destruct TO as (TO1 & TO2 & TO3 & TO4). destruct DN as (DN1 & DN2 & DN3).
    assert (TRACE : forall sx obx, started sx = true -> cursor sx = Nat.modulo (S i) (length (trs s)) ->
              (obx = [OSchedule (cursor s) (map can_reconnect (trs s)) i d; OEscaped EAssert] \/
               obx = [OSchedule (cursor s) (map can_reconnect (trs s)) i d]) -> trace_ok sx (tr ++ obx)).
    { intros sx obx STX CX OBX.
      assert (LEN : length (trs s) = length ts) by (destruct TR as [M _]; rewrite <- M, map_length; auto).
      split; [|split; [|split]].
      - intros j dj Hin. apply in_app_or in Hin. destruct Hin as [Hin|Hin]; auto.
        destruct OBX; subst obx; simpl in Hin; intuition discriminate.
      - intros cur elig j dj Hin. apply in_app_or in Hin. destruct Hin as [Hin|Hin]; auto.
        assert (E : OSchedule (cursor s) (map can_reconnect (trs s)) i d = OSchedule cur elig j dj).
        { destruct OBX; subst obx; simpl in Hin; intuition discriminate. }
        inversion E; subst. split; auto. exists (tc t). split; auto.
      - apply chain_cursor_app; auto. fold (cursor_of tr). rewrite <- (TO4 ST).
        destruct OBX; subst obx; simpl; auto.
      - intros _. rewrite CX, LEN. unfold cursor_of, cur_after. rewrite fold_left_app.
        destruct OBX; subst obx; simpl; reflexivity. }
    assert (DONE : forall sx obx, started sx = started s -> ndone sx = ndone s -> done_pending sx = done_pending s ->
              (obx = [OSchedule (cursor s) (map can_reconnect (trs s)) i d; OEscaped EAssert] \/
               obx = [OSchedule (cursor s) (map can_reconnect (trs s)) i d]) -> done_ok sx (tr ++ obx)).
    { intros sx obx E1 E2 E3 OBX. split; [|split].
      - rewrite done_count_app, E2, <- DN1. destruct OBX; subst obx; unfold done_count; simpl; lia.
      - rewrite E1, E2, E3. auto.
      - rewrite E1, ST. discriminate. }
    destruct SH as [(NEG & E1 & E2)|(NEG & E1 & E2)]; subst s' ob.
    + split; [|split; [|split]].
      * eapply tr_ok_same; eauto.
      * split; [exact CW|]. unfold sched_state; simpl. rewrite DF. intros k c Hk Hcf.
        rewrite (CF c) in Hcf; [discriminate|]. eapply nth_error_In; eauto.
      * apply DONE; auto.
      * apply TRACE; auto.
    + split; [|split; [|split]].
      * eapply tr_ok_same; eauto.
      * split; [exact CW|]. simpl. split; [exact CF|]. split; [reflexivity|].
        exists t'. split; [exact NT|].
        split; [rewrite (same_counts_can _ _ SC); auto|].
        destruct SC as (SC1 & SC2 & SC3). rewrite SC1. split; auto.
        destruct (N.eq_dec (attempts t) 0) as [Z|NZ].
        -- left. rewrite (Z0 Z). apply Qeq_refl.
        -- right. apply first_ok_mono. destruct TR as [_ TR]. destruct (TR i t Ht) as (_ & _ & _ & _ & _ & _ & F). auto.
      * apply DONE; auto.
      * apply TRACE; auto.
  - (* exhausted, future fires *)
    subst s' ob. destruct TO as (TO1 & TO2 & TO3 & TO4). destruct DN as (DN1 & DN2 & DN3).
    split; [|split; [|split]].
    + apply tr_ok_quiet; auto.
    + split; [exact CW|]. simpl. rewrite DF. intros k c Hk Hcf. rewrite (CF c) in Hcf; [discriminate|]. eapply nth_error_In; eauto.
    + split; [|split]; simpl.
      * rewrite done_count_app, DN1. unfold done_count; simpl. lia.
      * intros _. specialize (DN2 ST). rewrite DP in DN2. lia.
      * rewrite ST. discriminate.
    + split; [|split; [|split]].
      * intros j dj Hin. apply in_app_or in Hin. destruct Hin as [Hin|Hin]; auto. simpl in Hin; intuition discriminate.
      * intros cur elig j dj Hin. apply in_app_or in Hin. destruct Hin as [Hin|Hin]; auto. simpl in Hin; intuition discriminate.
      * apply chain_cursor_app; simpl; auto.
      * simpl. intros _. rewrite (TO4 ST). unfold cursor_of, cur_after. rewrite fold_left_app. reflexivity.
  - (* exhausted, future gone *)
    subst s' ob. apply inv_quiet; [|reflexivity]. split; [|split; [|split]]; auto.
    split; [exact CW|]. rewrite DF. intros k c Hk Hcf. rewrite (CF c) in Hcf; [discriminate|]. eapply nth_error_In; eauto.
Qed.

End Invariants2.

(* ================================================================ the chain operations keep the invariant *)

Section Invariants3.
Variable ts : list tcfg.
Hypothesis WF : Forall tcfg_wf ts.

Lemma ready_inv : forall s tr, ready ts s tr -> Inv ts s tr.
Proof.
  intros s tr (TR & DN & TO & CW & DF & CF & ST). split; [|split; [|split]]; auto.
  split; auto. rewrite DF. intros k c Hk Hcf. rewrite (CF c) in Hcf; [discriminate|]. eapply nth_error_In; eauto.
Qed.

(* invariants only read these fields *)
Lemma inv_ext : forall s s' tr, trs s' = trs s -> conns s' = conns s -> delay_f s' = delay_f s -> cand s' = cand s ->
  cursor s' = cursor s -> done_pending s' = done_pending s -> ndone s' = ndone s -> started s' = started s ->
  Inv ts s tr -> Inv ts s' tr.
Proof.
  intros s s' tr E1 E2 E3 E4 E5 E6 E7 E8 (TR & CH & DN & TO).
  unfold Inv, tr_ok, chain_ok, delay_ok, done_ok, trace_ok in *.
  rewrite E1, E2, E3, E4, E5, E6, E7, E8. auto.
Qed.

Lemma ready_mark : forall s tr c, ready ts s tr -> ready ts (upd_tr s c t_fail) (tr ++ [OMarkFailed c]).
Proof.
  intros s tr c (TR & DN & TO & CW & DF & CF & ST). split; [|split; [|split]]; auto.
  - apply tr_ok_mark; auto.
  - apply (done_ok_quiet (upd_tr s c t_fail)); [|reflexivity]. exact DN.
  - apply (trace_ok_quiet ts (upd_tr s c t_fail)); [|reflexivity]. exact TO.
Qed.

Lemma cf_fail_inv : forall s tr i e o s' ob u, ready ts s tr -> cf_fail s i e o = (s', ob, u) -> Inv ts s' (tr ++ ob).
Proof.
  intros s tr i e o s' ob u R H. unfold cf_fail in H.
  destruct (is_fatal s e).
  - destruct (transport_check (upd_tr s (cand s) t_fail) o) as [[s2 ob2] used] eqn:T. inversion H; subst; clear H.
    assert (E : tr ++ OFail i e :: [OMarkFailed (cand s)] ++ ob2 = ((tr ++ [OFail i e]) ++ [OMarkFailed (cand s)]) ++ ob2)
      by (repeat rewrite <- app_assoc; reflexivity).
    simpl in E. simpl. rewrite E. eapply (transport_check_inv ts WF); [|exact T]. apply ready_mark. apply ready_quiet; auto.
  - destruct (transport_check s o) as [[s2 ob2] used] eqn:T. inversion H; subst; clear H.
    assert (E : tr ++ OFail i e :: [] ++ ob2 = (tr ++ [OFail i e]) ++ ob2) by (rewrite <- app_assoc; reflexivity).
    simpl in E. simpl. rewrite E. eapply (transport_check_inv ts WF); [|exact T]. apply ready_quiet; auto.
Qed.

Lemma fire_done_inv : forall s tr r, Inv ts s tr -> done_pending s = true -> Inv ts (fire_done s) (tr ++ [ODone r]).
Proof.
  intros s tr r (TR & CH & DN & TO) DP.
  assert (ST : started s = true).
  { destruct (started s) eqn:E; auto. destruct DN as (_ & _ & DN). destruct (DN E) as (_ & X & _). congruence. }
  split; [|split; [|split]].
  - apply (tr_ok_quiet ts s); auto.
  - apply (chain_ok_app (fire_done s)). exact CH.
  - destruct DN as (DN1 & DN2 & DN3). split; [|split]; simpl.
    + rewrite done_count_app, DN1. unfold done_count; simpl. lia.
    + intros _. specialize (DN2 ST). rewrite DP in DN2. lia.
    + rewrite ST. discriminate.
  - destruct TO as (TO1 & TO2 & TO3 & TO4). split; [|split; [|split]].
    + intros j dj Hin. apply in_app_or in Hin. destruct Hin as [Hin|Hin]; auto. simpl in Hin; intuition discriminate.
    + intros cur elig j dj Hin. apply in_app_or in Hin. destruct Hin as [Hin|Hin]; auto. simpl in Hin; intuition discriminate.
    + apply chain_cursor_app; simpl; auto.
    + simpl. intros _. rewrite (TO4 ST). unfold cursor_of, cur_after. rewrite fold_left_app. reflexivity.
Qed.

Lemma resolve_done_inv : forall s tr r s1 ob1 raised, Inv ts s tr -> resolve_done s r = (s1, ob1, raised) ->
  Inv ts s1 (tr ++ ob1).
Proof.
  intros s tr r s1 ob1 raised I H. unfold resolve_done in H. destruct (done_pending s) eqn:DP; inversion H; subst; clear H.
  - apply fire_done_inv; auto.
  - rewrite app_nil_r. auto.
Qed.

Lemma cf_ok_inv : forall s tr i o s' ob u, ready ts s tr -> cf_ok s i o = (s', ob, u) -> Inv ts s' (tr ++ ob).
Proof.
  intros s tr i o s' ob u R H. unfold cf_ok in H. unfold resolve_done in H.
  destruct (done_pending s) eqn:DP.
  - inversion H; subst; clear H. apply fire_done_inv; auto. apply ready_inv; auto.
  - destruct (is_tx s).
    + inversion H; subst; clear H. apply inv_quiet; [apply ready_inv; auto|reflexivity].
    + eapply cf_fail_inv; eauto.
Qed.

(* ---------------------------------------------------------------- connection records *)

Lemma upd_nth_In : forall A (l : list A) k f x, In x (upd_nth l k f) ->
  In x l \/ exists y, nth_error l k = Some y /\ x = f y.
Proof.
  induction l; destruct k; simpl; intros; auto.
  - destruct H; [right; exists a; auto|left; auto].
  - destruct H; [left; auto|]. apply IHl in H. destruct H as [H|(y & H1 & H2)]; [left; auto|right; exists y; auto].
Qed.

Lemma Forall_upd_nth : forall A (P : A -> Prop) l k f, Forall P l -> (forall x, nth_error l k = Some x -> P (f x)) ->
  Forall P (upd_nth l k f).
Proof.
  intros A P l k f F H. apply Forall_forall. intros x Hin. apply upd_nth_In in Hin.
  destruct Hin as [Hin|(y & H1 & H2)].
  - rewrite Forall_forall in F. auto.
  - subst. auto.
Qed.

(* an update of connection k that leaves its future and transport alone *)
Lemma inv_upd_conn : forall s tr k f, Inv ts s tr ->
  (forall c, nth_error (conns s) k = Some c -> c_cf (f c) = c_cf c /\ c_tr (f c) = c_tr c /\ conn_wf (f c)) ->
  Inv ts (upd_conn s k f) tr.
Proof.
  intros s tr k f (TR & CH & DN & TO) HF. split; [|split; [|split]]; auto.
  - destruct CH as [CW CH]. split.
    + simpl. apply Forall_upd_nth; auto. intros x Hx. apply HF; auto.
    + simpl. destruct (delay_f s) as [[i d]|].
      * destruct CH as [CF DO]. split; auto. intros c Hin. apply upd_nth_In in Hin.
        destruct Hin as [Hin|(y & H1 & H2)]; auto. subst. destruct (HF y H1) as (E & _). rewrite E. apply CF.
        eapply nth_error_In; eauto.
      * intros j c Hj Hcf. rewrite upd_nth_length. rewrite upd_nth_nth in Hj.
        destruct (Nat.eqb k j) eqn:E.
        -- apply Nat.eqb_eq in E; subst j. destruct (nth_error (conns s) k) as [y|] eqn:Hy; simpl in Hj; inversion Hj; subst.
           destruct (HF y eq_refl) as (E1 & E2 & _). rewrite E1 in Hcf. rewrite E2. apply (CH k y); auto.
        -- apply (CH j c); auto.
  - destruct DN as (DN1 & DN2 & DN3). split; [|split]; auto. intros S. destruct (DN3 S) as (A & B & C & D & E).
    repeat split; auto. simpl. rewrite D. destruct k; reflexivity.
Qed.

(* complete the future of connection k (which must be the uncalled one): ready to run the chain *)
Lemma ready_complete : forall s tr k c g, Inv ts s tr -> nth_error (conns s) k = Some c -> c_cf c = false ->
  c_cf (g c) = true -> conn_wf (g c) -> ready ts (upd_conn s k g) tr.
Proof.
  intros s tr k c g (TR & CH & DN & TO) Hk Hcf G1 G2.
  assert (ST : started s = true).
  { destruct (started s) eqn:E; auto. destruct DN as (_ & _ & DN). destruct (DN E) as (_ & _ & _ & X & _).
    rewrite X in Hk. destruct k; discriminate. }
  destruct CH as [CW CH].
  assert (DF : delay_f s = None).
  { destruct (delay_f s) as [[i d]|]; auto. destruct CH as [CF _]. rewrite (CF c) in Hcf; [discriminate|].
    eapply nth_error_In; eauto. }
  rewrite DF in CH.
  split; [|split; [|split; [|split; [|split; [|split]]]]]; auto.
  - destruct DN as (DN1 & DN2 & DN3). split; [|split]; auto. simpl. rewrite ST. discriminate.
  - simpl. apply Forall_upd_nth; auto. intros x Hx. rewrite Hk in Hx. inversion Hx; subst; auto.
  - simpl. intros x Hin. apply In_nth_error in Hin. destruct Hin as (j & Hj). rewrite upd_nth_nth in Hj.
    destruct (Nat.eqb k j) eqn:E.
    + apply Nat.eqb_eq in E; subst j. rewrite Hk in Hj. simpl in Hj. inversion Hj; subst; auto.
    + destruct (c_cf x) eqn:X; auto. destruct (CH j x Hj X) as [L _]. destruct (CH k c Hk Hcf) as [L' _].
      apply Nat.eqb_neq in E. lia.
Qed.

Lemma inv_no_delay : forall s tr k c, Inv ts s tr -> nth_error (conns s) k = Some c -> c_cf c = false ->
  delay_f s = None /\ S k = length (conns s) /\ cand s = c_tr c.
Proof.
  intros s tr k c (TR & [CW CH] & DN & TO) Hk Hcf.
  destruct (delay_f s) as [[i d]|].
  - destruct CH as [CF _]. rewrite (CF c) in Hcf; [discriminate|]. eapply nth_error_In; eauto.
  - split; auto.
Qed.

Lemma inv_conn_wf : forall s tr k c, Inv ts s tr -> nth_error (conns s) k = Some c -> conn_wf c.
Proof.
  intros s tr k c (TR & [CW CH] & DN & TO) Hk. rewrite Forall_forall in CW. apply CW. eapply nth_error_In; eauto.
Qed.

Lemma upd_conn_twice : forall s k f g, upd_conn (upd_conn s k f) k g = upd_conn s k (fun c => g (f c)).
Proof.
  intros. unfold upd_conn, set_conns. simpl. f_equal.
  generalize (conns s) k. induction l; destruct k0; simpl; auto. f_equal; auto.
Qed.

Lemma inv_upd_tr_same : forall s tr i f, Inv ts s tr -> (forall t, same_counts t (f t)) -> Inv ts (upd_tr s i f) tr.
Proof.
  intros s tr i f (TR & CH & DN & TO) SF.
  assert (TS : trs_same s (upd_tr s i f)).
  { unfold trs_same. simpl. generalize (trs s) i. induction l; destruct i0; simpl; constructor; auto.
    - apply Forall2_refl_sc. - apply same_counts_refl. }
  split; [|split; [|split]]; auto.
  - rewrite <- (app_nil_r tr). eapply tr_ok_same; eauto.
  - destruct CH as [CW CH]. split; auto. simpl. destruct (delay_f s) as [[j d]|]; auto.
    destruct CH as [CF (E & t & H1 & H2 & H3 & H4)]. split; auto. split; auto.
    destruct (Forall2_nth_l _ _ _ _ TS H1) as (t' & Ht' & SC). exists t'. split; auto.
    split; [rewrite (same_counts_can _ _ SC); auto|]. destruct SC as (S1 & _). rewrite S1. auto.
Qed.

End Invariants3.

(* ================================================================ every step keeps the invariant *)

Section StepInv.
Variable ts : list tcfg.
Hypothesis WF : Forall tcfg_wf ts.

Lemma init_inv : forall c, Inv ts (init c ts) [].
Proof.
  intros c. split; [|split; [|split]].
  - split; simpl.
    + rewrite map_map. simpl. apply map_id.
    + intros i t H. rewrite nth_error_map in H. destruct (nth_error ts i) eqn:E; simpl in H; inversion H; subst.
      assert (W : tcfg_wf t0). { rewrite Forall_forall in WF. apply WF. eapply nth_error_In; eauto. }
      destruct W as [W _]. unfold t_ok, since_join, since_reset, after_mark, first_ok. simpl. repeat split; auto; try lia; try (intros X; exfalso; apply X; reflexivity).
  - split; simpl; auto. intros k c0 H. destruct k; discriminate.
  - split; [|split]; simpl; auto. discriminate.
  - split; [|split; [|split]]; simpl; auto; try contradiction; try discriminate.
Qed.

Lemma started_of_conn : forall s tr k c, Inv ts s tr -> nth_error (conns s) k = Some c -> started s = true.
Proof.
  intros s tr k c (_ & _ & (_ & _ & DN) & _) Hk. destruct (started s) eqn:E; auto. exfalso.
  destruct DN as (_ & _ & _ & X & _); [solve [auto]|]. rewrite X in Hk. destruct k; discriminate.
Qed.

Ltac wf_conn := unfold conn_wf; simpl; intuition (try discriminate; try congruence).

Lemma step_inv : forall s tr e o s' ob u, Inv ts s tr -> step s e o = (s', ob, u) ->
  (e = EvStart -> started s = false) -> Inv ts s' (tr ++ ob).
Proof.
  intros s tr e o s' ob u I H HS.
  destruct e; simpl in H.
  - (* EvStart *)
    specialize (HS eq_refl).
    destruct I as (TR & CH & DN & TO). destruct DN as (DN1 & DN2 & DN3). destruct (DN3 HS) as (A & B & C & D & E).
    rewrite B in H. eapply (transport_check_inv ts WF); [|exact H].
    destruct TO as (TO1 & TO2 & TO3 & TO4).
    split; [|split; [|split; [|split; [|split; [|split]]]]]; simpl; auto.
    + split; [|split]; simpl; auto; try discriminate. intros _. rewrite A. reflexivity.
    + split; [|split; [|split]]; simpl; auto. intros _. unfold cursor_of, cur_after. change (fold_left ls_f tr None) with (last_scheduled tr). rewrite E. reflexivity.
    + rewrite D. constructor.
    + rewrite D. simpl. contradiction.
  - (* EvTimer *)
    destruct (delay_f s) as [[i d]|] eqn:DF.
    2:{ inversion H; subst. rewrite app_nil_r. auto. }
    inversion H; subst; clear H.
    destruct I as (TR & [CW CH] & DN & TO). rewrite DF in CH. destruct CH as [CF (CA & t & Ht & Hc & CAP & FO)].
    assert (ST : started s = true).
    { destruct (started s) eqn:E; auto. destruct DN as (_ & _ & DN). destruct (DN E) as (_ & _ & X & _). congruence. }
    split; [|split; [|split]].
    + apply (tr_ok_attempt ts (set_conns (set_delay_f s None) (conns s ++ [c_new i])) tr i d t); auto.
    + split; simpl.
      * apply Forall_app. split; auto. constructor; [wf_conn|constructor].
      * intros k c Hk Hcf. rewrite app_length. simpl.
        destruct (lt_dec k (length (conns s))) as [L|L].
        -- rewrite nth_error_app1 in Hk by auto. rewrite (CF c) in Hcf; [discriminate|]. eapply nth_error_In; eauto.
        -- assert (k = length (conns s)).
           { assert (k < length (conns s ++ [c_new i])) by (apply nth_error_Some; congruence). rewrite app_length in H. simpl in H. lia. }
           subst k. rewrite nth_error_app_last in Hk. inversion Hk; subst. simpl. split; [lia|auto].
    + destruct DN as (DN1 & DN2 & DN3). split; [|split]; simpl; auto.
      * rewrite done_count_app. unfold done_count at 2. simpl. lia.
      * rewrite ST. discriminate.
    + destruct TO as (TO1 & TO2 & TO3 & TO4). split; [|split; [|split]].
      * intros j dj Hin. apply in_app_or in Hin. destruct Hin as [Hin|[Hin|[]]]; auto. inversion Hin; subst.
        exists (tc t). split; auto. eapply nth_ts; eauto.
      * intros cur elig j dj Hin. apply in_app_or in Hin. destruct Hin as [Hin|[Hin|[]]]; auto. discriminate.
      * apply chain_cursor_app; simpl; auto.
      * simpl. intros _. rewrite (TO4 ST). unfold cursor_of, cur_after. rewrite fold_left_app. reflexivity.
  - (* EvStop *)
    assert (I0 : Inv ts (set_stopping s) tr) by (apply (inv_ext ts s); auto).
    assert (CANCEL : forall p, delay_f s = Some p -> Inv ts (set_delay_f (set_stopping s) None) tr).
    { intros p DF. destruct I0 as (TR & [CW CH] & DN & TO). simpl in CH. rewrite DF in CH. destruct p as [i d]. destruct CH as [CF _].
      split; [|split; [|split]]; auto.
      - split; auto. simpl. intros j c Hj Hcf. rewrite (CF c) in Hcf; [discriminate|]. eapply nth_error_In; eauto.
      - destruct DN as (DN1 & DN2 & DN3). split; [|split]; auto. intros S. simpl in *. destruct (DN3 S) as (A & B & C & D). congruence. }
    destruct (cur_sess s) as [k|] eqn:CS.
    + destruct (match nth_error (conns s) k with Some c => c_attached c | None => false end) eqn:AT.
      * inversion H; subst. apply inv_quiet; auto.
      * destruct (delay_f s) as [p|] eqn:DF.
        -- destruct (resolve_done (set_delay_f (set_stopping s) None) None) as [[s1 ob1] raised] eqn:R. inversion H; subst; clear H.
           rewrite app_assoc. apply inv_quiet; [|destruct raised; reflexivity].
           eapply resolve_done_inv; [|exact R]. eapply CANCEL; eauto.
        -- destruct (resolve_done (set_stopping s) None) as [[s1 ob1] raised] eqn:R. inversion H; subst; clear H.
           rewrite app_assoc. apply inv_quiet; [|reflexivity]. eapply resolve_done_inv; eauto.
    + destruct (delay_f s) as [p|] eqn:DF.
      * destruct (resolve_done (set_delay_f (set_stopping s) None) None) as [[s1 ob1] raised] eqn:R. inversion H; subst; clear H.
        rewrite app_assoc. apply inv_quiet; [|destruct raised; reflexivity].
        eapply resolve_done_inv; [|exact R]. eapply CANCEL; eauto.
      * destruct (resolve_done (set_stopping s) None) as [[s1 ob1] raised] eqn:R. inversion H; subst; clear H.
        rewrite app_assoc. apply inv_quiet; [|reflexivity]. eapply resolve_done_inv; eauto.
  - (* EvConnFail *)
    destruct (nth_error (conns s) k) as [c|] eqn:Hk.
    2:{ inversion H; subst. rewrite app_nil_r. auto. }
    destruct (c_phase c) eqn:PH; try (inversion H; subst; rewrite app_nil_r; auto; fail).
    destruct (inv_conn_wf ts s tr k c I Hk) as [W1 W2]. destruct (W1 PH) as [Hcf Hse].
    eapply (cf_fail_inv ts WF); [|exact H].
    assert (R : ready ts (upd_conn s k (fun c0 => c_call_cf (c_set_phase Closed c0))) tr).
    { eapply ready_complete; eauto. wf_conn. }
    assert (I2 : Inv ts (upd_tr (upd_conn s k (fun c0 => c_call_cf (c_set_phase Closed c0))) (c_tr c)
                                (fun t => t_add_failures t (if is_tx s then 1%N else 2%N))) tr).
    { apply inv_upd_tr_same; [apply ready_inv; exact R|]. intros t; repeat split. }
    destruct R as (TR & DN & TO & CW & DF & CF & ST).
    destruct I2 as (TR2 & CH2 & DN2 & TO2).
    split; [|split; [|split; [|split; [|split; [|split]]]]]; auto.
  - (* EvConnOk *)
    destruct (nth_error (conns s) k) as [c|] eqn:Hk.
    2:{ inversion H; subst. rewrite app_nil_r. auto. }
    destruct (c_phase c) eqn:PH; inversion H; subst; rewrite app_nil_r; auto.
    apply inv_upd_conn; auto. intros c0 Hc0. rewrite Hk in Hc0. inversion Hc0; subst c0.
    destruct (inv_conn_wf ts s tr k c I Hk) as [W1 W2]. destruct (W1 PH) as [Hcf Hse].
    split; auto. split; auto. unfold conn_wf; simpl. split; [discriminate|]. intros M. rewrite (W2 M) in Hse. discriminate.
  - (* EvSessOpen *)
    destruct (nth_error (conns s) k) as [c|] eqn:Hk.
    2:{ inversion H; subst. rewrite app_nil_r. auto. }
    destruct (c_phase c) eqn:PH; try (inversion H; subst; rewrite app_nil_r; auto; fail).
    destruct (c_sess c) eqn:SE; inversion H; subst; clear H; [rewrite app_nil_r; auto|].
    apply inv_quiet; [|simpl; apply notify_quiet].
    apply (inv_ext ts (upd_conn s k c_set_sess)); auto.
    apply inv_upd_conn; auto. intros c0 Hc0. rewrite Hk in Hc0. inversion Hc0; subst c0.
    split; auto. split; auto. unfold conn_wf; simpl. rewrite PH. split; [discriminate|auto].
  - (* EvSessJoin *)
    destruct (nth_error (conns s) k) as [c|] eqn:Hk.
    2:{ inversion H; subst. rewrite app_nil_r. auto. }
    destruct (c_sess c) eqn:SE; [|inversion H; subst; rewrite app_nil_r; auto].
    destruct (inv_conn_wf ts s tr k c I Hk) as [W1 W2].
    assert (PH : c_phase c <> Connecting) by (intro X; destruct (W1 X); congruence).
    assert (I1 : Inv ts (upd_conn s k (c_set_attached true)) tr).
    { apply inv_upd_conn; auto. intros c0 Hc0. rewrite Hk in Hc0. inversion Hc0; subst c0.
      split; auto. split; auto. unfold conn_wf; simpl. split; [intro X; contradiction|auto]. }
    inversion H; subst; clear H.
    match goal with |- Inv ts ?S _ =>
      change (Inv ts S (tr ++ ([OJoined (c_tr c); OReset (c_tr c)] ++ (notify s k SJoin ++ notify s k SReady)))) end.
    rewrite app_assoc.
    apply inv_quiet; [|apply forallb_app_intro; apply notify_quiet].
    assert (I2 : Inv ts (upd_tr (upd_conn s k (c_set_attached true)) (c_tr c) t_joined) (tr ++ [OJoined (c_tr c); OReset (c_tr c)])).
    { destruct I1 as (TR & [CW CH] & DN & TO). split; [|split; [|split]].
      - apply tr_ok_joined_main; auto.
      - split; auto. simpl in *. destruct (delay_f s) as [[i d]|]; auto.
        destruct CH as [CF (CA & t & Ht & Hc & CAP & FO)]. split; auto. split; auto.
        unfold upd_tr; simpl. simpl in Ht. rewrite upd_nth_nth. destruct (Nat.eqb (c_tr c) i) eqn:E.
        + rewrite Ht. simpl. exists (t_joined t). split; auto.
          assert (W : tcfg_wf (tc t)) by (eapply (tr_ok_wf ts WF); eauto).
          destruct W as [W _]. apply can_reconnect_budget in Hc. destruct Hc as [Hf Hb].
          split; [apply can_reconnect_iff; simpl; split; auto; destruct (Z.eq_dec (max_retries (tc t)) (-1)); [left; auto|right; lia]|].
          simpl. split; auto. destruct FO; auto. right. apply first_ok_mono; auto.
        + exists t. repeat split; auto. destruct FO; auto. right. apply first_ok_mono; auto.
      - apply (done_ok_quiet (upd_tr (upd_conn s k (c_set_attached true)) (c_tr c) t_joined)); [|reflexivity]. exact DN.
      - apply (trace_ok_quiet ts (upd_tr (upd_conn s k (c_set_attached true)) (c_tr c) t_joined)); [|reflexivity]. exact TO. }
    change (upd_conn (upd_tr (upd_conn s k (c_set_attached true)) (c_tr c) t_joined) k (c_set_main (has_main (cfg s))))
      with (upd_tr (upd_conn (upd_conn s k (c_set_attached true)) k (c_set_main (has_main (cfg s)))) (c_tr c) t_joined).
    rewrite upd_conn_twice.
    change (upd_tr (upd_conn s k (fun c0 => c_set_main (has_main (cfg s)) (c_set_attached true c0))) (c_tr c) t_joined)
      with (upd_conn (upd_tr s (c_tr c) t_joined) k (fun c0 => c_set_main (has_main (cfg s)) (c_set_attached true c0))).
    change (upd_tr (upd_conn s k (c_set_attached true)) (c_tr c) t_joined)
      with (upd_conn (upd_tr s (c_tr c) t_joined) k (c_set_attached true)) in I2.
    assert (I3 := inv_upd_conn ts (upd_conn (upd_tr s (c_tr c) t_joined) k (c_set_attached true)) _ k (c_set_main (has_main (cfg s))) I2).
    rewrite upd_conn_twice in I3. apply I3. simpl. intros c0 Hc0. rewrite upd_nth_nth, Nat.eqb_refl, Hk in Hc0. simpl in Hc0.
    inversion Hc0; subst c0. split; auto. split; auto. unfold conn_wf; simpl. split; [intro X; contradiction|auto].
  - (* EvSessLeave *)
    destruct (nth_error (conns s) k) as [c|] eqn:Hk.
    2:{ inversion H; subst. rewrite app_nil_r. auto. }
    destruct (c_sess c) eqn:SE; [|inversion H; subst; rewrite app_nil_r; auto].
    destruct (inv_conn_wf ts s tr k c I Hk) as [W1 W2].
    assert (PH : c_phase c <> Connecting) by (intro X; destruct (W1 X); congruence).
    destruct (c_cf c) eqn:CF.
    + inversion H; subst; clear H. apply inv_quiet; [|apply notify_quiet].
      apply inv_upd_conn; auto. intros c0 Hc0. rewrite Hk in Hc0. inversion Hc0; subst c0.
      split; auto. split; auto. unfold conn_wf; simpl. split; [intro X; contradiction|auto].
    + rewrite upd_conn_twice in H.
      assert (R : ready ts (upd_conn s k (fun c0 => c_call_cf (c_set_attached false c0))) tr).
      { eapply ready_complete; eauto. unfold conn_wf; simpl. split; [intro X; contradiction|auto]. }
      destruct (reason_normal r).
      * destruct (cf_ok _ (c_tr c) o) as [[s3 ob3] u3] eqn:C. inversion H; subst; clear H.
        rewrite app_assoc. apply inv_quiet; [|apply notify_quiet]. eapply (cf_ok_inv ts WF); eauto.
      * destruct (cf_fail _ (c_tr c) (EApp r) o) as [[s3 ob3] u3] eqn:C. inversion H; subst; clear H.
        rewrite app_assoc. apply inv_quiet; [|apply notify_quiet]. eapply (cf_fail_inv ts WF); eauto.
  - (* EvSessDisconnect *)
    destruct (nth_error (conns s) k) as [c|] eqn:Hk.
    2:{ inversion H; subst. rewrite app_nil_r. auto. }
    destruct (c_sess c) eqn:SE; [|inversion H; subst; rewrite app_nil_r; auto].
    destruct (inv_conn_wf ts s tr k c I Hk) as [W1 W2].
    assert (PH : c_phase c <> Connecting) by (intro X; destruct (W1 X); congruence).
    destruct (c_cf c || negb clean) eqn:CF.
    + inversion H; subst; clear H. apply inv_quiet; [|apply notify_quiet].
      apply inv_upd_conn; auto. intros c0 Hc0. rewrite Hk in Hc0. inversion Hc0; subst c0.
      split; auto. split; auto. unfold conn_wf; simpl. split; [intro X; contradiction|auto].
    + apply orb_false_elim in CF. destruct CF as [CF _]. rewrite upd_conn_twice in H.
      assert (R : ready ts (upd_conn s k (fun c0 => c_call_cf (c_set_attached false c0))) tr).
      { eapply ready_complete; eauto. unfold conn_wf; simpl. split; [intro X; contradiction|auto]. }
      destruct (cf_ok _ (c_tr c) o) as [[s3 ob3] u3] eqn:C. inversion H; subst; clear H.
      rewrite app_assoc. apply inv_quiet; [|apply notify_quiet]. eapply (cf_ok_inv ts WF); eauto.
  - (* EvLost *)
    destruct (nth_error (conns s) k) as [c|] eqn:Hk.
    2:{ inversion H; subst. rewrite app_nil_r. auto. }
    destruct (c_phase c) eqn:PH; try (inversion H; subst; rewrite app_nil_r; auto; fail).
    destruct (inv_conn_wf ts s tr k c I Hk) as [W1 W2].
    destruct (c_cf c) eqn:CF.
    + inversion H; subst; clear H. rewrite app_nil_r.
      apply inv_upd_conn; auto. intros c0 Hc0. rewrite Hk in Hc0. inversion Hc0; subst c0.
      split; auto. split; auto. unfold conn_wf; simpl. split; [discriminate|auto].
    + rewrite upd_conn_twice in H. eapply (cf_fail_inv ts WF); [|exact H].
      eapply ready_complete; eauto. unfold conn_wf; simpl. split; [discriminate|auto].
  - (* EvMainOk *)
    destruct (nth_error (conns s) k) as [c|] eqn:Hk.
    2:{ inversion H; subst. rewrite app_nil_r. auto. }
    destruct (c_main c) eqn:MA; inversion H; subst; clear H; [|rewrite app_nil_r; auto].
    apply inv_quiet; [|reflexivity].
    destruct (inv_conn_wf ts s tr k c I Hk) as [W1 W2].
    apply inv_upd_conn; auto. intros c0 Hc0. rewrite Hk in Hc0. inversion Hc0; subst c0.
    split; auto. split; auto. unfold conn_wf; simpl. split; [auto|discriminate].
  - (* EvMainErr *)
    destruct (nth_error (conns s) k) as [c|] eqn:Hk.
    2:{ inversion H; subst. rewrite app_nil_r. auto. }
    destruct (c_main c) eqn:MA; [|inversion H; subst; rewrite app_nil_r; auto].
    destruct (inv_conn_wf ts s tr k c I Hk) as [W1 W2].
    assert (SE := W2 MA).
    assert (PH : c_phase c <> Connecting) by (intro X; destruct (W1 X); congruence).
    destruct (c_cf c) eqn:CF.
    + inversion H; subst; clear H. apply inv_quiet; [|reflexivity].
      apply inv_upd_conn; auto. intros c0 Hc0. rewrite Hk in Hc0. inversion Hc0; subst c0.
      split; auto. split; auto. unfold conn_wf; simpl. split; [intro X; contradiction|discriminate].
    + rewrite upd_conn_twice in H.
      destruct (cf_fail _ (c_tr c) EMain o) as [[s3 ob3] u3] eqn:C. inversion H; subst; clear H.
      rewrite app_assoc. apply inv_quiet; [|reflexivity]. eapply (cf_fail_inv ts WF); [|exact C].
      eapply ready_complete; eauto. unfold conn_wf; simpl. split; [intro X; contradiction|discriminate].
Qed.

End StepInv.

(* ================================================================ runs *)

Lemma cf_fail_started : forall s i e o s' ob u, cf_fail s i e o = (s', ob, u) -> cfg s' = cfg s /\ started s' = started s.
Proof.
  intros s i e o s' ob u H. unfold cf_fail in H.
  destruct (is_fatal s e).
  - destruct (transport_check (upd_tr s (cand s) t_fail) o) as [[s2 ob2] used] eqn:T. inversion H; subst.
    destruct (transport_check_spec _ _ _ _ _ T) as ((A & _ & _ & _ & B) & _). simpl in *. auto.
  - destruct (transport_check s o) as [[s2 ob2] used] eqn:T. inversion H; subst.
    destruct (transport_check_spec _ _ _ _ _ T) as ((A & _ & _ & _ & B) & _). auto.
Qed.

Lemma cf_ok_started : forall s i o s' ob u, cf_ok s i o = (s', ob, u) -> cfg s' = cfg s /\ started s' = started s.
Proof.
  intros s i o s' ob u H. unfold cf_ok, resolve_done in H.
  destruct (done_pending s).
  - inversion H; subst. simpl. auto.
  - destruct (is_tx s); [inversion H; subst; auto|]. eapply cf_fail_started; eauto.
Qed.

Lemma step_started : forall s e o s' ob u, step s e o = (s', ob, u) ->
  cfg s' = cfg s /\
  match e with
  | EvStart => started s' = true \/ (done_pending s = true /\ s' = s)
  | _ => started s' = started s
  end.
Proof.
  intros s e o s' ob u H. destruct e; simpl in H.
  - destruct (done_pending s) eqn:DP.
    + inversion H; subst. split; auto.
    + destruct (transport_check_spec _ _ _ _ _ H) as ((A & _ & _ & _ & B) & _). simpl in *. split; auto.
  - destruct (delay_f s) as [[i d]|]; inversion H; subst; simpl; auto.
  - destruct (cur_sess s) as [k|];
      [destruct (match nth_error (conns s) k with Some c => c_attached c | None => false end)|];
      try (inversion H; subst; simpl; auto; fail);
      destruct (delay_f s); unfold resolve_done in H; simpl in H; destruct (done_pending s); inversion H; subst; simpl; auto.
  - destruct (nth_error (conns s) k) as [c|]; [|inversion H; subst; auto].
    destruct (c_phase c); try (inversion H; subst; auto; fail).
    apply cf_fail_started in H. simpl in H. auto.
  - destruct (nth_error (conns s) k) as [c|]; [|inversion H; subst; auto].
    destruct (c_phase c); inversion H; subst; auto.
  - destruct (nth_error (conns s) k) as [c|]; [|inversion H; subst; auto].
    destruct (c_phase c); try (inversion H; subst; auto; fail). destruct (c_sess c); inversion H; subst; auto.
  - destruct (nth_error (conns s) k) as [c|]; [|inversion H; subst; auto].
    destruct (c_sess c); [|inversion H; subst; auto]. destruct (has_main (cfg s)); inversion H; subst; auto.
  - destruct (nth_error (conns s) k) as [c|]; [|inversion H; subst; auto].
    destruct (c_sess c); [|inversion H; subst; auto]. destruct (c_cf c); [inversion H; subst; auto|].
    destruct (reason_normal r).
    + destruct (cf_ok _ (c_tr c) o) as [[s3 ob3] u3] eqn:C. inversion H; subst. apply cf_ok_started in C. simpl in C. auto.
    + destruct (cf_fail _ (c_tr c) (EApp r) o) as [[s3 ob3] u3] eqn:C. inversion H; subst. apply cf_fail_started in C. simpl in C. auto.
  - destruct (nth_error (conns s) k) as [c|]; [|inversion H; subst; auto].
    destruct (c_sess c); [|inversion H; subst; auto]. destruct (c_cf c || negb clean); [inversion H; subst; auto|].
    destruct (cf_ok _ (c_tr c) o) as [[s3 ob3] u3] eqn:C. inversion H; subst. apply cf_ok_started in C. simpl in C. auto.
  - destruct (nth_error (conns s) k) as [c|]; [|inversion H; subst; auto].
    destruct (c_phase c); try (inversion H; subst; auto; fail). destruct (c_cf c); [inversion H; subst; auto|].
    apply cf_fail_started in H. simpl in H. auto.
  - destruct (nth_error (conns s) k) as [c|]; [|inversion H; subst; auto].
    destruct (c_main c); inversion H; subst; auto.
  - destruct (nth_error (conns s) k) as [c|]; [|inversion H; subst; auto].
    destruct (c_main c); [|inversion H; subst; auto]. destruct (c_cf c); [inversion H; subst; auto|].
    destruct (cf_fail _ (c_tr c) EMain o) as [[s3 ob3] u3] eqn:C. inversion H; subst. apply cf_fail_started in C. simpl in C. auto.
Qed.

Definition is_start (e : event) : bool := match e with EvStart => true | _ => false end.

Lemma start_count_cons : forall e o r, start_count ((e, o) :: r) = ((if is_start e then 1 else 0) + start_count r)%nat.
Proof. intros. unfold start_count. simpl. destruct e; reflexivity. Qed.

Section Runs.
Variable ts : list tcfg.
Hypothesis WF : Forall tcfg_wf ts.

Lemma run_inv : forall evs s tr s' ob, Inv ts s tr -> run s evs = (s', ob) ->
  (if started s then start_count evs = 0%nat else (start_count evs <= 1)%nat) -> Inv ts s' (tr ++ ob).
Proof.
  induction evs as [|[e o] r IH]; intros s tr s' ob I H SC.
  - simpl in H. inversion H; subst. rewrite app_nil_r. auto.
  - simpl in H. destruct (step s e o) as [[s1 ob1] u1] eqn:ST. destruct (run s1 r) as [s2 ob2] eqn:R.
    inversion H; subst; clear H. rewrite app_assoc. rewrite start_count_cons in SC.
    assert (HS : e = EvStart -> started s = false).
    { intros E; subst e. simpl in SC. destruct (started s); auto. lia. }
    assert (I1 := step_inv ts WF _ _ _ _ _ _ _ I ST HS).
    eapply IH; eauto.
    destruct (step_started _ _ _ _ _ _ ST) as [_ SS].
    destruct e; simpl in SC; try (rewrite SS; exact SC).
    destruct SS as [SS|[DP E]].
    + rewrite SS. destruct (started s); lia.
    + subst s1. destruct I as (_ & _ & (_ & _ & DN) & _). rewrite (HS eq_refl) in *.
      destruct (DN eq_refl) as (_ & X & _). congruence.
Qed.

Theorem run_invariant : forall c evs s tr, (start_count evs <= 1)%nat -> run (init c ts) evs = (s, tr) -> Inv ts s tr.
Proof.
  intros c evs s tr SC R. change tr with ([] ++ tr). eapply run_inv; eauto. apply init_inv; auto.
Qed.

(* ---------------------------------------------------------------- the properties, from the invariant *)

Lemma inv_transport : forall s tr i c, Inv ts s tr -> nth_error ts i = Some c ->
  exists t, nth_error (trs s) i = Some t /\ tc t = c /\ t_ok tr i t.
Proof.
  intros s tr i c ((M & H) & _) Hi. rewrite <- M in Hi. rewrite nth_error_map in Hi.
  destruct (nth_error (trs s) i) as [t|] eqn:E; simpl in Hi; inversion Hi; subst. exists t. auto.
Qed.

Lemma inv_budget : forall s tr i c, Inv ts s tr -> nth_error ts i = Some c -> (max_retries c <> -1)%Z ->
  (Z.of_N (since_join tr i) <= max_retries c + 1)%Z.
Proof.
  intros s tr i c I Hi NE. destruct (inv_transport _ _ _ _ I Hi) as (t & Ht & E & (H1 & H2 & H3 & _)). subst c.
  specialize (H3 NE). lia.
Qed.

Lemma inv_fatal : forall s tr i c, Inv ts s tr -> nth_error ts i = Some c -> snd (after_mark tr i) = 0%N.
Proof. intros s tr i c I Hi. destruct (inv_transport _ _ _ _ I Hi) as (t & Ht & E & (_ & _ & _ & _ & H & _)). auto. Qed.

Lemma inv_first : forall s tr i c, Inv ts s tr -> nth_error ts i = Some c -> snd (first_ok tr i) = true.
Proof. intros s tr i c I Hi. destruct (inv_transport _ _ _ _ I Hi) as (t & Ht & E & (_ & _ & _ & _ & _ & H & _)). auto. Qed.

Lemma inv_done_once : forall s tr, Inv ts s tr -> (done_count tr <= 1)%nat.
Proof.
  intros s tr (_ & _ & (D1 & D2 & D3) & _). rewrite D1. destruct (started s) eqn:E.
  - specialize (D2 eq_refl). destruct (done_pending s); lia.
  - destruct (D3 eq_refl) as (A & _). rewrite A. simpl. lia.
Qed.

(* code-level eligibility is a function of the observable history *)
Lemma inv_eligibility : forall s tr i t, Inv ts s tr -> nth_error (trs s) i = Some t ->
  can_reconnect t = prop_has_left (tc t) tr i.
Proof.
  intros s tr i t ((M & H) & _) Ht. destruct (H i t Ht) as (H1 & _ & _ & H4 & _).
  unfold can_reconnect, prop_has_left, spec_can. rewrite H1, H4. reflexivity.
Qed.

End Runs.

Section Runs2.
Variable ts : list tcfg.
Hypothesis WF : Forall tcfg_wf ts.

Lemma inv_cap : forall s tr i d, Inv ts s tr -> In (OAttempt i d) tr ->
  exists c, nth_error ts i = Some c /\ (d <= max_delay c)%Q.
Proof. intros s tr i d (_ & _ & _ & (A & _)) H. auto. Qed.

Lemma inv_rr : forall s tr, Inv ts s tr ->
  (forall cur elig i d, In (OSchedule cur elig i d) tr ->
      cyc_first elig cur = Some i /\ exists c, nth_error ts i = Some c /\ (d <= max_delay c)%Q) /\
  chain_cursor (length ts) 0 tr.
Proof. intros s tr (_ & _ & _ & (_ & B & C & _)). auto. Qed.

End Runs2.

(* ---------------------------------------------------------------- listeners *)

Lemma bubbled_app : forall a b, bubbled a -> bubbled b -> bubbled (a ++ b).
Proof.
  intros a. remember (length a) as n. revert a Heqn. induction n as [n IH] using lt_wf_ind. intros a Hn b Ha Hb.
  destruct a as [|x a]; simpl; auto.
  destruct x; simpl in *; try (apply (IH (length a)); auto; subst; simpl; lia); try contradiction.
  destruct a as [|y a]; try contradiction. destruct y; try contradiction.
  destruct Ha as (E1 & E2 & Ha). simpl. split; auto. split; auto. apply (IH (length a)); auto. subst; simpl; lia.
Qed.

(* observations of the chain operations: nothing a session fires *)
Definition nofire (o : obs) : bool := match o with OFire _ _ | ONotify _ _ => false | _ => true end.

Lemma nofire_bubbled : forall ob, forallb nofire ob = true -> bubbled ob.
Proof. induction ob; simpl; intros; auto. apply andb_prop in H. destruct H. destruct a; simpl in *; try discriminate; auto. Qed.

Lemma tc_obs_nofire : forall ob, forallb tc_obs ob = true -> forallb nofire ob = true.
Proof. induction ob; simpl; intros; auto. apply andb_prop in H. destruct H. rewrite IHob; auto. destruct a; simpl in *; auto; discriminate. Qed.

Lemma cf_fail_nofire : forall s i e o s' ob u, cf_fail s i e o = (s', ob, u) -> forallb nofire ob = true.
Proof.
  intros s i e o s' ob u H. unfold cf_fail in H.
  destruct (is_fatal s e).
  - destruct (transport_check (upd_tr s (cand s) t_fail) o) as [[s2 ob2] used] eqn:T. inversion H; subst.
    destruct (transport_check_spec _ _ _ _ _ T) as (_ & _ & Q & _). simpl. apply tc_obs_nofire; auto.
  - destruct (transport_check s o) as [[s2 ob2] used] eqn:T. inversion H; subst.
    destruct (transport_check_spec _ _ _ _ _ T) as (_ & _ & Q & _). simpl. apply tc_obs_nofire; auto.
Qed.

Lemma cf_ok_nofire : forall s i o s' ob u, cf_ok s i o = (s', ob, u) -> forallb nofire ob = true.
Proof.
  intros s i o s' ob u H. unfold cf_ok, resolve_done in H.
  destruct (done_pending s).
  - inversion H; subst. reflexivity.
  - destruct (is_tx s); [inversion H; subst; reflexivity|]. eapply cf_fail_nofire; eauto.
Qed.

Lemma notify_bubbled : forall s k ev, listeners (cfg s) = true -> bubbled (notify s k ev).
Proof. intros. unfold notify. rewrite H. simpl. auto. Qed.

Lemma step_bubbled : forall s e o s' ob u, listeners (cfg s) = true -> step s e o = (s', ob, u) -> bubbled ob.
Proof.
  intros s e o s' ob u L H. destruct e; simpl in H.
  - destruct (done_pending s); [inversion H; subst; simpl; auto|].
    destruct (transport_check_spec _ _ _ _ _ H) as (_ & _ & Q & _). apply nofire_bubbled, tc_obs_nofire; auto.
  - destruct (delay_f s) as [[i d]|]; inversion H; subst; simpl; auto.
  - destruct (cur_sess s) as [k|];
      [destruct (match nth_error (conns s) k with Some c => c_attached c | None => false end)|];
      try (inversion H; subst; simpl; auto; fail);
      destruct (delay_f s); unfold resolve_done in H; simpl in H; destruct (done_pending s); inversion H; subst; simpl; auto.
  - destruct (nth_error (conns s) k) as [c|]; [|inversion H; subst; simpl; auto].
    destruct (c_phase c); try (inversion H; subst; simpl; auto; fail).
    apply nofire_bubbled. eapply cf_fail_nofire; eauto.
  - destruct (nth_error (conns s) k) as [c|]; [|inversion H; subst; simpl; auto].
    destruct (c_phase c); inversion H; subst; simpl; auto.
  - destruct (nth_error (conns s) k) as [c|]; [|inversion H; subst; simpl; auto].
    destruct (c_phase c); try (inversion H; subst; simpl; auto; fail). destruct (c_sess c); inversion H; subst; simpl; auto.
    apply (notify_bubbled s k SConnect L).
  - destruct (nth_error (conns s) k) as [c|]; [|inversion H; subst; simpl; auto].
    destruct (c_sess c); [|inversion H; subst; simpl; auto].
    destruct (has_main (cfg s)); inversion H; subst; unfold notify; rewrite L; simpl; repeat split; auto.
  - destruct (nth_error (conns s) k) as [c|]; [|inversion H; subst; simpl; auto].
    destruct (c_sess c); [|inversion H; subst; simpl; auto]. destruct (c_cf c); [inversion H; subst; apply notify_bubbled; auto|].
    destruct (reason_normal r).
    + destruct (cf_ok _ (c_tr c) o) as [[s3 ob3] u3] eqn:C. inversion H; subst.
      apply bubbled_app; [apply nofire_bubbled; eapply cf_ok_nofire; eauto|apply notify_bubbled; auto].
    + destruct (cf_fail _ (c_tr c) (EApp r) o) as [[s3 ob3] u3] eqn:C. inversion H; subst.
      apply bubbled_app; [apply nofire_bubbled; eapply cf_fail_nofire; eauto|apply notify_bubbled; auto].
  - destruct (nth_error (conns s) k) as [c|]; [|inversion H; subst; simpl; auto].
    destruct (c_sess c); [|inversion H; subst; simpl; auto]. destruct (c_cf c || negb clean); [inversion H; subst; apply notify_bubbled; auto|].
    destruct (cf_ok _ (c_tr c) o) as [[s3 ob3] u3] eqn:C. inversion H; subst.
    apply bubbled_app; [apply nofire_bubbled; eapply cf_ok_nofire; eauto|apply notify_bubbled; auto].
  - destruct (nth_error (conns s) k) as [c|]; [|inversion H; subst; simpl; auto].
    destruct (c_phase c); try (inversion H; subst; simpl; auto; fail). destruct (c_cf c); [inversion H; subst; simpl; auto|].
    apply nofire_bubbled. eapply cf_fail_nofire; eauto.
  - destruct (nth_error (conns s) k) as [c|]; [|inversion H; subst; simpl; auto].
    destruct (c_main c); inversion H; subst; simpl; auto.
  - destruct (nth_error (conns s) k) as [c|]; [|inversion H; subst; simpl; auto].
    destruct (c_main c); [|inversion H; subst; simpl; auto]. destruct (c_cf c); [inversion H; subst; simpl; auto|].
    destruct (cf_fail _ (c_tr c) EMain o) as [[s3 ob3] u3] eqn:C. inversion H; subst.
    apply bubbled_app; [apply nofire_bubbled; eapply cf_fail_nofire; eauto|simpl; auto].
Qed.

Lemma run_bubbled : forall evs s s' ob, listeners (cfg s) = true -> run s evs = (s', ob) -> bubbled ob.
Proof.
  induction evs as [|[e o] r IH]; intros s s' ob L H; simpl in H.
  - inversion H; subst. simpl. auto.
  - destruct (step s e o) as [[s1 ob1] u1] eqn:ST. destruct (run s1 r) as [s2 ob2] eqn:R. inversion H; subst.
    apply bubbled_app; [eapply step_bubbled; eauto|].
    destruct (step_started _ _ _ _ _ _ ST) as [E _]. apply (IH s1 s' ob2); [rewrite E; exact L|exact R].
Qed.

(* sessions fire events only after create_session() hooked them to the component *)
(* ---------------------------------------------------------------- progress *)

Lemma cf_fail_progress : forall s i e o s' ob u, cf_fail s i e o = (s', ob, u) -> any_can (after_failure s e) = true ->
  exists cur elig j d, In (OSchedule cur elig j d) ob /\
    ((delay_f s' = Some (j, d) /\ forall o', exists s'', step s' EvTimer o' = (s'', [OAttempt j d], false)) \/
     (fwk (cfg s) = Tx /\ qneg d = true /\ In (OEscaped EAssert) ob)).
Proof.
  intros s i e o s' ob u H AC. unfold cf_fail in H. unfold after_failure in AC.
  assert (G : forall sx s2 ob2 used, transport_check sx o = (s2, ob2, used) -> any_can sx = true -> is_tx sx = is_tx s ->
           exists cur elig j d, In (OSchedule cur elig j d) ob2 /\
           ((delay_f s2 = Some (j, d) /\ forall o', exists s'', step s2 EvTimer o' = (s'', [OAttempt j d], false)) \/
            (fwk (cfg s) = Tx /\ qneg d = true /\ In (OEscaped EAssert) ob2))).
  { intros sx s2 ob2 used T A TX.
    destruct (transport_check_shape _ _ _ _ _ T) as [(_ & j & d & t & t' & Ht & Hc & SC & CY & CAP & Z0 & SH)|[(A' & _)|(A' & _)]]; try congruence.
    exists (cursor sx), (map can_reconnect (trs sx)), j, d.
    destruct SH as [(NEG & E1 & E2)|(NEG & E1 & E2)]; subst.
    - split; [left; reflexivity|]. right. apply andb_prop in NEG. destruct NEG as [N1 N2]. rewrite TX in N1.
      split; [unfold is_tx in N1; destruct (fwk (cfg s)); auto; discriminate|]. split; auto. right; left; reflexivity.
    - split; [left; reflexivity|]. left. split; [reflexivity|]. intros o'. simpl. eexists. reflexivity. }
  destruct (is_fatal s e).
  - destruct (transport_check (upd_tr s (cand s) t_fail) o) as [[s2 ob2] used] eqn:T. inversion H; subst.
    destruct (G _ _ _ _ T AC eq_refl) as (cur & elig & j & d & IN & R). exists cur, elig, j, d. split.
    + right. right. exact IN.
    + destruct R as [R|(R1 & R2 & R3)]; [left; auto|right; repeat split; auto]. right; right; auto.
  - destruct (transport_check s o) as [[s2 ob2] used] eqn:T. inversion H; subst.
    destruct (G _ _ _ _ T AC eq_refl) as (cur & elig & j & d & IN & R). exists cur, elig, j, d. split.
    + right. exact IN.
    + destruct R as [R|(R1 & R2 & R3)]; [left; auto|right; repeat split; auto]. right; auto.
Qed.

(* ---------------------------------------------------------------- scripts are runs *)

Lemma run_app : forall a b s, run s (a ++ b) =
  let '(s1, o1) := run s a in let '(s2, o2) := run s1 b in (s2, o1 ++ o2).
Proof.
  induction a as [|[e o] a IH]; intros b s; simpl.
  - destruct (run s b); reflexivity.
  - destruct (step s e o) as [[s1 ob1] u]. rewrite IH. destruct (run s1 a) as [s2 o2]. destruct (run s2 b) as [s3 o3].
    rewrite app_assoc. reflexivity.
Qed.

Lemma run_cons : forall s e o r, run s ((e, o) :: r) =
  let '(s1, ob, _) := step s e o in let '(s2, ob2) := run s1 r in (s2, ob ++ ob2).
Proof. reflexivity. Qed.

Definition ev_starts (evs : list event) : nat := length (filter is_start evs).

Lemma start_count_app : forall a b, start_count (a ++ b) = (start_count a + start_count b)%nat.
Proof. intros. unfold start_count. rewrite filter_app, app_length. reflexivity. Qed.

Lemma run_q_is_run : forall evs s q s' ob q', run_q s evs q = (s', ob, q') ->
  exists evs', run s evs' = (s', ob) /\ start_count evs' = ev_starts evs.
Proof.
  induction evs as [|e r IH]; intros s q s' ob q' H; simpl in H.
  - inversion H; subst. exists []. split; reflexivity.
  - set (o := match q with [] => Zs 0 | o :: _ => o end) in *.
    unfold step_settled in H. destruct (step s e o) as [[s1 ob1] u1] eqn:ST.
    destruct (zero_delay_pending s1).
    + destruct (step s1 EvTimer o) as [[s2 ob2] u2] eqn:ST2.
      destruct (run_q s2 r (if u1 then tl q else q)) as [[s3 ob3] q3] eqn:R. inversion H; subst; clear H.
      destruct (IH _ _ _ _ _ R) as (evs' & R' & C). exists ((e, o) :: (EvTimer, o) :: evs'). split.
      * rewrite run_cons, ST, run_cons, ST2, R'. rewrite app_assoc. reflexivity.
      * rewrite !start_count_cons, C. unfold ev_starts. simpl. destruct (is_start e); simpl; lia.
    + destruct (run_q s1 r (if u1 then tl q else q)) as [[s3 ob3] q3] eqn:R. inversion H; subst; clear H.
      destruct (IH _ _ _ _ _ R) as (evs' & R' & C). exists ((e, o) :: evs'). split.
      * rewrite run_cons, ST, R'. reflexivity.
      * rewrite start_count_cons, C. unfold ev_starts. simpl. destruct (is_start e); simpl; lia.
Qed.

Lemma play_no_start : forall fw k oc st, ev_starts (play fw k oc st) = 0%nat.
Proof. intros. destruct fw, oc, st; reflexivity. Qed.

Lemma item_no_start : forall s it, ev_starts (item_events s it) = 0%nat.
Proof.
  intros s it. destruct it; simpl; auto. unfold ev_starts. rewrite filter_app, app_length.
  fold (ev_starts (play (fwk (cfg s)) (target s) oc st)). rewrite play_no_start.
  unfold wait_events. destruct (delay_f s); reflexivity.
Qed.

Lemma run_items_is_run : forall its s q s' ob q', run_items s its q = (s', ob, q') ->
  exists evs', run s evs' = (s', ob) /\ start_count evs' = 0%nat.
Proof.
  induction its as [|it r IH]; intros s q s' ob q' H; simpl in H.
  - inversion H; subst. exists []. split; reflexivity.
  - destruct (run_q s (item_events s it) q) as [[s1 ob1] q1] eqn:R1.
    destruct (run_items s1 r q1) as [[s2 ob2] q2] eqn:R2. inversion H; subst; clear H.
    destruct (run_q_is_run _ _ _ _ _ _ R1) as (e1 & A1 & C1). destruct (IH _ _ _ _ _ R2) as (e2 & A2 & C2).
    exists (e1 ++ e2). split.
    + rewrite run_app, A1, A2. reflexivity.
    + rewrite start_count_app, C1, C2, item_no_start. reflexivity.
Qed.

(* a script of outcomes (start(), then items with the sample queue q) is a run with exactly one start() *)
Lemma script_is_run : forall c ts its q s0 ob0 q0 s1 ob1 q1,
  run_q (init c ts) [EvStart] q = (s0, ob0, q0) -> run_items s0 its q0 = (s1, ob1, q1) ->
  exists evs, run (init c ts) evs = (s1, ob0 ++ ob1) /\ start_count evs = 1%nat.
Proof.
  intros c ts its q s0 ob0 q0 s1 ob1 q1 R0 R1.
  destruct (run_q_is_run _ _ _ _ _ _ R0) as (e0 & A0 & C0). destruct (run_items_is_run _ _ _ _ _ _ R1) as (e1 & A1 & C1).
  exists (e0 ++ e1). split.
  - rewrite run_app, A0, A1. reflexivity.
  - rewrite start_count_app, C0, C1. reflexivity.
Qed.

(* ---------------------------------------------------------------- what can escape, what stop() returns *)

(* the only exceptions that leave a callback are AttributeError (self._done_f = None after stop()) and the
   reactor's AssertionError for a negative delay; stop() never raises *)
Definition esc_ok (o : obs) : bool :=
  match o with
  | OEscaped EAttr | OEscaped EAssert => true
  | OEscaped _ => false
  | OStop (Some _) => false
  | _ => true
  end.

Lemma transport_check_esc : forall s o s' ob u, transport_check s o = (s', ob, u) -> forallb esc_ok ob = true.
Proof.
  intros s o s' ob u H.
  destruct (transport_check_shape _ _ _ _ _ H) as [(_ & i & d & t & t' & _ & _ & _ & _ & _ & _ & SH)|[(_ & _ & _ & E)|(_ & _ & _ & E)]].
  - destruct SH as [(_ & _ & E)|(_ & _ & E)]; subst; reflexivity.
  - subst; reflexivity.
  - subst; reflexivity.
Qed.

Lemma cf_fail_esc : forall s i e o s' ob u, cf_fail s i e o = (s', ob, u) -> forallb esc_ok ob = true.
Proof.
  intros s i e o s' ob u H. unfold cf_fail in H.
  destruct (is_fatal s e).
  - destruct (transport_check (upd_tr s (cand s) t_fail) o) as [[s2 ob2] used] eqn:T. inversion H; subst.
    simpl. eapply transport_check_esc; eauto.
  - destruct (transport_check s o) as [[s2 ob2] used] eqn:T. inversion H; subst.
    simpl. eapply transport_check_esc; eauto.
Qed.

Lemma cf_ok_esc : forall s i o s' ob u, cf_ok s i o = (s', ob, u) -> forallb esc_ok ob = true.
Proof.
  intros s i o s' ob u H. unfold cf_ok, resolve_done in H.
  destruct (done_pending s).
  - inversion H; subst. reflexivity.
  - destruct (is_tx s); [inversion H; subst; reflexivity|]. eapply cf_fail_esc; eauto.
Qed.

Lemma notify_esc : forall s k ev, forallb esc_ok (notify s k ev) = true.
Proof. intros. unfold notify. destruct (listeners (cfg s)); reflexivity. Qed.

Lemma step_esc : forall s e o s' ob u, step s e o = (s', ob, u) -> forallb esc_ok ob = true.
Proof.
  intros s e o s' ob u H. destruct e; simpl in H.
  - destruct (done_pending s); [inversion H; subst; reflexivity|]. eapply transport_check_esc; eauto.
  - destruct (delay_f s) as [[i d]|]; inversion H; subst; reflexivity.
  - destruct (cur_sess s) as [k|];
      [destruct (match nth_error (conns s) k with Some c => c_attached c | None => false end)|];
      try (inversion H; subst; reflexivity);
      destruct (delay_f s); unfold resolve_done in H; simpl in H; destruct (done_pending s); inversion H; subst; reflexivity.
  - destruct (nth_error (conns s) k) as [c|]; [|inversion H; subst; reflexivity].
    destruct (c_phase c); try (inversion H; subst; reflexivity). eapply cf_fail_esc; eauto.
  - destruct (nth_error (conns s) k) as [c|]; [|inversion H; subst; reflexivity].
    destruct (c_phase c); inversion H; subst; reflexivity.
  - destruct (nth_error (conns s) k) as [c|]; [|inversion H; subst; reflexivity].
    destruct (c_phase c); try (inversion H; subst; reflexivity). destruct (c_sess c); inversion H; subst; [reflexivity|].
    simpl. apply notify_esc.
  - destruct (nth_error (conns s) k) as [c|]; [|inversion H; subst; reflexivity].
    destruct (c_sess c); inversion H; subst; [|reflexivity].
    simpl. apply forallb_app_intro; apply notify_esc.
  - destruct (nth_error (conns s) k) as [c|]; [|inversion H; subst; reflexivity].
    destruct (c_sess c); [|inversion H; subst; reflexivity]. destruct (c_cf c); [inversion H; subst; apply notify_esc|].
    destruct (reason_normal r).
    + destruct (cf_ok _ (c_tr c) o) as [[s3 ob3] u3] eqn:C. inversion H; subst.
      apply forallb_app_intro; [eapply cf_ok_esc; eauto|apply notify_esc].
    + destruct (cf_fail _ (c_tr c) (EApp r) o) as [[s3 ob3] u3] eqn:C. inversion H; subst.
      apply forallb_app_intro; [eapply cf_fail_esc; eauto|apply notify_esc].
  - destruct (nth_error (conns s) k) as [c|]; [|inversion H; subst; reflexivity].
    destruct (c_sess c); [|inversion H; subst; reflexivity]. destruct (c_cf c || negb clean); [inversion H; subst; apply notify_esc|].
    destruct (cf_ok _ (c_tr c) o) as [[s3 ob3] u3] eqn:C. inversion H; subst.
    apply forallb_app_intro; [eapply cf_ok_esc; eauto|apply notify_esc].
  - destruct (nth_error (conns s) k) as [c|]; [|inversion H; subst; reflexivity].
    destruct (c_phase c); try (inversion H; subst; reflexivity). destruct (c_cf c); [inversion H; subst; reflexivity|].
    eapply cf_fail_esc; eauto.
  - destruct (nth_error (conns s) k) as [c|]; [|inversion H; subst; reflexivity].
    destruct (c_main c); inversion H; subst; reflexivity.
  - destruct (nth_error (conns s) k) as [c|]; [|inversion H; subst; reflexivity].
    destruct (c_main c); [|inversion H; subst; reflexivity]. destruct (c_cf c); [inversion H; subst; reflexivity|].
    destruct (cf_fail _ (c_tr c) EMain o) as [[s3 ob3] u3] eqn:C. inversion H; subst.
    apply forallb_app_intro; [eapply cf_fail_esc; eauto|reflexivity].
Qed.

Lemma run_esc : forall evs s s' ob, run s evs = (s', ob) -> forallb esc_ok ob = true.
Proof.
  induction evs as [|[e o] r IH]; intros s s' ob H; simpl in H.
  - inversion H; subst. reflexivity.
  - destruct (step s e o) as [[s1 ob1] u1] eqn:ST. destruct (run s1 r) as [s2 ob2] eqn:R. inversion H; subst.
    apply forallb_app_intro; [eapply step_esc; eauto|eapply IH; eauto].
Qed.

Lemma run_escapes : forall evs s s' ob e, run s evs = (s', ob) -> In (OEscaped e) ob -> e = EAttr \/ e = EAssert.
Proof.
  intros evs s s' ob e R I. assert (Q := run_esc _ _ _ _ R). rewrite forallb_forall in Q. specialize (Q _ I).
  destruct e; simpl in Q; try discriminate; auto.
Qed.

Lemma run_stops : forall evs s s' ob r, run s evs = (s', ob) -> In (OStop r) ob -> r = None.
Proof.
  intros evs s s' ob r R I. assert (Q := run_esc _ _ _ _ R). rewrite forallb_forall in Q. specialize (Q _ I).
  destruct r; simpl in Q; try discriminate; auto.
Qed.
